#!/bin/bash
# builds the harness against /repo's current working tree (path dependency); prints the binary path
cd /verif/bounded || exit 2
cp /repo/Cargo.lock Cargo.lock 2>/dev/null
export CARGO_NET_OFFLINE=true CARGO_TARGET_DIR=/verif/build/bounded-target
cargo build --offline --quiet 2> /verif/build/bounded-build.log || { tail -30 /verif/build/bounded-build.log >&2; exit 2; }
echo /verif/build/bounded-target/debug/bounded
