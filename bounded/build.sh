#!/bin/bash
# builds the harness against the working tree of /repo (path dependency); prints the binary path.
# VERIF_REPO=<dir> (development aid used by tools/try_patch.sh and tools/run_seeds.py) builds against a scratch copy instead.
REPO=${VERIF_REPO:-/repo}
mkdir -p /verif/build
if [ "$REPO" = /repo ]; then
  CR=/verif/bounded; TD=/verif/build/bounded-target
else
  CR=/verif/build/bounded-scratch${VERIF_SCRATCH_TAG:-}; TD=/verif/build/bounded-target-scratch${VERIF_SCRATCH_TAG:-}
  rm -rf $CR; mkdir -p $CR
  cp -r /verif/bounded/src /verif/bounded/.cargo $CR/
  sed "s#path = \"/repo\"#path = \"$REPO\"#" /verif/bounded/Cargo.toml > $CR/Cargo.toml
fi
cd $CR || exit 2
cp $REPO/Cargo.lock Cargo.lock 2>/dev/null
export CARGO_NET_OFFLINE=true CARGO_TARGET_DIR=$TD
cargo build --offline --quiet 2> /verif/build/bounded-build.log || { tail -30 /verif/build/bounded-build.log >&2; exit 2; }
# the command-line binary of the same working tree (for the checks that drive `anthem simplify` / `anthem verify`)
cargo build --offline --quiet --manifest-path $REPO/Cargo.toml --bin anthem 2>> /verif/build/bounded-build.log || { tail -30 /verif/build/bounded-build.log >&2; exit 2; }
echo $TD/debug/bounded
