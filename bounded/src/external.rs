//! Bounded stand-in for the external-equivalence pipeline (C02, C19, C09): `anthem verify --equivalence external
//! --no-proof-search --save-problems` on small tight programs without arithmetic (propositional and unary predicates),
//! user guides and specifications. The emitted problems are read independently of anthem's formatter and evaluated in
//! EVERY interpretation of the declared predicates over the inner values; external behaviour is computed by brute force
//! (stable models = equilibrium models of the program with the interpretation's input facts, by the reference semantics).
//!
//! For each direction (forward: left/specification side assumed, right/program side claimed):
//!   (a) an interpretation that refutes an emitted problem satisfies the assumptions, is (on the assumed side's
//!       vocabulary) a stable model / model of the assumed side, and its public part cannot be produced by the other side;
//!   (b) every such behavioural difference is refuted by some interpretation that extends it.
//! (a) and (b) together are the "hence" sentence of C02: all problems are theorems iff the claimed relation holds.
use crate::aspsem;
use crate::dom::{Atoms, Domain, GroundAtom, Ht, Val};
use crate::hteval::cl_sat;
use crate::trans::Failure;
use crate::verify::{family, refutes, run_verify, ReadProblem, VStats};
use anthem::syntax_tree::asp::mini_gringo as asp;
use anthem::syntax_tree::fol::sigma_0 as fol;
use std::collections::{BTreeMap, BTreeSet, HashMap};
use std::str::FromStr;

type Pred = (String, usize);

thread_local! { static WITH_SYMBOL: std::cell::Cell<bool> = const { std::cell::Cell::new(false) }; }
/// the values the ground atoms range over: {0, 1}, and the symbol a for tasks whose placeholders can be symbols
fn inner() -> Vec<Val> { if WITH_SYMBOL.with(|w| w.get()) { vec![Val::Int(0), Val::Int(1), Val::Sym("a".into())] } else { vec![Val::Int(0), Val::Int(1)] } }

fn atoms_of(preds: &BTreeSet<Pred>) -> Vec<GroundAtom> {
    let mut out = Vec::new();
    for (s, n) in preds {
        match n {
            0 => out.push((s.clone(), vec![])),
            1 => for v in inner() { out.push((s.clone(), vec![v])); },
            _ => for v in inner() { for w in inner() { out.push((s.clone(), vec![v.clone(), w])); } },
        }
    }
    out
}

fn subsets(atoms: &[GroundAtom]) -> Vec<Atoms> {
    (0..(1usize << atoms.len())).map(|code| atoms.iter().enumerate().filter(|(i, _)| code >> i & 1 == 1).map(|(_, a)| a.clone()).collect()).collect()
}

fn restrict(i: &Atoms, preds: &BTreeSet<Pred>) -> Atoms { i.iter().filter(|(p, a)| preds.contains(&(p.clone(), a.len()))).cloned().collect() }

fn preds_of(p: &asp::Program) -> BTreeSet<Pred> { crate::own::program_preds(p) }

/// I (over the program's vocabulary) is a stable model of the program together with I's input facts
fn stable(p: &asp::Program, i: &Atoms, inputs: &BTreeSet<Pred>, values: &[Val]) -> bool {
    let t = Ht { here: i.clone(), there: i.clone(), consts: HashMap::new() };
    if !p.rules.iter().all(|r| aspsem::rule_sat(r, &t, values).is_ok()) { return false; }
    let fixed: Vec<&GroundAtom> = i.iter().filter(|(q, a)| inputs.contains(&(q.clone(), a.len()))).collect();
    let free: Vec<GroundAtom> = i.iter().filter(|(q, a)| !inputs.contains(&(q.clone(), a.len()))).cloned().collect();
    for code in 0..(1usize << free.len()) {
        if code + 1 == 1usize << free.len() { continue; } // H = I
        let mut h: Atoms = fixed.iter().map(|a| (*a).clone()).collect();
        for (k, a) in free.iter().enumerate() { if code >> k & 1 == 1 { h.insert(a.clone()); } }
        let m = Ht { here: h, there: i.clone(), consts: HashMap::new() };
        if p.rules.iter().all(|r| aspsem::rule_sat(r, &m, values).is_ok()) { return false; }
    }
    true
}

pub struct Case { pub left: Option<&'static str>, pub program: &'static str, pub spec: Option<&'static str>, pub ug: &'static str, pub outline: Option<&'static str> }

const UG0: &str = "input: q/0. output: p/0.";
const UG0S: &str = "input: q/0. input: s/0. output: p/0. assumption: q or s.";
const UG1: &str = "input: q/1. output: p/1.";
const UG1A: &str = "input: q/1. output: p/1. assumption: forall X (q(X) -> X = 0 or X = 1).";

/// several output predicates that occur in no rule of a program (each gets an empty definition; their order is the user guide's)
const UG0M: &str = "input: q/0. output: p/0. output: s/0. output: u/0. output: v/0. output: w/0.";
const P0M: &[&str] = &["p :- q.", "p :- q. s :- p.", "p :- t. t :- q. u :- not q.", "", "{p} :- q. v :- p, not q.", "p :- q. s. w :- s, q."];
/// a placeholder of sort general (declared with and without the sort), no assumption about it
const UGG: &str = "input: q/1. input: g -> general. input: h. output: p/1.";
const PG: &[&str] = &["p(X) :- q(X), X != g.", "p(X) :- q(X), X < g.", "p(g) :- q(g).", "p(X) :- q(X), not t(X). t(g).", "p(X) :- q(X), X != g, X != h.", "p(X) :- q(X), g != h."];
/// symbolic constants that occur only inside comparison chains of user formulas
const UG1C: &str = "input: q/1. output: p/1. assumption: forall X (q(X) -> a <= X <= c).";
const P1C: &[&str] = &["p(X) :- q(X).", "p(X) :- q(X), X != b.", "p(X) :- q(X), X >= a.", "p(X) :- q(X), not t(X). t(X) :- q(X), X > c."];
const UGN: &str = "input: q/1. input: n -> integer. output: p/1.";
const UGC: &str = "input: q/1. input: c -> symbol. input: d -> general. output: p/1. assumption: c != d.";
const PN: &[&str] = &[":- n < 1. p(X) :- q(X).", "p(X) :- q(X), n > 0.", ":- n != 1. p(X) :- q(X), X != n.", "p(X) :- q(X). :- 1 > n, n > -1.", "p(X) :- q(X), X != n.", "p(X) :- q(X), not t(X). t(n).", "p(X) :- q(X), X < n.", "p(X) :- q(X), X <= n, X != n.", "p(n) :- q(n).", "p(X) :- q(X), X > n - 1."];
const PC: &[&str] = &["p(X) :- q(X), X != c.", "p(X) :- q(X), X != c, X != d.", "p(X) :- q(X), not t(X). t(c).", "p(X) :- q(X). :- q(c), q(d), c = d.", "p(X) :- q(X), X < c."];
const SN: &[&str] = &["spec: forall X (p(X) <-> q(X) and X != n).", "spec: forall X (p(X) -> q(X) and X < n). spec(backward): forall X (p(X) -> X != n).", "assumption: n > 0. spec: forall X (p(X) <-> q(X) and X < n)."];
const SNAMED: &[&str] = &["spec[formula_1]: p -> q. spec[formula_1]: q -> p.", "assumption[a]: q or not q. spec[formula_0_a]: p <-> q.", "spec[x]: p -> q. spec[x]: q -> p.", "spec[formula_2_completed_definition_of_p_0]: p <-> q.",
    "spec(forward)[formula_0_x]: q -> p. spec(backward)[formula_0_x]: p -> q. spec[p]: p or not p.",
    // names that coincide once a counter is put behind or in front of them
    "spec[x]: p -> q. spec[x]: q -> p. spec[x_1]: p or not p.", "spec[x_1]: p -> q. spec[x]: q -> p. spec[x]: p or not p.", "spec[x]: p -> q. spec[x_0]: q -> p. spec[x]: p or not p. spec[x_2]: q or not q. spec[x]: p <-> q.",
    "spec[formula_x]: p -> q. spec[x]: q -> p. spec[formula_formula_x]: p or not p.", "spec[x]: p -> q. spec[x1]: q -> p. spec[x]: p or not p. spec[x_1_1]: q or not q. spec[x_1]: q <-> p.",
    "assumption[x]: q or not q. spec[x]: p <-> q. assumption[x_1]: not not q or not q.", "spec[x_2]: p -> q. spec[x_1]: q -> p. spec[x_0]: p or not p. spec[x]: q or not q. spec[x]: p <-> q. spec[x]: q <-> p."];
const SD: &[&str] = &["assumption(forward): q. spec: p <-> q.", "assumption(forward): q. spec: p.", "assumption: q. spec(backward): p. spec(forward): p or not p.", "assumption(forward): not q. spec: p <-> q. spec(backward): p -> q."];

const UG2: &str = "input: e/2. output: r/1.";
const P2: &[&str] = &["r(X) :- e(X, Y).", "r(Y) :- e(X, Y).", "r(X) :- e(X, Y), X != Y.", "r(X) :- e(X, X).", "r(X) :- t(X). t(X) :- e(X, Y), not e(Y, X).", "r(X) :- e(X, Y), not t(Y). t(X) :- e(X, X).", "{r(X)} :- e(X, Y). :- r(X), not e(X, X).", "r(X) :- e(X, Y), e(Y, X)."];
const S2: &[&str] = &["spec: forall X (r(X) <-> exists Y (e(X, Y))).", "spec: forall X (r(X) -> exists Y (e(X, Y) and X != Y)). spec(backward): forall X Y (e(X, Y) and X != Y -> r(X)).", "spec: forall X (r(X) <-> e(X, X))."];

const UGU: &str = "input: _q/1. input: _n -> integer. output: _p/1. assumption: _n >= 0.";
const PU: &[&str] = &["_p(X) :- _q(X), X != _n.", "_p(X) :- _q(X), not _t(X). _t(_n).", "_p(X) :- _q(X), X != _c.", "_p(X) :- _q(X), not _t(X). _t(X) :- _q(X), X = _n.", "_p(X) :- _q(X), X < _n + 1, X != _n."];

const UGAB: &str = "input: q/1. input: a -> integer. input: b -> integer. output: p/1.";
const PAB: &[&str] = &["p(X) :- q(X), X > b - a.", "p(X) :- q(X), X + a > b.", "p(X) :- q(X), not t(X). t(b * a).", "p(X) :- q(X), X > b - a, X != b * a."];

const P0: &[&str] = &[
    ":- q.", "", "p :- q. :- q, not p.",
    "p :- q.", "p :- not not q.", "p :- q, not t. t :- not q.", "p :- t. t :- q.", "p :- not t. t :- not q.", "{p} :- q.", "p :- q. :- not q.", "p.", "p :- t.", "p :- not t.", "t. p :- t, q.",
    "p :- q. :- p, not q.", "p :- q, t. t.", "p :- q. t :- p.", "p :- q, not t.", "p :- t. t :- u. u :- q.", "{p}. :- p, not q. :- q, not p.", "p :- q, not not p.", "p :- not not p, q.",
    "p :- t. t :- u, q.", "p :- t, not u. t :- q.",
    // constraints on private atoms
    "p :- q. t :- q. :- t.", "p :- q. t :- not p. :- t, q.", "{p}. t :- q, not p. :- t.", "p. t :- not q. :- t.", "p :- q. :- not t. t :- q.", "p :- q. t :- q. :- not not t.",
];
const P0S: &[&str] = &["p :- q. p :- s.", "p :- t. t :- q. t :- s.", "p.", "p :- q.", "p :- not t. t :- not q, not s.", "p :- q, s. p :- q, not s. p :- s, not q."];
const P1: &[&str] = &[
    "p(X) :- q(X).", "p(X) :- q(X), not t(X). t(X) :- q(X), X = 0.", "p(X) :- t(X). t(X) :- q(X).", "{p(X)} :- q(X).", "p(X) :- q(X), X != 1.", "p(0) :- q(0). p(1) :- q(1).", "p(X) :- q(X), not t(X).",
    "p(X) :- q(X), t(X). t(0). t(1).", "p(X) :- q(X), not not q(X).", "p(X) :- q(X). :- q(X), not p(X).", "p(X) :- t(X). t(X) :- u(X). u(X) :- q(X).", "p(X) :- q(X), w. w :- q(0).",
    "p(X) :- t(X).", "p(X) :- q(X), not u(X).", "p(X) :- q(X), X = 0. p(X) :- q(X), X = 1.", ":- q(X), X > 0. p(X) :- q(X).", "p(X) :- q(X). :- p(1).", "p(X) :- q(X), X != a.", "p(X) :- q(X), X != a. p(X) :- q(X), X = a.", "p(X) :- t(X). t(X) :- q(X), not u(X).",
    "p(X) :- q(X). w :- q(1). :- w.", "p(X) :- q(X). t(X) :- q(X), X > 0. :- t(X).", "{p(X)} :- q(X). w :- q(X), not p(X). :- w.",
];
const S0: &[&str] = &[
    "spec: p <-> q.", "spec(forward): q -> p. spec(backward): p -> q.", "spec(forward): p -> q. spec(backward): q -> p.", "spec: p or not p.", "assumption: q. spec: p.", "spec(forward): p <-> q.",
    "spec(backward): p <-> q.", "spec: (p <-> q) and (q <-> p).", "spec: p -> q. spec: q -> p.", "spec(backward): p -> q. spec(backward): q -> p. spec(forward): p.", "spec: not not p <-> q.",
];
const S1: &[&str] = &[
    "spec: forall X (p(X) <-> q(X)).", "spec: exists X (p(X) <-> q(X)).", "spec(forward): forall X (q(X) -> p(X)). spec(backward): forall X (p(X) -> q(X)).", "spec: forall X (p(X) -> q(X)).",
    "spec: forall X (q(X) and X != 1 <-> p(X)).", "spec: exists X (q(X) and (p(X) <-> X = 0)).", "spec(backward): exists X (p(X) <-> q(X)).", "spec(forward): exists X (p(X) <-> not q(X)).",
    "spec: forall X$i (p(X$i) -> q(X$i)).", "spec: forall X$s (p(X$s) <-> q(X$s)) or exists N$i (q(N$i) and N$i > 0).", "spec: forall X (p(X) -> exists N$i (X = N$i and q(N$i))).", "spec: exists X$s N$i (q(X$s) and q(N$i) and N$i < X$s) or forall X (p(X) <-> q(X)).",
    "spec: forall X (p(X) <-> q(X)) or exists X (q(X) <-> not p(X)).", "spec: exists X (p(X) <-> not q(X)).", "spec(backward): exists X (p(X) <-> not q(X)). spec(forward): forall X (p(X) -> q(X)).",
    "spec: exists X (q(X) <-> X = X).", "spec: forall X (p(X) <-> q(X)). spec: exists X (p(X) <-> X = X).",
    "spec: forall X (p(X) -> q(X) and aa <= X <= cc).", "spec: forall X (p(X) <-> q(X)). spec(backward): forall X (p(X) -> bb != X != dd).", "spec: forall X (p(X) and 0 < X < zz -> q(X)).",
];

/// pairs that must be present in every preset: a private predicate of the same name on both sides, defined on one side only
const SPECIAL_PAIRS: &[(&str, &str, &str)] = &[
    ("p :- t. t :- q.", "p :- t.", UG0), ("p :- t.", "p :- t. t :- q.", UG0), ("p :- not t. t :- not q.", "p :- not t.", UG0), ("p :- t. t :- u, q.", "p :- t. t :- q.", UG0),
    ("p(X) :- t(X). t(X) :- q(X).", "p(X) :- t(X).", UG1), ("p(X) :- t(X).", "p(X) :- t(X). t(X) :- q(X).", UG1), ("p(X) :- q(X), not t(X). t(X) :- q(X), X = 0.", "p(X) :- q(X), not t(X).", UG1),
];

const FLAGS: &[&[&str]] = &[
    &[], &["--decomposition", "independent"], &["--no-simplify"], &["--no-eq-break"], &["--no-simplify", "--no-eq-break", "--decomposition", "independent"],
    &["--direction", "forward"], &["--direction", "backward"], &["--decomposition", "independent", "--no-eq-break"],
];

pub fn cases(deep: bool) -> Vec<(Case, Vec<&'static [&'static str]>)> {
    let mut out = Vec::new();
    let mut k = 0usize;
    let flags_for = |k: usize| -> Vec<&'static [&'static str]> { if deep { FLAGS.to_vec() } else { vec![FLAGS[0], FLAGS[1 + k % (FLAGS.len() - 1)], FLAGS[1 + (k / 2 + 3) % (FLAGS.len() - 1)]] } };
    for (group, ug) in [(P0, UG0), (P0S, UG0S), (P0M, UG0M), (P1, UG1), (P1, UG1A), (P1C, UG1C), (PN, UGN), (PG, UGG), (PC, UGC), (P2, UG2), (PU, UGU), (PAB, UGAB)] {
        let n = group.len();
        for i in 0..n {
            let js: Vec<usize> = if deep { (0..n).collect() } else { vec![(i + 1) % n, (i + 4) % n, (i + 9) % n] };
            for j in js { k += 1; out.push((Case { left: Some(group[i]), program: group[j], spec: None, ug, outline: None }, flags_for(k))); }
        }
    }
    for (l, r, ug) in SPECIAL_PAIRS { k += 1; out.push((Case { left: Some(l), program: r, spec: None, ug, outline: None }, if deep { FLAGS.to_vec() } else { vec![FLAGS[0], FLAGS[1], FLAGS[2 + k % 3]] })); }
    for (specs, progs, ug) in [(S0, P0, UG0), (S1, P1, UG1), (SN, PN, UGN), (SD, P0, UG0), (S2, P2, UG2), (SNAMED, P0, UG0)] {
        for (si, s) in specs.iter().enumerate() {
            let n = progs.len();
            let js: Vec<usize> = if deep { (0..n).collect() } else { vec![si % n, (si * 3 + 1) % n, (si * 5 + 2) % n] };
            for j in js { k += 1; out.push((Case { left: None, program: progs[j], spec: Some(s), ug, outline: None }, flags_for(k))); }
        }
    }
    // proof outlines (C13): lemmas that are true, lemmas that are false, definitions, an inductive lemma
    const O0: &[&str] = &[
        "lemma: p -> q.", "lemma(forward): q -> p. lemma(backward): p -> q.", "lemma: p or not p. lemma: q -> q.", "lemma: #false.", "lemma: p. lemma: q -> p.", "lemma(backward): #false.",
        "lemma: q -> p. lemma: p -> q. lemma: p <-> q.", "lemma[formula_1]: p -> q. lemma[formula_1]: p or not p.", "lemma[formula_0_constraint_0]: p -> q.", "lemma(forward): q -> p. lemma: p -> p.", "lemma(forward): p. lemma(backward): not p.",
    ];
    const O1: &[&str] = &[
        "definition: forall X (d(X) <-> p(X) and not q(X)). lemma: forall X (d(X) -> p(X)).", "lemma: forall X (p(X) -> q(X)).", "lemma: forall X (q(X) -> p(X)). lemma: exists X (p(X)).",
        "inductive-lemma: forall N$i (N$i >= 0 -> (q(N$i) -> p(N$i))).", "inductive-lemma: forall N$i (N$i >= 0 -> p(N$i)).", "inductive-lemma: forall N$i (N$i >= 1 -> (q(N$i) -> p(N$i))). lemma: forall X (q(X) and X = 1 -> p(X)).",
        "inductive-lemma: forall N$i (N$i >= 0 -> not q(N$i)).",
        // the induction variable is bound again inside the formula
        "inductive-lemma: forall N$i (N$i >= 0 -> ((p(N$i) -> q(N$i)) and forall N$i (q(N$i) -> p(N$i)))).", "inductive-lemma: forall N$i (N$i >= 0 -> ((q(N$i) -> p(N$i)) or exists N$i (q(N$i) and not p(N$i)))). lemma: forall X (q(X) -> p(X)).",
        "inductive-lemma: forall N$i (N$i >= 1 -> forall N$i (p(N$i) -> q(N$i)) and (q(N$i) -> p(N$i) or N$i > 0)). lemma: forall X (p(X) <-> q(X)).",
        // a lemma after an inductive lemma that holds: the later lemma must still be proved on its own
        "inductive-lemma: forall N$i (N$i >= 0 -> (p(N$i) -> q(N$i))). lemma: forall X (q(X) -> p(X)).", "inductive-lemma: forall N$i (N$i >= 0 -> (p(N$i) -> q(N$i))). lemma: #false.",
        "lemma: forall X (p(X) -> q(X)). inductive-lemma: forall N$i (N$i >= 0 -> (p(N$i) -> q(N$i))). inductive-lemma: forall N$i (N$i >= 0 -> (p(N$i) -> p(N$i))). lemma(forward): forall X (q(X) -> p(X)). lemma(backward): exists X (p(X) and not q(X)).", "inductive-lemma(forward): forall N$i (N$i >= 0 -> (p(N$i) -> q(N$i))). lemma(backward): forall X (p(X) -> q(X)).", "definition: forall X (d(X) <-> q(X) and not p(X)). definition: forall X (e(X) <-> d(X) or p(X)). lemma: forall X (e(X) -> q(X)).",
        // antecedents that are not of the form N >= n: anthem may refuse them (REFUSABLE); if it accepts one, what it emits must be sound
        "inductive-lemma: forall N$i (N$i >= 0 < N$i -> (q(N$i) -> p(N$i))).", "inductive-lemma: forall N$i (N$i >= 0 >= 0 -> (q(N$i) -> p(N$i))).", "inductive-lemma: forall N$i (N$i >= 1 != N$i -> (p(N$i) -> q(N$i))). lemma: forall X (p(X) -> q(X)).",
        "inductive-lemma: forall N$i (0 <= N$i -> (q(N$i) -> p(N$i))).", "inductive-lemma: forall N$i (N$i > 0 -> (q(N$i) -> p(N$i))).", "inductive-lemma: forall N$i (N$i >= 0 and q(N$i) -> p(N$i)).", "inductive-lemma: forall N$i (N$i >= 0 = 0 -> (q(N$i) -> p(N$i))).",
        // (the extent of a defined predicate must be finite for the enumeration: the bodies are guarded by an atom) "lemma: forall X (p(X) <-> q(X)). lemma: #false.",
    ];
    // an induction variable next to a parameter of the same name and another sort, parameters before and after it, free parameters
    const O2: &[&str] = &[
        "inductive-lemma: forall N N$i (N$i >= 0 -> (e(N$i, N) -> r(N$i))).", "inductive-lemma: forall N$i N (N$i >= 0 -> (e(N$i, N) -> r(N$i))).", "inductive-lemma: forall N$i (N$i >= 0 -> (e(N$i, N) -> r(N$i))).",
        "inductive-lemma: forall X N$i (N$i >= 1 -> (e(X, N$i) -> r(X))).", "inductive-lemma: forall N N$i (N$i >= 0 -> (e(N, N$i) -> r(N))). lemma: forall X Y (e(X, Y) -> r(X)).", "inductive-lemma: forall N$i N$s (N$i >= 0 -> (e(N$i, N$s) -> r(N$i))).",
        "inductive-lemma: forall N$i (N$i >= 0 < N$i -> (e(N$i, N$i) -> r(N$i))).", "inductive-lemma: forall N N$i (N$i >= 0 -> (e(N$i, N$i) -> r(N))).",
    ];
    for (outlines, progs, ug) in [(O0, P0, UG0), (O1, P1, UG1), (O2, P2, UG2)] {
        for (oi, o) in outlines.iter().enumerate() {
            let n = progs.len();
            let ijs: Vec<(usize, usize)> = if deep { (0..n.min(8)).flat_map(|i| (0..n.min(8)).map(move |j| (i, j))).collect() } else { vec![(oi % n, (oi + 1) % n), ((oi * 2 + 3) % n, (oi * 2 + 3) % n), ((oi + 5) % n, oi % n)] };
            for (i, j) in ijs { k += 1; out.push((Case { left: Some(progs[i]), program: progs[j], spec: None, ug, outline: Some(o) }, flags_for(k))); }
            // pairs that are known to differ in both directions, and one that does not: a lemma that is false in a difference must not help
            let fixed: &[(&str, &str)] = if ug == UG2 { &[("r(X) :- e(X, Y).", "r(X) :- e(X, X)."), ("r(X) :- e(X, X).", "r(X) :- e(X, Y)."), ("r(X) :- e(X, Y), X != Y.", "r(Y) :- e(X, Y).")] } else if ug == UG0 { &[("p :- q.", "p."), ("p.", "p :- q."), ("p :- q.", "p :- not not q."), ("{p} :- q.", "p :- q.")] } else { &[("p(X) :- q(X), X != 1.", "p(X) :- q(X)."), ("p(X) :- q(X).", "p(X) :- q(X), X != 1."), ("p(0) :- q(0). p(1) :- q(1).", "p(X) :- q(X), X != 1."), ("{p(X)} :- q(X).", "p(X) :- q(X).")] };
            for (l, r) in fixed { k += 1; out.push((Case { left: Some(l), program: r, spec: None, ug, outline: Some(o) }, flags_for(k))); }
        }
    }
    out
}

fn declared_preds(p: &ReadProblem) -> BTreeSet<Pred> { p.preds.iter().cloned().collect() }

/// one side of the claim: a program (stable models) or a specification (classical models of the usable formulas)
enum Side<'a> { Program(&'a asp::Program), Spec(&'a fol::Specification) }

/// outlines that anthem may refuse (an inductive lemma whose antecedent is not literally `N >= n`); when one is accepted, the usual checks apply
const REFUSABLE: &[&str] = &[
    "inductive-lemma: forall N$i (N$i >= 0 < N$i -> (q(N$i) -> p(N$i))).", "inductive-lemma: forall N$i (N$i >= 0 >= 0 -> (q(N$i) -> p(N$i))).", "inductive-lemma: forall N$i (N$i >= 1 != N$i -> (p(N$i) -> q(N$i))). lemma: forall X (p(X) -> q(X)).",
    "inductive-lemma: forall N$i (0 <= N$i -> (q(N$i) -> p(N$i))).", "inductive-lemma: forall N$i (N$i > 0 -> (q(N$i) -> p(N$i))).", "inductive-lemma: forall N$i (N$i >= 0 and q(N$i) -> p(N$i)).", "inductive-lemma: forall N$i (N$i >= 0 = 0 -> (q(N$i) -> p(N$i))).",
    "inductive-lemma: forall N$i (N$i >= 0 < N$i -> (e(N$i, N$i) -> r(N$i))).",
];

pub fn check_case(c: &Case, flag_sets: &[&[&str]], st: &mut VStats, fails: &mut Vec<Failure>) {
    let input_desc = format!("{}{} | program `{}` | user guide `{}`{}", c.left.map(|l| format!("left `{l}`")).unwrap_or_default(), c.spec.map(|s| format!("spec `{s}`")).unwrap_or_default(), c.program, c.ug, c.outline.map(|o| format!(" | outline `{o}`")).unwrap_or_default());
    let bad = |m: &str, fails: &mut Vec<Failure>| fails.push(Failure { property: "harness", input: input_desc.clone(), detail: m.to_string() });
    let prog = match asp::Program::from_str(c.program) { Ok(p) => p, Err(_) => return bad("program does not parse", fails) };
    let left = match c.left { Some(l) => match asp::Program::from_str(l) { Ok(p) => Some(p), Err(_) => return bad("left program does not parse", fails) }, None => None };
    let spec = match c.spec { Some(s) => match fol::Specification::from_str(s) { Ok(p) => Some(p), Err(e) => return bad(&format!("spec does not parse: {e}"), fails) }, None => None };
    let ug = match fol::UserGuide::from_str(c.ug) { Ok(u) => u, Err(e) => return bad(&format!("user guide does not parse: {e}"), fails) };
    let inputs: BTreeSet<Pred> = ug.input_predicates().into_iter().map(|p| (p.symbol, p.arity)).collect();
    let outputs: BTreeSet<Pred> = ug.output_predicates().into_iter().map(|p| (p.symbol, p.arity)).collect();
    let public: BTreeSet<Pred> = inputs.union(&outputs).cloned().collect();
    WITH_SYMBOL.with(|w| w.set(ug.placeholders().iter().any(|c| c.sort != fol::Sort::Integer)));
    let dom = Domain::new(-2, 3, &["a"]);
    let values = vec![Val::Int(0), Val::Int(1), Val::Int(2), Val::Sym("a".into())];
    st.pairs += 1;
    let mut files: Vec<(&str, &str)> = Vec::new();
    if let Some(l) = c.left { files.push(("a.lp", l)); }
    files.push(("b.lp", c.program));
    if let Some(s) = c.spec { files.push(("s.spec", s)); }
    files.push(("g.ug", c.ug));
    if let Some(o) = c.outline { files.push(("o.po", o)); }
    let outline = match c.outline { Some(o) => match fol::Specification::from_str(o) { Ok(s) => Some(s), Err(e) => return bad(&format!("outline does not parse: {e}"), fails) }, None => None };

    // the two sides: assumed (left program or specification) and claimed (the program), each with its private predicates
    let priv_of = |p: &asp::Program| -> BTreeSet<Pred> { preds_of(p).difference(&public).cloned().collect() };
    let priv_prog = priv_of(&prog);
    let priv_left = left.as_ref().map(priv_of).unwrap_or_default();
    let clash: Vec<Pred> = priv_left.intersection(&priv_prog).cloned().collect();
    if clash.len() > 3 { return bad("too many private predicates occur on both sides", fails); }

    let mut per_flags: BTreeMap<String, (Vec<bool>, Vec<bool>, Vec<Atoms>)> = BTreeMap::new();
    for flags in flag_sets {
        st.runs += 1;
        let mut all: Vec<&str> = vec!["--equivalence", "external"];
        all.extend(flags.iter());
        let what = format!("anthem verify {} : {input_desc}", all.join(" "));
        let (rc, err, problems) = match run_verify(&all, &files) { Ok(x) => x, Err(e) => { fails.push(Failure { property: "harness", input: what, detail: e }); return; } };
        if rc != 0 {
            if rc == crate::simp::TIMED_OUT { fails.push(Failure { property: "C18", input: what.clone(), detail: "anthem verify does not end (no result after 30 s; the process was killed)".into() }); }
            let panicked = rc == 101 || err.contains("panicked at");
            if !panicked && problems.is_empty() && c.outline.is_some_and(|o| REFUSABLE.contains(&o)) { continue; }
            fails.push(Failure { property: if panicked { "C16" } else { "C02" }, input: what.clone(), detail: format!("the task is within the accepted class but anthem exits with {rc} and {} problems: {}", problems.len(), err.lines().take(3).collect::<Vec<_>>().join(" / ")) });
            if panicked { fails.push(Failure { property: "C02", input: what, detail: format!("anthem panicked: {}", err.lines().take(2).collect::<Vec<_>>().join(" / ")) }); }
            continue;
        }
        st.problems += problems.len();
        if flags.is_empty() {
            // C18: a second process writes byte-identical problems
            if let Ok((_, _, again)) = run_verify(&all, &files) {
                let (x, y): (Vec<(&String, &String)>, Vec<(&String, &String)>) = (problems.iter().map(|p| (&p.file, &p.text)).collect(), again.iter().map(|p| (&p.file, &p.text)).collect());
                if x != y { fails.push(Failure { property: "C18", input: what.clone(), detail: "two runs on the same input wrote different problem files".into() }); }
            }
        }
        for p in &problems { for e in &p.wf_errors { fails.push(Failure { property: "C09", input: what.clone(), detail: format!("{}: {e}", p.file) }); } }
        for p in &problems { if let Some(m) = crate::verify::symbol_chain_complaint(p) { fails.push(Failure { property: "C12", input: what.clone(), detail: format!("{}: {m}", p.file) }); } }
        // C12: an axiom without any predicate of the task is one that anthem has added on its own (preamble, order of the symbols, whatever
        // it says about placeholders) - unless the task itself has formulas without predicates; it must be true in the standard
        // interpretation whatever the placeholders denote (general placeholders may denote #inf and #sup)
        let user_predicate_free = ug.formulas().iter().any(|f| crate::own::formula_preds(&f.formula).is_empty())
            || spec.as_ref().is_some_and(|s| s.formulas.iter().any(|f| crate::own::formula_preds(&f.formula).is_empty()))
            || outline.as_ref().is_some_and(|s| s.formulas.iter().any(|f| crate::own::formula_preds(&f.formula).is_empty()))
            || left.iter().chain(std::iter::once(&prog)).any(|p| p.rules.iter().any(|r| matches!(r.head, asp::Head::Falsity) && !r.body.formulas.iter().any(|f| matches!(f, asp::AtomicFormula::Literal(_)))));
        if !user_predicate_free {
            let phs: Vec<(String, fol::Sort)> = ug.placeholders().into_iter().map(|c| (c.name, c.sort)).collect();
            let mut combos: Vec<HashMap<String, Val>> = vec![HashMap::new()];
            for (n, sort) in &phs {
                let (suffix, vals): (&str, Vec<Val>) = match sort { fol::Sort::Integer => ("i", vec![Val::Int(0), Val::Int(-1), Val::Int(2)]), fol::Sort::Symbol => ("s", vec![Val::Sym("a".into()), Val::Sym("zz".into())]), fol::Sort::General => ("g", vec![Val::Inf, Val::Int(0), Val::Sym("a".into()), Val::Sup]) };
                combos = combos.into_iter().flat_map(|pre| vals.iter().map(move |v| { let mut m = pre.clone(); m.insert(format!("{n}_{suffix}"), v.clone()); m }).collect::<Vec<_>>()).collect();
            }
            let mut seen: BTreeSet<String> = BTreeSet::new();
            'own: for p in &problems {
                for (name, role, f) in &p.formulas {
                    if role != "axiom" || !crate::own::formula_preds(f).is_empty() || !seen.insert(f.to_string()) { continue; }
                    for cm in &combos {
                        let m = Ht { here: Atoms::new(), there: Atoms::new(), consts: cm.clone() };
                        if !cl_sat(f, &dom, &m) {
                            fails.push(Failure { property: "C12", input: what.clone(), detail: format!("{}: the axiom {name}, which mentions no predicate of the task, is false in the standard interpretation with the placeholders {:?}: `{f}`", p.file, cm) });
                            break 'own;
                        }
                    }
                }
            }
        }
        if problems.iter().any(|p| !p.readable) { continue; }
        let want_fw = !flags.contains(&"backward");
        let want_bw = !flags.contains(&"forward");
        let (fw, bw) = (family(&problems, "forward"), family(&problems, "backward"));
        if fw.len() + bw.len() != problems.len() { fails.push(Failure { property: "harness", input: what.clone(), detail: format!("problem files are not named forward*/backward*: {:?}", problems.iter().map(|p| p.file.clone()).collect::<Vec<_>>()) }); return; }
        // (a direction without conjectures has no problems; a missing conjecture shows as an unrefuted difference below)
        if (!want_fw && !fw.is_empty()) || (!want_bw && !bw.is_empty()) {
            fails.push(Failure { property: "C02", input: what.clone(), detail: format!("{} forward and {} backward problems emitted", fw.len(), bw.len()) });
            continue;
        }
        // vocabulary of the problems
        let mut names: BTreeSet<Pred> = BTreeSet::new();
        for p in &problems { names.extend(declared_preds(p)); }
        // where a private predicate occurs on both sides, one of the two copies has been renamed: the extra declared name
        let mut expected: BTreeSet<Pred> = public.union(&priv_left).cloned().collect::<BTreeSet<_>>().union(&priv_prog).cloned().collect();
        // predicates introduced by the definitions of the proof outline
        if let Some(o) = &outline { for f in &o.formulas { if f.role == fol::Role::Definition { for q in crate::own::formula_preds(&f.formula) { expected.insert(q); } } } }
        let extra: Vec<Pred> = names.difference(&expected).cloned().collect();
        let missing: Vec<Pred> = expected.difference(&names).cloned().collect();
        let mappings: Vec<(HashMap<Pred, Pred>, HashMap<Pred, Pred>)> = {
            let id = |s: &BTreeSet<Pred>| -> HashMap<Pred, Pred> { s.iter().map(|p| (p.clone(), p.clone())).collect() };
            let (l0, r0) = (id(&priv_left), id(&priv_prog));
            if extra.is_empty() { vec![(l0, r0)] }
            else if extra.len() == clash.len() {
                // every assignment of the extra names to the clashing predicates (same arity), renamed on either side
                fn perms<T: Clone>(xs: &[T]) -> Vec<Vec<T>> { if xs.len() <= 1 { return vec![xs.to_vec()]; } let mut out = Vec::new(); for i in 0..xs.len() { let mut rest = xs.to_vec(); let x = rest.remove(i); for mut p in perms(&rest) { p.insert(0, x.clone()); out.push(p); } } out }
                let mut ms = Vec::new();
                for perm in perms(&extra) {
                    if clash.iter().zip(&perm).any(|(c, e)| c.1 != e.1) { continue; }
                    let (mut l1, mut r1) = (l0.clone(), r0.clone());
                    for (c, e) in clash.iter().zip(&perm) { r1.insert(c.clone(), e.clone()); l1.insert(c.clone(), e.clone()); }
                    ms.push((l0.clone(), r1));
                    ms.push((l1, r0.clone()));
                }
                if ms.is_empty() { fails.push(Failure { property: "C02", input: what.clone(), detail: format!("problems declare predicates {extra:?} that neither the programs nor the user guide explain") }); continue; }
                ms
            } else { fails.push(Failure { property: "C02", input: what.clone(), detail: format!("problems declare predicates {extra:?} that neither the programs nor the user guide explain") }); continue; }
        };
        // predicates that no rule or formula mentions are not declared; that is fine (missing), they are empty
        let _ = missing;
        let atoms = atoms_of(&names);
        if atoms.len() > 14 { return; } // too many ground atoms for exhaustive enumeration: the task is skipped (it is not counted)
        let interps = subsets(&atoms);
        // placeholders are inputs: every assignment of values to them is one more family of interpretations
        let placeholders: Vec<(String, fol::Sort)> = ug.placeholders().into_iter().map(|c| (c.name, c.sort)).collect();
        let mut assignments: Vec<Vec<Val>> = vec![vec![]];
        for (_, sort) in &placeholders {
            let vals: Vec<Val> = match sort { fol::Sort::Integer => vec![Val::Int(0), Val::Int(1)], fol::Sort::Symbol => vec![Val::Sym("a".into())], fol::Sort::General => vec![Val::Int(0), Val::Sym("a".into())] };
            assignments = assignments.into_iter().flat_map(|pre| vals.iter().map(move |v| { let mut p = pre.clone(); p.push(v.clone()); p })).collect();
        }
        let mut flag_fw: Vec<bool> = Vec::new();
        let mut flag_bw: Vec<bool> = Vec::new();
        let mut complaints_all: Vec<String> = Vec::new();
        for pv in &assignments {
        // the TPTP name of a placeholder carries its sort; the oracle sees the placeholder under its own name
        let mut consts: HashMap<String, Val> = HashMap::new();
        let mut consts_problem: HashMap<String, Val> = HashMap::new();
        let mut by_name: HashMap<String, Val> = HashMap::new();
        for ((n, sort), v) in placeholders.iter().zip(pv) {
            // problem side: the TPTP name; source side (user guide, specification): the symbolic constant of that name ("@name").
            // The two are kept apart: a plain symbol `n` in an emitted problem denotes itself, not the placeholder
            consts_problem.insert(format!("{n}_{}", match sort { fol::Sort::Integer => "i", fol::Sort::Symbol => "s", fol::Sort::General => "g" }), v.clone());
            consts.insert(format!("@{n}"), v.clone());
            by_name.insert(n.clone(), v.clone());
        }
        aspsem::set_placeholders(by_name);
        let pv_text = if placeholders.is_empty() { String::new() } else { format!(" with placeholders {:?}", placeholders.iter().map(|p| p.0.clone()).zip(pv.iter().map(|v| v.to_string())).collect::<Vec<_>>()) };
        st.evaluations += interps.len();
        let cl = |i: &Atoms| Ht { here: i.clone(), there: i.clone(), consts: consts.clone() };
        let clp = |i: &Atoms| Ht { here: i.clone(), there: i.clone(), consts: consts_problem.clone() };
        let ref_fw: Vec<bool> = interps.iter().map(|i| { let m = clp(i); fw.iter().any(|p| refutes(p, &dom, &m)) }).collect();
        let ref_bw: Vec<bool> = interps.iter().map(|i| { let m = clp(i); bw.iter().any(|p| refutes(p, &dom, &m)) }).collect();
        // refuting the problem of a lemma only shows that the lemma is false: soundness (a) is about the final problems
        let is_final = |p: &&&ReadProblem| !p.file.contains("outline");
        let fin_fw: Vec<bool> = interps.iter().map(|i| { let m = clp(i); fw.iter().filter(is_final).any(|p| refutes(p, &dom, &m)) }).collect();
        let fin_bw: Vec<bool> = interps.iter().map(|i| { let m = clp(i); bw.iter().filter(is_final).any(|p| refutes(p, &dom, &m)) }).collect();
        flag_fw.extend(ref_fw.iter().cloned());
        flag_bw.extend(ref_bw.iter().cloned());

        // assumptions: user guide and specification; a forward assumption is available in the forward direction only, a backward
        // assumption of a specification is ignored by anthem (with a warning), so the corpus contains none
        let mut assumptions: Vec<(fol::Direction, fol::Formula)> = ug.formulas().into_iter().filter(|f| f.role == fol::Role::Assumption).map(|f| (f.direction, f.formula)).collect();
        if let Some(s) = &spec { assumptions.extend(s.formulas.iter().filter(|f| f.role == fol::Role::Assumption).map(|f| (f.direction, f.formula.clone()))); }
        let assumed_dir = |i: &Atoms, dir_forward: bool| assumptions.iter().filter(|(d, _)| match d { fol::Direction::Universal => true, fol::Direction::Forward => dir_forward, fol::Direction::Backward => !dir_forward }).all(|(_, f)| cl_sat(f, &dom, &cl(i)));

        // try each admissible reading of the renamed private predicate; the check passes if one of them explains the problems
        let mut complaints: Vec<String> = Vec::new();
        for (lmap, rmap) in &mappings {
            let to_side = |i: &Atoms, map: &HashMap<Pred, Pred>, side_priv: &BTreeSet<Pred>| -> Atoms {
                // the side's own view: public atoms as they are, private atoms read through the renaming
                let mut out = restrict(i, &public);
                for q in side_priv { let n = &map[q]; for (p, a) in i.iter() { if *p == n.0 && a.len() == n.1 { out.insert((q.0.clone(), a.clone())); } } }
                out
            };
            let models = |side: &Side, i: &Atoms, dir_forward: bool, as_premise: bool| -> bool {
                match side {
                    Side::Program(p) => stable(p, i, &inputs, &values),
                    Side::Spec(s) => s.formulas.iter().filter(|f| f.role == fol::Role::Spec).filter(|f| match f.direction { fol::Direction::Universal => true, fol::Direction::Forward => dir_forward, fol::Direction::Backward => !dir_forward }).all(|f| { let _ = as_premise; cl_sat(&f.formula, &dom, &cl(i)) }),
                }
            };
            let left_side = match (&left, &spec) { (Some(l), _) => Side::Program(l), (None, Some(s)) => Side::Spec(s), _ => return bad("neither left program nor specification", fails) };
            let right_side = Side::Program(&prog);
            let mut local: Vec<String> = Vec::new();
            for (dir_forward, refd, fin, active) in [(true, &ref_fw, &fin_fw, want_fw), (false, &ref_bw, &fin_bw, want_bw)] {
                if !active { continue; }
                // assumed side A, claimed side B
                let (a_side, a_map, a_priv, b_side, b_map, b_priv) = if dir_forward { (&left_side, lmap, &priv_left, &right_side, rmap, &priv_prog) } else { (&right_side, rmap, &priv_prog, &left_side, lmap, &priv_left) };
                // public parts the claimed side can produce: over all interpretations of its own vocabulary
                let b_voc: BTreeSet<Pred> = public.union(b_priv).cloned().collect();
                let assumed = |i: &Atoms| assumed_dir(i, dir_forward);
                // (the claimed side is held to the universal assumptions only)
                let producible: BTreeSet<Atoms> = subsets(&atoms_of(&b_voc)).into_iter().filter(|j| assumptions.iter().filter(|(d, _)| *d == fol::Direction::Universal).all(|(_, f)| cl_sat(f, &dom, &cl(j))) && models(b_side, j, dir_forward, false)).map(|j| restrict(&j, &public)).collect();
                // (a) soundness of refutation, (b) completeness, grouped by the assumed side's view
                let mut difference_groups: BTreeMap<Atoms, bool> = BTreeMap::new();
                for (k, i) in interps.iter().enumerate() {
                    let a_view = to_side(i, a_map, a_priv);
                    let is_diff = assumed(i) && models(a_side, &a_view, dir_forward, true) && !producible.contains(&restrict(i, &public));
                    if fin[k] && !is_diff {
                        local.push(format!("{} problem refuted by {{{}}}{pv_text}, which is no difference in external behaviour (assumptions hold: {}, assumed side satisfied: {}, public part producible by the other side: {})",
                            if dir_forward { "forward" } else { "backward" }, show(i), assumed(i), models(a_side, &a_view, dir_forward, true), producible.contains(&restrict(i, &public))));
                        break;
                    }
                    if is_diff { let e = difference_groups.entry(a_view).or_insert(false); *e = *e || refd[k]; }
                }
                let _ = b_map;
                if let Some((g, _)) = difference_groups.iter().find(|(_, r)| !**r) {
                    local.push(format!("difference in external behaviour{pv_text} not refuted by any {} problem: {{{}}} is a model of the assumed side whose public part the other side cannot produce", if dir_forward { "forward" } else { "backward" }, show(g)));
                }
            }
            if local.is_empty() { complaints.clear(); break; }
            complaints = local;
        }
        complaints_all.extend(complaints);
        }
        aspsem::set_placeholders(HashMap::new());
        per_flags.insert(flags.join(" "), (flag_fw, flag_bw, interps.clone()));
        for m in complaints_all.into_iter().take(2) {
            // with a proof outline the same finding is a C13 matter: an unjustified claim was available as an axiom
            if c.outline.is_some() { fails.push(Failure { property: "C13", input: what.clone(), detail: m.clone() }); }
            fails.push(Failure { property: "C02", input: what.clone(), detail: m });
        }
    }
    // C19: flag combinations of the same direction set agree
    let base: Vec<(&String, &(Vec<bool>, Vec<bool>, Vec<Atoms>))> = per_flags.iter().collect();
    for w in base.windows(2) {
        let ((f0, (a0, b0, i0)), (f1, (a1, b1, i1))) = (w[0], w[1]);
        if i0 != i1 { continue; } // vocabularies differ (e.g. a definition simplified away): not comparable interpretation by interpretation
        for (x, y, dir) in [(a0, a1, "forward"), (b0, b1, "backward")] {
            let both = !(f0.contains(dir_other(dir)) || f1.contains(dir_other(dir)));
            if !both { continue; }
            if let Some(k) = (0..x.len().min(y.len())).find(|k| x[*k] != y[*k]) {
                fails.push(Failure { property: "C19", input: format!("anthem verify --equivalence external : {input_desc}"), detail: format!("flags `{f0}` and `{f1}` disagree on {{{}}}: {dir} problems refuted {} vs {}", show(&i0[k % i0.len().max(1)]), x[k], y[k]) });
            }
        }
    }
}

fn dir_other(d: &str) -> &'static str { if d == "forward" { "--direction backward" } else { "--direction forward" } }

fn show(i: &Atoms) -> String { i.iter().map(|(p, a)| if a.is_empty() { p.clone() } else { format!("{p}({})", a.iter().map(|v| v.to_string()).collect::<Vec<_>>().join(",")) }).collect::<Vec<_>>().join(", ") }
