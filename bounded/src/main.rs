//! bounded <check> [--deep] [--anthem <path to the anthem binary built from /repo>]
//! Prints one JSON object; exit status 0 = no failing input found, 1 = failing inputs found, 2 = the harness could not run.
mod applic;
mod aspsem;
mod completion;
mod crash;
mod dom;
mod external;
mod files;
mod hteval;
mod own;
mod pure;
mod preamble;
mod prover;
mod rt;
mod simp;
mod subst;
mod tff;
mod tptp;
mod trans;
mod verify;

use std::sync::Mutex;

pub fn json_str(s: &str) -> String {
    let mut o = String::from("\"");
    for c in s.chars() {
        match c {
            '"' => o.push_str("\\\""),
            '\\' => o.push_str("\\\\"),
            '\n' => o.push_str("\\n"),
            '\t' => o.push_str("\\t"),
            c if (c as u32) < 0x20 => o.push_str(&format!("\\u{:04x}", c as u32)),
            c => o.push(c),
        }
    }
    o.push('"');
    o
}

fn par_for<T: Sync, F: Fn(&T) + Sync>(items: &[T], f: F) {
    let next = std::sync::atomic::AtomicUsize::new(0);
    let n = std::thread::available_parallelism().map(|n| n.get()).unwrap_or(4);
    std::thread::scope(|s| {
        for _ in 0..n {
            s.spawn(|| loop {
                let i = next.fetch_add(1, std::sync::atomic::Ordering::SeqCst);
                if i >= items.len() { break; }
                f(&items[i]);
            });
        }
    });
}

pub fn par_map<T: Sync, R: Send, F: Fn(&T) -> R + Sync>(items: &[T], f: F) -> Vec<R> {
    let out: Mutex<Vec<(usize, R)>> = Mutex::new(Vec::new());
    let idx: Vec<usize> = (0..items.len()).collect();
    par_for(&idx, |i| { let r = f(&items[*i]); out.lock().unwrap().push((*i, r)); });
    let mut v = out.into_inner().unwrap();
    v.sort_by_key(|x| x.0);
    v.into_iter().map(|x| x.1).collect()
}

fn run_simp(deep: bool) -> (String, Vec<trans::Failure>) {
    let mut st = simp::SimpStats { formulas: 0, compared: 0, skipped_inexact: 0, evaluations: 0, runs: 0 };
    let mut fails = Vec::new();
    simp::check(deep, &mut st, &mut fails);
    (format!("\"formulas\": {}, \"portfolio_strategy_runs\": {}, \"input_output_pairs\": {}, \"pairs_skipped_not_exactly_evaluable\": {}, \"pair_interpretation_evaluations\": {}", st.formulas, st.runs, st.compared, st.skipped_inexact, st.evaluations), fails)
}

fn run_strong(deep: bool) -> (String, Vec<trans::Failure>) {
    let pairs = verify::pairs(deep);
    let n_interp = if deep { 60 } else { 24 };
    let fails = Mutex::new(Vec::new());
    let totals = Mutex::new((0usize, 0usize, 0usize, 0usize));
    par_for(&pairs, |(l, r, flags)| {
        let mut st = verify::VStats { pairs: 0, runs: 0, problems: 0, evaluations: 0 };
        let mut fl = Vec::new();
        verify::check_pair(l, r, flags, n_interp, &mut st, &mut fl);
        let mut t = totals.lock().unwrap();
        t.0 += st.pairs; t.1 += st.runs; t.2 += st.problems; t.3 += st.evaluations;
        fails.lock().unwrap().extend(fl);
    });
    let t = totals.lock().unwrap();
    let mut fails = fails.into_inner().unwrap();
    fails.sort_by(|a, b| (a.property, &a.input).cmp(&(b.property, &b.input)));
    (format!("\"program_pairs\": {}, \"anthem_verify_runs\": {}, \"problems_read\": {}, \"run_interpretation_pairs\": {}, \"interpretations_per_pair\": {}", t.0, t.1, t.2, t.3, n_interp), fails)
}

fn run_gamma(deep: bool) -> (String, Vec<trans::Failure>) {
    let mut st = simp::SimpStats { formulas: 0, compared: 0, skipped_inexact: 0, evaluations: 0, runs: 0 };
    let mut fails = Vec::new();
    simp::check_gamma(deep, &mut st, &mut fails);
    (format!("\"formulas\": {}, \"input_output_pairs\": {}, \"pairs_skipped_not_exactly_evaluable\": {}, \"pair_interpretation_evaluations\": {}", st.formulas, st.compared, st.skipped_inexact, st.evaluations), fails)
}

fn run_external(deep: bool) -> (String, Vec<trans::Failure>) {
    let cases = external::cases(deep);
    let fails = Mutex::new(Vec::new());
    let totals = Mutex::new((0usize, 0usize, 0usize, 0usize));
    par_for(&cases, |(c, flags)| {
        let mut st = verify::VStats { pairs: 0, runs: 0, problems: 0, evaluations: 0 };
        let mut fl = Vec::new();
        external::check_case(c, flags, &mut st, &mut fl);
        let mut t = totals.lock().unwrap();
        t.0 += st.pairs; t.1 += st.runs; t.2 += st.problems; t.3 += st.evaluations;
        fails.lock().unwrap().extend(fl);
    });
    let t = totals.lock().unwrap();
    let mut fails = fails.into_inner().unwrap();
    fails.sort_by(|a, b| (a.property, &a.input).cmp(&(b.property, &b.input)));
    (format!("\"tasks\": {}, \"anthem_verify_runs\": {}, \"problems_read\": {}, \"interpretations_enumerated\": {}", t.0, t.1, t.2, t.3), fails)
}

fn run_prover(deep: bool) -> (String, Vec<trans::Failure>) {
    let mut st = prover::PStats { runs: 0, problems: 0 };
    let mut fails = Vec::new();
    prover::check(deep, &mut st, &mut fails);
    (format!("\"anthem_verify_runs_with_fake_prover\": {}, \"problems_compared\": {}", st.runs, st.problems), fails)
}

fn run_files(_deep: bool) -> (String, Vec<trans::Failure>) {
    let mut runs = 0;
    let mut fails = Vec::new();
    files::check(&mut runs, &mut fails);
    (format!("\"anthem_verify_runs\": {}", runs), fails)
}

fn run_applic(_deep: bool) -> (String, Vec<trans::Failure>) {
    let mut runs = 0;
    let mut fails = Vec::new();
    applic::check(&mut runs, &mut fails);
    (format!("\"anthem_runs\": {}", runs), fails)
}

fn run_subst(deep: bool) -> (String, Vec<trans::Failure>) {
    let (mut pairs, mut skipped) = (0, 0);
    let mut fails = Vec::new();
    subst::check(deep, &mut pairs, &mut skipped, &mut fails);
    (format!("\"substitutions\": {}, \"skipped_not_exactly_evaluable\": {}", pairs, skipped), fails)
}

fn run_crash(deep: bool) -> (String, Vec<trans::Failure>) {
    let mut runs = 0;
    let mut fails = Vec::new();
    crash::check(deep, &mut runs, &mut fails);
    (format!("\"anthem_runs\": {}", runs), fails)
}

fn run_rt(deep: bool, programs: bool) -> (String, Vec<trans::Failure>) {
    let mut st = rt::RtStats { texts: 0, accepted: 0, nontrivial: 0, samples: vec![] };
    let mut fails = Vec::new();
    if programs { rt::check_programs(deep, &mut st, &mut fails); } else { rt::check_theories(deep, &mut st, &mut fails); }
    (format!("\"texts\": {}, \"evaluations\": {}, \"distinct_nontrivial\": {}, \"rule\": {}, \"samples\": [{}]", st.texts, st.accepted, st.nontrivial,
        json_str("texts of the corpora (and every node printed from an accepted text) that the parser accepts; non-trivial = longer than 12 characters or printed differently from the way it was written"),
        st.samples.iter().map(|s| json_str(s)).collect::<Vec<_>>().join(", ")), fails)
}

fn run_completion(_deep: bool) -> (String, Vec<trans::Failure>) {
    let mut st = completion::CStats { programs: 0, interpretations: 0, with_models: 0, samples: vec![] };
    let mut fails = Vec::new();
    completion::check(&mut st, &mut fails);
    (format!("\"programs\": {}, \"evaluations\": {}, \"distinct_nontrivial\": {}, \"rule\": {}, \"samples\": [{}]", st.programs, st.interpretations, st.with_models,
        json_str("every interpretation of the predicates of each corpus program over the inner values {0,1,2,a}; a program counts as non-trivial if it has a stable model among them"),
        st.samples.iter().map(|s| json_str(s)).collect::<Vec<_>>().join(", ")), fails)
}

fn run_tptp(deep: bool) -> (String, Vec<trans::Failure>) {
    let mut st = tptp::TStats { formulas: 0, evaluations: 0, nontrivial: 0, samples: vec![] };
    let mut fails = Vec::new();
    tptp::check(deep, &mut st, &mut fails);
    (format!("\"formulas\": {}, \"evaluations\": {}, \"distinct_nontrivial\": {}, \"rule\": {}, \"samples\": [{}]", st.formulas, st.evaluations, st.nontrivial,
        json_str("closed, exactly evaluable formulas of the simplification corpus and 20 hand-written ones (chained comparisons under every connective, the three sorts, #inf/#sup, negative numerals, nested arithmetic), one arity per predicate name; evaluations = (formula, interpretation) pairs; a formula is non-trivial if it is true in some sampled interpretation and false in another"),
        st.samples.iter().map(|s| json_str(s)).collect::<Vec<_>>().join(", ")), fails)
}

fn run_preamble(_deep: bool) -> (String, Vec<trans::Failure>) {
    let mut fails = Vec::new();
    let (structures, models) = preamble::check(&mut fails);
    (format!("\"structures_enumerated\": {}, \"models_of_anthems_own_axioms\": {}", structures, models), fails)
}

fn run_trans(deep: bool) -> (String, Vec<trans::Failure>) {
    let corpus = trans::corpus(deep);
    let n_interp = if deep { 160 } else { 40 };
    let fails = Mutex::new(Vec::new());
    let totals = Mutex::new((0usize, 0usize, 0usize));
    par_for(&corpus, |rule| {
        let mut st = trans::Stats { rules: 0, natural_accepted: 0, evaluations: 0 };
        let mut fl = Vec::new();
        let t0 = std::time::Instant::now();
        trans::check_rule(rule, n_interp, &mut st, &mut fl);
        if std::env::var("BOUNDED_TIMING").is_ok() { eprintln!("{:8.3} {}", t0.elapsed().as_secs_f64(), rule); }
        let mut t = totals.lock().unwrap();
        t.0 += st.rules; t.1 += st.natural_accepted; t.2 += st.evaluations;
        fails.lock().unwrap().extend(fl);
    });
    let programs = trans::program_corpus();
    par_for(&programs, |p| {
        let mut st = trans::Stats { rules: 0, natural_accepted: 0, evaluations: 0 };
        let mut fl = Vec::new();
        trans::check_program(p, n_interp, &mut st, &mut fl);
        let mut t = totals.lock().unwrap();
        t.0 += st.rules; t.2 += st.evaluations;
        fails.lock().unwrap().extend(fl);
    });
    let t = totals.lock().unwrap();
    let mut fails = fails.into_inner().unwrap();
    trans::check_precedence(&mut fails);
    fails.sort_by(|a, b| (a.property, &a.input).cmp(&(b.property, &b.input)));
    (format!("\"rules\": {}, \"rules_accepted_by_natural\": {}, \"rule_interpretation_pairs\": {}, \"interpretations_per_rule\": {}", t.0, t.1, t.2, n_interp), fails)
}

fn main() {
    // panics of the code under test are caught and reported by the checks; keep stderr quiet
    if std::env::var("VERIF_HARNESS_PANICS").is_err() { std::panic::set_hook(Box::new(|_| {})); }
    let args: Vec<String> = std::env::args().collect();
    let check = args.get(1).cloned().unwrap_or_default();
    let deep = args.iter().any(|a| a == "--deep");
    let (stats, fails) = match check.as_str() {
        "trans" => run_trans(deep),
        "simp" => run_simp(deep),
        "strong" => run_strong(deep),
        "gamma" => run_gamma(deep),
        "external" => run_external(deep),
        "prover" => run_prover(deep),
        "files" => run_files(deep),
        "applic" => run_applic(deep),
        "subst" => run_subst(deep),
        "crash" => run_crash(deep),
        "preamble" => run_preamble(deep),
        "completion" => run_completion(deep),
        "tptp" => run_tptp(deep),
        "rt_programs" => run_rt(deep, true),
        "rt_theories" => run_rt(deep, false),
        _ => { eprintln!("usage: bounded trans [--deep]"); std::process::exit(2); }
    };
    let harness_broken = fails.iter().any(|f| f.property == "harness");
    // at most 25 failing inputs per property are printed (the count is complete)
    let mut per: std::collections::BTreeMap<&str, usize> = std::collections::BTreeMap::new();
    let shown: Vec<String> = fails.iter().filter(|f| { let n = per.entry(f.property).or_insert(0); *n += 1; *n <= 25 }).map(|f| format!("{{\"property\": {}, \"input\": {}, \"detail\": {}}}", json_str(f.property), json_str(&f.input), json_str(&f.detail))).collect();
    println!("{{\"check\": {}, \"deep\": {}, {}, \"failing_inputs\": {}, \"failures\": [{}]}}", json_str(&check), deep, stats, fails.len(), shown.join(", "));
    std::process::exit(if harness_broken { 2 } else if fails.is_empty() { 0 } else { 1 });
}
