//! Reference semantics of mini-gringo rules (the executable counterpart of /verif/spec/tau_spec.rs `in_vals`,
//! taub_spec.rs `af_sat`, rule_spec.rs `inst_sat`): values of terms, satisfaction of a ground instance in <H,T>.
use crate::dom::{Ht, Val};
use crate::hteval::World;
use anthem::syntax_tree::asp::mini_gringo as asp;
use std::collections::{BTreeSet, HashMap};

pub type Asg = HashMap<String, Val>;

thread_local! { static PLACEHOLDERS: std::cell::RefCell<HashMap<String, Val>> = std::cell::RefCell::new(HashMap::new()); }

/// values of the user guide's placeholders (a symbolic constant of that name in a program stands for the value); per thread
pub fn set_placeholders(m: HashMap<String, Val>) { PLACEHOLDERS.with(|p| *p.borrow_mut() = m); }

fn pre(p: &asp::PrecomputedTerm) -> Val {
    match p {
        asp::PrecomputedTerm::Infimum => Val::Inf,
        asp::PrecomputedTerm::Numeral(n) => Val::Int(*n as i128),
        asp::PrecomputedTerm::Symbol(s) => PLACEHOLDERS.with(|p| p.borrow().get(s).cloned()).unwrap_or_else(|| Val::Sym(s.clone())),
        asp::PrecomputedTerm::Supremum => Val::Sup,
    }
}

fn ints(s: &BTreeSet<Val>) -> Vec<i128> { s.iter().filter_map(|v| if let Val::Int(i) = v { Some(*i) } else { None }).collect() }

/// the set of values of a term under an assignment (multi-valued intervals, partial division and modulo —
/// defined for a positive divisor, quotient rounded down, remainder non-negative: the convention of the
/// verified spec — arithmetic undefined on non-integers)
pub fn vals(t: &asp::Term, s: &Asg) -> BTreeSet<Val> {
    match t {
        asp::Term::PrecomputedTerm(p) => BTreeSet::from([pre(p)]),
        asp::Term::Variable(v) => BTreeSet::from([s.get(&v.0).unwrap_or_else(|| panic!("unassigned variable {}", v.0)).clone()]),
        asp::Term::UnaryOperation { arg, .. } => ints(&vals(arg, s)).into_iter().map(|i| Val::Int(-i)).collect(),
        asp::Term::BinaryOperation { op, lhs, rhs } => {
            let a = ints(&vals(lhs, s));
            let b = ints(&vals(rhs, s));
            let mut out = BTreeSet::new();
            for i in &a {
                for j in &b {
                    match op {
                        asp::BinaryOperator::Add => { out.insert(Val::Int(i + j)); }
                        asp::BinaryOperator::Subtract => { out.insert(Val::Int(i - j)); }
                        asp::BinaryOperator::Multiply => { out.insert(Val::Int(i * j)); }
                        asp::BinaryOperator::Divide => { if *j > 0 { out.insert(Val::Int(i.div_euclid(*j))); } }
                        asp::BinaryOperator::Modulo => { if *j > 0 { out.insert(Val::Int(i.rem_euclid(*j))); } }
                        asp::BinaryOperator::Interval => { let mut k = *i; while k <= *j { out.insert(Val::Int(k)); k += 1; } }
                    }
                }
            }
            out
        }
    }
}

pub fn tuples(ts: &[asp::Term], s: &Asg) -> Vec<Vec<Val>> {
    let mut acc: Vec<Vec<Val>> = vec![vec![]];
    for t in ts {
        let vs = vals(t, s);
        let mut next = Vec::new();
        for pre in &acc { for v in &vs { let mut p = pre.clone(); p.push(v.clone()); next.push(p); } }
        acc = next;
    }
    acc
}

fn holds(w: World, m: &Ht, p: &str, vs: &[Val]) -> bool {
    let key = (p.to_string(), vs.to_vec());
    match w { World::Here => m.here.contains(&key), World::There => m.there.contains(&key) }
}

fn rel(r: &asp::Relation, a: &Val, b: &Val) -> bool {
    match r {
        asp::Relation::Equal => a == b,
        asp::Relation::NotEqual => a != b,
        asp::Relation::Less => a < b,
        asp::Relation::LessEqual => a <= b,
        asp::Relation::Greater => a > b,
        asp::Relation::GreaterEqual => a >= b,
    }
}

pub fn af_sat(f: &asp::AtomicFormula, w: World, m: &Ht, s: &Asg) -> bool {
    match f {
        asp::AtomicFormula::Literal(l) => tuples(&l.atom.terms, s).iter().any(|vs| match l.sign {
            asp::Sign::NoSign => holds(w, m, &l.atom.predicate_symbol, vs),
            asp::Sign::Negation => !holds(World::There, m, &l.atom.predicate_symbol, vs),
            asp::Sign::DoubleNegation => holds(World::There, m, &l.atom.predicate_symbol, vs),
        }),
        asp::AtomicFormula::Comparison(c) => {
            let a = vals(&c.lhs, s);
            let b = vals(&c.rhs, s);
            a.iter().any(|x| b.iter().any(|y| rel(&c.relation, x, y)))
        }
    }
}

pub fn body_sat(b: &asp::Body, w: World, m: &Ht, s: &Asg) -> bool { b.formulas.iter().all(|f| af_sat(f, w, m, s)) }

pub fn head_sat(h: &asp::Head, w: World, m: &Ht, s: &Asg) -> bool {
    match h {
        asp::Head::Basic(a) => tuples(&a.terms, s).iter().all(|vs| holds(w, m, &a.predicate_symbol, vs)),
        asp::Head::Choice(a) => tuples(&a.terms, s).iter().all(|vs| holds(w, m, &a.predicate_symbol, vs) || !holds(World::There, m, &a.predicate_symbol, vs)),
        asp::Head::Falsity => false,
    }
}

/// the ground instance of r under s, as an HT implication at world Here
pub fn inst_sat(r: &asp::Rule, m: &Ht, s: &Asg) -> bool {
    (!body_sat(&r.body, World::Here, m, s) || head_sat(&r.head, World::Here, m, s))
        && (!body_sat(&r.body, World::There, m, s) || head_sat(&r.head, World::There, m, s))
}

/// every ground instance of r over the given values is satisfied; returns a violating assignment otherwise
pub fn rule_sat(r: &asp::Rule, m: &Ht, values: &[Val]) -> Result<(), Asg> {
    let vars: Vec<String> = crate::own::rule_vars(r);
    let mut idx = vec![0usize; vars.len()];
    if values.is_empty() && !vars.is_empty() { return Ok(()); }
    loop {
        let s: Asg = vars.iter().enumerate().map(|(i, v)| (v.clone(), values[idx[i]].clone())).collect();
        if !inst_sat(r, m, &s) { return Err(s); }
        let mut k = 0;
        loop {
            if k == vars.len() { return Ok(()); }
            idx[k] += 1;
            if idx[k] < values.len() { break; }
            idx[k] = 0;
            k += 1;
        }
    }
}
