//! Bounded stand-in for C01 (tau*) and C08 (natural, mu): the real translators are run on enumerated guarded rules and
//! each printed sentence is evaluated in sampled HT interpretations against the reference semantics of the rule.
//!
//! Input class ("guarded rules"): every variable of the rule occurs as a direct argument of a positive body atom, the
//! ground atoms of the sampled interpretations take their arguments from INNER = {0, 1, 2, a}, and the enumeration window
//! contains every value any subterm of the rule takes under INNER assignments. For such a rule only window values of the
//! enumerated variables matter, so the verdict of the evaluator is the truth value over the full standard domain.
use crate::aspsem;
use crate::dom::{Domain, GroundAtom, Ht, Val, sample_interpretations};
use crate::hteval::{cheapest_first, ht_sat};
use anthem::syntax_tree::asp::mini_gringo as asp;
use anthem::translating::formula_representation::{mu::Mu as _, natural::Natural as _, tau_star::TauStar as _};
use std::collections::BTreeSet;
use std::str::FromStr;

pub struct Failure {
    pub property: &'static str,
    pub input: String,
    pub detail: String,
}

pub struct Stats {
    pub rules: usize,
    pub natural_accepted: usize,
    pub evaluations: usize,
}

const TERMS1: &[&str] = &[
    "$A", "1", "a", "#inf", "#sup", "$A+1", "$A-1", "$A*2", "-$A", "1..$A", "$A..2", "0..1", "2..1", "$A/2", "2/$A", "$A\\2", "2\\$A",
    "1/0", "a+1", "$A+a", "(1..2)+$A", "(0..1)*2", "-(0..1)", "$A/(0..1)", "($A+1)*2", "1..a", "$A-(-1)", "(0..1)..2", "3/2", "-3/2", "-3\\2", "2/(-1)",
    "1..#sup", "#inf..2", "-#sup", "#inf+1", "1..-#sup", "-#inf..$A", "$A..#sup", "#inf..#sup", "a..2", "1..a+1",
    "$A/2+1", "($A\\2)*2", "-($A/2)", "1..($A/2)", "2/($A-1)", "($A+1)\\2", "(2/$A)..2", "-(-$A)", "($A*$A)-1", "1-(2\\$A)", "(1..2)/(1..2)", "($A..2)\\2",
];
const TERMS2: &[&str] = &["$A+$B", "$A*$B", "$A..$B", "$A/$B", "$A\\$B", "$A-$B", "$B"];
const NAMES: &[(&str, &str)] = &[("X", "Y"), ("N0", "N1"), ("V1", "V2"), ("Z", "Z1"), ("I", "J"), ("Q", "R"), ("K", "I1"), ("N1", "N2"), ("J1", "K1"), ("X1", "X2")];
const RELS: &[&str] = &["=", "!=", "<", "<=", ">", ">="];

/// rule shapes over one term $t (and a second term $u)
const SHAPES: &[&str] = &[
    "p($t) :- $G.",
    "{p($t)} :- $G.",
    "p($t, $u) :- $G.",
    "p($A, $t) :- $G.",
    "{p($t, $A)} :- $G.",
    ":- $G, r($t).",
    ":- $G, not r($t).",
    "p :- $G, r($t).",
    "p :- $G, not r($t).",
    "p :- $G, not not r($t).",
    "{p} :- $G, not not r($t).",
    "p($A) :- $G, not p($t).",
    "p($t) :- $G, not not p($t).",
    "p :- $G, $t $R $u.",
    "p($A) :- $G, $A $R $t.",
    "p :- $G, $t = $t.",
    "p($t) :- $G, $u $R $A.",
    "r($t) :- $G, r($u), not r($A).",
    "p :- $G, r($t, $t).",
    "p :- $G, not r($t, $u).",
    "p($t, $t) :- $G.",
    "{p($t, $t)} :- $G, not not r($t, $t).",
    "p($t, $u, $A) :- $G, r($u, $t).",
    // variables that no positive body atom guards: only in a negative literal, only in the head
    "p($A) :- $G, not r($A, Y0), not r($t).",
    "p :- $G, not not r(Y0, $t).",
    "p(Y0, $t) :- $G.",
    "{p($A, Y0)} :- $G, not r($t).",
    ":- $G, not r(Y0, $t), not not r($A).",
    // several intervals in one head
    "p(1..2, $t, 0..1) :- $G.",
    "{p($A..1, 0..$A, $t)} :- $G.",
    // literals of large arity (the fresh names Z10, Z11 sort before Z2)
    "p :- $G, w($A, 1, 2, 3, 4, 5, 6, 7, 8, 9, $t, $A).",
    "w($A, 1, 2, 3, 4, 5, 6, 7, 8, 9, $t) :- $G.",
    ":- $G, not w(0, 1, 2, 3, 4, 5, 6, 7, 8, $A, $t).",
    // one predicate symbol at two arities
    "q($t) :- $G, q($A, $A).",
    "p($t) :- $G, not p($t, $A), not not p.",
    "{q($A, $t)} :- $G, q.",
];

pub fn corpus(deep: bool) -> Vec<String> {
    let mut out: Vec<String> = Vec::new();
    let mut seen = BTreeSet::new();
    let mut add = |s: String| { if seen.insert(s.clone()) { out.push(s); } };
    let mut k = 0usize;
    for (si, shape) in SHAPES.iter().enumerate() {
        let two = shape.contains("$u");
        let all_terms: Vec<&str> = TERMS1.iter().chain(TERMS2.iter()).cloned().collect();
        for (ti, t) in all_terms.iter().enumerate() {
            let us: Vec<&str> = if two { if deep { (0..8).map(|j| all_terms[(ti * 5 + si + j * 7) % all_terms.len()]).collect() } else { vec![all_terms[(ti * 7 + si) % all_terms.len()], all_terms[(ti * 3 + 1) % TERMS1.len()]] } } else { vec![""] };
            for u in us {
                let rels: Vec<&str> = if shape.contains("$R") { if deep { RELS.to_vec() } else { vec![RELS[(ti + si + k) % RELS.len()], RELS[(ti + k + 3) % RELS.len()]] } } else { vec![""] };
                for r in rels {
                    k += 1;
                    let names: Vec<(&str, &str)> = if deep { (0..4).map(|j| NAMES[(k + j * 3) % NAMES.len()]).collect() } else { vec![NAMES[k % NAMES.len()], NAMES[(k / 2 + 1) % NAMES.len()]] };
                    for (a, b) in names {
                        let body = shape.replace("$t", t).replace("$u", u).replace("$R", r);
                        let needs_b = body.contains("$B");
                        let guard = if needs_b { if k % 2 == 0 { "q($A), q($B)" } else { "q($A, $B)" } } else { "q($A)" };
                        let rule = body.replace("$G", guard).replace("$A", a).replace("$B", b);
                        add(rule);
                    }
                }
            }
        }
    }
    // a few unguarded, variable-free rules and facts
    for f in ["p(1..2).", "p(1..2, 1..2).", "{p(1..3)}.", "p.", "{p}.", ":- p, not q.", "p :- not not p.", "p(a).", "p(1/0).", "p :- 1/0 = 1/0.", ":- 2..1 = 2..1, p.", "p(0..1, a).", "p :- q, not r.", "p :- 1 < 2.", ":- 3 > 4."] {
        add(f.to_string());
    }
    out
}

fn inner() -> Vec<Val> { vec![Val::Int(0), Val::Int(1), Val::Int(2), Val::Sym("a".into())] }

fn subterm_bound(t: &asp::Term, vars: &[String], bound: &mut i128) {
    // the largest absolute integer any subterm takes under INNER assignments
    let inner = inner();
    let n = vars.len();
    let mut idx = vec![0usize; n];
    loop {
        let s: aspsem::Asg = vars.iter().enumerate().map(|(i, v)| (v.clone(), inner[idx[i]].clone())).collect();
        fn walk(t: &asp::Term, s: &aspsem::Asg, bound: &mut i128) {
            for v in aspsem::vals(t, s) { if let Val::Int(i) = v { if i.abs() > *bound { *bound = i.abs(); } } }
            match t {
                asp::Term::UnaryOperation { arg, .. } => walk(arg, s, bound),
                asp::Term::BinaryOperation { lhs, rhs, .. } => { walk(lhs, s, bound); walk(rhs, s, bound); }
                _ => {}
            }
        }
        walk(t, &s, bound);
        let mut k = 0;
        loop {
            if k == n { return; }
            idx[k] += 1;
            if idx[k] < inner.len() { break; }
            idx[k] = 0;
            k += 1;
        }
    }
}

fn rule_terms(r: &asp::Rule) -> Vec<asp::Term> { crate::own::rule_terms(r) }

/// the largest absolute integer a subterm of the rule takes under INNER assignments (at least 2)
pub fn rule_window_bound(r: &asp::Rule) -> i128 {
    let vars: Vec<String> = crate::own::rule_vars(r);
    let mut bound = 2i128;
    for t in rule_terms(r) { subterm_bound(&t, &vars, &mut bound); }
    bound
}

fn is_guarded(r: &asp::Rule) -> bool {
    let mut guarded = BTreeSet::new();
    for f in &r.body.formulas {
        if let asp::AtomicFormula::Literal(asp::Literal { sign: asp::Sign::NoSign, atom }) = f {
            for t in &atom.terms { if let asp::Term::Variable(v) = t { guarded.insert(v.0.clone()); } }
        }
    }
    // a variable that is not guarded must occur only as a direct argument of atoms (head or body, any sign): all values outside
    // the inner set then behave alike, and the window contains such values
    let mut loose = BTreeSet::new();
    let mut inside = BTreeSet::new();
    let mut atom_terms: Vec<&asp::Term> = Vec::new();
    let head_ts = crate::own::head_terms(&r.head);
    atom_terms.extend(head_ts.iter());
    for f in &r.body.formulas {
        match f {
            asp::AtomicFormula::Literal(l) => atom_terms.extend(l.atom.terms.iter()),
            asp::AtomicFormula::Comparison(c) => { let mut vs = Vec::new(); crate::own::term_vars(&c.lhs, &mut vs); crate::own::term_vars(&c.rhs, &mut vs); inside.extend(vs); }
        }
    }
    for t in atom_terms { match t { asp::Term::Variable(v) => { loose.insert(v.0.clone()); } t => { let mut vs = Vec::new(); crate::own::term_vars(t, &mut vs); inside.extend(vs); } } }
    crate::own::rule_vars(r).iter().all(|v| guarded.contains(v) || (loose.contains(v) && !inside.contains(v)))
}

fn universe(r: &asp::Rule) -> Vec<GroundAtom> {
    let inner = inner();
    let mut out = Vec::new();
    for (p_symbol, p_arity) in crate::own::rule_preds(r) {
        struct P { symbol: String, arity: usize }
        let p = P { symbol: p_symbol, arity: p_arity };
        if p.arity > 3 {
            // large arity: the tuples the literals of the rule themselves denote under INNER assignments, and each of them with
            // two positions exchanged (so that an interpretation can tell a permuted atom from the right one)
            let vars: Vec<String> = crate::own::rule_vars(r);
            let mut lits: Vec<&asp::Atom> = Vec::new();
            if let asp::Head::Basic(a) | asp::Head::Choice(a) = &r.head { lits.push(a); }
            for f in &r.body.formulas { if let asp::AtomicFormula::Literal(l) = f { lits.push(&l.atom); } }
            let mut idx = vec![0usize; vars.len()];
            loop {
                let s: aspsem::Asg = vars.iter().enumerate().map(|(i, v)| (v.clone(), inner[idx[i]].clone())).collect();
                for a in lits.iter().filter(|a| a.predicate_symbol == p.symbol && a.terms.len() == p.arity) {
                    for t in aspsem::tuples(&a.terms, &s).into_iter().take(4) {
                        for (i, j) in [(1usize, p.arity - 1), (2, p.arity - 2), (0, 1)] { let mut u = t.clone(); u.swap(i, j); out.push((p.symbol.clone(), u)); }
                        out.push((p.symbol.clone(), t));
                    }
                }
                let mut k = 0;
                loop { if k == vars.len() { break; } idx[k] += 1; if idx[k] < inner.len() { break; } idx[k] = 0; k += 1; }
                if k == vars.len() { break; }
            }
            out.sort(); out.dedup();
            if out.len() > 40 { out.truncate(40); }
            continue;
        }
        let mut idx = vec![0usize; p.arity];
        loop {
            out.push((p.symbol.clone(), idx.iter().map(|i| inner[*i].clone()).collect()));
            let mut k = 0;
            loop {
                if k == p.arity { break; }
                idx[k] += 1;
                if idx[k] < inner.len() { break; }
                idx[k] = 0;
                k += 1;
            }
            if k == p.arity { break; }
        }
    }
    out
}

pub fn check_rule(text: &str, n_interp: usize, stats: &mut Stats, fails: &mut Vec<Failure>) {
    let program = match asp::Program::from_str(text) { Ok(p) => p, Err(e) => { fails.push(Failure { property: "harness", input: text.into(), detail: format!("corpus rule does not parse: {e}") }); return; } };
    let rule = program.rules[0].clone();
    if !is_guarded(&rule) { fails.push(Failure { property: "harness", input: text.into(), detail: "corpus rule is not guarded".into() }); return; }
    let vars: Vec<String> = crate::own::rule_vars(&rule);
    let mut bound = 2i128;
    for t in rule_terms(&rule) { subterm_bound(&t, &vars, &mut bound); }
    let l = bound + 2;
    let dom = Domain::new(-l, l, &["a", "b"]);
    let values = dom.of(crate::dom::Sort::General);
    let translated = std::panic::catch_unwind(|| (program.clone().tau_star(), program.clone().natural(), program.clone().mu()));
    let (tau, nat, mu) = match translated {
        Ok(x) => x,
        Err(_) => { fails.push(Failure { property: "C08", input: text.into(), detail: "a translator (tau*, natural or mu) panicked on an accepted program (mu never fails; C16)".into() }); fails.push(Failure { property: "C16", input: text.into(), detail: "a translator (tau*, natural or mu) panicked on an accepted program".into() }); return; }
    };
    stats.rules += 1;
    if nat.is_some() { stats.natural_accepted += 1; }
    // C18: translating the same program again gives the same theory
    if program.clone().tau_star() != tau || program.clone().mu() != mu || program.clone().natural() != nat {
        fails.push(Failure { property: "C18", input: text.into(), detail: "translating the same program twice gives different theories".into() });
    }
    if tau.formulas.len() != 1 || mu.formulas.len() != 1 || nat.as_ref().is_some_and(|n| n.formulas.len() != 1) {
        fails.push(Failure { property: "C01", input: text.into(), detail: "a program of one rule is not translated to one sentence".into() });
        return;
    }
    for f in tau.formulas.iter().chain(mu.formulas.iter()).chain(nat.iter().flat_map(|n| n.formulas.iter())) {
        let mut fv = Vec::new();
        crate::hteval::free_vars(f, &mut Vec::new(), &mut fv);
        if !fv.is_empty() {
            fails.push(Failure { property: "C01", input: text.into(), detail: format!("printed formula is not closed: {f}") });
            return;
        }
    }
    // evaluation order only (see hteval::cheapest_first)
    let tau = anthem::syntax_tree::fol::sigma_0::Theory { formulas: tau.formulas.iter().map(cheapest_first).collect() };
    let mu = anthem::syntax_tree::fol::sigma_0::Theory { formulas: mu.formulas.iter().map(cheapest_first).collect() };
    let nat = nat.map(|n| anthem::syntax_tree::fol::sigma_0::Theory { formulas: n.formulas.iter().map(cheapest_first).collect() });
    let seed = text.bytes().fold(0xcbf29ce484222325u64, |h, b| (h ^ b as u64).wrapping_mul(0x100000001b3));
    let interps: Vec<Ht> = sample_interpretations(&universe(&rule), n_interp, seed);
    let (mut f_tau, mut f_nat, mut f_mu) = (false, false, false);
    for m in &interps {
        stats.evaluations += 1;
        let reference = aspsem::rule_sat(&rule, m, &values);
        let t = ht_sat(&tau.formulas[0], &dom, m);
        if t != reference.is_ok() && !f_tau {
            f_tau = true;
            fails.push(Failure { property: "C01", input: text.into(), detail: format!(
                "tau* sentence `{}` is {} in <{}> but the rule is {}{}", tau.formulas[0], t, m.show(), if reference.is_ok() { "satisfied" } else { "violated" },
                match &reference { Err(s) => format!(" (violated instance: {s:?})"), Ok(()) => String::new() }) });
        }
        if let Some(n) = &nat {
            let v = ht_sat(&n.formulas[0], &dom, m);
            if v != t && !f_nat {
                f_nat = true;
                fails.push(Failure { property: "C08", input: text.into(), detail: format!("natural sentence `{}` is {} but the tau* sentence `{}` is {} in <{}>", n.formulas[0], v, tau.formulas[0], t, m.show()) });
            }
        }
        let v = ht_sat(&mu.formulas[0], &dom, m);
        if v != t && !f_mu {
            f_mu = true;
            fails.push(Failure { property: "C08", input: text.into(), detail: format!("mu sentence `{}` is {} but the tau* sentence `{}` is {} in <{}>", mu.formulas[0], v, tau.formulas[0], t, m.show()) });
        }
    }
}

/// programs of two rules: the global variables are chosen for the whole program
pub fn check_program(text: &str, n_interp: usize, stats: &mut Stats, fails: &mut Vec<Failure>) {
    let program = match asp::Program::from_str(text) { Ok(p) => p, Err(e) => { fails.push(Failure { property: "harness", input: text.into(), detail: format!("corpus program does not parse: {e}") }); return; } };
    let tau = program.clone().tau_star();
    let mu = program.clone().mu();
    if tau.formulas.len() != program.rules.len() || mu.formulas.len() != program.rules.len() {
        fails.push(Failure { property: "C01", input: text.into(), detail: "number of sentences differs from the number of rules".into() });
        return;
    }
    for (i, rule) in program.rules.iter().enumerate() {
        if !is_guarded(rule) { fails.push(Failure { property: "harness", input: text.into(), detail: "corpus rule is not guarded".into() }); return; }
        let vars: Vec<String> = crate::own::rule_vars(&rule);
        let mut bound = 2i128;
        for t in rule_terms(rule) { subterm_bound(&t, &vars, &mut bound); }
        let l = bound + 2;
        let dom = Domain::new(-l, l, &["a", "b"]);
        let values = dom.of(crate::dom::Sort::General);
        let seed = text.bytes().fold(0xcbf29ce484222325u64 + i as u64, |h, b| (h ^ b as u64).wrapping_mul(0x100000001b3));
        stats.rules += 1;
        for m in &sample_interpretations(&universe(rule), n_interp, seed) {
            stats.evaluations += 1;
            let reference = aspsem::rule_sat(rule, m, &values).is_ok();
            for (what, prop, th) in [("tau*", "C01", &tau), ("mu", "C08", &mu)] {
                let mut fv = Vec::new();
                crate::hteval::free_vars(&th.formulas[i], &mut Vec::new(), &mut fv);
                if !fv.is_empty() {
                    fails.push(Failure { property: prop, input: text.into(), detail: format!("{what} sentence {i} is not closed: {}", th.formulas[i]) });
                    return;
                }
                let v = ht_sat(&th.formulas[i], &dom, m);
                if v != reference {
                    fails.push(Failure { property: prop, input: text.into(), detail: format!("{what} sentence {i} `{}` is {} in <{}> but rule `{}` is {}", th.formulas[i], v, m.show(), rule, if reference { "satisfied" } else { "violated" }) });
                    return;
                }
            }
        }
    }
}

pub fn program_corpus() -> Vec<String> {
    let mut out = Vec::new();
    for (a, b) in [("V1", "V2"), ("V2", "X"), ("V1", "V3"), ("X", "V10"), ("V", "V1"), ("V01", "V1")] {
        out.push(format!("p({a}+1) :- q({a}). r({b}, 1..{b}) :- q({b}), not p({b})."));
        out.push(format!("p({a}, {b}) :- q({a}, {b}). {{r(1..2)}} :- q({a}, {a})."));
        out.push(format!("p(1..2, {a}) :- q({a}). p({b}, {b}) :- q({b}), {b} != 1."));
    }
    out
}

/// The reading of a term that is written without parentheses, stated independently of the parser: unary minus binds tightest, then
/// `*`, `/`, `\\` (left to right), then `+`, `-` (left to right), then `..`. Each pair must parse to the same rule; otherwise the
/// translators (and the reference semantics of this harness, which sees the parsed tree) are given another program than the text says.
pub fn check_precedence(fails: &mut Vec<Failure>) {
    let pairs: &[(&str, &str)] = &[
        ("-X/2", "(-X)/2"), ("-X\\2", "(-X)\\2"), ("-X*2", "(-X)*2"), ("-(X+1)/2", "(-(X+1))/2"), ("- X / Y", "(-X)/Y"), ("--X/2", "(-(-X))/2"), ("-X+1", "(-X)+1"), ("-X..Y", "(-X)..Y"), ("1-X/2", "1-(X/2)"),
        ("1+2*3", "1+(2*3)"), ("1*2+3", "(1*2)+3"), ("1-2-3", "(1-2)-3"), ("8/2/2", "(8/2)/2"), ("8/2*2", "(8/2)*2"), ("7\\4\\2", "(7\\4)\\2"), ("7*2\\4", "(7*2)\\4"), ("7\\2*4", "(7\\2)*4"), ("1-2+3", "(1-2)+3"),
        ("1..2+3", "1..(2+3)"), ("1+2..3", "(1+2)..3"), ("1..X*2", "1..(X*2)"), ("X-1..X+1", "(X-1)..(X+1)"), ("1+X/2-1", "(1+(X/2))-1"), ("-1-X", "(-1)-X"), ("X - -1", "X-(-1)"), ("2*-X", "2*(-X)"), ("X/-2", "X/(-2)"),
    ];
    for (a, b) in pairs {
        for (l, r) in [(format!("p({a}) :- q(X), q(Y)."), format!("p({b}) :- q(X), q(Y).")), (format!("p :- q(X), q(Y), {a} = X."), format!("p :- q(X), q(Y), {b} = X.")), (format!("p :- q(X), q(Y), not r({a})."), format!("p :- q(X), q(Y), not r({b})."))] {
            match (asp::Program::from_str(&l), asp::Program::from_str(&r)) {
                (Ok(x), Ok(y)) => if x != y { for prop in ["C01", "C08", "C14"] { fails.push(Failure { property: prop, input: l.clone(), detail: format!("is read as `{x}`, not as `{y}`: the text without parentheses must be the program `{r}`") }); } },
                _ => fails.push(Failure { property: "harness", input: l.clone(), detail: "precedence pair does not parse".into() }),
            }
        }
    }
}
