//! Bounded stand-in for C17: `Formula::substitute` (public API of the real crate) on a corpus of formulas, variables and
//! sort-compatible terms: the result has, in every sampled interpretation and assignment, the truth value the original has
//! when the variable is assigned the term's value; its free variables are those of the original minus the variable plus
//! those of the term (when the variable occurs free).
use crate::dom::{Domain, Ht, Val, sample_interpretations};
use crate::hteval::{Env, Eval, World, cheapest_first, free_vars, sort_of};
use crate::simp::{corpus, exactly_evaluable};
use crate::trans::Failure;
use anthem::syntax_tree::fol::sigma_0 as fol;
use std::str::FromStr;

fn universe() -> Vec<crate::dom::GroundAtom> {
    let inner = [Val::Int(0), Val::Int(1), Val::Sym("a".into())];
    let mut u: Vec<crate::dom::GroundAtom> = vec![("p".into(), vec![]), ("q".into(), vec![]), ("r".into(), vec![])];
    for v in &inner { for p in ["p", "q", "r"] { u.push((p.into(), vec![v.clone()])); } }
    for v in &inner { for w in &inner { u.push(("q".into(), vec![v.clone(), w.clone()])); u.push(("p".into(), vec![v.clone(), w.clone()])); } }
    u
}

pub fn check(deep: bool, pairs: &mut usize, skipped: &mut usize, fails: &mut Vec<Failure>) {
    let gen_terms = ["Y", "X", "Z", "Z1", "W", "1", "a", "#inf", "N$i", "N$i + 1", "M$i", "I$i * 2", "Y$i"];
    let int_terms = ["M$i", "N$i", "I$i", "N$i + 1", "2", "M$i * I$i", "X$i", "-N$i", "M$i * M1$i", "I$i + I1$i", "N1$i - N$i"];
    let vars: Vec<(fol::Variable, &[&str])> = vec![
        (fol::Variable { name: "X".into(), sort: fol::Sort::General }, &gen_terms),
        (fol::Variable { name: "Y".into(), sort: fol::Sort::General }, &gen_terms),
        (fol::Variable { name: "N".into(), sort: fol::Sort::Integer }, &int_terms),
        (fol::Variable { name: "Z".into(), sort: fol::Sort::General }, &gen_terms),
        // substituted variables named like the first fresh-name candidates
        (fol::Variable { name: "Y1".into(), sort: fol::Sort::General }, &gen_terms),
        (fol::Variable { name: "Z1".into(), sort: fol::Sort::General }, &gen_terms),
        (fol::Variable { name: "M1".into(), sort: fol::Sort::Integer }, &int_terms),
    ];
    let mut formulas: Vec<(String, fol::Formula)> = Vec::new();
    for t in corpus(deep) { if let Ok(f) = fol::Formula::from_str(&t) { if crate::simp::quantified_variables(&f) <= 12 && (exactly_evaluable(&f) || crate::simp::pure_small(&f)) { formulas.push((t, f)); } } }
    // formulas in which a quantifier binds a name that also occurs in some substituted term
    let hand_written_from = formulas.len();
    for t in ["exists Z (Z = X and p(Z))", "forall Y (q(Y) -> q(X, Y))", "exists N$i (N$i = X and p(N$i))", "exists X (p(X) and q(X, Y))", "exists Z (p(Z) and exists Z1 (Z1 = X and q(Z, Z1)))", "forall M$i (p(M$i) -> q(N$i, M$i))",
              "exists I$i (I$i = N$i + 1 and p(I$i))", "exists Y (p(Y) and Y = X) and q(Y)", "p(X) and exists X (q(X) and q(X, Y))", "exists X$i (p(X$i) and q(X, X$i))", "exists N (p(N) and q(N, N$i))", "forall W (q(W, X) -> exists X (p(X) and q(X, W)))",
              // the substituted variable occurs free below a block of several binders, one of which is named in the term
              "exists Z Z1 (q(Z, Z1) and p(X))", "exists Z1 Z (q(Z, Z1) and p(X))", "forall Y Y1 (q(Y, Y1) -> p(X))", "exists Z Z1 Z2 (q(Z, Z1) and q(Z2, X))", "exists W W1 (q(W, W1) and q(X, Y))", "exists Y Y1 (q(Y, Y1) and q(X, Z))",
              "exists M$i M1$i (q(M$i, M1$i) and p(N$i))", "forall I$i I1$i (q(I$i, I1$i) -> q(N$i, I$i))", "exists Y Y2 Y1 (q(Y, Y1) and q(Y2, X))", "forall X X1 (q(X, X1) -> q(Y, Z))", "exists Z (p(Z) and exists Z1 Z2 (q(Z1, Z2) and q(Z, Y)))",
              // the substituted variable is the first fresh-name candidate of a binder that has to be renamed, and does not occur below it
              "exists Y (p(Y))", "forall Z (q(Z) -> p(Z))", "exists Y (p(Y)) and p(Y1)", "exists Z (q(Z, X)) or p(Z1)", "forall M$i (p(M$i) -> q(M$i, N$i))", "exists Y (p(Y) and exists Y2 (q(Y, Y2)))", "exists Z Y (q(Z, Y))", "forall Y (p(Y) -> exists Z (q(Y, Z) and p(X)))"] {
        if let Ok(f) = fol::Formula::from_str(t) { formulas.push((t.to_string(), f)); }
    }
    let dom = Domain::new(-3, 4, &["a", "b"]);
    let uni = universe();
    let n_interp = if deep { 24 } else { 8 };
    let work: Vec<(usize, usize, usize)> = { let mut w = Vec::new(); for fi in 0..formulas.len() { for vi in 0..vars.len() { for ti in 0..vars[vi].1.len() { if (deep && (fi + vi + ti) % 3 == 0) || (fi + vi * 3 + ti) % 5 == 0 || fi >= hand_written_from { w.push((fi, vi, ti)); } } } } w };
    let results: Vec<Option<Failure>> = crate::par_map(&work, |(fi, vi, ti)| {
        let (src, f) = &formulas[*fi];
        let (var, terms) = &vars[*vi];
        let tt = terms[*ti];
        let term = match fol::GeneralTerm::from_str(tt) { Ok(t) => t, Err(_) => return Some(Failure { property: "harness", input: tt.to_string(), detail: "corpus term does not parse".into() }) };
        if var.sort == fol::Sort::Integer && !matches!(term, fol::GeneralTerm::IntegerTerm(_)) { return None; }
        let what = format!("({src})[{var} := {tt}]");
        let result = match std::panic::catch_unwind(|| f.clone().substitute(var.clone(), term.clone())) { Ok(r) => r, Err(_) => return Some(Failure { property: "C17", input: what, detail: "substitute panicked on a sort-compatible term".into() }) };
        let (mut fv_f, mut fv_r, mut fv_t) = (Vec::new(), Vec::new(), Vec::new());
        free_vars(f, &mut Vec::new(), &mut fv_f);
        free_vars(&result, &mut Vec::new(), &mut fv_r);
        let tf = fol::Formula::AtomicFormula(fol::AtomicFormula::Comparison(fol::Comparison { term: term.clone(), guards: vec![] }));
        free_vars(&tf, &mut Vec::new(), &mut fv_t);
        let key = (var.name.clone(), var.sort);
        let occurs = fv_f.contains(&key);
        let mut want: Vec<(String, fol::Sort)> = fv_f.iter().filter(|v| **v != key).cloned().collect();
        if occurs { for v in &fv_t { if !want.contains(v) { want.push(v.clone()); } } }
        let (mut a, mut b) = (want.clone(), fv_r.clone());
        a.sort(); b.sort();
        if a != b { return Some(Failure { property: "C17", input: what, detail: format!("result `{result}` has free variables {:?}, expected {:?}", b, a) }); }
        let seed0 = what.bytes().fold(0xcbf29ce484222325u64, |h, b| (h ^ b as u64).wrapping_mul(0x100000001b3));
        // interpretations with co-finite extents (pure.rs), for formulas and terms without arithmetic and order comparisons
        let pure = crate::pure::is_pure(f) && crate::pure::is_pure(&result) && crate::pure::pure_term(&term) && crate::pure::variable_count(f).max(crate::pure::variable_count(&result)) <= 3;
        if pure {
            if let Some(d) = crate::pure::first_subst_difference(f, &result, var, &term, if deep { 16 } else { 6 }, seed0) { return Some(Failure { property: "C17", input: what, detail: d }); }
        }
        if !exactly_evaluable(&result) || !exactly_evaluable(f) { return if pure { None } else { Some(Failure { property: "skip", input: String::new(), detail: String::new() }) }; }
        let (ef, er) = (cheapest_first(f), cheapest_first(&result));
        // assignments of all free variables of formula and term
        let mut all = fv_f.clone();
        for v in &fv_t { if !all.contains(v) { all.push(v.clone()); } }
        let mut envs = vec![Env::default()];
        for (n, s) in &all {
            let vals: Vec<Val> = match s { fol::Sort::General => vec![Val::Int(0), Val::Int(1), Val::Sym("a".into())], fol::Sort::Integer => vec![Val::Int(0), Val::Int(1), Val::Int(-1)], fol::Sort::Symbol => vec![Val::Sym("a".into())] };
            let mut next = Vec::new();
            for e in &envs { for v in &vals { let mut e2 = e.clone(); e2.push(n, sort_of(*s), v.clone()); next.push(e2); } }
            envs = next;
            if envs.len() > 120 { envs.truncate(120); }
        }
        let seed = what.bytes().fold(0xcbf29ce484222325u64, |h, b| (h ^ b as u64).wrapping_mul(0x100000001b3));
        for m in sample_interpretations(&uni, n_interp, seed) {
            let ev = Eval { dom: &dom, ht: &m };
            for env in &envs {
                let tv = match ev.gen_term(&term, env) { Some(v) => v, None => continue };
                if !crate::hteval::val_has_sort(&tv, sort_of(var.sort)) { continue; }
                let mut e1 = env.clone();
                e1.push(&var.name, sort_of(var.sort), tv);
                let mut e2 = env.clone();
                for w in [World::Here, World::There] {
                    let x = ev.sat(&ef, &mut e1, w);
                    let y = ev.sat(&er, &mut e2, w);
                    if x != y { return Some(Failure { property: "C17", input: what, detail: format!("result `{result}` is {y} but the formula with {var} assigned the value of the term is {x} at world {w:?} of <{}> under {:?}", m.show(), env.0) }); }
                }
            }
        }
        None
    });
    for r in results.into_iter().flatten() { if r.property == "skip" { *skipped += 1; } else { fails.push(r); } }
    *pairs = work.len();
    let _ = Ht { here: Default::default(), there: Default::default(), consts: Default::default() };
}
