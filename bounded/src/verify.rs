//! Bounded stand-in for the strong-equivalence pipeline (C03, C19, C12, C09): `anthem verify --equivalence strong
//! --no-proof-search --save-problems` is run on pairs of small programs under the flag combinations; the emitted TFF
//! problems are read independently of anthem's formatter and evaluated in sampled interpretations of the h-/t-copies.
//!
//!   C03  an interpretation refutes a forward (backward) problem  iff  h ⊆ t and <H,T> satisfies the left (right) program
//!        but not the right (left) one — the right-hand side is computed by the reference semantics of the rules;
//!   C19  every flag combination is refuted by the same sampled interpretations;
//!   C12  preamble, symbol-order and transition axioms are true in every sampled standard interpretation with h ⊆ t;
//!   C09  each problem parses as TFF, declares what it uses exactly once and at the type used, has unique names and
//!        exactly one conjecture.
//! Programs are guarded (see trans.rs) and the window contains every value a subterm takes, so evaluation is exact.
use crate::aspsem;
use crate::dom::{Atoms, Domain, GroundAtom, Ht, Val, sample_interpretations};
use crate::hteval::{cheapest_first, cl_sat};
use crate::simp::run_anthem;
use crate::tff;
use crate::trans::{Failure, rule_window_bound};
use anthem::syntax_tree::asp::mini_gringo as asp;
use anthem::syntax_tree::fol::sigma_0 as fol;
use std::collections::{BTreeMap, BTreeSet, HashMap};
use std::str::FromStr;

pub struct ReadProblem {
    pub file: String,
    /// (name, role, formula read under the standard interpretation)
    pub formulas: Vec<(String, String, fol::Formula)>,
    pub wf_errors: Vec<String>,
    /// every formula could be read (a problem that is merely ill-formed, e.g. has no conjecture, is still evaluated)
    pub readable: bool,
    /// declared predicates (name, arity) other than the preamble's
    pub preds: Vec<(String, usize)>,
    /// the file as written
    pub text: String,
    /// declared symbolic constants
    pub symbols: Vec<String>,
}

static COUNTER: std::sync::atomic::AtomicUsize = std::sync::atomic::AtomicUsize::new(0);

pub fn scratch_dir() -> std::path::PathBuf {
    let n = COUNTER.fetch_add(1, std::sync::atomic::Ordering::SeqCst);
    let d = std::path::PathBuf::from(format!("/verif/build/bounded-tmp/{}-{}", std::process::id(), n));
    let _ = std::fs::remove_dir_all(&d);
    std::fs::create_dir_all(&d).unwrap();
    d
}

/// runs `anthem verify ... --no-proof-search --save-problems <dir>/out <files>`; returns (exit code, stderr, problems by file name)
pub fn run_verify(flags: &[&str], files: &[(&str, &str)]) -> Result<(i32, String, Vec<ReadProblem>), String> {
    let d = scratch_dir();
    let out = d.join("out");
    std::fs::create_dir_all(&out).unwrap();
    let mut args: Vec<String> = vec!["verify".into()];
    args.extend(flags.iter().map(|s| s.to_string()));
    args.extend(["--no-proof-search".to_string(), "--no-timing".to_string(), "--save-problems".to_string(), out.display().to_string()]);
    for (name, text) in files {
        let p = d.join(name);
        std::fs::write(&p, text).map_err(|e| e.to_string())?;
        args.push(p.display().to_string());
    }
    let argv: Vec<&str> = args.iter().map(|s| s.as_str()).collect();
    let (rc, _stdout, stderr) = crate::simp::run_anthem_within(&argv, None, 30)?;
    let mut names: Vec<String> = std::fs::read_dir(&out).map_err(|e| e.to_string())?.filter_map(|e| e.ok()).map(|e| e.file_name().to_string_lossy().into_owned()).collect();
    names.sort();
    let mut problems = Vec::new();
    for n in names {
        let text = std::fs::read_to_string(out.join(&n)).map_err(|e| e.to_string())?;
        problems.push(read_problem(&n, &text));
    }
    let _ = std::fs::remove_dir_all(&d);
    Ok((rc, stderr, problems))
}

/// like run_verify, returning the raw text of every problem file
pub fn run_verify_raw(flags: &[&str], files: &[(&str, &str)]) -> Result<Vec<(String, String)>, String> {
    let (_, _, problems) = run_verify(flags, files)?;
    Ok(problems.into_iter().map(|p| (p.file, p.text)).collect())
}

pub fn read_problem(file: &str, text: &str) -> ReadProblem {
    match tff::parse(text) {
        Err(e) => ReadProblem { file: file.into(), formulas: vec![], wf_errors: vec![format!("not valid TFF: {e}")], readable: false, preds: vec![], text: text.to_string(), symbols: vec![] },
        Ok(p) => {
            let (sig, mut errs) = p.check();
            let mut formulas = Vec::new();
            let mut readable = true;
            for e in &p.entries {
                if let Some(f) = &e.formula {
                    match sig.read(f, &mut Vec::new()) { Ok(g) => formulas.push((e.name.clone(), e.role.clone(), cheapest_first(&g))), Err(m) => { readable = false; errs.push(format!("{}: {m}", e.name)) } }
                }
            }
            let preds = p.entries.iter().filter_map(|e| match &e.decl { Some((n, tff::Decl::Pred(a))) if !n.starts_with("p__") => Some((n.clone(), a.len())), _ => None }).collect();
            let symbols = p.entries.iter().filter(|e| e.name.starts_with("type_symbol")).filter_map(|e| e.decl.as_ref().map(|d| d.0.clone())).collect();
            ReadProblem { file: file.into(), formulas, wf_errors: errs, readable, preds, text: text.to_string(), symbols }
        }
    }
}

pub fn family<'a>(ps: &'a [ReadProblem], prefix: &str) -> Vec<&'a ReadProblem> {
    let mut v: Vec<(usize, &ReadProblem)> = ps.iter().filter(|p| p.file.starts_with(prefix)).map(|p| {
        let digits: String = p.file.trim_end_matches(".p").chars().rev().take_while(|c| c.is_ascii_digit()).collect::<String>().chars().rev().collect();
        (digits.parse().unwrap_or(0), p)
    }).collect();
    v.sort_by_key(|x| x.0);
    v.into_iter().map(|x| x.1).collect()
}

/// C12: the symbol-order axioms form one chain p__less__(s1, s2), p__less__(s2, s3), ... over exactly the declared symbolic constants,
/// in the standard (byte-wise lexicographic) order; returns a complaint otherwise
pub fn symbol_chain_complaint(p: &ReadProblem) -> Option<String> {
    let mut links: Vec<(String, String)> = Vec::new();
    for (name, _, f) in &p.formulas {
        if !name.starts_with("symbol_order") { continue; }
        match f {
            fol::Formula::AtomicFormula(fol::AtomicFormula::Comparison(c)) if c.guards.len() == 1 && c.guards[0].relation == fol::Relation::Less => match (&c.term, &c.guards[0].term) {
                (fol::GeneralTerm::SymbolicTerm(fol::SymbolicTerm::Symbol(a)), fol::GeneralTerm::SymbolicTerm(fol::SymbolicTerm::Symbol(b))) => links.push((a.clone(), b.clone())),
                _ => return Some(format!("{name} does not compare two symbolic constants")),
            },
            _ => return Some(format!("{name} is not of the form p__less__(f__symbolic__(a), f__symbolic__(b))")),
        }
    }
    let mut want: Vec<String> = p.symbols.clone();
    // constants of sort symbol that the formulas use, declared or not (placeholders, which are declared as function constants, are no symbols)
    let placeholders: Vec<String> = p.text.lines().filter(|l| l.starts_with("tff(type_function_constant")).filter_map(|l| l.splitn(3, ", ").nth(2).map(|r| r.split(':').next().unwrap_or("").trim().to_string())).collect();
    let mut rest = p.text.as_str();
    while let Some(i) = rest.find("f__symbolic__(") {
        rest = &rest[i + "f__symbolic__(".len()..];
        let end = if rest.starts_with('\'') { rest[1..].find('\'').map(|j| j + 2) } else { rest.find(|c: char| !(c.is_ascii_alphanumeric() || c == '_')) };
        if let Some(e) = end {
            let w = &rest[..e];
            let name = w.trim_matches('\'').to_string();
            if rest[e..].starts_with(')') && !w.is_empty() && !w.chars().next().unwrap().is_ascii_uppercase() && !placeholders.iter().any(|q| q == w) && !want.contains(&name) { want.push(name); }
        }
    }
    want.sort();
    let expected: Vec<(String, String)> = want.windows(2).map(|w| (w[0].clone(), w[1].clone())).collect();
    let mut got = links.clone();
    got.sort();
    let mut exp = expected.clone();
    exp.sort();
    if got != exp { return Some(format!("the symbol-order axioms link {:?} but the declared constants {:?} need the chain {:?}", links, want, expected)); }
    None
}

pub fn is_preamble(name: &str) -> bool { name.ends_with("_ax") || name.starts_with("symbol_order") }

/// does the classical interpretation m refute the problem: every axiom true, the conjecture false
pub fn refutes(p: &ReadProblem, dom: &Domain, m: &Ht) -> bool {
    let mut conj_false = false;
    for (name, role, f) in &p.formulas {
        if is_preamble(name) { continue; }
        let v = cl_sat(f, dom, m);
        if role == "conjecture" { if !v { conj_false = true; } } else if !v { return false; }
    }
    conj_false
}

const PROP: &[&str] = &[
    "p :- q.", "p :- not not q.", "p :- q, not not q.", "p :- q. p :- q, r.", "p :- not q.", "p :- not q. q :- not p.", "{p}.", "p :- not not p.", "{p} :- q.",
    "p :- q. :- not p, q.", ":- p, not p.", "p. q :- p.", "p. q.", ":- p.", ":- not not p.", "p :- p.", "{p} :- not not q.", "p :- q. q :- p.", "p :- not p.", "q. p :- not not q.", "{p}. :- not p.",
    ":- not p.", ":- not p, not q.", "p :- not p. :- not p.", ":- not p. q :- p.", ":- not not p, not q.", "p :- not q. :- not q.",
];
const FO: &[&str] = &[
    "p(X) :- q(X).", "p(X) :- q(X), X = X.", "p(X+1) :- q(X).", "p(Y) :- q(X), Y = X+1.", "p(1..2).", "p(1). p(2).", "p(X) :- q(X), not not p(X).", "{p(X)} :- q(X).", "p(X) :- q(X), not r(X).",
    "p(X) :- q(X), X != a.", "p(a).", "p(X) :- X = a.", "p(X) :- q(X), X < 2.", "p(X) :- q(X), 0 < X. p(X) :- q(X), X < 1.", "p(X) :- q(X), not not q(X).", ":- q(X), not p(X).", "p(X) :- q(X). :- q(X), not p(X).",
    "p(X) :- q(X), X = 0..1.", "p(0) :- q(0). p(1) :- q(1).", "{p(X)} :- q(X), not not p(X).", "p(X/2) :- q(X).", "p(X) :- q(X), r(X). p(X) :- q(X), not r(X).", "p(1..X) :- q(X).", "p(X) :- q(Y), X = 1..Y.",
    "{p(X)} :- q(X), not r(X). r(X) :- q(X), not p(X).", ":- q(X), X > 0, not p(X). p(X) :- q(X).", "p(X) :- q(X), X != Y, q(Y).", "p(X) :- q(X), q(Y), X < Y.", "p(X*2) :- q(X). r(X) :- p(X), X > 1.", "p(X) :- q(X), not q(X+1).",
    "p(X) :- q(X), X = #inf. p(#sup).", "p(-X) :- q(X).", "p(X) :- q(X), not not r(X). {r(X)} :- q(X).", "p(X\\2) :- q(X).", "p(X) :- q(X), 1 <= X. p(X) :- q(X), X <= 0, X >= 0.", "p(X-1..X) :- q(X).",
];

/// programs without predicates (no transition axioms: problems without axioms), symbols whose order is not the order of
/// their numeric suffixes, a predicate of large arity
const SPECIAL: &[&str] = &[
    "", ":- 1 < 2. :- 2 > 3. :- 3 > 4.", ":- 1 > 2.", ":- 1 < 2.", ":- 2 > 3. :- 1 < 2.",
    "p(v9) :- q(v10). p(v10) :- q(b).", "p(v10) :- q(v9).", "p(a10) :- q(a9), q(a1).", "p(aa) :- q(aB), q(a_c), q(b).", "p(nodea) :- q(nodeA).", "p(nodeA) :- q(nodea), q(zZ), q(zz), q(z_z), q(z0), q(zA).",
    "p(X) :- q(X), X != aa, X < bb.", "p(cc) :- q(X), not r(X, dd), X = ee..ff.", "{p(X)} :- q(X), X >= zz. :- q(yy), not p(xx).",
    "_p(X) :- q(X), X != _c, X != d.", "_p(_c) :- not _q(_c). _q(X) :- _p(X), X = _d.", "p(X) :- _r(X, _c), not p(_c).",
    "w(X, X, X, X, X, X, X, X, X, Y) :- q(X), q(Y).", "w(X, X, X, X, X, X, X, X, Y, X) :- q(X), q(Y).", "{w(X, X, X, X, X, X, X, X, X, Y)} :- q(X), q(Y).",
];

/// variables named like the ones anthem invents, rules without a natural translation next to rules that have one, predicates whose
/// names begin with the letters the here-/there-copies are marked with
const NAMES: &[&str] = &[
    "p(X/2) :- q(V1), r(X).", "p(X/2) :- q(Y), r(X).", "p(X/2) :- q(V), r(X), not q(V1).", "p(V2/2) :- q(V1), r(V2).", "p(1..X) :- q(X), r(V1).", "p(1..X) :- q(X), r(Z).", "{p(X/2)} :- q(V1), not r(V1), q(X).",
    "p(X) :- q(I), X = I/2, r(V1).", "p(V1) :- q(V1). r(X/2) :- q(X), p(V1).", "p(X\\2) :- q(X1), r(X), X1 > 0.",
    "hq(X) :- q(X).", "q(X) :- hq(X).", "hq(X) :- q(X), not tq(X). tq(X) :- r(X).", "q(X) :- r(X), not tq(X). tq(X) :- r(X), not hq(X).", "hq(X) :- q(X). q(X) :- tq(X), not hq(X).", "{hq(X)} :- q(X). tq(X) :- hq(X/2), q(X).",
    "hhq(X) :- hq(X), not q(X). thq(X) :- q(X).", "hq(X) :- q(X), not thq(X).",
];

/// the same rule twice (literally, or after simplification) on one side
const DUP: &[&str] = &["p.", "p. q. q.", "q :- p.", "q :- p. r :- q. r :- q, q.", "q :- p. q :- p.", "p. p. q :- p.", "r :- q. r :- q, 1 = 1. q :- p.", "{p}. {p}. q :- not p. q :- not p.", ":- p. :- p. q.", "q. :- p, p."];

/// the same for propositional programs
const NAMESP: &[&str] = &["hp :- p.", "p :- hp.", "hp :- not p. tp :- p.", "p :- not tp. tp :- not hp.", "hp :- p, not tp.", "hhp :- hp, not p. thp :- p.", "{hp} :- p. tp :- hp, not not p.", "p :- thp. thp :- not htp. htp :- not p."];

const FLAGS: &[&[&str]] = &[
    &[], &["--decomposition", "independent"], &["--no-simplify"], &["--no-eq-break"], &["--no-simplify", "--no-eq-break"], &["--decomposition", "independent", "--no-simplify"],
    &["--decomposition", "independent", "--no-eq-break"], &["--decomposition", "independent", "--no-simplify", "--no-eq-break"],
    &["--formula-representation", "mu"], &["--formula-representation", "mu", "--decomposition", "independent", "--no-simplify"], &["--formula-representation", "mu", "--no-eq-break"],
    &["--direction", "forward"], &["--direction", "backward", "--no-simplify"], &["--direction", "backward", "--formula-representation", "mu"], &["--direction", "forward", "--decomposition", "independent", "--no-eq-break"],
];

pub struct VStats { pub pairs: usize, pub runs: usize, pub problems: usize, pub evaluations: usize }

fn program_sat(p: &asp::Program, m: &Ht, values: &[Val]) -> bool { p.rules.iter().all(|r| aspsem::rule_sat(r, m, values).is_ok()) }

fn universe(ps: &[&asp::Program]) -> Vec<GroundAtom> {
    let inner = [Val::Int(0), Val::Int(1), Val::Sym("a".into())];
    let mut preds = BTreeSet::new();
    for p in ps { preds.extend(crate::own::program_preds(p)); }
    let mut out = Vec::new();
    for (s, n) in preds {
        if n > 3 {
            // large arity: only tuples that are constant except for one position
            for v in &inner { for w in &inner { for pos in [n - 1, n - 2, 1] { let mut t = vec![v.clone(); n]; t[pos] = w.clone(); out.push((s.clone(), t)); } } }
            out.sort(); out.dedup();
            continue;
        }
        let mut idx = vec![0usize; n];
        'outer: loop {
            out.push((s.clone(), idx.iter().map(|i| inner[*i].clone()).collect()));
            let mut k = 0;
            loop {
                if k == n { break 'outer; }
                idx[k] += 1;
                if idx[k] < inner.len() { break; }
                idx[k] = 0;
                k += 1;
            }
        }
    }
    out
}

fn doubled(m: &Ht) -> Ht {
    let mut there = Atoms::new();
    for (p, a) in &m.here { there.insert((format!("h{p}"), a.clone())); }
    for (p, a) in &m.there { there.insert((format!("t{p}"), a.clone())); }
    Ht { here: there.clone(), there, consts: HashMap::new() }
}

pub fn check_pair(left: &str, right: &str, flag_sets: &[&[&str]], n_interp: usize, st: &mut VStats, fails: &mut Vec<Failure>) {
    let (pl, pr) = match (asp::Program::from_str(left), asp::Program::from_str(right)) { (Ok(a), Ok(b)) => (a, b), _ => { fails.push(Failure { property: "harness", input: format!("{left} | {right}"), detail: "corpus program does not parse".into() }); return; } };
    let mut bound = 2i128;
    for r in pl.rules.iter().chain(pr.rules.iter()) { bound = bound.max(rule_window_bound(r)); }
    let dom = Domain::new(-(bound + 2), bound + 2, &["a", "b"]);
    let values = dom.of(crate::dom::Sort::General);
    let seed = format!("{left}|{right}").bytes().fold(0xcbf29ce484222325u64, |h, b| (h ^ b as u64).wrapping_mul(0x100000001b3));
    let uni = universe(&[&pl, &pr]);
    let mut samples = sample_interpretations(&uni, n_interp, seed);
    // a few interpretations in which the h-extent is not included in the t-extent
    let extra: Vec<Ht> = samples.iter().take(4).filter_map(|m| uni.iter().find(|a| !m.there.contains(*a)).map(|a| { let mut h = m.here.clone(); h.insert(a.clone()); Ht { here: h, there: m.there.clone(), consts: HashMap::new() } })).collect();
    samples.extend(extra);
    st.pairs += 1;
    let input = format!("left `{left}` right `{right}`");
    // expected refutation per interpretation and direction
    let expected: Vec<(bool, bool)> = samples.iter().map(|m| {
        let ht = m.here.is_subset(&m.there);
        if !ht { return (false, false); }
        let (l, r) = (program_sat(&pl, m, &values), program_sat(&pr, m, &values));
        (l && !r, r && !l)
    }).collect();
    let mut per_flags: BTreeMap<String, Vec<(bool, bool)>> = BTreeMap::new();
    for flags in flag_sets {
        st.runs += 1;
        let mut all: Vec<&str> = vec!["--equivalence", "strong"];
        all.extend(flags.iter());
        let what = format!("anthem verify {} {input}", all.join(" "));
        let (rc, err, problems) = match run_verify(&all, &[("a.lp", left), ("b.lp", right)]) { Ok(x) => x, Err(e) => { fails.push(Failure { property: "harness", input: what, detail: e }); return; } };
        if rc == crate::simp::TIMED_OUT { fails.push(Failure { property: "C18", input: what.clone(), detail: "anthem verify does not end (no result after 30 s; the process was killed)".into() }); }
        if rc != 0 {
            fails.push(Failure { property: "C03", input: what, detail: format!("exit status {rc}, {} problems: {}", problems.len(), err.lines().take(3).collect::<Vec<_>>().join(" / ")) });
            continue;
        }
        st.problems += problems.len();
        if flags.is_empty() {
            // C18: a second process writes byte-identical problems
            if let Ok((_, _, again)) = run_verify(&all, &[("a.lp", left), ("b.lp", right)]) {
                let (x, y): (Vec<(&String, &String)>, Vec<(&String, &String)>) = (problems.iter().map(|p| (&p.file, &p.text)).collect(), again.iter().map(|p| (&p.file, &p.text)).collect());
                if x != y { fails.push(Failure { property: "C18", input: what.clone(), detail: "two runs on the same input wrote different problem files".into() }); }
            }
        }
        for p in &problems {
            for e in &p.wf_errors { fails.push(Failure { property: "C09", input: what.clone(), detail: format!("{}: {e}", p.file) }); }
            // C12: the axioms anthem adds hold in the standard interpretation
            let empty = Ht { here: Atoms::new(), there: Atoms::new(), consts: HashMap::new() };
            if let Some(m) = symbol_chain_complaint(p) { fails.push(Failure { property: "C12", input: what.clone(), detail: format!("{}: {m}", p.file) }); }
            for (name, role, f) in &p.formulas {
                if is_preamble(name) && (role != "axiom" || !cl_sat(f, &dom, &empty)) { fails.push(Failure { property: "C12", input: what.clone(), detail: format!("{}: axiom {name} is false in the standard interpretation", p.file) }); }
            }
        }
        if problems.iter().any(|p| !p.readable) { continue; }
        let (fw, bw) = (family(&problems, "forward"), family(&problems, "backward"));
        // the direction of a problem is read off its file name; if the naming scheme is not recognised the harness cannot judge
        if fw.len() + bw.len() != problems.len() { fails.push(Failure { property: "harness", input: what.clone(), detail: format!("problem files are not named forward*/backward*: {:?}", problems.iter().map(|p| p.file.clone()).collect::<Vec<_>>()) }); return; }
        let only_fw = flags.windows(2).any(|w| w[0] == "--direction" && w[1] == "forward");
        let only_bw = flags.windows(2).any(|w| w[0] == "--direction" && w[1] == "backward");
        if (only_fw && !bw.is_empty()) || (only_bw && !fw.is_empty()) { fails.push(Failure { property: "C03", input: what.clone(), detail: format!("{} forward and {} backward problems although one direction was asked for", fw.len(), bw.len()) }); }
        let mut got = Vec::new();
        for (k, m) in samples.iter().enumerate() {
            st.evaluations += 1;
            let cm = doubled(m);
            if m.here.is_subset(&m.there) {
                for p in &problems { for (name, _, f) in &p.formulas { if name.contains("transition_axiom") && !cl_sat(f, &dom, &cm) {
                    fails.push(Failure { property: "C12", input: what.clone(), detail: format!("{}: {name} is false although h ⊆ t in <{}>", p.file, m.show()) });
                } } }
            }
            let g = (fw.iter().any(|p| refutes(p, &dom, &cm)), bw.iter().any(|p| refutes(p, &dom, &cm)));
            // a direction that was not asked for has no problems: nothing is refuted there
            let want = (expected[k].0 && !only_bw, expected[k].1 && !only_fw);
            if g != want {
                fails.push(Failure { property: "C03", input: what.clone(), detail: format!(
                    "<{}>: forward problems refuted: {}, expected {}; backward problems refuted: {}, expected {} (expected = h ⊆ t and the one program satisfied, the other not)", m.show(), g.0, want.0, g.1, want.1) });
                got.push(g);
                break;
            }
            got.push(g);
        }
        if !only_fw && !only_bw { per_flags.insert(flags.join(" "), got); }
    }
    // C19: the families agree with one another
    let mut it = per_flags.iter();
    if let Some((f0, g0)) = it.next() {
        for (f, g) in it {
            let n = g0.len().min(g.len());
            if let Some(k) = (0..n).find(|k| g0[*k] != g[*k]) {
                fails.push(Failure { property: "C19", input: format!("anthem verify --equivalence strong {input}"), detail: format!("flags `{f0}` and `{f}` disagree on <{}>: (forward refuted, backward refuted) = {:?} vs {:?}", samples[k].show(), g0[k], g[k]) });
            }
        }
    }
}

pub fn pairs(deep: bool) -> Vec<(String, String, Vec<&'static [&'static str]>)> {
    let mut out = Vec::new();
    for group in [PROP, FO, SPECIAL, NAMES, NAMESP, DUP] {
        let n = group.len();
        for i in 0..n {
            let js: Vec<usize> = if deep { (0..n).collect() } else { vec![(i + 1) % n, (i + 5) % n] };
            for j in js {
                let k = i * 7 + j;
                let flags: Vec<&'static [&'static str]> = if deep && (i + j) % 3 == 0 { FLAGS.to_vec() } else { vec![FLAGS[0], FLAGS[1 + k % (FLAGS.len() - 1)], FLAGS[1 + (k / 3 + 4) % (FLAGS.len() - 1)]] };
                let mut flags = flags;
                if std::ptr::eq(group, NAMES) && !flags.iter().any(|f| f.contains(&"mu")) { flags.push(FLAGS[8]); }
                out.push((group[i].to_string(), group[j].to_string(), flags));
            }
        }
    }
    out
}
