//! Bounded stand-in for C10: `anthem verify` (with proof search) is run with a fake `vampire` first on PATH. The fake
//! records what it is given on stdin and answers according to a schedule; the harness then checks that every problem
//! written by --save-problems was handed over exactly once and byte-identically, and that success is reported exactly
//! when every answer was `SZS status Theorem`.
use crate::simp::anthem_bin;
use crate::trans::Failure;
use crate::verify::scratch_dir;
use std::collections::BTreeMap;
use std::process::{Command, Stdio};

const FAKE: &str = r#"#!/bin/bash
# fake prover: $FAKE_LOG = directory for the received problems, $FAKE_MODE = answer schedule
f=$(mktemp "$FAKE_LOG/in.XXXXXXXX")
cat > "$f"
answer() { echo "% Refutation found."; echo "% SZS status $1 for anthem_problem"; echo "% SZS output start"; }
case "$FAKE_MODE" in
  theorem) answer Theorem ;;
  none) echo "% no status today" ;;
  silent) exit 0 ;;
  silent1) exit 1 ;;
  blank) printf '  \n\n'; printf '\n' >&2 ;;
  killed) kill -9 $$ ;;
  stderronly) echo "% SZS status Theorem for anthem_problem" >&2 ;;
  silentunless:*) if grep -q "${FAKE_MODE#silentunless:}" "$f"; then answer Theorem; fi ;;
  crash) echo "Segmentation fault" >&2; exit 139 ;;
  multi:*) IFS=, read -ra ws <<< "${FAKE_MODE#multi:}"; for w in "${ws[@]}"; do echo "% SZS status $w for anthem_problem"; done ;;
  garbage) printf '\377\376\375 not utf-8\n' ;;
  garbageunless:*) if grep -q "${FAKE_MODE#garbageunless:}" "$f"; then answer Theorem; else printf '\377\376 not utf-8\n'; fi ;;
  status:*) answer "${FAKE_MODE#status:}" ;;
  unless:*) w="${FAKE_MODE#unless:}"; pat="${w%%=*}"; st="${w#*=}"; if grep -q "$pat" "$f"; then answer "$st"; else answer Theorem; fi ;;
  slowfirst) if grep -q "conjecture" "$f" && [ "$(ls "$FAKE_LOG" | wc -l)" -le 1 ]; then sleep 0.3; fi; answer Theorem ;;
esac
"#;

pub struct PStats { pub runs: usize, pub problems: usize }

fn run(mode: &str, instances: &str, files: &[(&str, &str)], flags: &[&str], with_fake: bool) -> Result<(i32, String, BTreeMap<String, String>, Vec<String>), String> { run_in(mode, instances, files, flags, with_fake, &[]) }

fn run_prefilled(mode: &str, instances: &str, files: &[(&str, &str)], flags: &[&str], prefill: &[(String, String)]) -> Result<(i32, String, BTreeMap<String, String>, Vec<String>), String> { run_in(mode, instances, files, flags, true, prefill) }

fn run_in(mode: &str, instances: &str, files: &[(&str, &str)], flags: &[&str], with_fake: bool, prefill: &[(String, String)]) -> Result<(i32, String, BTreeMap<String, String>, Vec<String>), String> {
    let d = scratch_dir();
    let (bin, log, out) = (d.join("bin"), d.join("log"), d.join("out"));
    for x in [&bin, &log, &out] { std::fs::create_dir_all(x).map_err(|e| e.to_string())?; }
    for (n, t) in prefill { std::fs::write(out.join(n), t).map_err(|e| e.to_string())?; }
    if with_fake {
        let v = bin.join("vampire");
        std::fs::write(&v, FAKE).map_err(|e| e.to_string())?;
        use std::os::unix::fs::PermissionsExt;
        std::fs::set_permissions(&v, std::fs::Permissions::from_mode(0o755)).map_err(|e| e.to_string())?;
    }
    let mut args: Vec<String> = vec!["verify".into()];
    args.extend(flags.iter().map(|s| s.to_string()));
    args.extend(["--no-timing".into(), "-n".into(), instances.into(), "-t".into(), "5".into(), "--save-problems".into(), out.display().to_string()]);
    for (n, t) in files { let p = d.join(n); std::fs::write(&p, t).map_err(|e| e.to_string())?; args.push(p.display().to_string()); }
    // PATH: only the fake's directory and the basics the fake script needs (so that a real vampire is never picked up)
    let path = format!("{}:/usr/bin:/bin", bin.display());
    let o = Command::new(anthem_bin()).args(&args).env("PATH", if with_fake { path } else { bin.display().to_string() }).env("FAKE_LOG", &log).env("FAKE_MODE", mode)
        .stdin(Stdio::null()).output().map_err(|e| e.to_string())?;
    let stdout = String::from_utf8_lossy(&o.stdout).into_owned();
    let mut saved = BTreeMap::new();
    for e in std::fs::read_dir(&out).map_err(|e| e.to_string())?.flatten() { saved.insert(e.file_name().to_string_lossy().into_owned(), std::fs::read_to_string(e.path()).unwrap_or_default()); }
    let mut received = Vec::new();
    for e in std::fs::read_dir(&log).map_err(|e| e.to_string())?.flatten() { received.push(std::fs::read_to_string(e.path()).unwrap_or_default()); }
    let _ = std::fs::remove_dir_all(&d);
    Ok((o.status.code().unwrap_or(-1), stdout, saved, received))
}

pub fn check(deep: bool, st: &mut PStats, fails: &mut Vec<Failure>) {
    let tasks: Vec<(&[&str], Vec<(&str, &str)>)> = vec![
        (&["--equivalence", "strong"], vec![("a.lp", "p :- q. r :- p."), ("b.lp", "p :- q. r :- q.")]),
        (&["--equivalence", "strong", "--decomposition", "independent"], vec![("a.lp", "p(X) :- q(X), not r(X). {r(X)} :- q(X)."), ("b.lp", "p(X) :- q(X), not r(X). r(X) :- q(X), not not r(X).")]),
        (&["--equivalence", "external"], vec![("a.lp", "p :- t. t :- q."), ("b.lp", "p :- q."), ("g.ug", "input: q/0. output: p/0.")]),
        (&["--equivalence", "external", "--direction", "backward"], vec![("b.lp", "p(X) :- q(X), not t(X). t(X) :- q(X), X = 0."), ("s.spec", "spec: forall X (p(X) -> q(X)). spec: forall X (q(X) and X != 0 -> p(X))."), ("g.ug", "input: q/1. output: p/1.")]),
    ];
    // (mode, every answer is Theorem)
    let mut modes: Vec<(String, bool)> = vec![
        ("theorem".into(), true), ("none".into(), false), ("crash".into(), false), ("slowfirst".into(), true), ("garbage".into(), false), ("garbageunless:, conjecture, ~".into(), false), ("garbageunless:_0_".into(), false),
        ("silent".into(), false), ("silent1".into(), false), ("blank".into(), false), ("killed".into(), false), ("stderronly".into(), false), ("silentunless:_0_".into(), false),
        ("unless:conjecture=CounterSatisfiable".into(), false), ("unless:nothing_matches_this=Timeout".into(), true),
    ];
    for s in ["CounterSatisfiable", "ContradictoryAxioms", "Satisfiable", "Timeout", "MemoryOut", "GaveUp", "Unknown", "Error", "EquivalentTheorem", "WeakerTheorem", "NoTheorem", "Theorem_", "theorem", "Unsatisfiable", "CounterTheorem", "User", "ResourceOut", "Inappropriate", "TheoremX"] {
        modes.push((format!("status:{s}"), false));
    }
    // several status lines in one run: a run that printed another status is not a proof, whatever else it printed
    for m in ["multi:Timeout,Theorem", "multi:GaveUp,Theorem", "multi:Banana,Theorem", "multi:CounterSatisfiable,Theorem,Theorem"] { modes.push((m.to_string(), false)); }
    // the last problem only: all earlier answers are Theorem
    modes.push(("unless:_1,=GaveUp".into(), false));
    for (ti, (flags, files)) in tasks.iter().enumerate() {
        if !deep && ti % 2 == 1 && false { continue; }
        for (mi, (mode, all_theorem)) in modes.iter().enumerate() {
            if !deep && mi >= 14 && (mi + ti) % 4 != 0 { continue; }
            for n in if deep { vec!["1", "3", "8"] } else { vec![["1", "3"][(mi + ti) % 2]] } {
                st.runs += 1;
                let what = format!("anthem verify {} -n {n} with a prover that answers `{mode}`: {}", flags.join(" "), files.iter().map(|(f, t)| format!("{f}=`{t}`")).collect::<Vec<_>>().join(" "));
                let (rc, stdout, saved, mut received) = match run(mode, n, files, flags, true) { Ok(x) => x, Err(e) => { fails.push(Failure { property: "harness", input: what, detail: e }); return; } };
                st.problems += saved.len();
                if saved.is_empty() { fails.push(Failure { property: "harness", input: what.clone(), detail: format!("no problems saved (exit {rc})") }); continue; }
                // `unless:_1,=` depends on the formula names; whether it hit is read off the saved problems
                let expect_success = if mode.starts_with("unless:") { let pat = mode["unless:".len()..].split('=').next().unwrap(); !saved.values().any(|t| t.contains(pat)) }
                    else if mode.starts_with("garbageunless:") { let pat = &mode["garbageunless:".len()..]; saved.values().all(|t| t.contains(pat)) }
                    else if mode.starts_with("silentunless:") { let pat = &mode["silentunless:".len()..]; saved.values().all(|t| t.contains(pat)) }
                    else { *all_theorem };
                let mut want: Vec<String> = saved.values().cloned().collect();
                want.sort(); received.sort();
                if want != received {
                    fails.push(Failure { property: "C10", input: what.clone(), detail: format!("{} problems were saved, the prover was started {} times; the multiset of texts it received differs from the saved files", want.len(), received.len()) });
                }
                let mut names: Vec<&String> = saved.keys().collect();
                names.dedup();
                let low = stdout.to_lowercase();
                let success = low.contains("success");
                let failure = low.contains("failure") || low.contains("unable to find");
                // the verdict is read off the final message; if its wording is not recognised the harness cannot judge (no alarm)
                if !success && !failure { fails.push(Failure { property: "harness", input: what.clone(), detail: format!("the output of verify mentions neither success nor failure (exit {rc}): {}", stdout.lines().last().unwrap_or("")) }); continue; }
                if success && failure { fails.push(Failure { property: "C10", input: what.clone(), detail: format!("both success and failure reported (exit {rc})") }); }
                if success != expect_success {
                    fails.push(Failure { property: "C10", input: what.clone(), detail: format!("anthem reports {} although {}", if success { "success" } else { "failure" }, if expect_success { "every prover run printed SZS status Theorem" } else { "not every prover run printed SZS status Theorem" }) });
                }
            }
        }
        // an output directory that already holds (longer) files of the same names: what is saved is still what the prover receives
        st.runs += 1;
        if let Ok((_, _, first, _)) = run("theorem", "2", files, flags, true) {
            let stale: Vec<(String, String)> = first.iter().map(|(n, t)| (n.clone(), format!("{t}{}", "% stale line of an earlier run\ntff(stale, axiom, $false).\n".repeat(40)))).collect();
            if let Ok((_, _, saved, mut received)) = run_prefilled("theorem", "2", files, flags, &stale) {
                let mut want: Vec<String> = saved.values().cloned().collect();
                want.sort(); received.sort();
                if want != received {
                    fails.push(Failure { property: "C10", input: format!("anthem verify {} --save-problems DIR where DIR already holds longer files named {:?}: {}", flags.join(" "), first.keys().collect::<Vec<_>>(), files.iter().map(|(f, t)| format!("{f}=`{t}`")).collect::<Vec<_>>().join(" ")), detail: "the files left in DIR are not the texts the prover received (an old file is not replaced completely)".into() });
                }
            }
        }
        // a prover that cannot be started
        st.runs += 1;
        if let Ok((rc, stdout, _, _)) = run("theorem", "2", files, flags, false) {
            if stdout.to_lowercase().contains("success") && !stdout.to_lowercase().contains("failure") { fails.push(Failure { property: "C10", input: format!("anthem verify {} without any prover on PATH", flags.join(" ")), detail: format!("success reported although no prover could be started (exit {rc})") }); }
        }
    }
}
