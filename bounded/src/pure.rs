//! Interpretations with co-finite extents, for formulas without arithmetic and without order comparisons ("pure" formulas).
//!
//! The other evaluator (hteval.rs) works with finite extents over the infinite standard domain; there `forall X p(X)` is false and
//! `exists X (p(X) -> q(X))` is true in every interpretation it can enumerate, so rewrites that move quantifiers are hardly tested by it.
//! Here an interpretation is given by the atoms over the inner values I = {0, 1, a} that hold, plus, for every predicate, one truth value
//! (per world) for all tuples with a component outside I. Such an interpretation is invariant under every permutation of the values
//! outside I, and a pure formula mentions no value outside I, so its truth value over the infinite domain is its truth value over
//! I plus as many outside values of each sort as the formula has variables (quantified or free): that finite evaluation is exact.
use crate::dom::{Atoms, Rng, Sort, Val};
use crate::hteval::{World, sort_of};
use anthem::syntax_tree::fol::sigma_0 as fol;
use std::collections::{BTreeSet, HashMap};

pub type Pred = (String, usize);

#[derive(Clone, Debug)]
pub struct CoInterp {
    pub here: Atoms,
    pub there: Atoms,
    /// truth value (here, there) of every tuple that has a component outside the inner values
    pub outside: HashMap<Pred, (bool, bool)>,
}

impl CoInterp {
    pub fn show(&self) -> String {
        let f = |a: &Atoms| a.iter().map(|(p, args)| if args.is_empty() { p.clone() } else { format!("{p}({})", args.iter().map(|v| v.to_string()).collect::<Vec<_>>().join(",")) }).collect::<Vec<_>>().join(", ");
        let mut d: Vec<String> = self.outside.iter().filter(|(_, v)| v.1).map(|((p, n), v)| format!("{p}/{n}: {}", if v.0 { "here and there" } else { "there only" })).collect();
        d.sort();
        format!("H={{{}}} T={{{}}}; tuples with a component outside {{0,1,a}} hold for: {}", f(&self.here), f(&self.there), if d.is_empty() { "no predicate".to_string() } else { d.join(", ") })
    }
    pub fn total(&self) -> CoInterp {
        CoInterp { here: self.there.clone(), there: self.there.clone(), outside: self.outside.iter().map(|(k, v)| (k.clone(), (v.1, v.1))).collect() }
    }
    /// the classical interpretation of the doubled vocabulary: hp has the extent of p here, tp the extent of p there
    pub fn doubled(&self) -> CoInterp {
        let mut there = Atoms::new();
        let mut outside = HashMap::new();
        for (p, a) in &self.here { there.insert((format!("h{p}"), a.clone())); }
        for (p, a) in &self.there { there.insert((format!("t{p}"), a.clone())); }
        for ((p, n), (h, t)) in &self.outside { outside.insert((format!("h{p}"), *n), (*h, *h)); outside.insert((format!("t{p}"), *n), (*t, *t)); }
        CoInterp { here: there.clone(), there, outside }
    }
}

pub fn inner() -> Vec<Val> { vec![Val::Int(0), Val::Int(1), Val::Sym("a".into())] }

fn inner_term(t: &fol::GeneralTerm) -> bool {
    match t {
        fol::GeneralTerm::Variable(_) => true,
        fol::GeneralTerm::IntegerTerm(fol::IntegerTerm::Variable(_)) | fol::GeneralTerm::SymbolicTerm(fol::SymbolicTerm::Variable(_)) => true,
        fol::GeneralTerm::IntegerTerm(fol::IntegerTerm::Numeral(n)) => *n == 0 || *n == 1,
        fol::GeneralTerm::SymbolicTerm(fol::SymbolicTerm::Symbol(s)) => s == "a",
        _ => false,
    }
}

/// no arithmetic, no order comparison, no placeholder, no constant outside the inner values
pub fn is_pure(f: &fol::Formula) -> bool {
    match f {
        fol::Formula::AtomicFormula(fol::AtomicFormula::Truth | fol::AtomicFormula::Falsity) => true,
        fol::Formula::AtomicFormula(fol::AtomicFormula::Atom(a)) => a.terms.iter().all(inner_term),
        fol::Formula::AtomicFormula(fol::AtomicFormula::Comparison(c)) => inner_term(&c.term) && c.guards.iter().all(|g| matches!(g.relation, fol::Relation::Equal | fol::Relation::NotEqual) && inner_term(&g.term)),
        fol::Formula::UnaryFormula { formula, .. } => is_pure(formula),
        fol::Formula::BinaryFormula { lhs, rhs, .. } => is_pure(lhs) && is_pure(rhs),
        fol::Formula::QuantifiedFormula { formula, .. } => is_pure(formula),
    }
}

pub fn variable_count(f: &fol::Formula) -> usize {
    let mut fv = Vec::new();
    crate::hteval::free_vars(f, &mut Vec::new(), &mut fv);
    fv.len() + crate::simp::quantified_variables(f)
}

pub fn predicates(f: &fol::Formula) -> BTreeSet<Pred> { f.predicates().into_iter().map(|p| (p.symbol, p.arity)).collect() }

pub struct PureEval<'a> { pub m: &'a CoInterp, pub ints: Vec<Val>, pub syms: Vec<Val> }

impl<'a> PureEval<'a> {
    /// k = number of values outside the inner ones that are needed of each sort
    pub fn new(m: &'a CoInterp, k: usize) -> Self {
        let mut ints = vec![Val::Int(0), Val::Int(1)];
        let mut syms = vec![Val::Sym("a".into())];
        for i in 0..k { ints.push(Val::Int(1000 + i as i128)); syms.push(Val::Sym(format!("zz{i}"))); }
        PureEval { m, ints, syms }
    }
    pub fn values(&self, s: Sort) -> Vec<Val> {
        match s { Sort::Integer => self.ints.clone(), Sort::Symbol => self.syms.clone(), Sort::General => self.ints.iter().chain(self.syms.iter()).cloned().collect() }
    }
    fn term(&self, t: &fol::GeneralTerm, env: &[(String, Sort, Val)]) -> Val {
        let look = |n: &str, s: Sort| env.iter().rev().find(|(m, z, _)| m == n && *z == s).map(|x| x.2.clone()).unwrap_or_else(|| panic!("unbound variable {n}"));
        match t {
            fol::GeneralTerm::Variable(v) => look(v, Sort::General),
            fol::GeneralTerm::IntegerTerm(fol::IntegerTerm::Variable(v)) => look(v, Sort::Integer),
            fol::GeneralTerm::SymbolicTerm(fol::SymbolicTerm::Variable(v)) => look(v, Sort::Symbol),
            fol::GeneralTerm::IntegerTerm(fol::IntegerTerm::Numeral(n)) => Val::Int(*n as i128),
            fol::GeneralTerm::SymbolicTerm(fol::SymbolicTerm::Symbol(s)) => Val::Sym(s.clone()),
            _ => panic!("not a pure term"),
        }
    }
    fn atom(&self, p: &str, vs: Vec<Val>, w: World) -> bool {
        let inn = inner();
        if vs.iter().all(|v| inn.contains(v)) {
            let key = (p.to_string(), vs);
            match w { World::Here => self.m.here.contains(&key), World::There => self.m.there.contains(&key) }
        } else {
            let d = self.m.outside.get(&(p.to_string(), vs.len())).cloned().unwrap_or((false, false));
            match w { World::Here => d.0, World::There => d.1 }
        }
    }
    pub fn sat(&self, f: &fol::Formula, env: &mut Vec<(String, Sort, Val)>, w: World) -> bool {
        match f {
            fol::Formula::AtomicFormula(fol::AtomicFormula::Truth) => true,
            fol::Formula::AtomicFormula(fol::AtomicFormula::Falsity) => false,
            fol::Formula::AtomicFormula(fol::AtomicFormula::Atom(a)) => { let vs = a.terms.iter().map(|t| self.term(t, env)).collect(); self.atom(&a.predicate_symbol, vs, w) }
            fol::Formula::AtomicFormula(fol::AtomicFormula::Comparison(c)) => {
                let mut l = self.term(&c.term, env);
                for g in &c.guards {
                    let r = self.term(&g.term, env);
                    let ok = match g.relation { fol::Relation::Equal => l == r, fol::Relation::NotEqual => l != r, _ => panic!("not a pure comparison") };
                    if !ok { return false; }
                    l = r;
                }
                true
            }
            fol::Formula::UnaryFormula { formula, .. } => match w { World::Here => !self.sat(formula, env, World::Here) && !self.sat(formula, env, World::There), World::There => !self.sat(formula, env, World::There) },
            fol::Formula::BinaryFormula { connective, lhs, rhs } => match connective {
                fol::BinaryConnective::Conjunction => self.sat(lhs, env, w) && self.sat(rhs, env, w),
                fol::BinaryConnective::Disjunction => self.sat(lhs, env, w) || self.sat(rhs, env, w),
                fol::BinaryConnective::Implication => self.imp(lhs, rhs, env, w),
                fol::BinaryConnective::ReverseImplication => self.imp(rhs, lhs, env, w),
                fol::BinaryConnective::Equivalence => self.imp(lhs, rhs, env, w) && self.imp(rhs, lhs, env, w),
            },
            fol::Formula::QuantifiedFormula { quantification, formula } => self.quant(matches!(quantification.quantifier, fol::Quantifier::Exists), &quantification.variables, formula, env, w),
        }
    }
    fn imp(&self, a: &fol::Formula, b: &fol::Formula, env: &mut Vec<(String, Sort, Val)>, w: World) -> bool {
        let there = !self.sat(a, env, World::There) || self.sat(b, env, World::There);
        match w { World::There => there, World::Here => there && (!self.sat(a, env, World::Here) || self.sat(b, env, World::Here)) }
    }
    fn quant(&self, exists: bool, vars: &[fol::Variable], body: &fol::Formula, env: &mut Vec<(String, Sort, Val)>, w: World) -> bool {
        if vars.is_empty() { return self.sat(body, env, w); }
        let s = sort_of(vars[0].sort);
        for v in self.values(s) {
            env.push((vars[0].name.clone(), s, v));
            let r = self.quant(exists, &vars[1..], body, env, w);
            env.pop();
            if r == exists { return exists; }
        }
        !exists
    }
}

/// a deterministic sample of co-finite interpretations (H included in T, also for the values outside) of the given predicates
pub fn sample(preds: &BTreeSet<Pred>, n: usize, seed: u64) -> Vec<CoInterp> {
    let seed = seed ^ crate::dom::run_seed().wrapping_mul(0x9E3779B97F4A7C15);
    let mut rng = Rng(seed | 1);
    let inn = inner();
    let mut atoms: Vec<(String, Vec<Val>)> = Vec::new();
    for (p, k) in preds {
        let mut idx = vec![0usize; *k];
        'o: loop {
            atoms.push((p.clone(), idx.iter().map(|i| inn[*i].clone()).collect()));
            let mut j = 0;
            loop { if j == *k { break 'o; } idx[j] += 1; if idx[j] < inn.len() { break; } idx[j] = 0; j += 1; }
        }
    }
    let mut out = Vec::new();
    for r in 0..n {
        let (mut here, mut there, mut outside) = (Atoms::new(), Atoms::new(), HashMap::new());
        // the first interpretations are the extreme ones; then random ones of varying density
        let dens = 1 + rng.below(4);
        for a in &atoms {
            let c = match r { 0 => 0, 1 => 2, 2 => 1, _ => { let x = rng.below(2 + dens); if x == 0 { 1 } else if x == 1 { 2 } else { 0 } } };
            if c >= 1 { there.insert(a.clone()); }
            if c == 2 { here.insert(a.clone()); }
        }
        for p in preds {
            let c = match r { 0 => 2, 1 => 0, 2 => 1, _ => rng.below(3) };
            outside.insert(p.clone(), (c == 2, c >= 1));
        }
        out.push(CoInterp { here, there, outside });
    }
    out
}

/// compares input and output of a translation that must preserve HT (or, with `classical`, classical) satisfaction; both must be pure
pub fn first_difference(fin: &fol::Formula, fout: &fol::Formula, classical: bool, n: usize, seed: u64) -> Option<String> {
    let k = variable_count(fin).max(variable_count(fout));
    let mut preds = predicates(fin);
    preds.extend(predicates(fout));
    let mut fv = Vec::new();
    crate::hteval::free_vars(fin, &mut Vec::new(), &mut fv);
    for m in sample(&preds, n, seed) {
        let m = if classical { m.total() } else { m };
        let ev = PureEval::new(&m, k);
        let mut envs: Vec<Vec<(String, Sort, Val)>> = vec![vec![]];
        for (name, s) in &fv {
            let s = sort_of(*s);
            let mut next = Vec::new();
            for e in &envs { for v in ev.values(s).into_iter().take(4) { let mut e2 = e.clone(); e2.push((name.clone(), s, v)); next.push(e2); } }
            envs = next;
            envs.truncate(64);
        }
        for env in envs.iter_mut() {
            for w in [World::Here, World::There] {
                let (a, b) = (ev.sat(fin, env, w), ev.sat(fout, env, w));
                if a != b { return Some(format!("input `{fin}` is {a} but output `{fout}` is {b} at world {w:?} of <{}> under {:?}", m.show(), env.iter().map(|(n, _, v)| format!("{n}={v}")).collect::<Vec<_>>())); }
            }
        }
    }
    None
}

/// C05: <H,T> satisfies F iff the doubled classical interpretation satisfies gamma(F)
pub fn first_gamma_difference(fin: &fol::Formula, fout: &fol::Formula, n: usize, seed: u64) -> Option<String> {
    let k = variable_count(fin).max(variable_count(fout));
    let preds = predicates(fin);
    let mut fv = Vec::new();
    crate::hteval::free_vars(fin, &mut Vec::new(), &mut fv);
    for m in sample(&preds, n, seed) {
        let cm = m.doubled();
        let (ev, cev) = (PureEval::new(&m, k), PureEval::new(&cm, k));
        let mut envs: Vec<Vec<(String, Sort, Val)>> = vec![vec![]];
        for (name, s) in &fv {
            let s = sort_of(*s);
            let mut next = Vec::new();
            for e in &envs { for v in ev.values(s).into_iter().take(4) { let mut e2 = e.clone(); e2.push((name.clone(), s, v)); next.push(e2); } }
            envs = next;
            envs.truncate(64);
        }
        for env in envs.iter_mut() {
            let (a, b) = (ev.sat(fin, env, World::Here), cev.sat(fout, env, World::There));
            if a != b { return Some(format!("<{}> {} `{fin}` but the classical interpretation with these h-/t-extents {} the gamma formula `{fout}` under {:?}", m.show(), if a { "satisfies" } else { "does not satisfy" }, if b { "satisfies" } else { "does not satisfy" }, env.iter().map(|(n, _, v)| format!("{n}={v}")).collect::<Vec<_>>())); }
        }
    }
    None
}

/// C17: the result of substituting `term` for `var` in `f` has the truth value of `f` with `var` assigned the value of `term`
pub fn first_subst_difference(f: &fol::Formula, result: &fol::Formula, var: &fol::Variable, term: &fol::GeneralTerm, n: usize, seed: u64) -> Option<String> {
    let k = variable_count(f).max(variable_count(result)) + 1;
    let mut preds = predicates(f);
    preds.extend(predicates(result));
    let mut fv = Vec::new();
    crate::hteval::free_vars(f, &mut Vec::new(), &mut fv);
    let tf = fol::Formula::AtomicFormula(fol::AtomicFormula::Comparison(fol::Comparison { term: term.clone(), guards: vec![] }));
    crate::hteval::free_vars(&tf, &mut Vec::new(), &mut fv);
    crate::hteval::free_vars(result, &mut Vec::new(), &mut fv);
    let vs = sort_of(var.sort);
    for m in sample(&preds, n, seed) {
        let ev = PureEval::new(&m, k);
        let mut envs: Vec<Vec<(String, Sort, Val)>> = vec![vec![]];
        for (name, s) in &fv {
            let s = sort_of(*s);
            let mut next = Vec::new();
            for e in &envs { for v in ev.values(s).into_iter().take(4) { let mut e2 = e.clone(); e2.push((name.clone(), s, v)); next.push(e2); } }
            envs = next;
            envs.truncate(64);
        }
        for env in envs.iter_mut() {
            let tv = ev.term(term, env);
            if !crate::hteval::val_has_sort(&tv, vs) { continue; }
            let mut e1 = env.clone();
            e1.push((var.name.clone(), vs, tv));
            for w in [World::Here, World::There] {
                let (a, b) = (ev.sat(f, &mut e1, w), ev.sat(result, env, w));
                if a != b { return Some(format!("result `{result}` is {b} but the formula with {var} assigned the value of the term is {a} at world {w:?} of <{}> under {:?}", m.show(), env.iter().map(|(n, _, v)| format!("{n}={v}")).collect::<Vec<_>>())); }
            }
        }
    }
    None
}

pub fn pure_term(t: &fol::GeneralTerm) -> bool { inner_term(t) }
