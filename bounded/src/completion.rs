//! Bounded stand-in for C04: `anthem translate --with completion` applied to the tau* theory of small tight programs; the
//! classical models of the completed theory — over EVERY interpretation of the program's predicates on the inner values —
//! must be exactly the stable models of the program (brute force, reference semantics); theories that are not completable
//! must be refused. (Completion with input predicates left open is exercised through `external`.)
use crate::aspsem;
use crate::dom::{Atoms, Domain, GroundAtom, Ht, Val};
use crate::hteval::{cheapest_first, cl_sat};
use crate::simp::{read_printed, run_anthem};
use crate::trans::Failure;
use anthem::syntax_tree::asp::mini_gringo as asp;
use anthem::translating::formula_representation::tau_star::TauStar as _;
use std::collections::{BTreeMap, BTreeSet, HashMap};
use std::str::FromStr;

const PROGRAMS: &[&str] = &[
    "p.", "p :- q.", "p :- not q.", "p :- not q. q :- not p.", "{p}.", "{p} :- q. q.", "p :- q. q.", "p :- not not p.", "p :- q, not r. q. {r}.", ":- p. {p}.", ":- not p. {p}.", "p. :- p.", "p :- q. p :- r. {q}. {r}.", "p :- t. {t}. :- t, not p.",
    "p(0). p(1).", "p(0..1).", "q(0). q(1). p(X) :- q(X).", "q(0). q(1). p(X) :- q(X), not r(X). r(1).", "q(0). q(1). {p(X)} :- q(X).", "q(0). q(1). p(X+1) :- q(X).", "q(1). p(X) :- q(X), X > 0.", "q(0). q(1). p(X) :- q(X), X != 1.",
    "q(0). q(1). p(X) :- q(X), not not p(X).", "q(0). q(1). :- q(X), not p(X). {p(X)} :- q(X).", "q(0). {q(1)}. p :- q(1).", "q(1). p(X) :- X = 0..1, q(1).", "q(0). q(1). p(1 - X) :- q(X).", "q(0). q(1). r(X) :- q(X), not p(X). {p(0)}.",
    "q(0). q(2). p(X/2) :- q(X).", "q(a). q(1). p(X) :- q(X), X < a.", "p(X) :- q(X).", "p(X) :- q(X), not r(X).", "{p(X)} :- q(X).", "q(0). p(X) :- q(X), t. {t}.", "q(0, 1). p(X) :- q(X, Y).", "q(0, 1). q(1, 1). p(Y) :- q(X, Y), X != Y.",
    // propositional heads with variables in the body
    "q(a). p :- q(X).", "q(0). q(1). r(1). p :- q(X), not r(X).", "q(0). {p} :- q(X).", "q(0, 1). p :- q(X, Y), X != Y. r :- q(X, X).", "q(1). p :- q(X), X > 0. :- q(X), not p.", "{q(0)}. {q(1)}. p :- q(X), not q(X + 1).",
    // variables named like the head variables the translation introduces
    "q(0). q(1). p(V1) :- q(V1).", "q(1). q(a). p(V1) :- q(V1), not r(V1).", "q(0). p(V2, V1) :- q(V1), q(V2).", "q(0). q(1). {p(V1)} :- q(V1), V1 != V.  r(V) :- q(V).", "q(1). p(V3) :- q(V1), V3 = V1 + 1.",
    // one symbol at two arities: one defined by rules, the other only used
    "q :- not p. p(1).", "p(a). q(X) :- p(X), not p(X, X).", "p :- not q(0). q(1). q :- p.", "p(0). p(0, 1) :- p(0), not p.", "{q(0)}. p :- q(0), not q.", "r(0). r(1). p(X) :- r(X), not r. q :- r(0, 0).",
];

const NOT_COMPLETABLE: &[&str] = &[
    "forall X (q(X) -> p(X, X)).", "q(1) -> p(1).", "forall X (q(X) -> p(1)).", "forall X (q(X) -> p(Y)).", "forall X (q(X) -> p(X)). forall Y (r(Y) -> p(Y)).", "p <-> q.", "forall X (p(X) or q(X)).", "forall X (q(X) -> p(X) and r(X)).",
    "forall X (q(X) -> p(X)). forall X Y (r(X, Y) -> p(Y)).", "forall X (q(X, Y) -> p(X)).", "exists X (q(X) -> p(X)).", "forall X (q(X) -> not p(X)).",
    // a head argument that is not a variable although the head mentions as many variables as it has arguments
    "forall N$i (p(N$i + 1) <- q(N$i)).", "forall N$i (q(N$i) -> p(N$i * 0)).", "forall I$i J$i (p(I$i * J$i, 1) <- q(I$i, J$i)).", "forall X$i Y$i (s(X$i) and s(Y$i) -> r(X$i + Y$i, a)).", "forall N$i (q(N$i) -> p(-N$i)).",
    "forall X N$i (q(X, N$i) -> p(X, N$i + 0)).", "forall X$s (q(X$s) -> p(a)).", "forall X Y (q(X, Y) -> p(Y, Y)).", "forall X (q(X) -> p(#inf)).",    // several rules for one predicate whose heads differ in the position, the sort or the name of a variable
    "forall V1 V2 (p(V1, V2) <- q(V1, V2)). forall V1 V2 (p(V2, V1) <- r(V1, V2)).", "forall X Y (q(X, Y) -> p(X, Y)). forall Y X (r(X, Y) -> p(Y, X)).", "forall X Y Z (q(X, Y, Z) -> p(X, Y, Z)). forall X Y Z (r(X, Y, Z) -> p(Y, Z, X)).",
    "forall X (q(X) -> p(X)). forall X$i (r(X$i) -> p(X$i)).", "forall X Y (q(X, Y) -> p(X, Y)). forall X Z (r(X, Z) -> p(X, Z)).", "forall X Y (q(X, Y) -> p(X, Y)). forall X (r(X) -> p(X, X)).", "forall X Y$i (q(X, Y$i) -> p(X, Y$i)). forall X$i Y (q(Y, X$i) -> p(X$i, Y)).",
];
const COMPLETABLE: &[&str] = &[
    "forall X (q(X) -> p(X)). forall X (r(X) -> p(X)).", "forall V1 (exists X (V1 = X and q(X)) -> p(V1)). forall X (p(X) and not q(X) -> #false).", "forall V1 (q(V1) -> p(V1)). forall V1 V2 (q(V1) -> p(V1, V2)).", "#true -> p. q -> p.", "q and not r -> p.", "forall X Y (q(X, Y) -> p(X, Y)). forall Y X (r(X, Y) -> p(X, Y)).", "forall X Y (q(X, Y) -> p(X, Y)). forall X Y (r(Y, X) -> p(X, Y)). forall X Y (p(X, Y) and q(Y, X) -> #false).",
];

fn tight(p: &asp::Program) -> bool {
    let mut edges: BTreeMap<(String, usize), BTreeSet<(String, usize)>> = BTreeMap::new();
    for r in &p.rules {
        let h = match &r.head { asp::Head::Basic(a) | asp::Head::Choice(a) => (a.predicate_symbol.clone(), a.terms.len()), asp::Head::Falsity => continue };
        for f in &r.body.formulas { if let asp::AtomicFormula::Literal(asp::Literal { sign: asp::Sign::NoSign, atom }) = f { edges.entry(h.clone()).or_default().insert((atom.predicate_symbol.clone(), atom.terms.len())); } }
    }
    for start in edges.keys() {
        let mut seen = BTreeSet::new();
        let mut stack: Vec<&(String, usize)> = edges[start].iter().collect();
        while let Some(n) = stack.pop() { if n == start { return false; } if seen.insert(n.clone()) { if let Some(s) = edges.get(n) { stack.extend(s.iter()); } } }
    }
    true
}

pub struct CStats { pub programs: usize, pub interpretations: usize, pub with_models: usize, pub samples: Vec<String> }

pub fn check(st: &mut CStats, fails: &mut Vec<Failure>) {
    let inner = [Val::Int(0), Val::Int(1), Val::Int(2), Val::Sym("a".into())];
    let dom = Domain::new(-3, 4, &["a", "b"]);
    let values = dom.of(crate::dom::Sort::General);
    for text in PROGRAMS {
        let p = match asp::Program::from_str(text) { Ok(p) => p, Err(_) => { fails.push(Failure { property: "harness", input: text.to_string(), detail: "corpus program does not parse".into() }); continue; } };
        if !tight(&p) { fails.push(Failure { property: "harness", input: text.to_string(), detail: "corpus program is not tight".into() }); continue; }
        let theory = p.clone().tau_star().to_string();
        let what = format!("anthem translate --with completion < tau*(`{text}`)");
        let (rc, out, err) = match run_anthem(&["translate", "--with", "completion"], Some(&theory)) { Ok(x) => x, Err(e) => { fails.push(Failure { property: "harness", input: what, detail: e }); return; } };
        if rc != 0 { fails.push(Failure { property: "C04", input: what, detail: format!("the tau* theory of a program is refused: {}", err.lines().next().unwrap_or("")) }); continue; }
        let formulas: Vec<_> = read_printed(&out);
        if formulas.iter().any(|f| f.is_none()) { fails.push(Failure { property: "C15", input: what, detail: "a printed formula of the completion does not read back".into() }); continue; }
        let formulas: Vec<_> = formulas.into_iter().flatten().collect();
        // a completed definition is a sentence
        if let Some(f) = formulas.iter().find(|f| { let mut fv = Vec::new(); crate::hteval::free_vars(f, &mut Vec::new(), &mut fv); !fv.is_empty() }) {
            fails.push(Failure { property: "C04", input: what, detail: format!("the completion contains the formula `{f}`, which has a free variable (a body variable of a rule that was not closed existentially?)") });
            continue;
        }
        let formulas: Vec<_> = formulas.into_iter().map(|f| cheapest_first(&f)).collect();
        // universe: the program's predicates over the values that occur in it or are inner
        let mut atoms: Vec<GroundAtom> = Vec::new();
        for (q_symbol, q_arity) in crate::own::program_preds(&p) {
            struct Q { symbol: String, arity: usize }
            let q = Q { symbol: q_symbol, arity: q_arity };
            let vals: &[Val] = if q.arity <= 1 { &inner } else { &inner[..2] };
            let mut idx = vec![0usize; q.arity];
            'o: loop {
                atoms.push((q.symbol.clone(), idx.iter().map(|i| vals[*i].clone()).collect()));
                let mut k = 0;
                loop { if k == q.arity { break 'o; } idx[k] += 1; if idx[k] < vals.len() { break; } idx[k] = 0; k += 1; }
            }
        }
        // every non-input predicate receives a completed definition: each predicate of the program must be mentioned
        if atoms.len() > 16 { atoms.truncate(16); }
        st.programs += 1;
        let mut any_model = false;
        for code in 0..(1usize << atoms.len()) {
            let i: Atoms = atoms.iter().enumerate().filter(|(k, _)| code >> k & 1 == 1).map(|(_, a)| a.clone()).collect();
            st.interpretations += 1;
            let m = Ht { here: i.clone(), there: i.clone(), consts: HashMap::new() };
            let model = formulas.iter().all(|f| cl_sat(f, &dom, &m));
            // stable: <I,I> satisfies the program and no proper subset does in the HT sense
            let sat_tt = p.rules.iter().all(|r| aspsem::rule_sat(r, &m, &values).is_ok());
            let stable = sat_tt && {
                // a smaller H with <H,I> satisfying the program: search by removing atoms (all subsets; |I| is small)
                let v: Vec<&GroundAtom> = i.iter().collect();
                !(0..((1usize << v.len()) - 1)).any(|c| { let h: Atoms = v.iter().enumerate().filter(|(k, _)| c >> k & 1 == 1).map(|(_, a)| (*a).clone()).collect(); let hm = Ht { here: h, there: i.clone(), consts: HashMap::new() }; p.rules.iter().all(|r| aspsem::rule_sat(r, &hm, &values).is_ok()) })
            };
            if stable { any_model = true; }
            if model != stable {
                fails.push(Failure { property: "C04", input: what.clone(), detail: format!("{{{}}} is {} of the completed theory but {} of the program; completion:\n{}", m.show(), if model { "a model" } else { "no model" }, if stable { "a stable model" } else { "no stable model" }, out.trim()) });
                break;
            }
        }
        if any_model { st.with_models += 1; }
        if st.samples.len() < 4 { st.samples.push(format!("`{text}` -> {}", out.trim().replace('\n', " "))); }
    }
    for t in NOT_COMPLETABLE {
        if anthem::syntax_tree::fol::sigma_0::Theory::from_str(t).is_err() { fails.push(Failure { property: "harness", input: t.to_string(), detail: "corpus theory does not parse".into() }); continue; }
        let (rc, out, _) = match run_anthem(&["translate", "--with", "completion"], Some(t)) { Ok(x) => x, Err(e) => { fails.push(Failure { property: "harness", input: t.to_string(), detail: e }); return; } };
        if rc == 0 { fails.push(Failure { property: "C04", input: format!("anthem translate --with completion < `{t}`"), detail: format!("the theory is not completable but a completion is printed: {}", out.trim().replace('\n', " ")) }); }
    }
    for t in COMPLETABLE {
        let (rc, _, err) = match run_anthem(&["translate", "--with", "completion"], Some(t)) { Ok(x) => x, Err(e) => { fails.push(Failure { property: "harness", input: t.to_string(), detail: e }); return; } };
        if rc != 0 { fails.push(Failure { property: "C04", input: format!("anthem translate --with completion < `{t}`"), detail: format!("a completable theory is refused: {}", err.lines().next().unwrap_or("")) }); }
    }
}
