//! Reader for the typed first-order TPTP problems anthem writes, independent of anthem's own formatter: a small TFF
//! parser, a well-formedness / typing check (C09), and a translation of each formula into a target-language formula
//! that has the same truth value under the standard interpretation of the preamble symbols, so that the HT/classical
//! evaluator can be reused (classical: H = T).
use anthem::syntax_tree::fol::sigma_0 as fol;
use std::collections::{BTreeMap, BTreeSet};

#[derive(Clone, Debug, PartialEq)]
enum Tok { Id(String), Var(String), Int(String), P(&'static str) }

fn lex(s: &str) -> Result<Vec<Tok>, String> {
    let b: Vec<char> = s.chars().collect();
    let mut i = 0;
    let mut out = Vec::new();
    while i < b.len() {
        let c = b[i];
        if c.is_whitespace() { i += 1; continue; }
        if c == '%' { while i < b.len() && b[i] != '\n' { i += 1; } continue; }
        if c.is_ascii_digit() || (c == '-' && i + 1 < b.len() && b[i + 1].is_ascii_digit()) {
            let st = i; i += 1;
            while i < b.len() && b[i].is_ascii_digit() { i += 1; }
            out.push(Tok::Int(b[st..i].iter().collect())); continue;
        }
        if c == '_' { return Err("a word that starts with `_` is neither a TPTP lower word nor a variable (it must be single-quoted)".into()); }
        if c.is_ascii_alphabetic() || c == '$' {
            let st = i; i += 1;
            while i < b.len() && (b[i].is_ascii_alphanumeric() || b[i] == '_' || b[i] == '$') { i += 1; }
            let w: String = b[st..i].iter().collect();
            out.push(if c.is_ascii_uppercase() { Tok::Var(w) } else { Tok::Id(w) }); continue;
        }
        if c == '\'' {
            let st = i + 1; i += 1;
            while i < b.len() && b[i] != '\'' { i += 1; }
            out.push(Tok::Id(b[st..i].iter().collect())); i += 1; continue;
        }
        let three: String = b[i..(i + 3).min(b.len())].iter().collect();
        let two: String = b[i..(i + 2).min(b.len())].iter().collect();
        if three == "<=>" { out.push(Tok::P("<=>")); i += 3; continue; }
        if two == "=>" { out.push(Tok::P("=>")); i += 2; continue; }
        if two == "<=" { out.push(Tok::P("<=")); i += 2; continue; }
        if two == "!=" { out.push(Tok::P("!=")); i += 2; continue; }
        let p = match c { '(' => "(", ')' => ")", '[' => "[", ']' => "]", ',' => ",", ':' => ":", '.' => ".", '!' => "!", '?' => "?", '~' => "~", '&' => "&", '|' => "|", '=' => "=", '>' => ">", '*' => "*", _ => return Err(format!("unexpected character {c:?}")) };
        out.push(Tok::P(p)); i += 1;
    }
    Ok(out)
}

#[derive(Clone, Debug, PartialEq, Eq, PartialOrd, Ord)]
pub enum Ty { General, Int, Symbol }

#[derive(Clone, Debug)]
pub enum Term { Var(String), Int(i128), App(String, Vec<Term>) }

#[derive(Clone, Debug)]
pub enum F {
    True, False,
    Pred(String, Vec<Term>),
    Eq(Term, Term), Neq(Term, Term),
    Not(Box<F>),
    Bin(&'static str, Box<F>, Box<F>),
    Quant(bool, Vec<(String, Ty)>, Box<F>),
}

#[derive(Clone, Debug)]
pub enum Decl { TType, Pred(Vec<Ty>), Func(Vec<Ty>, Ty) }

#[derive(Clone, Debug)]
pub struct Entry { pub name: String, pub role: String, pub formula: Option<F>, pub decl: Option<(String, Decl)> }

pub struct Problem { pub entries: Vec<Entry> }

struct Parser { t: Vec<Tok>, i: usize }

impl Parser {
    fn peek(&self) -> Option<&Tok> { self.t.get(self.i) }
    fn next(&mut self) -> Result<Tok, String> { let t = self.t.get(self.i).cloned().ok_or("unexpected end")?; self.i += 1; Ok(t) }
    fn eat(&mut self, p: &'static str) -> Result<(), String> { match self.next()? { Tok::P(q) if q == p => Ok(()), t => Err(format!("expected `{p}`, found {t:?} at token {}", self.i)) } }
    fn at(&self, p: &'static str) -> bool { matches!(self.peek(), Some(Tok::P(q)) if *q == p) }
    fn id(&mut self) -> Result<String, String> { match self.next()? { Tok::Id(s) => Ok(s), t => Err(format!("expected identifier, found {t:?}")) } }

    fn ty(&mut self) -> Result<Ty, String> {
        match self.id()?.as_str() { "general" => Ok(Ty::General), "$int" => Ok(Ty::Int), "symbol" => Ok(Ty::Symbol), o => Err(format!("unknown type {o}")) }
    }

    fn decl(&mut self) -> Result<(String, Decl), String> {
        let paren = self.at("(");
        if paren { self.eat("(")?; }
        let name = self.id()?;
        self.eat(":")?;
        let d = if matches!(self.peek(), Some(Tok::Id(s)) if s == "$tType") { self.next()?; Decl::TType }
        else if matches!(self.peek(), Some(Tok::Id(s)) if s == "$o") { self.next()?; Decl::Pred(vec![]) }
        else if self.at("(") {
            self.eat("(")?;
            let mut args = vec![self.ty()?];
            while self.at("*") { self.eat("*")?; args.push(self.ty()?); }
            self.eat(")")?; self.eat(">")?;
            if matches!(self.peek(), Some(Tok::Id(s)) if s == "$o") { self.next()?; Decl::Pred(args) } else { Decl::Func(args, self.ty()?) }
        } else {
            let t = self.ty()?;
            if self.at(">") { self.eat(">")?; if matches!(self.peek(), Some(Tok::Id(s)) if s == "$o") { self.next()?; Decl::Pred(vec![t]) } else { Decl::Func(vec![t], self.ty()?) } } else { Decl::Func(vec![], t) }
        };
        if paren { self.eat(")")?; }
        Ok((name, d))
    }

    fn term(&mut self) -> Result<Term, String> {
        match self.next()? {
            Tok::Var(v) => Ok(Term::Var(v)),
            Tok::Int(n) => Ok(Term::Int(n.parse().map_err(|_| "bad integer")?)),
            Tok::Id(f) => {
                let mut args = Vec::new();
                if self.at("(") {
                    self.eat("(")?;
                    loop { args.push(self.term()?); if self.at(",") { self.eat(",")?; } else { break; } }
                    self.eat(")")?;
                }
                Ok(Term::App(f, args))
            }
            t => Err(format!("expected term, found {t:?}")),
        }
    }

    fn unitary(&mut self) -> Result<F, String> {
        if self.at("~") { self.eat("~")?; return Ok(F::Not(Box::new(self.unitary()?))); }
        if self.at("!") || self.at("?") {
            let all = self.at("!");
            self.next()?; self.eat("[")?;
            let mut vs = Vec::new();
            loop {
                let v = match self.next()? { Tok::Var(v) => v, t => return Err(format!("expected variable, found {t:?}")) };
                self.eat(":")?;
                vs.push((v, self.ty()?));
                if self.at(",") { self.eat(",")?; } else { break; }
            }
            self.eat("]")?; self.eat(":")?;
            return Ok(F::Quant(all, vs, Box::new(self.unitary()?)));
        }
        if self.at("(") {
            // parenthesised formula — or a parenthesised term is never printed by anthem
            self.eat("(")?;
            let f = self.formula()?;
            self.eat(")")?;
            return Ok(f);
        }
        let t = self.term()?;
        if self.at("=") { self.eat("=")?; return Ok(F::Eq(t, self.term()?)); }
        if self.at("!=") { self.eat("!=")?; return Ok(F::Neq(t, self.term()?)); }
        match t {
            Term::App(p, args) => Ok(match (p.as_str(), args.len()) { ("$true", 0) => F::True, ("$false", 0) => F::False, _ => F::Pred(p, args) }),
            _ => Err("a variable or numeral where a formula is expected".into()),
        }
    }

    fn formula(&mut self) -> Result<F, String> {
        let first = self.unitary()?;
        let op = match self.peek() { Some(Tok::P(p)) if ["&", "|", "=>", "<=>", "<="].contains(p) => *p, _ => return Ok(first) };
        if op == "&" || op == "|" {
            let mut acc = first;
            while self.at(op) { self.eat(op)?; let r = self.unitary()?; acc = F::Bin(op, Box::new(acc), Box::new(r)); }
            if matches!(self.peek(), Some(Tok::P(p)) if ["&", "|", "=>", "<=>", "<="].contains(p)) { return Err("mixed connectives without parentheses".into()); }
            Ok(acc)
        } else {
            self.eat(op)?;
            let r = self.unitary()?;
            if matches!(self.peek(), Some(Tok::P(p)) if ["&", "|", "=>", "<=>", "<="].contains(p)) { return Err("chained non-associative connective without parentheses".into()); }
            Ok(F::Bin(op, Box::new(first), Box::new(r)))
        }
    }
}

pub fn parse(text: &str) -> Result<Problem, String> {
    let mut p = Parser { t: lex(text)?, i: 0 };
    let mut entries = Vec::new();
    while p.peek().is_some() {
        let kw = p.id()?;
        if kw != "tff" { return Err(format!("expected tff, found {kw}")); }
        p.eat("(")?;
        let name = p.id()?;
        p.eat(",")?;
        let role = p.id()?;
        p.eat(",")?;
        let e = if role == "type" { Entry { name, role, formula: None, decl: Some(p.decl()?) } } else { Entry { name, role, formula: Some(p.formula()?), decl: None } };
        p.eat(")")?; p.eat(".")?;
        entries.push(e);
    }
    Ok(Problem { entries })
}

// ---------------------------------------------------------------------------------------------------------------------
// well-formedness and typing (C09)

const BUILTIN_INT_FUN: &[(&str, usize)] = &[("$sum", 2), ("$difference", 2), ("$product", 2), ("$uminus", 1)];
const BUILTIN_INT_PRED: &[&str] = &["$less", "$lesseq", "$greater", "$greatereq"];

pub struct Sig { pub decls: BTreeMap<String, Decl>, pub placeholders: BTreeSet<String> }

impl Problem {
    /// every complaint about the problem as a TFF file; empty = well-formed, well-typed, self-contained, one conjecture
    pub fn check(&self) -> (Sig, Vec<String>) {
        let mut errs = Vec::new();
        let mut decls: BTreeMap<String, Decl> = BTreeMap::new();
        let mut names = BTreeSet::new();
        for e in &self.entries {
            if !names.insert(e.name.clone()) { errs.push(format!("formula name `{}` is used twice", e.name)); }
            if let Some((s, d)) = &e.decl {
                if decls.contains_key(s) { errs.push(format!("`{s}` is declared twice")); }
                decls.insert(s.clone(), d.clone());
            }
        }
        let n_conj = self.entries.iter().filter(|e| e.role == "conjecture").count();
        if n_conj != 1 { errs.push(format!("{n_conj} conjectures")); }
        let placeholders: BTreeSet<String> = self.entries.iter().filter(|e| e.name.starts_with("type_function_constant")).filter_map(|e| e.decl.as_ref().map(|d| d.0.clone())).collect();
        let sig = Sig { decls, placeholders };
        for e in &self.entries {
            if let Some(f) = &e.formula {
                if !["axiom", "conjecture"].contains(&e.role.as_str()) { errs.push(format!("`{}` has role {}", e.name, e.role)); }
                let mut scope = Vec::new();
                sig.check_formula(f, &mut scope, &e.name, &mut errs);
            }
        }
        (sig, errs)
    }
}

impl Sig {
    pub fn term_ty(&self, t: &Term, scope: &[(String, Ty)], at: &str, errs: &mut Vec<String>) -> Option<Ty> {
        match t {
            Term::Int(_) => Some(Ty::Int),
            Term::Var(v) => match scope.iter().rev().find(|(n, _)| n == v) { Some((_, ty)) => Some(ty.clone()), None => { errs.push(format!("{at}: variable {v} is not bound by a quantifier")); None } },
            Term::App(f, args) => {
                if let Some((_, n)) = BUILTIN_INT_FUN.iter().find(|(g, _)| g == f) {
                    if args.len() != *n { errs.push(format!("{at}: {f} applied to {} arguments", args.len())); }
                    for a in args { if let Some(ty) = self.term_ty(a, scope, at, errs) { if ty != Ty::Int { errs.push(format!("{at}: argument of {f} has type {ty:?}")); } } }
                    return Some(Ty::Int);
                }
                match self.decls.get(f) {
                    Some(Decl::Func(tys, r)) => {
                        if tys.len() != args.len() { errs.push(format!("{at}: `{f}` is declared with {} arguments and used with {}", tys.len(), args.len())); }
                        for (a, want) in args.iter().zip(tys) { if let Some(ty) = self.term_ty(a, scope, at, errs) { if ty != *want { errs.push(format!("{at}: argument of `{f}` has type {ty:?}, declared {want:?}")); } } }
                        Some(r.clone())
                    }
                    Some(_) => { errs.push(format!("{at}: `{f}` is used as a function but not declared as one")); None }
                    None => { errs.push(format!("{at}: `{f}` is not declared")); None }
                }
            }
        }
    }

    fn check_formula(&self, f: &F, scope: &mut Vec<(String, Ty)>, at: &str, errs: &mut Vec<String>) {
        match f {
            F::True | F::False => {}
            F::Pred(p, args) => {
                if BUILTIN_INT_PRED.contains(&p.as_str()) {
                    if args.len() != 2 { errs.push(format!("{at}: {p} applied to {} arguments", args.len())); }
                    for a in args { if let Some(ty) = self.term_ty(a, scope, at, errs) { if ty != Ty::Int { errs.push(format!("{at}: argument of {p} has type {ty:?}")); } } }
                    return;
                }
                match self.decls.get(p) {
                    Some(Decl::Pred(tys)) => {
                        if tys.len() != args.len() { errs.push(format!("{at}: predicate `{p}` is declared with {} arguments and used with {}", tys.len(), args.len())); }
                        for (a, want) in args.iter().zip(tys) { if let Some(ty) = self.term_ty(a, scope, at, errs) { if ty != *want { errs.push(format!("{at}: argument of `{p}` has type {ty:?}, declared {want:?}")); } } }
                    }
                    Some(_) => errs.push(format!("{at}: `{p}` is used as a predicate but not declared as one")),
                    None => errs.push(format!("{at}: predicate `{p}` is not declared")),
                }
            }
            F::Eq(a, b) | F::Neq(a, b) => {
                let (ta, tb) = (self.term_ty(a, scope, at, errs), self.term_ty(b, scope, at, errs));
                if let (Some(x), Some(y)) = (ta, tb) { if x != y { errs.push(format!("{at}: equation between a term of type {x:?} and a term of type {y:?}")); } }
            }
            F::Not(g) => self.check_formula(g, scope, at, errs),
            F::Bin(_, a, b) => { self.check_formula(a, scope, at, errs); self.check_formula(b, scope, at, errs); }
            F::Quant(_, vs, g) => {
                let n = scope.len();
                scope.extend(vs.iter().cloned());
                self.check_formula(g, scope, at, errs);
                scope.truncate(n);
            }
        }
    }

    // -----------------------------------------------------------------------------------------------------------------
    // reading under the standard interpretation: translation into a target-language formula

    fn sort(ty: &Ty) -> fol::Sort { match ty { Ty::General => fol::Sort::General, Ty::Int => fol::Sort::Integer, Ty::Symbol => fol::Sort::Symbol } }

    fn int_term(&self, t: &Term, scope: &[(String, Ty)]) -> Result<fol::IntegerTerm, String> {
        match t {
            Term::Int(i) => Ok(fol::IntegerTerm::Numeral(*i as isize)),
            Term::Var(v) => Ok(fol::IntegerTerm::Variable(v.clone())),
            Term::App(f, a) => match (f.as_str(), a.len()) {
                ("$uminus", 1) => Ok(fol::IntegerTerm::UnaryOperation { op: fol::UnaryOperator::Negative, arg: Box::new(self.int_term(&a[0], scope)?) }),
                ("$sum", 2) | ("$difference", 2) | ("$product", 2) => Ok(fol::IntegerTerm::BinaryOperation {
                    op: match f.as_str() { "$sum" => fol::BinaryOperator::Add, "$difference" => fol::BinaryOperator::Subtract, _ => fol::BinaryOperator::Multiply },
                    lhs: Box::new(self.int_term(&a[0], scope)?), rhs: Box::new(self.int_term(&a[1], scope)?) }),
                (_, 0) => Ok(fol::IntegerTerm::FunctionConstant(f.clone())),
                _ => Err(format!("cannot read `{f}` as an integer term")),
            },
        }
    }

    fn gen_term(&self, t: &Term, scope: &[(String, Ty)]) -> Result<fol::GeneralTerm, String> {
        let mut errs = Vec::new();
        let ty = self.term_ty(t, scope, "", &mut errs).ok_or_else(|| errs.join("; "))?;
        match ty {
            Ty::Int => Ok(fol::GeneralTerm::IntegerTerm(self.int_term(t, scope)?)),
            Ty::Symbol => match t {
                Term::Var(v) => Ok(fol::GeneralTerm::SymbolicTerm(fol::SymbolicTerm::Variable(v.clone()))),
                Term::App(c, a) if a.is_empty() && self.placeholders.contains(c) => Ok(fol::GeneralTerm::SymbolicTerm(fol::SymbolicTerm::FunctionConstant(c.clone()))),
                // a symbolic constant denotes itself
                Term::App(c, a) if a.is_empty() => Ok(fol::GeneralTerm::SymbolicTerm(fol::SymbolicTerm::Symbol(c.clone()))),
                _ => Err("unreadable symbol term".into()),
            },
            Ty::General => match t {
                Term::Var(v) => Ok(fol::GeneralTerm::Variable(v.clone())),
                Term::App(f, a) => match (f.as_str(), a.len()) {
                    ("c__infimum__", 0) => Ok(fol::GeneralTerm::Infimum),
                    ("c__supremum__", 0) => Ok(fol::GeneralTerm::Supremum),
                    ("f__integer__", 1) | ("f__symbolic__", 1) => self.gen_term(&a[0], scope),
                    (_, 0) => Ok(fol::GeneralTerm::FunctionConstant(f.clone())),
                    _ => Err(format!("cannot read `{f}` as a general term")),
                },
                _ => Err("unreadable general term".into()),
            },
        }
    }

    fn cmp(&self, a: &Term, r: fol::Relation, b: &Term, scope: &[(String, Ty)]) -> Result<fol::Formula, String> {
        Ok(fol::Formula::AtomicFormula(fol::AtomicFormula::Comparison(fol::Comparison { term: self.gen_term(a, scope)?, guards: vec![fol::Guard { relation: r, term: self.gen_term(b, scope)? }] })))
    }

    pub fn read(&self, f: &F, scope: &mut Vec<(String, Ty)>) -> Result<fol::Formula, String> {
        let bin = |c, a, b| fol::Formula::BinaryFormula { connective: c, lhs: Box::new(a), rhs: Box::new(b) };
        Ok(match f {
            F::True => fol::Formula::AtomicFormula(fol::AtomicFormula::Truth),
            F::False => fol::Formula::AtomicFormula(fol::AtomicFormula::Falsity),
            F::Eq(a, b) => self.cmp(a, fol::Relation::Equal, b, scope)?,
            F::Neq(a, b) => self.cmp(a, fol::Relation::NotEqual, b, scope)?,
            F::Pred(p, a) => match (p.as_str(), a.len()) {
                ("$less", 2) | ("p__less__", 2) => self.cmp(&a[0], fol::Relation::Less, &a[1], scope)?,
                ("$lesseq", 2) | ("p__less_equal__", 2) => self.cmp(&a[0], fol::Relation::LessEqual, &a[1], scope)?,
                ("$greater", 2) | ("p__greater__", 2) => self.cmp(&a[0], fol::Relation::Greater, &a[1], scope)?,
                ("$greatereq", 2) | ("p__greater_equal__", 2) => self.cmp(&a[0], fol::Relation::GreaterEqual, &a[1], scope)?,
                ("p__is_integer__", 1) | ("p__is_symbolic__", 1) => {
                    // X is an integer / a symbol: exists N (X = N) with a variable name that cannot clash (TPTP variables start upper-case; `_` is free)
                    let (name, sort) = ("Is__".to_string(), if p == "p__is_integer__" { fol::Sort::Integer } else { fol::Sort::Symbol });
                    let v = if sort == fol::Sort::Integer { fol::GeneralTerm::IntegerTerm(fol::IntegerTerm::Variable(name.clone())) } else { fol::GeneralTerm::SymbolicTerm(fol::SymbolicTerm::Variable(name.clone())) };
                    fol::Formula::QuantifiedFormula {
                        quantification: fol::Quantification { quantifier: fol::Quantifier::Exists, variables: vec![fol::Variable { name, sort }] },
                        formula: Box::new(fol::Formula::AtomicFormula(fol::AtomicFormula::Comparison(fol::Comparison { term: self.gen_term(&a[0], scope)?, guards: vec![fol::Guard { relation: fol::Relation::Equal, term: v }] }))),
                    }
                }
                _ => fol::Formula::AtomicFormula(fol::AtomicFormula::Atom(fol::Atom { predicate_symbol: p.clone(), terms: a.iter().map(|t| self.gen_term(t, scope)).collect::<Result<_, _>>()? })),
            },
            F::Not(g) => fol::Formula::UnaryFormula { connective: fol::UnaryConnective::Negation, formula: Box::new(self.read(g, scope)?) },
            F::Bin(op, a, b) => {
                let (x, y) = (self.read(a, scope)?, self.read(b, scope)?);
                bin(match *op { "&" => fol::BinaryConnective::Conjunction, "|" => fol::BinaryConnective::Disjunction, "=>" => fol::BinaryConnective::Implication, "<=" => fol::BinaryConnective::ReverseImplication, _ => fol::BinaryConnective::Equivalence }, x, y)
            }
            F::Quant(all, vs, g) => {
                let n = scope.len();
                scope.extend(vs.iter().cloned());
                let body = self.read(g, scope);
                scope.truncate(n);
                fol::Formula::QuantifiedFormula {
                    quantification: fol::Quantification { quantifier: if *all { fol::Quantifier::Forall } else { fol::Quantifier::Exists }, variables: vs.iter().map(|(v, t)| fol::Variable { name: v.clone(), sort: Self::sort(t) }).collect() },
                    formula: Box::new(body?),
                }
            }
        })
    }
}
