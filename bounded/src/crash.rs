//! Bounded stand-in for C16: every command is run on unusual and on mutated inputs; the process must end with exit status
//! 0 or 1 (result or reported error), never by a panic (101 / "panicked at"), a signal, or a hang (10 s).
use crate::dom::Rng;
use crate::simp::anthem_bin;
use crate::trans::Failure;
use crate::verify::scratch_dir;
use std::io::Write as _;
use std::process::{Command, Stdio};
use std::time::{Duration, Instant};

pub const PROGRAMS: &[&str] = &[
    "", "% only a comment\n", "\n\n", "p.", "p(9223372036854775807).", "p(-9223372036854775808).", "p(9223372036854775808).", "p(0 - 9223372036854775807 - 1).", "p(- 9223372036854775807).",
    "p(9223372036854775807 + 1) :- q.", "p(X * 9223372036854775807) :- q(X).", "p(1..9223372036854775807).", "p(X/0) :- q(X).", "p(X\\0) :- q(X).", "p(#inf..#sup).", "p(a..b).", "p(-a).",
    "p(1,2,3,4,5,6,7,8,9,10,11,12,13,14,15,16,17,18,19,20,21,22,23,24,25,26,27,28,29,30,31,32,33,34,35,36,37,38,39,40).", "{p(X,Y,Z)} :- q(X,Y,Z), not not r(Z), X != Y, Y < Z.",
    ":- .", ":-", "p :- .", "p(.", "p((((((((((((((((((((((((((((((((1)))))))))))))))))))))))))))))))).", "p(----------1).", "p(1 + + 2).", "p(X) :- X = 1..2..3.", "p(V1, V2, V) :- q(V1, V2, V).",
    "p(V18446744073709551615) :- q(V18446744073709551615).", "p(V340282366920938463463374607431768211455) :- q(V340282366920938463463374607431768211455).", "p(X) :- q(X), X = 00000000000000000000001.",
    // the extreme numerals as operands of every operator
    "p(- -9223372036854775808).", "p(-(-9223372036854775808)).", "p(--9223372036854775808) :- q.", "p(X) :- q(X), X = - -9223372036854775808.", "p(-9223372036854775808 - 1).", "p(-9223372036854775808 * -1).", "p(-9223372036854775808 / -1).",
    "p(-9223372036854775808 \\ -1).", "p(9223372036854775807 * 9223372036854775807).", "p(-9223372036854775808..9223372036854775807).", ":- q(X), X > - -9223372036854775808.", "{p(- 9223372036854775807 - 1 - 1)}.",
    "p :- not not not q.", "p :- not p. p :- not not p.", "#true.", "p(_).", "p(X) :- q(_x).", "p(\"string\").", "p(f(x)).", "p(X) :- q(X); r(X).", "p(X) : q(X).", "a :- b, c; d.", "p(1.5).", "p(1e9).", "\u{00e9}(x).", "p(\u{1F600}).",
];
const THEORIES: &[&str] = &[
    "", "#true.", "#false.", "p.", "forall X (p(X)).", "exists X$i (X$i = 9223372036854775807).", "exists X$i (X$i = 9223372036854775808).", "forall X Y Z (p(X, Y, Z) <-> q(Z, Y, X)).", "forall X (X = X).",
    "p(-9223372036854775808).", "p(- 9223372036854775807 - 1).", "p(- -9223372036854775808).", "exists N$i (N$i = -(-9223372036854775808)).", "p(-9223372036854775808 * -1).", "exists N$i (N$i - 9223372036854775807 > -9223372036854775808).", "exists N$i (N$i * 9223372036854775807 > 0).", "forall X$i X$g X$s (p(X$i, X$g, X$s)).", "forall X$ (p(X$)).", "forall (p).", "forall X.", "exists X (", "p <- q <- r.",
    "p <-> q <-> r.", "not not not not p.", "1 < 2 < 3 < 4 < 5 < 6.", "a < 1 < #sup < #inf.", "p(#inf, #sup, a, 1, X, X$i, X$s).", "forall X$s (X$s = a).", "exists X$s X$i (X$s = X$i).", "p(X$i + a).", "p(a + 1).",
    "forall X (p(X) and (q(X) or (r(X) -> (s(X) <- (t(X) <-> not u(X)))))).", "exists X$i Y$s (Z = X$i and Z = Y$s and p(X$i)).", "exists Y$s X$i (Y$s = Z and X$i = Z and p(X$i + 1)).", "exists X$g Y$s N$i (X$g = Y$s and X$g = N$i and p(N$i)).",
    // a defined variable of each sort whose definition mentions a variable that is bound again further inside (the substitution has to rename)
    "forall X$s exists Y$s (Y$s = X$s and forall X$s p(X$s, Y$s)).", "forall X$i exists Y$i (Y$i = X$i and forall X$i p(X$i, Y$i)).", "forall X exists Y (Y = X and forall X p(X, Y)).", "forall X$s exists Y (Y = X$s and exists X$s (p(X$s) and q(Y))).",
    "exists Y$s (Y$s = X$s and forall X$s (p(X$s) -> q(Y$s))).", "forall X$i exists Y (Y = X$i + 1 and forall X$i (p(X$i) -> q(Y))).", "forall X$s Z$s exists Y$s (Y$s = X$s and exists X$s X1$s (q(X$s, X1$s) and p(Y$s))).",
    "forall X$s (exists N$i (X$s = N$i) -> p(X$s)).", "exists N$i X$s (N$i = X$s).", "exists X$s (X$s = 1 and p(X$s)).", "exists N$i (N$i = a and p(N$i)).", "forall X X X (p(X)).", "exists X$i X$g (X$i = X$g).", "p(f).", "p(n$i).", "p(n$g, n$s).",
];
pub const GUIDES: &[&str] = &[
    "", "input: p/0.", "input: p/99999999999999999999.", "input: p/18446744073709551615.", "input: p/18446744073709551616.", "input: n -> integer. input: n -> integer.", "output: p/1. output: p/1.", "input: -> integer.",
    "assumption: forall X (p(X)).", "input: p/1. assumption: exists X$i (p(X$i) and X$i > 9223372036854775807).", "input: p/-1.", "input: p.", "lemma: p.", "spec: p.", "input: n -> foo.",
];
const OUTLINES: &[&str] = &[
    "", "lemma: p.", "lemma(forward): #true.", "inductive-lemma: forall N$i (N$i >= 9223372036854775807 -> p(N$i)).", "inductive-lemma: forall N$i (N$i >= -9223372036854775808 -> p(N$i)).", "inductive-lemma: p.",
    "inductive-lemma: forall X (X >= 0 -> p(X)).", "inductive-lemma: forall N$i M$i (N$i >= 0 -> p(N$i, M$i)).", "inductive-lemma: forall N$i (N$i > 0 -> p(N$i)).", "definition: p.", "definition: forall X (d(X) <-> d(X)).",
    "definition: forall X (d(X) <-> #true).", "assumption: p.", "spec: p.", "lemma(sideways): p.", "inductive-lemma: forall N$i (N$i >= n -> p(N$i)).", "inductive-lemma: forall N$i (N$i >= 1 + 1 -> p(N$i)).",
];

fn mutate(s: &str, rng: &mut Rng) -> String {
    let mut b: Vec<char> = s.chars().collect();
    let pool: Vec<char> = "().,:-;<>=!$#%_ \n\\/*+0123456789abXYZN{}\"'".chars().collect();
    for _ in 0..(1 + rng.below(3)) {
        let k = rng.below(4);
        if b.is_empty() || k == 0 { let pos = if b.is_empty() { 0 } else { rng.below(b.len() as u64 + 1) as usize }; b.insert(pos, pool[rng.below(pool.len() as u64) as usize]); }
        else if k == 1 { let pos = rng.below(b.len() as u64) as usize; b.remove(pos); }
        else if k == 2 { let pos = rng.below(b.len() as u64) as usize; b[pos] = pool[rng.below(pool.len() as u64) as usize]; }
        else { let (i, j) = (rng.below(b.len() as u64) as usize, rng.below(b.len() as u64) as usize); let (lo, hi) = (i.min(j), i.max(j)); let piece: Vec<char> = b[lo..hi].to_vec(); let pos = rng.below(b.len() as u64 + 1) as usize; for (n, c) in piece.into_iter().enumerate() { b.insert((pos + n).min(b.len()), c); } }
    }
    b.into_iter().collect()
}

fn run_one(args: &[String], stdin: Option<&str>) -> Result<(Option<i32>, String, bool), String> {
    let mut child = Command::new(anthem_bin()).args(args).env("RUST_BACKTRACE", "0").stdin(if stdin.is_some() { Stdio::piped() } else { Stdio::null() }).stdout(Stdio::null()).stderr(Stdio::piped()).spawn().map_err(|e| e.to_string())?;
    if let Some(s) = stdin { let mut si = child.stdin.take().unwrap(); let _ = si.write_all(s.as_bytes()); }
    let t0 = Instant::now();
    loop {
        match child.try_wait().map_err(|e| e.to_string())? {
            Some(_) => break,
            None => { if t0.elapsed() > Duration::from_secs(10) { let _ = child.kill(); let _ = child.wait(); return Ok((None, String::new(), true)); } std::thread::sleep(Duration::from_millis(2)); }
        }
    }
    let out = child.wait_with_output().map_err(|e| e.to_string())?;
    Ok((out.status.code(), String::from_utf8_lossy(&out.stderr).chars().take(400).collect(), false))
}

pub fn check(deep: bool, runs: &mut usize, fails: &mut Vec<Failure>) {
    let mut rng = Rng(0xC16C16 ^ crate::dom::run_seed().wrapping_mul(0x9E3779B97F4A7C15) | 1);
    let n_mut = if deep { 40 } else { 6 };
    let mut jobs: Vec<(Vec<String>, Option<String>, Vec<(String, String)>, String)> = Vec::new(); // args, stdin, files, description
    let with_mut = |base: &[&str], rng: &mut Rng| -> Vec<String> { let mut v: Vec<String> = base.iter().map(|s| s.to_string()).collect(); for s in base { for _ in 0..n_mut { v.push(mutate(s, rng)); } } v };
    for p in with_mut(PROGRAMS, &mut rng) {
        for cmd in [vec!["translate", "--with", "tau-star"], vec!["translate", "--with", "natural"], vec!["translate", "--with", "mu"], vec!["analyze", "--property", "tightness"], vec!["analyze", "--property", "regularity"]] {
            jobs.push((cmd.iter().map(|s| s.to_string()).collect(), Some(p.clone()), vec![], format!("anthem {} < `{p}`", cmd.join(" "))));
        }
        jobs.push((vec!["verify".into(), "--equivalence".into(), "strong".into(), "--no-proof-search".into()], None, vec![("a.lp".into(), p.clone()), ("b.lp".into(), "p :- q.".into())], format!("anthem verify --equivalence strong a.lp=`{p}` b.lp=`p :- q.`")));
        jobs.push((vec!["verify".into(), "--equivalence".into(), "external".into(), "--no-proof-search".into()], None, vec![("a.lp".into(), p.clone()), ("b.lp".into(), p.clone()), ("g.ug".into(), "input: q/1. output: p/1.".into())], format!("anthem verify --equivalence external a.lp=b.lp=`{p}` g.ug=`input: q/1. output: p/1.`")));
    }
    for t in with_mut(THEORIES, &mut rng) {
        for cmd in [vec!["translate", "--with", "gamma"], vec!["translate", "--with", "completion"], vec!["simplify", "--portfolio", "classic", "--strategy", "fixpoint"], vec!["simplify", "--portfolio", "ht", "--strategy", "shallow"]] {
            jobs.push((cmd.iter().map(|s| s.to_string()).collect(), Some(t.clone()), vec![], format!("anthem {} < `{t}`", cmd.join(" "))));
        }
        jobs.push((vec!["verify".into(), "--equivalence".into(), "external".into(), "--no-proof-search".into()], None, vec![("b.lp".into(), "p(X) :- q(X).".into()), ("s.spec".into(), format!("spec: {t}")), ("g.ug".into(), "input: q/1. output: p/1.".into())], format!("anthem verify --equivalence external b.lp=`p(X) :- q(X).` s.spec=`spec: {t}` g.ug=`input: q/1. output: p/1.`")));
    }
    // accepted but unusual external-equivalence tasks
    for (a, b, g, spec) in [(":- q(X), X > 1.", ":- q(X), 1 < X.", "input: q/1.", None), ("p(X) :- q(X).", "p(X) :- q(X).", "input: q/1. output: p/1. output: r/2.", None), ("", "", "input: q/1. output: p/1.", None), ("p.", "p.", "", None),
                             ("p(X) :- q(X).", "", "input: q/1. output: p/1.", Some("")), ("p(X) :- q(X).", "", "input: q/1. output: p/1.", Some("spec: #true.")), ("p(X) :- q(X), not q(X, X).", "p(X) :- q(X), not q(X, X).", "input: q/1. output: p/1.", None),
                             (":- not p.", ":- not p.", "output: p/0.", None), ("{p(X)} :- q(X).", "{p(X)} :- q(X).", "input: q/1. output: p/1. input: n -> integer.", None), ("p(n).", "p(n).", "output: p/1. input: n -> symbol.", None)] {
        let mut files = vec![("a.lp".to_string(), a.to_string())];
        match spec { Some(s) => files.push(("s.spec".into(), s.to_string())), None => files.push(("b.lp".into(), b.to_string())) }
        files.push(("g.ug".into(), g.to_string()));
        for extra in [vec![], vec!["--bypass-tightness".to_string()], vec!["--no-simplify".to_string(), "--no-eq-break".to_string()], vec!["--direction".to_string(), "backward".to_string()]] {
            let mut args = vec!["verify".to_string(), "--equivalence".into(), "external".into(), "--no-proof-search".into()];
            args.extend(extra);
            jobs.push((args, None, files.clone(), format!("anthem verify --equivalence external {files:?}")));
        }
    }
    for g in with_mut(GUIDES, &mut rng) {
        jobs.push((vec!["verify".into(), "--equivalence".into(), "external".into(), "--no-proof-search".into()], None, vec![("a.lp".into(), "p(X) :- q(X), X = n.".into()), ("b.lp".into(), "p(X) :- q(X), n = X.".into()), ("g.ug".into(), g.clone())], format!("anthem verify --equivalence external a.lp=`p(X) :- q(X), X = n.` b.lp=`p(X) :- q(X), n = X.` g.ug=`{g}`")));
    }
    for o in with_mut(OUTLINES, &mut rng) {
        jobs.push((vec!["verify".into(), "--equivalence".into(), "external".into(), "--no-proof-search".into()], None, vec![("a.lp".into(), "p(X) :- q(X).".into()), ("b.lp".into(), "p(X) :- q(X), not not q(X).".into()), ("g.ug".into(), "input: q/1. input: n -> integer. output: p/1.".into()), ("o.po".into(), o.clone())], format!("anthem verify --equivalence external a.lp=`p(X) :- q(X).` b.lp=`p(X) :- q(X), not not q(X).` g.ug=`input: q/1. input: n -> integer. output: p/1.` o.po=`{o}`")));
    }
    *runs = jobs.len();
    let results: Vec<Option<Failure>> = crate::par_map(&jobs, |(args, stdin, files, what)| {
        let mut args = args.clone();
        let dir = if files.is_empty() { None } else { Some(scratch_dir()) };
        if let Some(d) = &dir {
            let out = d.join("out");
            let _ = std::fs::create_dir_all(&out);
            args.push("--save-problems".into()); args.push(out.display().to_string());
            for (n, t) in files { let p = d.join(n); let _ = std::fs::write(&p, t); args.push(p.display().to_string()); }
        }
        let r = run_one(&args, stdin.as_deref());
        if let Some(d) = &dir { let _ = std::fs::remove_dir_all(d); }
        match r {
            Err(e) => Some(Failure { property: "harness", input: what.clone(), detail: e }),
            Ok((_, _, true)) => Some(Failure { property: "C16", input: what.clone(), detail: "no result after 10 s (killed)".into() }),
            Ok((code, err, _)) => {
                if err.contains("panicked at") || code == Some(101) || code.is_none() || !matches!(code, Some(0) | Some(1) | Some(2)) {
                    Some(Failure { property: "C16", input: what.clone(), detail: format!("exit status {:?}: {}", code, err.lines().filter(|l| !l.trim().is_empty()).take(3).collect::<Vec<_>>().join(" / ")) })
                } else { None }
            }
        }
    });
    fails.extend(results.into_iter().flatten());
}
