//! Bounded stand-in for C20: the role of each input file of `anthem verify` depends only on its extension and on the
//! order of the arguments (file-name order inside a directory). Different ways of giving the same files must emit the
//! same problems byte for byte; swapping the two programs swaps the directions.
use crate::simp::run_anthem;
use crate::trans::Failure;
use crate::verify::scratch_dir;
use std::collections::{BTreeMap, BTreeSet};

const A: &str = "p(X) :- q(X), not r(X).\nr(X) :- q(X), X > 1.\n";
const B: &str = "p(X) :- q(X), X <= 1.\nr(X) :- q(X), not p(X).\n";
const UG: &str = "input: q/1.\noutput: p/1.\noutput: r/1.\n";
const SPEC: &str = "spec: forall X (p(X) <-> q(X) and not r(X)).\nspec: forall X (r(X) -> q(X)).\n";
const PO: &str = "lemma: forall X (p(X) -> q(X)).\n";

/// lays the files out under a fresh directory (in the given order of creation), runs anthem there, returns exit code and the saved problems
fn run(layout: &[(&str, &str)], flags: &[&str], args: &[&str]) -> Result<(i32, BTreeMap<String, String>), String> {
    let d = scratch_dir();
    for (path, text) in layout {
        let p = d.join(path);
        std::fs::create_dir_all(p.parent().unwrap()).map_err(|e| e.to_string())?;
        std::fs::write(&p, text).map_err(|e| e.to_string())?;
    }
    let out = d.join("out");
    std::fs::create_dir_all(&out).map_err(|e| e.to_string())?;
    let mut argv: Vec<String> = vec!["verify".into()];
    argv.extend(flags.iter().map(|s| s.to_string()));
    argv.extend(["--no-proof-search".into(), "--no-timing".into(), "--save-problems".into(), out.display().to_string()]);
    argv.extend(args.iter().map(|a| d.join("in").join(a).display().to_string()));
    let refs: Vec<&str> = argv.iter().map(|s| s.as_str()).collect();
    let (rc, _, _) = run_anthem(&refs, None)?;
    let mut saved = BTreeMap::new();
    for e in std::fs::read_dir(&out).map_err(|e| e.to_string())?.flatten() { saved.insert(e.file_name().to_string_lossy().into_owned(), std::fs::read_to_string(e.path()).unwrap_or_default()); }
    let _ = std::fs::remove_dir_all(&d);
    Ok((rc, saved))
}

fn bodies(saved: &BTreeMap<String, String>, prefix: &str) -> BTreeSet<(String, String)> {
    // (role, formula) of every non-preamble formula of the family, names dropped
    let mut out = BTreeSet::new();
    for (f, text) in saved {
        if !f.starts_with(prefix) { continue; }
        for line in text.lines() {
            if let Some(rest) = line.strip_prefix("tff(") {
                let mut parts = rest.splitn(3, ", ");
                let (name, role, body) = (parts.next().unwrap_or(""), parts.next().unwrap_or(""), parts.next().unwrap_or(""));
                if role == "type" || name.ends_with("_ax") { continue; }
                out.insert((role.to_string(), body.to_string()));
            }
        }
    }
    out
}

pub fn check(runs: &mut usize, fails: &mut Vec<Failure>) {
    let ext: &[&str] = &["--equivalence", "external"];
    let strong: &[&str] = &["--equivalence", "strong"];
    // (description, layout, argument lists that must all give the output of the first one)
    let groups: Vec<(&str, &[&str], Vec<(&str, &str)>, Vec<Vec<&str>>)> = vec![
        ("two programs and a user guide, argument order of the user guide", ext,
            vec![("in/x/first.lp", A), ("in/y/second.lp", B), ("in/g.ug", UG), ("in/notes.txt", "p :- q.")],
            vec![vec!["x/first.lp", "y/second.lp", "g.ug"], vec!["g.ug", "x/first.lp", "y/second.lp"], vec!["x/first.lp", "g.ug", "y/second.lp"], vec!["x/first.lp", "notes.txt", "y/second.lp", "g.ug"]]),
        ("a directory: file-name order, not creation order", ext,
            vec![("in/d/b_second.lp", B), ("in/d/a_first.lp", A), ("in/d/z.ug", UG), ("in/a_first.lp", A), ("in/b_second.lp", B), ("in/z.ug", UG)],
            vec![vec!["a_first.lp", "b_second.lp", "z.ug"], vec!["d"], vec!["d/a_first.lp", "d/b_second.lp", "d/z.ug"]]),
        ("a directory given before / after a file: argument order decides", ext,
            vec![("in/da/left.lp", A), ("in/db/right.lp", B), ("in/left.lp", A), ("in/right.lp", B), ("in/g.ug", UG)],
            vec![vec!["left.lp", "right.lp", "g.ug"], vec!["da", "right.lp", "g.ug"], vec!["left.lp", "db", "g.ug"], vec!["da", "db", "g.ug"], vec!["g.ug", "da", "right.lp"]]),
        ("the later argument is the right program whatever its name", ext,
            vec![("in/zzz.lp", A), ("in/aaa.lp", B), ("in/g.ug", UG), ("in/d1/zzz.lp", A), ("in/d0/aaa.lp", B)],
            vec![vec!["zzz.lp", "aaa.lp", "g.ug"], vec!["d1", "d0", "g.ug"], vec!["zzz.lp", "d0", "g.ug"]]),
        ("program against specification: position of .spec, .ug, .po", ext,
            vec![("in/prog.lp", A), ("in/s.spec", SPEC), ("in/g.ug", UG), ("in/o.po", PO), ("in/d/s.spec", SPEC), ("in/d/g.ug", UG), ("in/d/o.po", PO), ("in/d/prog.lp", A)],
            vec![vec!["prog.lp", "s.spec", "g.ug", "o.po"], vec!["s.spec", "o.po", "g.ug", "prog.lp"], vec!["o.po", "g.ug", "s.spec", "prog.lp"], vec!["d"], vec!["g.ug", "prog.lp", "o.po", "s.spec"]]),
        ("a directory whose file names differ in letter case, digits and dots: byte-wise file-name order", ext,
            vec![("in/d/a.lp", B), ("in/d/B.lp", A), ("in/d/g.ug", UG), ("in/B.lp", A), ("in/a.lp", B), ("in/g.ug", UG)],
            vec![vec!["B.lp", "a.lp", "g.ug"], vec!["d"], vec!["d/B.lp", "d/a.lp", "d/g.ug"]]),
        ("a directory with x.10.lp and x.9.lp", ext,
            vec![("in/d/x.9.lp", B), ("in/d/x.10.lp", A), ("in/d/Z.ug", UG), ("in/d/z.txt", "p."), ("in/x.10.lp", A), ("in/x.9.lp", B), ("in/Z.ug", UG)],
            vec![vec!["x.10.lp", "x.9.lp", "Z.ug"], vec!["d"]]),
        ("nested directories", ext,
            vec![("in/d/sub/b.lp", B), ("in/d/a.lp", A), ("in/d/sub/deeper/g.ug", UG), ("in/a.lp", A), ("in/b.lp", B), ("in/g.ug", UG)],
            vec![vec!["a.lp", "b.lp", "g.ug"], vec!["d"]]),
        ("strong equivalence: a directory and argument order", strong,
            vec![("in/d/m.lp", A), ("in/d/n.lp", B), ("in/m.lp", A), ("in/n.lp", B)],
            vec![vec!["m.lp", "n.lp"], vec!["d"], vec!["d/m.lp", "n.lp"]]),
        ("strong equivalence: files of other roles among the arguments do not change which .lp file is left and which is right", strong,
            vec![("in/m.lp", A), ("in/n.lp", B), ("in/s.spec", SPEC), ("in/g.ug", UG), ("in/o.po", PO), ("in/t.txt", "p."), ("in/d/m.lp", A), ("in/d/n.lp", B), ("in/d/s.spec", SPEC), ("in/d/g.ug", UG), ("in/d/a.txt", "p.")],
            vec![vec!["m.lp", "n.lp"], vec!["s.spec", "m.lp", "n.lp"], vec!["m.lp", "s.spec", "n.lp"], vec!["m.lp", "n.lp", "g.ug", "s.spec", "o.po"], vec!["g.ug", "m.lp", "t.txt", "n.lp"], vec!["d"], vec!["o.po", "m.lp", "n.lp", "s.spec"]]),
        ("strong equivalence: a path given twice counts twice (the copy under another name gives the same problems)", strong,
            vec![("in/m.lp", A), ("in/mcopy.lp", A), ("in/n.lp", B), ("in/d/m.lp", A), ("in/d/n.lp", B), ("in/e/m.lp", A), ("in/e/m2.lp", A), ("in/e/n.lp", B)],
            vec![vec!["m.lp", "mcopy.lp", "n.lp"], vec!["m.lp", "m.lp", "n.lp"], vec!["d/m.lp", "d"], vec!["e"], vec!["m.lp", "m.lp"]]),
        ("external equivalence: a path given twice counts twice", ext,
            vec![("in/m.lp", A), ("in/mcopy.lp", A), ("in/n.lp", B), ("in/g.ug", UG), ("in/d/m.lp", A), ("in/d/n.lp", B)],
            vec![vec!["m.lp", "mcopy.lp", "n.lp", "g.ug"], vec!["m.lp", "m.lp", "n.lp", "g.ug"], vec!["d/m.lp", "d", "g.ug"], vec!["g.ug", "m.lp", "m.lp"]]),
        ("program against specification: the first .lp file is the program, a later one changes nothing", ext,
            vec![("in/prog.lp", A), ("in/later.lp", B), ("in/s.spec", SPEC), ("in/g.ug", UG), ("in/o.po", PO), ("in/d/a_prog.lp", A), ("in/d/b_later.lp", B), ("in/d/s.spec", SPEC), ("in/d/g.ug", UG), ("in/d/o.po", PO)],
            vec![vec!["prog.lp", "s.spec", "g.ug", "o.po"], vec!["prog.lp", "later.lp", "s.spec", "g.ug", "o.po"], vec!["s.spec", "prog.lp", "g.ug", "o.po", "later.lp"], vec!["d"], vec!["g.ug", "o.po", "prog.lp", "s.spec", "later.lp"]]),
    ];
    for (what, flags, layout, variants) in &groups {
        let mut base: Option<BTreeMap<String, String>> = None;
        for args in variants {
            *runs += 1;
            let input = format!("anthem verify {} {}  [{what}]", flags.join(" "), args.join(" "));
            let (rc, saved) = match run(layout, flags, args) { Ok(x) => x, Err(e) => { fails.push(Failure { property: "harness", input, detail: e }); return; } };
            if rc != 0 || saved.is_empty() { fails.push(Failure { property: "C20", input, detail: format!("exit status {rc}, {} problems", saved.len()) }); continue; }
            match &base {
                None => base = Some(saved),
                Some(b) => if *b != saved {
                    let diff = b.keys().chain(saved.keys()).find(|k| b.get(*k) != saved.get(*k)).cloned().unwrap_or_default();
                    fails.push(Failure { property: "C20", input, detail: format!("emits other problems than `{}` (first difference: {diff})", variants[0].join(" ")) });
                },
            }
        }
    }
    // swapping the two programs swaps the directions (programs without private predicates: nothing is renamed)
    for (flags, files) in [(ext, vec![("in/a.lp", A), ("in/b.lp", B), ("in/g.ug", UG)]), (strong, vec![("in/a.lp", A), ("in/b.lp", B)])] {
        *runs += 2;
        let ug: Vec<&str> = if files.len() == 3 { vec!["g.ug"] } else { vec![] };
        let ab: Vec<&str> = ["a.lp", "b.lp"].into_iter().chain(ug.iter().cloned()).collect();
        let ba: Vec<&str> = ["b.lp", "a.lp"].into_iter().chain(ug.iter().cloned()).collect();
        if let (Ok((_, x)), Ok((_, y))) = (run(&files, flags, &ab), run(&files, flags, &ba)) {
            for (d1, d2) in [("forward", "backward"), ("backward", "forward")] {
                let (l, r) = (bodies(&x, d1), bodies(&y, d2));
                if l != r {
                    let ex = l.symmetric_difference(&r).next().cloned().unwrap_or_default();
                    fails.push(Failure { property: "C20", input: format!("anthem verify {} a.lp b.lp  versus  b.lp a.lp", flags.join(" ")), detail: format!("the {d1} problems of the one are not the {d2} problems of the other; e.g. {} `{}`", ex.0, ex.1.chars().take(200).collect::<String>()) });
                }
            }
        }
    }
}
