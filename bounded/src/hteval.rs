//! Here-and-there (and, as the special case H = T, classical) satisfaction of target-language formulas.
//!
//! Quantified variables range over the standard domain. A variable whose value is fixed by an equation
//! `X = t` among the top-level conjuncts of an existential body (or of the antecedent of a universal
//! implication) is instantiated with the exact value of t — which may lie outside the window; every
//! other variable is enumerated over the window `dom`. The callers generate inputs for which only window
//! values of the enumerated variables can matter (see DESIGN.md), so that the result is the truth value
//! over the full standard domain.
use crate::dom::{Domain, Ht, Sort, Val};
use anthem::syntax_tree::fol::sigma_0 as fol;

#[derive(Clone, Copy, PartialEq, Eq, Debug)]
pub enum World {
    Here,
    There,
}

#[derive(Clone, Debug, Default)]
pub struct Env(pub Vec<(String, Sort, Val)>);

impl Env {
    pub fn get(&self, name: &str, sort: Sort) -> Option<&Val> {
        self.0.iter().rev().find(|(n, s, _)| n == name && *s == sort).map(|(_, _, v)| v)
    }
    pub fn push(&mut self, name: &str, sort: Sort, v: Val) { self.0.push((name.to_string(), sort, v)); }
    pub fn pop(&mut self) { self.0.pop(); }
}

pub fn sort_of(s: fol::Sort) -> Sort {
    match s { fol::Sort::General => Sort::General, fol::Sort::Integer => Sort::Integer, fol::Sort::Symbol => Sort::Symbol }
}

pub fn val_has_sort(v: &Val, s: Sort) -> bool {
    match s { Sort::General => true, Sort::Integer => matches!(v, Val::Int(_)), Sort::Symbol => matches!(v, Val::Sym(_)) }
}

pub struct Eval<'a> {
    pub dom: &'a Domain,
    pub ht: &'a Ht,
}

impl<'a> Eval<'a> {
    pub fn int_term(&self, t: &fol::IntegerTerm, env: &Env) -> Option<i128> {
        match t {
            fol::IntegerTerm::Numeral(n) => Some(*n as i128),
            fol::IntegerTerm::FunctionConstant(c) => match self.ht.consts.get(c) { Some(Val::Int(i)) => Some(*i), _ => None },
            fol::IntegerTerm::Variable(v) => match env.get(v, Sort::Integer) { Some(Val::Int(i)) => Some(*i), Some(_) => None, None => panic!("unbound integer variable {v}") },
            fol::IntegerTerm::UnaryOperation { arg, .. } => self.int_term(arg, env)?.checked_neg(),
            fol::IntegerTerm::BinaryOperation { op, lhs, rhs } => {
                let a = self.int_term(lhs, env)?;
                let b = self.int_term(rhs, env)?;
                match op {
                    fol::BinaryOperator::Add => a.checked_add(b),
                    fol::BinaryOperator::Subtract => a.checked_sub(b),
                    fol::BinaryOperator::Multiply => a.checked_mul(b),
                }
            }
        }
    }

    pub fn sym_term(&self, t: &fol::SymbolicTerm, env: &Env) -> Option<String> {
        match t {
            fol::SymbolicTerm::Symbol(s) => Some(s.clone()),
            fol::SymbolicTerm::FunctionConstant(c) => match self.ht.consts.get(c) { Some(Val::Sym(s)) => Some(s.clone()), _ => None },
            fol::SymbolicTerm::Variable(v) => match env.get(v, Sort::Symbol) { Some(Val::Sym(s)) => Some(s.clone()), Some(_) => None, None => panic!("unbound symbol variable {v}") },
        }
    }

    pub fn gen_term(&self, t: &fol::GeneralTerm, env: &Env) -> Option<Val> {
        match t {
            fol::GeneralTerm::Infimum => Some(Val::Inf),
            fol::GeneralTerm::Supremum => Some(Val::Sup),
            fol::GeneralTerm::FunctionConstant(c) => self.ht.consts.get(c).cloned(),
            fol::GeneralTerm::Variable(v) => match env.get(v, Sort::General) { Some(x) => Some(x.clone()), None => panic!("unbound general variable {v}") },
            fol::GeneralTerm::IntegerTerm(t) => self.int_term(t, env).map(Val::Int),
            // a symbolic constant that the user guide declares as a placeholder stands for the placeholder's value ("@name")
            fol::GeneralTerm::SymbolicTerm(fol::SymbolicTerm::Symbol(s)) if self.ht.consts.contains_key(&format!("@{s}")) => self.ht.consts.get(&format!("@{s}")).cloned(),
            fol::GeneralTerm::SymbolicTerm(t) => self.sym_term(t, env).map(Val::Sym),
        }
    }

    fn compare(l: &Val, r: fol::Relation, v: &Val) -> bool {
        match r {
            fol::Relation::Equal => l == v,
            fol::Relation::NotEqual => l != v,
            fol::Relation::Less => l < v,
            fol::Relation::LessEqual => l <= v,
            fol::Relation::Greater => l > v,
            fol::Relation::GreaterEqual => l >= v,
        }
    }

    pub fn sat(&self, f: &fol::Formula, env: &mut Env, w: World) -> bool {
        match f {
            fol::Formula::AtomicFormula(a) => match a {
                fol::AtomicFormula::Truth => true,
                fol::AtomicFormula::Falsity => false,
                fol::AtomicFormula::Atom(a) => {
                    let mut args = Vec::with_capacity(a.terms.len());
                    for t in &a.terms {
                        match self.gen_term(t, env) { Some(v) => args.push(v), None => return false }
                    }
                    let key = (a.predicate_symbol.clone(), args);
                    match w { World::Here => self.ht.here.contains(&key), World::There => self.ht.there.contains(&key) }
                }
                fol::AtomicFormula::Comparison(c) => {
                    let mut l = match self.gen_term(&c.term, env) { Some(v) => v, None => return false };
                    for g in &c.guards {
                        let r = match self.gen_term(&g.term, env) { Some(v) => v, None => return false };
                        if !Self::compare(&l, g.relation, &r) { return false; }
                        l = r;
                    }
                    true
                }
            },
            fol::Formula::UnaryFormula { formula, .. } => !self.sat(formula, env, World::There),
            fol::Formula::BinaryFormula { connective, lhs, rhs } => match connective {
                fol::BinaryConnective::Conjunction => self.sat(lhs, env, w) && self.sat(rhs, env, w),
                fol::BinaryConnective::Disjunction => self.sat(lhs, env, w) || self.sat(rhs, env, w),
                fol::BinaryConnective::Implication => self.imp(lhs, rhs, env, w),
                fol::BinaryConnective::ReverseImplication => self.imp(rhs, lhs, env, w),
                fol::BinaryConnective::Equivalence => self.imp(lhs, rhs, env, w) && self.imp(rhs, lhs, env, w),
            },
            fol::Formula::QuantifiedFormula { quantification, formula } => {
                let exists = matches!(quantification.quantifier, fol::Quantifier::Exists);
                // a block may list the same variable twice: the later binding is the same variable
                let mut vars: Vec<&fol::Variable> = Vec::new();
                for v in &quantification.variables { if !vars.contains(&v) { vars.push(v); } }
                self.quant(exists, &vars, formula, env, w)
            }
        }
    }

    fn imp(&self, a: &fol::Formula, b: &fol::Formula, env: &mut Env, w: World) -> bool {
        let there = !self.sat(a, env, World::There) || self.sat(b, env, World::There);
        match w {
            World::There => there,
            World::Here => there && (!self.sat(a, env, World::Here) || self.sat(b, env, World::Here)),
        }
    }

    fn quant(&self, exists: bool, vars: &[&fol::Variable], body: &fol::Formula, env: &mut Env, w: World) -> bool {
        if vars.is_empty() { return self.sat(body, env, w); }
        // forall distributes over conjunction, exists over disjunction (at both worlds)
        match body {
            fol::Formula::BinaryFormula { connective: fol::BinaryConnective::Conjunction, lhs, rhs } if !exists => return self.quant(false, vars, lhs, env, w) && self.quant(false, vars, rhs, env, w),
            fol::Formula::BinaryFormula { connective: fol::BinaryConnective::Disjunction, lhs, rhs } if exists => return self.quant(true, vars, lhs, env, w) || self.quant(true, vars, rhs, env, w),
            _ => {}
        }
        let mut conj: Vec<&fol::Formula> = Vec::new();
        if exists { conjuncts(body, &mut conj); } else {
            match body {
                fol::Formula::BinaryFormula { connective: fol::BinaryConnective::Implication, lhs, .. } => conjuncts(lhs, &mut conj),
                fol::Formula::BinaryFormula { connective: fol::BinaryConnective::ReverseImplication, rhs, .. } => conjuncts(rhs, &mut conj),
                _ => {}
            }
        }
        // which block variables each conjunct mentions (free)
        let deps: Vec<Vec<usize>> = conj.iter().map(|c| {
            let mut fv = Vec::new();
            free_vars(c, &mut Vec::new(), &mut fv);
            (0..vars.len()).filter(|i| fv.iter().any(|(n, s)| *n == vars[*i].name && *s == vars[*i].sort)).collect()
        }).collect();
        // a conjunct that mentions no block variable and is false decides the block
        let pw = if exists { w } else { World::There };
        for (c, d) in conj.iter().zip(&deps) {
            if d.is_empty() && !self.sat(c, env, pw) { return !exists; }
        }
        let mut bound = vec![false; vars.len()];
        self.quant_rec(exists, vars, &mut bound, body, &conj, &deps, env, w)
    }

    /// `bound[i]`: vars[i] already has its value on `env`.
    /// Pruning: a conjunct of an existential body that is false at the current world makes the body false; a conjunct of
    /// the antecedent of a universal implication that is false at world There is false at both worlds (persistence), which
    /// makes the implication true. Either way the remaining variables need not be enumerated.
    #[allow(clippy::too_many_arguments)]
    fn quant_rec(&self, exists: bool, vars: &[&fol::Variable], bound: &mut Vec<bool>, body: &fol::Formula, conj: &[&fol::Formula], deps: &[Vec<usize>], env: &mut Env, w: World) -> bool {
        if bound.iter().all(|b| *b) { return self.sat(body, env, w); }
        let pw = if exists { w } else { World::There };
        let unbound: Vec<&fol::Variable> = vars.iter().enumerate().filter(|(i, _)| !bound[*i]).map(|(_, v)| *v).collect();
        let decided_false = |this: &Self, i: usize, bound: &Vec<bool>, env: &mut Env| -> bool {
            conj.iter().zip(deps).any(|(c, d)| d.contains(&i) && d.iter().all(|j| bound[*j]) && !this.sat(c, env, pw))
        };
        // variables that are arguments of an atom among the conjuncts: only the tuples in the atom's extent (at world pw)
        // can make the existential body true / the universal antecedent true, so these are enumerated instead of the window
        for (c, d) in conj.iter().zip(deps) {
            let a = match c { fol::Formula::AtomicFormula(fol::AtomicFormula::Atom(a)) => a, _ => continue };
            if !d.iter().any(|j| !bound[*j]) { continue; }
            // every argument: an unbound block variable itself, or a term without unbound block variables
            let mut shape: Vec<Result<usize, &fol::GeneralTerm>> = Vec::new();
            let mut ok = true;
            for t in &a.terms {
                if let Some(j) = (0..vars.len()).find(|j| !bound[*j] && is_var(t, vars[*j])) { shape.push(Ok(j)); continue; }
                let mut tv = Vec::new();
                term_vars(t, &mut tv);
                if unbound.iter().any(|u| tv.iter().any(|(n, s)| *n == u.name && *s == u.sort)) { ok = false; break; }
                shape.push(Err(t));
            }
            if !ok { continue; }
            let fixed: Vec<Option<Val>> = shape.iter().map(|x| match x { Err(t) => self.gen_term(t, env), Ok(_) => None }).collect();
            if shape.iter().zip(&fixed).any(|(x, f)| x.is_err() && f.is_none()) { return !exists; } // an argument without value: the atom is false
            let extent = match pw { World::Here => &self.ht.here, World::There => &self.ht.there };
            let lo = (a.predicate_symbol.clone(), Vec::new());
            let tuples: Vec<&Vec<Val>> = extent.range(lo..).take_while(|(p, _)| *p == a.predicate_symbol).filter(|(_, args)| args.len() == shape.len()).map(|(_, args)| args).collect();
            'tuple: for args in tuples {
                let mut newly: Vec<usize> = Vec::new();
                let mut assigned: Vec<(usize, &Val)> = Vec::new();
                for (k, x) in shape.iter().enumerate() {
                    match x {
                        Err(_) => { if fixed[k].as_ref() != Some(&args[k]) { continue 'tuple; } }
                        Ok(j) => {
                            if let Some((_, prev)) = assigned.iter().find(|(jj, _)| jj == j) { if **prev != args[k] { continue 'tuple; } continue; }
                            if !val_has_sort(&args[k], sort_of(vars[*j].sort)) { continue 'tuple; }
                            assigned.push((*j, &args[k]));
                        }
                    }
                }
                for (j, v) in &assigned { env.push(&vars[*j].name, sort_of(vars[*j].sort), (*v).clone()); bound[*j] = true; newly.push(*j); }
                let dec = newly.iter().any(|j| decided_false(self, *j, bound, env));
                let r = if dec { !exists } else { self.quant_rec(exists, vars, bound, body, conj, deps, env, w) };
                for j in newly.iter().rev() { bound[*j] = false; env.pop(); }
                if r == exists { return exists; }
            }
            return !exists;
        }
        // a variable fixed by an equation
        for i in 0..vars.len() {
            if bound[i] { continue; }
            let v = vars[i];
            if let Some(t) = find_pin(conj, v, &unbound) {
                return match self.gen_term(t, env) {
                    Some(val) if val_has_sort(&val, sort_of(v.sort)) => {
                        env.push(&v.name, sort_of(v.sort), val);
                        bound[i] = true;
                        let r = if decided_false(self, i, bound, env) { !exists } else { self.quant_rec(exists, vars, bound, body, conj, deps, env, w) };
                        bound[i] = false;
                        env.pop();
                        r
                    }
                    // the equation has no solution of the variable's sort
                    _ => !exists,
                };
            }
        }
        let i = bound.iter().position(|b| !*b).unwrap();
        let v = vars[i];
        for val in self.dom.of(sort_of(v.sort)) {
            env.push(&v.name, sort_of(v.sort), val);
            bound[i] = true;
            let r = if decided_false(self, i, bound, env) { !exists } else { self.quant_rec(exists, vars, bound, body, conj, deps, env, w) };
            bound[i] = false;
            env.pop();
            if r == exists { return exists; }
        }
        !exists
    }
}

fn term_vars(t: &fol::GeneralTerm, out: &mut Vec<(String, fol::Sort)>) {
    fn int(t: &fol::IntegerTerm, out: &mut Vec<(String, fol::Sort)>) {
        match t {
            fol::IntegerTerm::Variable(v) => out.push((v.clone(), fol::Sort::Integer)),
            fol::IntegerTerm::UnaryOperation { arg, .. } => int(arg, out),
            fol::IntegerTerm::BinaryOperation { lhs, rhs, .. } => { int(lhs, out); int(rhs, out); }
            _ => {}
        }
    }
    match t {
        fol::GeneralTerm::Variable(v) => out.push((v.clone(), fol::Sort::General)),
        fol::GeneralTerm::IntegerTerm(t) => int(t, out),
        fol::GeneralTerm::SymbolicTerm(fol::SymbolicTerm::Variable(v)) => out.push((v.clone(), fol::Sort::Symbol)),
        _ => {}
    }
}

/// free variables (name, sort) of a formula — the harness's own, independent of the code under test
pub fn free_vars(f: &fol::Formula, bound: &mut Vec<(String, fol::Sort)>, out: &mut Vec<(String, fol::Sort)>) {
    match f {
        fol::Formula::AtomicFormula(a) => {
            let mut vs = Vec::new();
            match a {
                fol::AtomicFormula::Atom(a) => { for t in &a.terms { term_vars(t, &mut vs); } }
                fol::AtomicFormula::Comparison(c) => { term_vars(&c.term, &mut vs); for g in &c.guards { term_vars(&g.term, &mut vs); } }
                _ => {}
            }
            for v in vs { if !bound.contains(&v) && !out.contains(&v) { out.push(v); } }
        }
        fol::Formula::UnaryFormula { formula, .. } => free_vars(formula, bound, out),
        fol::Formula::BinaryFormula { lhs, rhs, .. } => { free_vars(lhs, bound, out); free_vars(rhs, bound, out); }
        fol::Formula::QuantifiedFormula { quantification, formula } => {
            let n = bound.len();
            for v in &quantification.variables { bound.push((v.name.clone(), v.sort)); }
            free_vars(formula, bound, out);
            bound.truncate(n);
        }
    }
}

fn conjuncts<'f>(f: &'f fol::Formula, out: &mut Vec<&'f fol::Formula>) {
    match f {
        fol::Formula::BinaryFormula { connective: fol::BinaryConnective::Conjunction, lhs, rhs } => { conjuncts(lhs, out); conjuncts(rhs, out); }
        _ => out.push(f),
    }
}

fn is_var(t: &fol::GeneralTerm, v: &fol::Variable) -> bool {
    match (t, v.sort) {
        (fol::GeneralTerm::Variable(n), fol::Sort::General) => *n == v.name,
        (fol::GeneralTerm::IntegerTerm(fol::IntegerTerm::Variable(n)), fol::Sort::Integer) => *n == v.name,
        (fol::GeneralTerm::SymbolicTerm(fol::SymbolicTerm::Variable(n)), fol::Sort::Symbol) => *n == v.name,
        _ => false,
    }
}

/// an equation `v = t` (or `t = v`) among the conjuncts where t mentions none of the still-unbound block variables
fn find_pin<'f>(conj: &[&'f fol::Formula], v: &fol::Variable, unbound: &[&fol::Variable]) -> Option<&'f fol::GeneralTerm> {
    for c in conj {
        if let fol::Formula::AtomicFormula(fol::AtomicFormula::Comparison(c)) = c {
            if c.guards.len() == 1 && c.guards[0].relation == fol::Relation::Equal {
                let (l, r) = (&c.term, &c.guards[0].term);
                for (a, b) in [(l, r), (r, l)] {
                    if is_var(a, v) {
                        let mut bv = Vec::new();
                        term_vars(b, &mut bv);
                        if !unbound.iter().any(|u| bv.iter().any(|(n, s)| *n == u.name && *s == u.sort)) { return Some(b); }
                    }
                }
            }
        }
    }
    None
}

fn size(f: &fol::Formula) -> usize {
    match f {
        fol::Formula::AtomicFormula(_) => 1,
        fol::Formula::UnaryFormula { formula, .. } => 1 + size(formula),
        fol::Formula::BinaryFormula { lhs, rhs, .. } => 1 + size(lhs) + size(rhs),
        fol::Formula::QuantifiedFormula { quantification, formula } => 1 + 8 * quantification.variables.len() + size(formula),
    }
}

/// Evaluation order only: the operands of every conjunction and disjunction chain are sorted by size, cheapest first
/// (conjunction and disjunction are commutative and associative at both worlds, so no truth value changes).
pub fn cheapest_first(f: &fol::Formula) -> fol::Formula {
    fn chain<'f>(f: &'f fol::Formula, c: &fol::BinaryConnective, out: &mut Vec<&'f fol::Formula>) {
        match f {
            fol::Formula::BinaryFormula { connective, lhs, rhs } if connective == c => { chain(lhs, c, out); chain(rhs, c, out); }
            _ => out.push(f),
        }
    }
    match f {
        fol::Formula::AtomicFormula(_) => f.clone(),
        fol::Formula::UnaryFormula { connective, formula } => fol::Formula::UnaryFormula { connective: connective.clone(), formula: Box::new(cheapest_first(formula)) },
        fol::Formula::QuantifiedFormula { quantification, formula } => fol::Formula::QuantifiedFormula { quantification: quantification.clone(), formula: Box::new(cheapest_first(formula)) },
        fol::Formula::BinaryFormula { connective, lhs, rhs } => match connective {
            fol::BinaryConnective::Conjunction | fol::BinaryConnective::Disjunction => {
                let mut parts = Vec::new();
                chain(f, connective, &mut parts);
                let mut parts: Vec<fol::Formula> = parts.into_iter().map(cheapest_first).collect();
                parts.sort_by_key(size);
                let mut it = parts.into_iter();
                let first = it.next().unwrap();
                it.fold(first, |acc, x| fol::Formula::BinaryFormula { connective: connective.clone(), lhs: Box::new(acc), rhs: Box::new(x) })
            }
            _ => fol::Formula::BinaryFormula { connective: connective.clone(), lhs: Box::new(cheapest_first(lhs)), rhs: Box::new(cheapest_first(rhs)) },
        },
    }
}

/// HT satisfaction of a closed formula
pub fn ht_sat(f: &fol::Formula, dom: &Domain, ht: &Ht) -> bool {
    Eval { dom, ht }.sat(f, &mut Env::default(), World::Here)
}

/// classical satisfaction of a closed formula in the interpretation T
pub fn cl_sat(f: &fol::Formula, dom: &Domain, ht: &Ht) -> bool {
    Eval { dom, ht }.sat(f, &mut Env::default(), World::There)
}
