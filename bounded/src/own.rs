//! The harness's own traversals of the syntax trees (variables, predicates, terms). The crate under test has helpers for all of
//! these; a change to one of them must not change the oracle along with the code it is the oracle for.
use anthem::syntax_tree::asp::mini_gringo as asp;
use anthem::syntax_tree::fol::sigma_0 as fol;
use std::collections::BTreeSet;

pub type Pred = (String, usize);

pub fn term_vars(t: &asp::Term, out: &mut Vec<String>) {
    match t {
        asp::Term::PrecomputedTerm(_) => {}
        asp::Term::Variable(v) => { if !out.contains(&v.0) { out.push(v.0.clone()); } }
        asp::Term::UnaryOperation { arg, .. } => term_vars(arg, out),
        asp::Term::BinaryOperation { lhs, rhs, .. } => { term_vars(lhs, out); term_vars(rhs, out); }
    }
}

pub fn head_terms(h: &asp::Head) -> Vec<asp::Term> {
    match h { asp::Head::Basic(a) | asp::Head::Choice(a) => a.terms.clone(), asp::Head::Falsity => vec![] }
}

pub fn af_terms(f: &asp::AtomicFormula) -> Vec<asp::Term> {
    match f { asp::AtomicFormula::Literal(l) => l.atom.terms.clone(), asp::AtomicFormula::Comparison(c) => vec![c.lhs.clone(), c.rhs.clone()] }
}

pub fn rule_terms(r: &asp::Rule) -> Vec<asp::Term> {
    let mut ts = head_terms(&r.head);
    for f in &r.body.formulas { ts.extend(af_terms(f)); }
    ts
}

/// the variables of a rule in the order of their first occurrence
pub fn rule_vars(r: &asp::Rule) -> Vec<String> {
    let mut out = Vec::new();
    for t in rule_terms(r) { term_vars(&t, &mut out); }
    out
}

pub fn rule_preds(r: &asp::Rule) -> BTreeSet<Pred> {
    let mut out = BTreeSet::new();
    if let asp::Head::Basic(a) | asp::Head::Choice(a) = &r.head { out.insert((a.predicate_symbol.clone(), a.terms.len())); }
    for f in &r.body.formulas { if let asp::AtomicFormula::Literal(l) = f { out.insert((l.atom.predicate_symbol.clone(), l.atom.terms.len())); } }
    out
}

pub fn program_preds(p: &asp::Program) -> BTreeSet<Pred> { p.rules.iter().flat_map(rule_preds).collect() }

pub fn formula_preds(f: &fol::Formula) -> BTreeSet<Pred> {
    fn go(f: &fol::Formula, out: &mut BTreeSet<Pred>) {
        match f {
            fol::Formula::AtomicFormula(fol::AtomicFormula::Atom(a)) => { out.insert((a.predicate_symbol.clone(), a.terms.len())); }
            fol::Formula::AtomicFormula(_) => {}
            fol::Formula::UnaryFormula { formula, .. } | fol::Formula::QuantifiedFormula { formula, .. } => go(formula, out),
            fol::Formula::BinaryFormula { lhs, rhs, .. } => { go(lhs, out); go(rhs, out); }
        }
    }
    let mut out = BTreeSet::new();
    go(f, &mut out);
    out
}
