//! Bounded stand-in for the second half of C12: the axioms anthem adds on its own (standard preamble and symbol-order chain) must
//! keep any two distinct symbolic constants apart. The emitted axioms of a problem with four constants are evaluated in every
//! structure that is standard except for the sort `symbol`: its domain has k elements, the constants denote arbitrary elements and
//! `p__less_equal__` is an arbitrary relation among the symbols. With k = 3 there must be no model at all (pigeonhole: two constants
//! would coincide); with k = 4 every model must map the constants injectively and in the order of the chain.
use crate::tff::{self, F, Term, Ty};
use crate::trans::Failure;
use crate::verify::run_verify_raw;
use std::collections::HashMap;

#[derive(Clone, Copy, PartialEq, Eq, Debug)]
enum El { Inf, Int(i64), Sym(usize), Sup }

struct Structure<'a> { k: usize, leq: &'a [bool], denot: &'a HashMap<String, usize>, ints: &'a [i64] }

impl Structure<'_> {
    fn leq(&self, a: El, b: El) -> bool {
        match (a, b) {
            (El::Inf, _) | (_, El::Sup) => true,
            (_, El::Inf) | (El::Sup, _) => false,
            (El::Int(x), El::Int(y)) => x <= y,
            (El::Int(_), El::Sym(_)) => true,
            (El::Sym(_), El::Int(_)) => false,
            (El::Sym(x), El::Sym(y)) => self.leq[x * self.k + y],
        }
    }
    fn domain(&self, ty: &Ty) -> Vec<El> {
        match ty {
            Ty::Int => self.ints.iter().map(|i| El::Int(*i)).collect(),
            Ty::Symbol => (0..self.k).map(El::Sym).collect(),
            Ty::General => std::iter::once(El::Inf).chain(self.ints.iter().map(|i| El::Int(*i))).chain((0..self.k).map(El::Sym)).chain(std::iter::once(El::Sup)).collect(),
        }
    }
    fn term(&self, t: &Term, env: &Vec<(String, El)>) -> Option<El> {
        match t {
            Term::Int(i) => Some(El::Int(*i as i64)),
            Term::Var(v) => env.iter().rev().find(|(n, _)| n == v).map(|(_, e)| *e),
            Term::App(f, a) => match (f.as_str(), a.len()) {
                ("c__infimum__", 0) => Some(El::Inf),
                ("c__supremum__", 0) => Some(El::Sup),
                ("f__integer__", 1) | ("f__symbolic__", 1) => self.term(&a[0], env),
                (c, 0) => self.denot.get(c).map(|s| El::Sym(*s)),
                _ => None,
            },
        }
    }
    fn sat(&self, f: &F, env: &mut Vec<(String, El)>) -> Option<bool> {
        Some(match f {
            F::True => true,
            F::False => false,
            F::Eq(a, b) => self.term(a, env)? == self.term(b, env)?,
            F::Neq(a, b) => self.term(a, env)? != self.term(b, env)?,
            F::Not(g) => !self.sat(g, env)?,
            F::Bin(op, a, b) => { let (x, y) = (self.sat(a, env)?, self.sat(b, env)?); match *op { "&" => x && y, "|" => x || y, "=>" => !x || y, "<=" => x || !y, _ => x == y } }
            F::Quant(all, vs, g) => {
                fn rec(s: &Structure, all: bool, vs: &[(String, Ty)], g: &F, env: &mut Vec<(String, El)>) -> Option<bool> {
                    if vs.is_empty() { return s.sat(g, env); }
                    for e in s.domain(&vs[0].1) {
                        env.push((vs[0].0.clone(), e));
                        let r = rec(s, all, &vs[1..], g, env);
                        env.pop();
                        if r? != all { return Some(!all); }
                    }
                    Some(all)
                }
                rec(self, *all, vs, g, env)?
            }
            F::Pred(p, a) => {
                let x = self.term(&a[0], env)?;
                match (p.as_str(), a.len()) {
                    ("p__is_integer__", 1) => matches!(x, El::Int(_)),
                    ("p__is_symbolic__", 1) => matches!(x, El::Sym(_)),
                    ("$lesseq", 2) | ("$less", 2) | ("$greater", 2) | ("$greatereq", 2) => { let y = self.term(&a[1], env)?; match (x, y) { (El::Int(i), El::Int(j)) => match p.as_str() { "$lesseq" => i <= j, "$less" => i < j, "$greater" => i > j, _ => i >= j }, _ => return None } }
                    // the derived order predicates are read through their defining axioms (which are among the axioms checked)
                    ("p__less_equal__", 2) => { let y = self.term(&a[1], env)?; self.leq(x, y) }
                    ("p__less__", 2) => { let y = self.term(&a[1], env)?; self.leq(x, y) && x != y }
                    ("p__greater_equal__", 2) => { let y = self.term(&a[1], env)?; self.leq(y, x) }
                    ("p__greater__", 2) => { let y = self.term(&a[1], env)?; self.leq(y, x) && x != y }
                    _ => return None,
                }
            }
        })
    }
}

pub fn check(fails: &mut Vec<Failure>) -> (usize, usize) {
    let left = "p(a). p(b). p(c). p(d).";
    let right = "p(d). p(c). p(b). p(a). p(a) :- p(b).";
    let what = format!("anthem verify --equivalence strong left `{left}` right `{right}`");
    let files = match run_verify_raw(&["--equivalence", "strong"], &[("a.lp", left), ("b.lp", right)]) { Ok(x) => x, Err(e) => { fails.push(Failure { property: "harness", input: what, detail: e }); return (0, 0); } };
    let text = match files.iter().find(|(n, _)| n.starts_with("forward")) { Some((_, t)) => t.clone(), None => { fails.push(Failure { property: "harness", input: what, detail: "no forward problem".into() }); return (0, 0); } };
    let problem = match tff::parse(&text) { Ok(p) => p, Err(e) => { fails.push(Failure { property: "C09", input: what, detail: e }); return (0, 0); } };
    let consts: Vec<String> = problem.entries.iter().filter(|e| e.name.starts_with("type_symbol")).filter_map(|e| e.decl.as_ref().map(|d| d.0.clone())).collect();
    let axioms: Vec<(&String, &F)> = problem.entries.iter().filter(|e| e.role == "axiom" && (e.name.ends_with("_ax") || e.name.starts_with("symbol_order"))).filter_map(|e| e.formula.as_ref().map(|f| (&e.name, f))).collect();
    if consts.len() != 4 || axioms.len() < 10 { fails.push(Failure { property: "harness", input: what, detail: format!("{} constants, {} axioms of anthem's own", consts.len(), axioms.len()) }); return (0, 0); }
    let ints = [0i64, 1];
    let (mut structures, mut models) = (0usize, 0usize);
    for k in [3usize, 4] {
        let n_rel = 1usize << (k * k);
        let n_den = k.pow(4);
        // k = 4: 65536 relations x 256 denotations is too many to enumerate naively; the relation must at least be reflexive, antisymmetric and total
        // for the ordering axioms to hold, so only linear-order-like candidates are kept by a cheap pre-filter on the three ordering axioms themselves
        let work: Vec<usize> = (0..n_rel).collect();
        let found: Vec<(usize, Vec<String>)> = crate::par_map(&work, |rel| {
            let leq: Vec<bool> = (0..k * k).map(|b| rel >> b & 1 == 1).collect();
            let mut out = Vec::new();
            let mut count = 0;
            // axioms that do not mention the constants are checked once per relation
            let empty = HashMap::new();
            let s0 = Structure { k, leq: &leq, denot: &empty, ints: &ints };
            for (name, f) in &axioms {
                if name.starts_with("symbol_order") { continue; }
                match s0.sat(f, &mut Vec::new()) { Some(true) => {} Some(false) => return (0, out), None => { out.push(format!("axiom {name} cannot be evaluated")); return (0, out); } }
            }
            for code in 0..n_den {
                let mut c = code;
                let denot: HashMap<String, usize> = consts.iter().map(|n| { let d = c % k; c /= k; (n.clone(), d) }).collect();
                let s = Structure { k, leq: &leq, denot: &denot, ints: &ints };
                if axioms.iter().filter(|(n, _)| n.starts_with("symbol_order")).all(|(_, f)| s.sat(f, &mut Vec::new()) == Some(true)) {
                    count += 1;
                    let mut ds: Vec<usize> = consts.iter().map(|n| denot[n]).collect();
                    ds.sort(); ds.dedup();
                    if ds.len() < consts.len() && out.len() < 2 {
                        out.push(format!("a structure with {k} symbols satisfies every axiom anthem adds although two constants denote the same element: {:?}, p__less_equal__ among the symbols = {:?}", consts.iter().map(|n| (n.clone(), denot[n])).collect::<Vec<_>>(), leq));
                    }
                }
            }
            (count, out)
        });
        structures += n_rel * n_den;
        for (c, msgs) in found {
            models += c;
            for m in msgs { if fails.len() < 4 { fails.push(Failure { property: if m.contains("cannot be evaluated") { "harness" } else { "C12" }, input: what.clone(), detail: m }); } }
        }
    }
    if models == 0 { fails.push(Failure { property: "harness", input: what, detail: "no structure at all satisfies the axioms (the standard one with 4 symbols must)".into() }); }
    (structures, models)
}
