//! The standard domain (a finite window of it) and interpretations.
use std::collections::{BTreeSet, HashMap};

/// Precomputed terms. The derived order is the standard total order: #inf < integers < symbols < #sup,
/// integers by value, symbols lexicographically.
#[derive(Clone, Debug, PartialEq, Eq, PartialOrd, Ord, Hash)]
pub enum Val {
    Inf,
    Int(i128),
    Sym(String),
    Sup,
}

impl std::fmt::Display for Val {
    fn fmt(&self, f: &mut std::fmt::Formatter<'_>) -> std::fmt::Result {
        match self {
            Val::Inf => write!(f, "#inf"),
            Val::Int(i) => write!(f, "{i}"),
            Val::Sym(s) => write!(f, "{s}"),
            Val::Sup => write!(f, "#sup"),
        }
    }
}

#[derive(Clone, Copy, Debug, PartialEq, Eq, Hash, PartialOrd, Ord)]
pub enum Sort {
    General,
    Integer,
    Symbol,
}

/// The window over which variables that are not pinned by an equation are enumerated.
#[derive(Clone, Debug)]
pub struct Domain {
    pub ints: Vec<i128>,
    pub syms: Vec<String>,
}

impl Domain {
    pub fn new(lo: i128, hi: i128, syms: &[&str]) -> Self {
        Domain { ints: (lo..=hi).collect(), syms: syms.iter().map(|s| s.to_string()).collect() }
    }
    pub fn of(&self, sort: Sort) -> Vec<Val> {
        let ints = self.ints.iter().map(|i| Val::Int(*i));
        let syms = self.syms.iter().map(|s| Val::Sym(s.clone()));
        match sort {
            Sort::Integer => ints.collect(),
            Sort::Symbol => syms.collect(),
            Sort::General => std::iter::once(Val::Inf).chain(ints).chain(syms).chain(std::iter::once(Val::Sup)).collect(),
        }
    }
}

pub type GroundAtom = (String, Vec<Val>);
pub type Atoms = BTreeSet<GroundAtom>;
pub type Env = HashMap<(String, Sort), Val>;

/// An HT interpretation <H, T> with H a subset of T, plus values of the placeholders (function constants).
#[derive(Clone, Debug)]
pub struct Ht {
    pub here: Atoms,
    pub there: Atoms,
    pub consts: HashMap<String, Val>,
}

impl Ht {
    pub fn show(&self) -> String {
        let f = |a: &Atoms| a.iter().map(|(p, args)| if args.is_empty() { p.clone() } else { format!("{p}({})", args.iter().map(|v| v.to_string()).collect::<Vec<_>>().join(",")) }).collect::<Vec<_>>().join(", ");
        let c = if self.consts.is_empty() { String::new() } else { format!(" consts={:?}", self.consts) };
        format!("H={{{}}} T={{{}}}{}", f(&self.here), f(&self.there), c)
    }
}

/// xorshift64*: deterministic, seedable, no dependency
pub struct Rng(pub u64);
impl Rng {
    pub fn next(&mut self) -> u64 {
        let mut x = self.0;
        x ^= x >> 12;
        x ^= x << 25;
        x ^= x >> 27;
        self.0 = x;
        x.wrapping_mul(0x2545F4914F6CDD1D)
    }
    pub fn below(&mut self, n: u64) -> u64 { self.next() % n }
}

/// A deterministic sample of HT interpretations over the given universe of ground atoms: the extreme ones,
/// and `n` pseudo-random ones (each atom independently: absent / there only / here and there).
/// VERIF_SEED (default 0) varies every pseudo-random choice of the harness; 0 reproduces the committed evidence
pub fn run_seed() -> u64 {
    static SEED: std::sync::OnceLock<u64> = std::sync::OnceLock::new();
    *SEED.get_or_init(|| std::env::var("VERIF_SEED").ok().and_then(|s| s.parse::<u64>().ok()).unwrap_or(0))
}

pub fn sample_interpretations(universe: &[GroundAtom], n: usize, seed: u64) -> Vec<Ht> {
    let seed = seed ^ run_seed().wrapping_mul(0x9E3779B97F4A7C15);
    let mut out = Vec::new();
    let total = 3usize.checked_pow(universe.len() as u32);
    if let Some(total) = total.filter(|t| *t <= n) {
        // exhaustive
        for code in 0..total {
            let mut c = code;
            let mut here = Atoms::new();
            let mut there = Atoms::new();
            for a in universe {
                match c % 3 { 1 => { there.insert(a.clone()); } 2 => { there.insert(a.clone()); here.insert(a.clone()); } _ => {} }
                c /= 3;
            }
            out.push(Ht { here, there, consts: HashMap::new() });
        }
        return out;
    }
    let all: Atoms = universe.iter().cloned().collect();
    out.push(Ht { here: Atoms::new(), there: Atoms::new(), consts: HashMap::new() });
    out.push(Ht { here: Atoms::new(), there: all.clone(), consts: HashMap::new() });
    out.push(Ht { here: all.clone(), there: all, consts: HashMap::new() });
    let mut rng = Rng(seed | 1);
    while out.len() < n {
        let mut here = Atoms::new();
        let mut there = Atoms::new();
        // vary the density so that sparse and dense interpretations both occur
        let dens = 1 + rng.below(4);
        for a in universe {
            let r = rng.below(2 + dens);
            if r == 0 { there.insert(a.clone()); } else if r == 1 { there.insert(a.clone()); here.insert(a.clone()); }
        }
        out.push(Ht { here, there, consts: HashMap::new() });
    }
    out
}
