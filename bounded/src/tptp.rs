//! Bounded stand-in for C06: the TPTP rendering of a formula has the truth value of the source formula. Closed formulas are
//! put into a specification, `anthem verify --equivalence external --direction backward --no-simplify --no-eq-break` writes
//! each of them as the conjecture of one problem, the TFF text is read back by the independent reader (tff.rs) under the
//! standard interpretation of the preamble symbols, and both are evaluated in sampled interpretations.
use crate::dom::{Domain, GroundAtom, Ht, Val, sample_interpretations};
use crate::hteval::{cheapest_first, cl_sat, free_vars};
use crate::simp::{corpus, exactly_evaluable, quantified_variables};
use crate::trans::Failure;
use crate::verify::{family, run_verify};
use anthem::syntax_tree::fol::sigma_0 as fol;
use std::str::FromStr;

fn rename(f: &fol::Formula) -> fol::Formula {
    // one arity per predicate name (the open C09 finding about a name used at two arities is kept out of this check)
    match f {
        fol::Formula::AtomicFormula(fol::AtomicFormula::Atom(a)) => fol::Formula::AtomicFormula(fol::AtomicFormula::Atom(fol::Atom { predicate_symbol: format!("{}{}", a.predicate_symbol, a.terms.len()), terms: a.terms.clone() })),
        fol::Formula::AtomicFormula(_) => f.clone(),
        fol::Formula::UnaryFormula { connective, formula } => fol::Formula::UnaryFormula { connective: connective.clone(), formula: Box::new(rename(formula)) },
        fol::Formula::BinaryFormula { connective, lhs, rhs } => fol::Formula::BinaryFormula { connective: connective.clone(), lhs: Box::new(rename(lhs)), rhs: Box::new(rename(rhs)) },
        fol::Formula::QuantifiedFormula { quantification, formula } => fol::Formula::QuantifiedFormula { quantification: quantification.clone(), formula: Box::new(rename(formula)) },
    }
}

const EXTRA: &[&str] = &[
    "forall X (p(X) -> exists N$i (X = N$i and 0 <= N$i <= 3 and not N$i + 1 != 2))", "forall X$s (q(X$s) -> X$s = a or p(#inf))", "exists X (p(X) and not 0 <= X <= 1)", "forall X (p(X) and 0 <= X <= 1 -> q(X))",
    "forall X (p(X) -> (0 <= X <= 1 <-> q(X)))", "exists X (p(X) and (0 < X < 2 or a <= X < #sup))", "not exists X (p(X) and #inf < X < 1 < 2)", "forall X (q(X) -> not not 0 <= X <= 1)", "p(-5) or not q(- 3 * 2)", "p(2 - 3) <-> q(1 - (2 - 3))",
    "exists N$i (p(N$i) and q(N$i * N$i - 1))", "exists N$i M$i (p(N$i) and q(M$i) and N$i - M$i = 1 and N$i > M$i >= 0)", "forall X (p(X) -> (q(X) -> (p(1) -> q(1))))", "forall X (p(X) <- q(X)) <- p(0)", "(p(0) <-> q(0)) <-> (p(1) <-> q(1))",
    "forall X (p(X) -> exists Y (q(Y) and forall Z (p(Z) and q(Z) -> X <= Z <= Y)))", "exists X$s (p(X$s) and X$s != a and X$s < b)", "forall X$s N$i (p(X$s) and q(N$i) -> N$i < X$s)", "p(a) and q(b) and a < b", "p(#sup) or q(#inf) or #inf < #sup",
];

pub struct TStats { pub formulas: usize, pub evaluations: usize, pub nontrivial: usize, pub samples: Vec<String> }

pub fn check(deep: bool, st: &mut TStats, fails: &mut Vec<Failure>) {
    let mut srcs: Vec<fol::Formula> = Vec::new();
    for t in corpus(deep).iter().map(|s| s.as_str()).chain(EXTRA.iter().cloned()) {
        if let Ok(f) = fol::Formula::from_str(t) {
            let mut fv = Vec::new();
            free_vars(&f, &mut Vec::new(), &mut fv);
            if fv.is_empty() && quantified_variables(&f) <= 12 && (exactly_evaluable(&f) || crate::simp::pure_small(&f)) && !f.predicates().is_empty() { srcs.push(rename(&f)); }
        }
    }
    // systematic: chains of one to three comparisons over every pair of relations, on their own and under every connective
    let rels = ["=", "!=", "<", "<=", ">", ">="];
    let triples = [("0", "0", "1"), ("1", "1", "1"), ("0", "1", "2"), ("2", "1", "1"), ("-1", "0", "-1"), ("a", "a", "b"), ("1", "a", "#sup"), ("#inf", "-1", "0")];
    let contexts = ["{}", "not {}", "not not {}", "p0 or not {}", "{} -> p0", "p0 -> {}", "p0 <-> {}", "not {} <- q0", "{} and p0", "not ({} and p0)", "p0 or {} or q0", "({} -> p0) and (q0 or not {})",
                    "forall X (p1(X) -> not {})", "exists X (p1(X) and not {} and q1(X))"];
    for (k, (a, b, c)) in triples.iter().enumerate() {
        for (i, r1) in rels.iter().enumerate() {
            let mut chains = vec![format!("{a} {r1} {b}")];
            for (j, r2) in rels.iter().enumerate() { if deep || (i + j + k) % 2 == 0 { chains.push(format!("{a} {r1} {b} {r2} {c}")); } }
            for ch in chains { for ctx in contexts { if let Ok(f) = fol::Formula::from_str(&ctx.replace("{}", &ch)) { if !f.predicates().is_empty() || ctx == "{}" || ctx.starts_with("not") { srcs.push(rename(&f)); } } } }
        }
    }
    // systematic: every relation between a quantified variable of each sort and constants / other variables
    for r in ["=", "!=", "<", "<=", ">", ">="] {
        for f in [format!("forall X (p(X) -> X {r} 0)"), format!("forall X (p(X) -> a {r} X)"), format!("exists X (p(X) and q(X, X) and X {r} #sup)"), format!("exists N$i (q(N$i) and N$i {r} 1)"), format!("forall N$i (q(N$i) -> 1 - N$i {r} N$i * 2)"),
                  format!("forall X N$i (q(X, N$i) -> X {r} N$i)"), format!("forall N$i X (q(X, N$i) -> N$i {r} X)"), format!("exists S$s (p(S$s) and S$s {r} a)"), format!("forall S$s N$i (p(S$s) and q(N$i) -> N$i {r} S$s)"),
                  format!("forall X Y (q(X, Y) -> X {r} Y)"), format!("exists X Y N$i (q(X, Y) and p(N$i) and X {r} N$i + 1 and Y {r} X)"), format!("forall M$i N$i (q(M$i, N$i) -> M$i * N$i - 1 {r} N$i - M$i)")] {
            if let Ok(f) = fol::Formula::from_str(&f) { srcs.push(rename(&f)); }
        }
    }
    // systematic: every relation between a placeholder of each sort (n integer, c symbol, d general) and numerals, symbols, variables of each
    // sort, arithmetic, and the other placeholders
    for r in ["=", "!=", "<", "<=", ">", ">="] {
        for f in [format!("p(0) or d {r} 1"), format!("p(0) or 1 {r} d"), format!("p(0) or d {r} a"), format!("p(0) or n {r} 1"), format!("p(0) or n + 1 {r} d"), format!("p(0) or d {r} n"), format!("p(0) or c {r} a"), format!("p(0) or c {r} d"), format!("p(0) or d {r} c"),
                  format!("p(0) or n {r} c"), format!("p(0) or d {r} #inf"), format!("p(0) or d {r} d"), format!("forall N$i (q(N$i) -> N$i {r} d)"), format!("forall N$i (q(N$i) -> d {r} N$i * 1)"), format!("forall X (q(X) -> X {r} d)"), format!("forall X (q(X) -> n {r} X)"),
                  format!("exists S$s (p(S$s) and S$s {r} c)"), format!("exists S$s (p(S$s) and d {r} S$s)"), format!("exists N$i (q(N$i) and N$i {r} n - 1)"), format!("not 0 {r} d {r} 1 or p(d)"), format!("q(d, n) or not (d {r} 1 and n {r} 1)")] {
            if let Ok(f) = fol::Formula::from_str(&f) { srcs.push(rename(&f)); }
        }
    }
    // systematic: ground integer terms of depth <= 2 over a few numerals (negative ones included) with unary minus, +, -, *:
    // the rendering must denote the same integer (compared with the value and with the value plus one)
    {
        let nums: [i128; 5] = [-7, -1, 0, 1, 3];
        let lit = |n: i128| if n < 0 { format!("{n}") } else { format!("{n}") };
        let mut t1: Vec<(String, i128)> = nums.iter().map(|n| (lit(*n), *n)).collect();
        for n in nums { t1.push((format!("-({})", lit(n)), -n)); t1.push((format!("-{}", lit(n)), -n)); }
        let mut all = t1.clone();
        for (a, va) in &t1 { for (b, vb) in &t1 {
            all.push((format!("({a}) + ({b})"), va + vb)); all.push((format!("({a}) - ({b})"), va - vb)); all.push((format!("({a}) * ({b})"), va * vb));
            all.push((format!("{a} - {b}"), va - vb));
        } }
        for (a, va) in t1.iter() { all.push((format!("-(({a}) * 2)"), -(va * 2))); all.push((format!("--({a})"), *va)); }
        for (k, (t, v)) in all.iter().enumerate() {
            if !deep && k % 3 != 0 && !t.starts_with("--") && !t.starts_with("-(-") && !t.starts_with("--") { continue; }
            for f in [format!("{t} = {v}"), format!("not {t} = {}", v + 1), format!("p(1) or {t} < {v}"), format!("q({t}) <-> q({v})")] {
                if let Ok(f) = fol::Formula::from_str(&f) { srcs.push(rename(&f)); }
            }
        }
    }
    // symbolic constants that are also propositional predicates, and whose renamed forms are taken as well (names as they are after `rename`)
    for t in ["p0 <-> q0 and q0__s and q1(q0) and not q1(q0__s)", "q1(p0) and q1(q0) -> p0 or q0", "p0 or q1(r0) or q1(r0__s) or q1(r0__s__s)", "q0__s <-> q1(q0__s) and not q1(q0)"] {
        if let Ok(f) = fol::Formula::from_str(t) { srcs.push(f); }
    }
    srcs.dedup();
    let ug = "input: q0__s/0. input: r0__s/0. input: q0/0. input: q1/1. input: q2/2. input: r0/0. input: r1/1. output: p0/0. output: p1/1. output: p2/2. input: n -> integer. input: c -> symbol. input: d -> general.";
    let inner = [Val::Int(0), Val::Int(1), Val::Sym("a".into())];
    let mut uni: Vec<GroundAtom> = vec![("p0".into(), vec![]), ("q0".into(), vec![]), ("r0".into(), vec![])];
    for v in &inner { for p in ["p1", "q1", "r1"] { uni.push((p.into(), vec![v.clone()])); } }
    for v in &inner { for w in &inner { uni.push(("q2".into(), vec![v.clone(), w.clone()])); uni.push(("p2".into(), vec![v.clone(), w.clone()])); } }
    let dom = Domain::new(-3, 4, &["a", "b"]);
    let n_interp = if deep { 40 } else { 16 };
    let chunks: Vec<&[fol::Formula]> = srcs.chunks(10).collect();
    let results: Vec<(usize, usize, Vec<String>, Vec<Failure>)> = crate::par_map(&chunks, |chunk| {
        let mut fl = Vec::new();
        let spec: String = chunk.iter().map(|f| format!("spec: {f}.\n")).collect();
        let flags = ["--equivalence", "external", "--direction", "backward", "--no-simplify", "--no-eq-break"];
        let what = format!("anthem verify {} b.lp=`p1(X) :- q1(X).` g.ug=`{ug}` s.spec=", flags.join(" "));
        let (rc, err, problems) = match run_verify(&flags, &[("b.lp", "p1(X) :- q1(X)."), ("s.spec", &spec), ("g.ug", ug)]) { Ok(x) => x, Err(e) => { fl.push(Failure { property: "harness", input: what, detail: e }); return (0, 0, vec![], fl); } };
        let bw = family(&problems, "backward");
        if rc != 0 || bw.len() != chunk.len() {
            fl.push(Failure { property: "harness", input: format!("{what}`{}`", spec.replace('\n', " ")), detail: format!("exit {rc}, {} backward problems for {} spec formulas: {}", bw.len(), chunk.len(), err.lines().filter(|l| !l.trim().is_empty()).take(2).collect::<Vec<_>>().join(" / ")) });
            return (0, 0, vec![], fl);
        }
        let (mut evals, mut nontrivial, mut samples) = (0, 0, Vec::new());
        for (k, f) in chunk.iter().enumerate() {
            let p = bw[k];
            for e in &p.wf_errors { fl.push(Failure { property: "C09", input: format!("{what}`spec: {f}.`"), detail: format!("{}: {e}", p.file) }); }
            let conj: Vec<_> = p.formulas.iter().filter(|(_, role, _)| role == "conjecture").collect();
            if !p.readable || conj.len() != 1 { fl.push(Failure { property: "C06", input: format!("{what}`spec: {f}.`"), detail: format!("{}: the rendered formula cannot be read back ({} conjectures)", p.file, conj.len()) }); continue; }
            // distinct symbolic constants stay distinct: the problem declares as many constants of sort symbol as its formulas (the spec
            // formulas up to this one; the program has none) mention
            {
                fn syms(f: &fol::Formula, out: &mut std::collections::BTreeSet<String>) {
                    fn term(t: &fol::GeneralTerm, out: &mut std::collections::BTreeSet<String>) { if let fol::GeneralTerm::SymbolicTerm(fol::SymbolicTerm::Symbol(s)) = t { out.insert(s.clone()); } }
                    match f {
                        fol::Formula::AtomicFormula(fol::AtomicFormula::Atom(a)) => for t in &a.terms { term(t, out) },
                        fol::Formula::AtomicFormula(fol::AtomicFormula::Comparison(c)) => { term(&c.term, out); for g in &c.guards { term(&g.term, out); } }
                        fol::Formula::AtomicFormula(_) => {}
                        fol::Formula::UnaryFormula { formula, .. } | fol::Formula::QuantifiedFormula { formula, .. } => syms(formula, out),
                        fol::Formula::BinaryFormula { lhs, rhs, .. } => { syms(lhs, out); syms(rhs, out); }
                    }
                }
                let mut want = std::collections::BTreeSet::new();
                for g in &chunk[..=k] { syms(g, &mut want); }
                for c in ["n", "c", "d"] { want.remove(c); }
                let mut own = std::collections::BTreeSet::new();
                syms(f, &mut own);
                let declared: std::collections::BTreeSet<&String> = p.symbols.iter().collect();
                if declared.len() < own.iter().filter(|s| !["n", "c", "d"].contains(&s.as_str())).count() || declared.len() > want.len() {
                    fl.push(Failure { property: "C06", input: format!("{what}`spec: {f}.`"), detail: format!("{}: the formula mentions the symbolic constants {:?} (all formulas of the problem: {:?}) but the problem declares {:?}", p.file, own, want, p.symbols) });
                }
            }
            let rendered = &conj[0].2;
            let src = cheapest_first(f);
            let seed = f.to_string().bytes().fold(0xcbf29ce484222325u64, |h, b| (h ^ b as u64).wrapping_mul(0x100000001b3));
            // interpretations with co-finite extents (pure.rs), for formulas without arithmetic and order comparisons
            if crate::simp::pure_small(f) && crate::simp::pure_small(rendered) {
                evals += 12;
                if let Some(d) = crate::pure::first_difference(f, rendered, true, 12, seed) { fl.push(Failure { property: "C06", input: format!("{what}`spec: {f}.`"), detail: format!("source formula and TPTP rendering (read back) differ: {d}") }); continue; }
            }
            if !exactly_evaluable(f) || !exactly_evaluable(rendered) { continue; }
            let (mut t, mut fa) = (false, false);
            for (mi, m) in sample_interpretations(&uni, n_interp, seed).into_iter().enumerate() {
                // placeholder values: the TPTP names carry the sort suffix, the source formula sees "@name"
                let (n, c, d) = (Val::Int((mi % 3) as i128), Val::Sym(if mi % 2 == 0 { "a" } else { "b" }.into()), if mi % 4 < 2 { Val::Int(1) } else { Val::Sym("a".into()) });
                let consts: std::collections::HashMap<String, Val> = [("@n", &n), ("@c", &c), ("@d", &d)].into_iter().map(|(k, v)| (k.to_string(), v.clone())).collect();
                let consts_rendered: std::collections::HashMap<String, Val> = [("n_i", &n), ("c_s", &c), ("d_g", &d)].into_iter().map(|(k, v)| (k.to_string(), v.clone())).collect();
                let mr = Ht { here: m.there.clone(), there: m.there.clone(), consts: consts_rendered };
                let m = Ht { here: m.there.clone(), there: m.there, consts };
                evals += 1;
                let (a, b) = (cl_sat(&src, &dom, &m), cl_sat(rendered, &dom, &mr));
                if a { t = true } else { fa = true }
                if a != b {
                    fl.push(Failure { property: "C06", input: format!("{what}`spec: {f}.`"), detail: format!("the source formula is {a} but its TPTP rendering (read back as `{rendered}`) is {b} in {{{}}}", m.show()) });
                    break;
                }
            }
            if t && fa { nontrivial += 1; }
            if samples.is_empty() && k == 0 { samples.push(format!("`{f}` rendered and read back as `{rendered}`")); }
        }
        (evals, nontrivial, samples, fl)
    });
    for (e, n, s, fl) in results { st.evaluations += e; st.nontrivial += n; if st.samples.len() < 5 { st.samples.extend(s); } fails.extend(fl); }
    st.formulas = srcs.len();
}
