//! Bounded stand-in for C11: `analyze --property tightness` against an independent computation of the positive
//! dependency graph, and the refusal of external-equivalence tasks outside the accepted class (nothing may be emitted),
//! each paired with a neighbouring task that is inside the class and must be accepted.
use crate::simp::run_anthem;
use crate::trans::Failure;
use crate::verify::run_verify;
use anthem::syntax_tree::asp::mini_gringo as asp;
use std::collections::{BTreeMap, BTreeSet};
use std::str::FromStr;

fn tight(p: &asp::Program) -> bool {
    let mut edges: BTreeMap<(String, usize), BTreeSet<(String, usize)>> = BTreeMap::new();
    for r in &p.rules {
        let h = match &r.head { asp::Head::Basic(a) | asp::Head::Choice(a) => (a.predicate_symbol.clone(), a.terms.len()), asp::Head::Falsity => continue };
        for f in &r.body.formulas {
            if let asp::AtomicFormula::Literal(asp::Literal { sign: asp::Sign::NoSign, atom }) = f { edges.entry(h.clone()).or_default().insert((atom.predicate_symbol.clone(), atom.terms.len())); }
        }
    }
    // acyclic: no node reaches itself
    for start in edges.keys() {
        let mut seen = BTreeSet::new();
        let mut stack: Vec<&(String, usize)> = edges[start].iter().collect();
        while let Some(n) = stack.pop() {
            if n == start { return false; }
            if seen.insert(n.clone()) { if let Some(s) = edges.get(n) { stack.extend(s.iter()); } }
        }
    }
    true
}

const PROGRAMS: &[&str] = &[
    "p :- q.", "p :- p.", "p :- not p.", "p :- not not p.", "p :- q. q :- p.", "p :- q. q :- r. r :- p.", "p :- q. q :- r. r :- not p.", "p(X) :- q(X). q(X) :- p(X+1).", "p(X) :- p(Y), X = Y+1.",
    "{p} :- p.", "{p}.", ":- p, q.", "p(X) :- q(X). q :- p(1).", "p :- p(1). p(X) :- q(X).", "p(1) :- p.", "p(X, Y) :- p(X). p(X) :- q(X).", "p(X) :- p(X, X). p(X, Y) :- q(X, Y), not p(X).",
    "a :- b. b :- c. c :- d. d :- not a.", "a :- b. b :- c. c :- d. d :- a.", "a :- b, not c. c :- not b. b :- not not a.", "t(X) :- e(X, Y), t(Y).", "t(X) :- e(X, Y), not t(Y).", "", "p. q :- p. r :- q, p.",
    "p :- q, r. r :- s. s :- q, p.", "{p(X)} :- q(X), p(X).", "{p(X)} :- q(X), not p(X).", ":- p, not q. q :- q.",
];

/// (why it is outside the class, files, must be refused?) — each refused task is followed by accepted neighbours
fn tasks() -> Vec<(&'static str, Vec<(&'static str, &'static str)>, Vec<&'static str>, bool)> {
    let ug = "input: q/0. output: p/0.";
    vec![
        ("control: tight, no private recursion", vec![("a.lp", "p :- t. t :- q."), ("b.lp", "p :- q."), ("g.ug", ug)], vec![], false),
        ("left program is not tight", vec![("a.lp", "p :- r. r :- p. r :- q."), ("b.lp", "p :- q."), ("g.ug", "input: q/0. output: p/0. output: r/0.")], vec![], true),
        ("right program is not tight", vec![("a.lp", "p :- q."), ("b.lp", "p :- r. r :- p. r :- q."), ("g.ug", "input: q/0. output: p/0. output: r/0.")], vec![], true),
        ("not tight but --bypass-tightness", vec![("a.lp", "p :- r. r :- p. r :- q."), ("b.lp", "p :- q. r :- q."), ("g.ug", "input: q/0. output: p/0. output: r/0.")], vec!["--bypass-tightness"], false),
        ("program against specification: program is not tight", vec![("b.lp", "p :- r. r :- p. r :- q."), ("s.spec", "spec: p <-> q."), ("g.ug", "input: q/0. output: p/0. output: r/0.")], vec![], true),
        ("private recursion through negation", vec![("a.lp", "p :- t. t :- not u. u :- not t."), ("b.lp", "p :- q."), ("g.ug", ug)], vec![], true),
        ("private recursion through negation, right program", vec![("a.lp", "p :- q."), ("b.lp", "p :- t. t :- not u. u :- not t."), ("g.ug", ug)], vec![], true),
        ("private recursion in the specification program only, through predicates the other program does not have", vec![("a.lp", "t :- not u. u :- not t. p :- t."), ("b.lp", "{p}."), ("g.ug", "output: p/0.")], vec![], true),
        ("private recursion without extension in the specification program", vec![("a.lp", "t :- not t. p :- t."), ("b.lp", "p."), ("g.ug", "output: p/0.")], vec![], true),
        ("private recursion in the program only", vec![("a.lp", "{p}."), ("b.lp", "t :- not u. u :- not t. p :- t."), ("g.ug", "output: p/0.")], vec![], true),
        ("private recursion through double negation", vec![("a.lp", "p :- t. t :- not not t."), ("b.lp", "p :- q."), ("g.ug", ug)], vec![], true),
        ("private recursion is not bypassed by --bypass-tightness", vec![("a.lp", "p :- t. t :- not u. u :- not t."), ("b.lp", "p :- q."), ("g.ug", ug)], vec!["--bypass-tightness"], true),
        ("control: negative cycle through a public predicate", vec![("a.lp", "p :- not t. t :- not p, q."), ("b.lp", "p :- not t. t :- not p, q."), ("g.ug", ug)], vec![], false),
        ("choice rule with a private head", vec![("a.lp", "{t} :- q. p :- t."), ("b.lp", "p :- q."), ("g.ug", ug)], vec![], true),
        ("choice rule with a private head, program against specification", vec![("b.lp", "{t} :- q. p :- t."), ("s.spec", "spec: p -> q."), ("g.ug", ug)], vec![], true),
        ("control: choice rule with a public head", vec![("a.lp", "{p} :- q."), ("b.lp", "{p} :- q."), ("g.ug", ug)], vec![], false),
        ("an input predicate heads a rule", vec![("a.lp", "p :- q. q :- p."), ("b.lp", "p :- q."), ("g.ug", ug)], vec!["--bypass-tightness"], true),
        ("an input predicate heads a fact of the right program", vec![("a.lp", "p :- q."), ("b.lp", "p :- q. q."), ("g.ug", ug)], vec![], true),
        ("an input predicate heads a choice rule", vec![("a.lp", "p :- q. {q}."), ("b.lp", "p :- q."), ("g.ug", ug)], vec![], true),
        ("control: a predicate of the same name and another arity heads a rule", vec![("a.lp", "p :- q. q(1) :- p."), ("b.lp", "p :- q."), ("g.ug", ug)], vec![], false),
        ("input and output declarations overlap", vec![("a.lp", "p :- q."), ("b.lp", "p :- q."), ("g.ug", "input: q/0. output: p/0. output: q/0.")], vec![], true),
        ("control: same name, different arity in input and output", vec![("a.lp", "p :- q. q(X) :- p, X = 1."), ("b.lp", "p :- q. q(1) :- p."), ("g.ug", "input: q/0. output: p/0. output: q/1.")], vec![], false),
        ("user-guide assumption mentions an output predicate", vec![("a.lp", "p :- q."), ("b.lp", "p :- q."), ("g.ug", "input: q/0. output: p/0. assumption: q or p.")], vec![], true),
        ("user-guide assumption mentions a private predicate", vec![("a.lp", "p :- t. t :- q."), ("b.lp", "p :- q."), ("g.ug", "input: q/0. output: p/0. assumption: t -> q.")], vec![], true),
        ("user-guide assumption mentions a private predicate of the right program", vec![("a.lp", "p :- q."), ("b.lp", "p :- t. t :- q."), ("g.ug", "input: q/0. output: p/0. assumption: t -> q.")], vec![], true),
        ("user-guide assumption mentions a private predicate of the right program, negated", vec![("a.lp", "p :- r."), ("b.lp", "t :- not r. p :- t."), ("g.ug", "input: r/0. output: p/0. assumption: not t and not r.")], vec![], true),
        ("user-guide assumption mentions a private predicate of both programs under a quantifier", vec![("a.lp", "p(X) :- t(X). t(X) :- q(X)."), ("b.lp", "p(X) :- t(X). t(X) :- q(X), X > 0."), ("g.ug", "input: q/1. output: p/1. assumption: forall X (t(X) -> q(X)).")], vec![], true),
        ("user-guide assumption mentions a private predicate of the program, program against specification", vec![("b.lp", "p :- t. t :- q."), ("s.spec", "spec: p <-> q."), ("g.ug", "input: q/0. output: p/0. assumption: t or not q.")], vec![], true),
        ("user-guide assumption mentions a predicate that occurs nowhere else", vec![("a.lp", "p :- q."), ("b.lp", "p :- q."), ("g.ug", "input: q/0. output: p/0. assumption: z -> q.")], vec![], true),
        ("user-guide assumption mentions an input predicate's name at another arity", vec![("a.lp", "p :- q."), ("b.lp", "p :- q."), ("g.ug", "input: q/0. output: p/0. assumption: forall X (q(X) -> X = 1).")], vec![], true),
        ("user-guide assumption mentions an input predicate's name at another arity (unary input)", vec![("a.lp", "p(X) :- q(X)."), ("b.lp", "p(X) :- q(X)."), ("g.ug", "input: q/1. output: p/1. assumption: forall X Y (q(X, Y) -> X = Y).")], vec![], true),
        ("control: assumption over input predicates only", vec![("a.lp", "p(X) :- q(X)."), ("b.lp", "p(X) :- q(X)."), ("g.ug", "input: q/1. output: p/1. assumption: forall X (q(X) -> X = 1).")], vec![], false),
        ("specification assumption mentions an output predicate", vec![("b.lp", "p :- q."), ("s.spec", "assumption: p. spec: p <-> q."), ("g.ug", ug)], vec![], true),
        ("control: specification assumption over an input predicate", vec![("b.lp", "p :- q."), ("s.spec", "assumption: q. spec: p <-> q."), ("g.ug", ug)], vec![], false),
        ("a placeholder declared with two sorts", vec![("a.lp", "p(X) :- q(X), X = n."), ("b.lp", "p(X) :- q(X), X = n."), ("g.ug", "input: q/1. output: p/1. input: n -> integer. input: n -> symbol.")], vec![], true),
        ("a placeholder declared with two sorts (general and integer)", vec![("a.lp", "p(X) :- q(X), X = n."), ("b.lp", "p(X) :- q(X), X = n."), ("g.ug", "input: q/1. output: p/1. input: n -> general. input: n -> integer.")], vec![], true),
        ("control: one placeholder", vec![("a.lp", "p(X) :- q(X), X = n."), ("b.lp", "p(X) :- q(X), X = n."), ("g.ug", "input: q/1. output: p/1. input: n -> integer.")], vec![], false),
    ]
}

/// proof outlines (C13): a definition is accepted only if it defines, by a closed equivalence over distinct variables, a
/// predicate that occurs nowhere in the task or in earlier entries and whose body mentions only earlier predicates
fn outline_tasks() -> Vec<(&'static str, &'static str, bool)> {
    vec![
        ("control: definition of a fresh predicate over task predicates", "definition: forall X (d(X) <-> p(X) and q(X)). lemma: forall X (d(X) -> q(X)).", false),
        ("control: second definition over the first", "definition: forall X (d(X) <-> q(X)). definition: forall X Y (e(X, Y) <-> d(X) and p(Y)). lemma: forall X (d(X) -> q(X)).", false),
        ("the defined predicate occurs in the task", "definition: forall X (p(X) <-> q(X)).", true),
        ("the defined predicate is an input predicate", "definition: forall X (q(X) <-> p(X)).", true),
        ("the defined predicate is a private predicate of a program", "definition: forall X (t(X) <-> q(X)).", true),
        ("the defined predicate was defined by an earlier entry", "definition: forall X (d(X) <-> q(X)). definition: forall X (d(X) <-> p(X)).", true),
        // (not tested: a lemma that mentions d and is listed before the definition of d. anthem hoists all definitions in front of all
        //  lemmas, so the lemma is proved with the definition among its axioms; the order inside the file has no effect on what is emitted)
        ("the body mentions the defined predicate itself", "definition: forall X (d(X) <-> d(X) and q(X)).", true),
        ("the body mentions a predicate that occurs nowhere earlier", "definition: forall X (d(X) <-> e(X)).", true),
        ("the body mentions a predicate defined only later", "definition: forall X (d(X) <-> e(X)). definition: forall X (e(X) <-> q(X)).", true),
        ("the body mentions a task predicate's name at another arity, defined only later", "definition: forall X (d(X) <-> not q(X, X)). definition: forall X Y (q(X, Y) <-> d(X)). lemma: #false.", true),
        ("the body mentions a private predicate's name at another arity", "definition: forall X (d(X) <-> t(X, X)).", true),
        ("the body mentions the defined predicate itself and a quantified variable is not in the body", "definition: forall X (d(X) <-> not d(a)). lemma: #false.", true),
        ("the body mentions a predicate defined only later and a quantified variable is not in the body", "definition: forall X (d(X) <-> not e(a)). definition: forall X (e(X) <-> d(X)). lemma: #false.", true),
        ("binary, the body mentions the defined predicate and leaves out a quantified variable", "definition: forall X Y (d(X, Y) <-> not d(X, X)). lemma: #false.", true),
        ("control: a quantified variable is not in the body (a warning only)", "definition: forall X Y (d(X, Y) <-> q(X)). lemma: forall X Y (d(X, Y) -> q(X)).", false),
        ("repeated variable in the defined atom", "definition: forall X (d(X, X) <-> q(X)).", true),
        ("a term that is not a variable in the defined atom", "definition: forall X (d(X, 1) <-> q(X)).", true),
        ("free variable in the body", "definition: forall X (d(X) <-> q(Y)).", true),
        ("quantified variables differ from the arguments", "definition: forall X Y (d(X) <-> q(X)).", true),
        ("not an equivalence", "definition: forall X (d(X) -> q(X)).", true),
        ("the defined atom on the right-hand side only", "definition: forall X (q(X) and p(X) <-> d(X)).", true),
        ("existential instead of universal closure", "definition: exists X (d(X) <-> q(X)).", true),
        ("the defined predicate is a private predicate of the right program (body only)", "definition: forall X (u(X) <-> q(X)).", true),
        ("control: the body mentions a private predicate of the right program", "definition: forall X (d(X) <-> u(X) and q(X)). lemma: forall X (d(X) -> q(X)).", false),
        ("the defined predicate is an output predicate that occurs in no program", "definition: forall X (r(X) <-> q(X)).", true),
        ("the defined predicate has the name of a task predicate at another arity: fresh, accepted", "definition: forall X Y (q(X, Y) <-> q(X) and q(Y)). lemma: forall X (q(X, X) -> q(X)).", false),
        ("control: lemmas only", "lemma: forall X (p(X) -> q(X)). lemma(forward): forall X (q(X) -> p(X)).", false),
    ]
}

// regularity as documented (res/manual/src/analyze.md; Lifschitz 2021): the harness's own reading, independent of natural.rs
fn sis(t: &asp::Term) -> bool {
    match t {
        asp::Term::Variable(_) => false,
        asp::Term::PrecomputedTerm(p) => !matches!(p, asp::PrecomputedTerm::Numeral(_)),
        asp::Term::UnaryOperation { arg, .. } => sis(arg),
        asp::Term::BinaryOperation { lhs, rhs, .. } => sis(lhs) || sis(rhs),
    }
}
fn reg1(t: &asp::Term) -> bool {
    match t {
        asp::Term::Variable(_) | asp::Term::PrecomputedTerm(_) => true,
        asp::Term::UnaryOperation { arg, .. } => reg1(arg) && !sis(arg),
        asp::Term::BinaryOperation { op, lhs, rhs } => matches!(op, asp::BinaryOperator::Add | asp::BinaryOperator::Subtract | asp::BinaryOperator::Multiply) && reg1(lhs) && reg1(rhs) && !sis(lhs) && !sis(rhs),
    }
}
fn reg2(t: &asp::Term) -> bool {
    matches!(t, asp::Term::BinaryOperation { op: asp::BinaryOperator::Interval, lhs, rhs } if reg1(lhs) && reg1(rhs) && !sis(lhs) && !sis(rhs))
}
fn regular(r: &asp::Rule) -> bool {
    let head_ok = crate::own::head_terms(&r.head).iter().all(|t| reg1(t) || reg2(t));
    head_ok && r.body.formulas.iter().all(|f| match f {
        asp::AtomicFormula::Literal(l) => l.atom.terms.iter().all(reg1),
        asp::AtomicFormula::Comparison(c) => (reg1(&c.lhs) && reg1(&c.rhs)) || (matches!(c.relation, asp::Relation::Equal) && reg1(&c.lhs) && reg2(&c.rhs)),
    })
}

pub fn check(runs: &mut usize, fails: &mut Vec<Failure>) {
    // regularity: `analyze --property regularity` (and the acceptance by the natural translation) against the documented definition
    {
        use anthem::translating::formula_representation::natural::Natural as _;
        let rules = crate::trans::corpus(false);
        for (k, text) in rules.iter().enumerate() {
            let p = match asp::Program::from_str(text) { Ok(p) => p, Err(_) => continue };
            let want = p.rules.iter().all(regular);
            *runs += 1;
            let got = std::panic::catch_unwind(|| p.clone().natural().is_some());
            match got {
                Ok(g) if g != want => fails.push(Failure { property: "C11", input: format!("`{text}`"), detail: format!("the natural translation {} the program, but by the documented definition it is {}regular", if g { "accepts" } else { "refuses" }, if want { "" } else { "not " }) }),
                Err(_) => fails.push(Failure { property: "C16", input: format!("`{text}`"), detail: "the natural translation panicked".into() }),
                _ => {}
            }
            if k % 16 == 0 {
                if let Ok((rc, out, _)) = run_anthem(&["analyze", "--property", "regularity"], Some(text)) {
                    if rc != 0 || out.trim() != want.to_string() { fails.push(Failure { property: "C11", input: format!("anthem analyze --property regularity: `{text}`"), detail: format!("prints `{}` (exit {rc}) but by the documented definition the program is {}regular", out.trim(), if want { "" } else { "not " }) }); }
                }
            }
        }
    }
    for (why, outline, refused) in outline_tasks() {
        *runs += 1;
        let files = vec![("a.lp", "p(X) :- t(X). t(X) :- q(X)."), ("b.lp", "p(X) :- q(X), not u(X)."), ("g.ug", "input: q/1. output: p/1. output: r/1."), ("o.po", outline)];
        let input = format!("anthem verify --equivalence external a.lp=`p(X) :- t(X). t(X) :- q(X).` b.lp=`p(X) :- q(X), not u(X).` g.ug=`input: q/1. output: p/1. output: r/1.` o.po=`{outline}`  [{why}]");
        let (rc, err, problems) = match run_verify(&["--equivalence", "external"], &files) { Ok(x) => x, Err(e) => { fails.push(Failure { property: "harness", input, detail: e }); return; } };
        if refused {
            if rc == 0 || !problems.is_empty() { fails.push(Failure { property: "C13", input, detail: format!("the outline must be rejected, but anthem exits with {rc} and emits {} problems", problems.len()) }); }
            else if rc == 101 || err.contains("panicked at") { fails.push(Failure { property: "C16", input, detail: format!("rejected by a panic: {}", err.lines().take(2).collect::<Vec<_>>().join(" / ")) }); }
        } else if rc != 0 || problems.is_empty() {
            fails.push(Failure { property: "C13", input, detail: format!("the outline is well-formed, but anthem exits with {rc} and emits {} problems: {}", problems.len(), err.lines().filter(|l| !l.trim().is_empty()).take(3).collect::<Vec<_>>().join(" / ")) });
        }
    }
    // every predicate that the emitted problems of a task declare occurs in the task (whatever name anthem has given it, e.g. a
    // private predicate renamed apart): a definition of it must be rejected
    for (a, b, ug) in [("p(X) :- t(X). t(X) :- q(X).", "p(X) :- t(X), not u(X). t(X) :- q(X), X != 1.", "input: q/1. output: p/1."),
                       ("p :- t, not w. t :- q. w :- not q, t.", "p :- t. t :- q, not w. w :- not q.", "input: q/0. output: p/0."),
                       ("p(X) :- t_p(X). t_p(X) :- q(X).", "p(X) :- t_p(X), t(X). t_p(X) :- q(X). t(X) :- q(X), X > 0.", "input: q/1. output: p/1.")] {
        let base = vec![("a.lp", a), ("b.lp", b), ("g.ug", ug), ("o.po", "lemma: #true.")];
        *runs += 1;
        let (rc, _, problems) = match run_verify(&["--equivalence", "external"], &base) { Ok(x) => x, Err(e) => { fails.push(Failure { property: "harness", input: format!("{a} | {b}"), detail: e }); return; } };
        if rc != 0 || problems.is_empty() { fails.push(Failure { property: "harness", input: format!("{a} | {b}"), detail: format!("control task is refused (exit {rc})") }); continue; }
        let mut taken: std::collections::BTreeSet<(String, usize)> = std::collections::BTreeSet::new();
        for p in &problems { for (n, k) in &p.preds { if n.chars().all(|c| c.is_ascii_lowercase() || c.is_ascii_digit() || c == '_') && n.chars().next().is_some_and(|c| c.is_ascii_lowercase()) { taken.insert((n.clone(), *k)); } } }
        for (n, k) in taken {
            let vars: Vec<String> = (0..k).map(|i| format!("X{i}")).collect();
            let outline = if k == 0 { format!("definition: {n} <-> #false.") } else { format!("definition: forall {} ({n}({}) <-> #false).", vars.join(" "), vars.join(", ")) };
            let files = vec![("a.lp", a), ("b.lp", b), ("g.ug", ug), ("o.po", outline.as_str())];
            *runs += 1;
            let input = format!("anthem verify --equivalence external a.lp=`{a}` b.lp=`{b}` g.ug=`{ug}` o.po=`{outline}`  [the emitted problems of this task declare {n}/{k}: it occurs in the task]");
            let (rc, err, problems) = match run_verify(&["--equivalence", "external"], &files) { Ok(x) => x, Err(e) => { fails.push(Failure { property: "harness", input, detail: e }); return; } };
            if rc == 0 || !problems.is_empty() {
                // (C02 as well: the definition contradicts the completed definition the problems already contain, every problem becomes provable)
                for prop in ["C13", "C02"] { fails.push(Failure { property: prop, input: input.clone(), detail: format!("the outline must be rejected, but anthem exits with {rc} and emits {} problems", problems.len()) }); }
            }
            else if rc == 101 || err.contains("panicked at") { fails.push(Failure { property: "C16", input, detail: format!("rejected by a panic: {}", err.lines().take(2).collect::<Vec<_>>().join(" / ")) }); }
        }
    }
    for text in PROGRAMS {
        let p = match asp::Program::from_str(text) { Ok(p) => p, Err(_) => { fails.push(Failure { property: "harness", input: text.to_string(), detail: "corpus program does not parse".into() }); continue; } };
        *runs += 1;
        let (rc, out, err) = match run_anthem(&["analyze", "--property", "tightness"], Some(text)) { Ok(x) => x, Err(e) => { fails.push(Failure { property: "harness", input: text.to_string(), detail: e }); return; } };
        let want = tight(&p);
        if rc != 0 || out.trim() != want.to_string() {
            fails.push(Failure { property: "C11", input: format!("anthem analyze --property tightness: `{text}`"), detail: format!("prints `{}` (exit {rc}{}) but the positive dependency graph is {}", out.trim(), if err.is_empty() { String::new() } else { format!(", {}", err.lines().next().unwrap_or("")) }, if want { "acyclic" } else { "cyclic" }) });
            fails.push(Failure { property: "C04", input: format!("anthem analyze --property tightness: `{text}`"), detail: format!("prints `{}` (exit {rc}{}) but the positive dependency graph is {}", out.trim(), if err.is_empty() { String::new() } else { format!(", {}", err.lines().next().unwrap_or("")) }, if want { "acyclic" } else { "cyclic" }) });
        }
    }
    for (why, files, flags, refused) in tasks() {
        *runs += 1;
        let mut all: Vec<&str> = vec!["--equivalence", "external"];
        all.extend(flags.iter());
        let input = format!("anthem verify {} {}  [{why}]", all.join(" "), files.iter().map(|(f, t)| format!("{f}=`{t}`")).collect::<Vec<_>>().join(" "));
        let (rc, err, problems) = match run_verify(&all, &files) { Ok(x) => x, Err(e) => { fails.push(Failure { property: "harness", input, detail: e }); return; } };
        if refused {
            if rc == 0 || !problems.is_empty() {
                // (C02 as well: the conditions are what makes the emitted obligations mean external equivalence; a task that violates one and is accepted is judged wrongly)
                for prop in ["C11", "C02"] { fails.push(Failure { property: prop, input: input.clone(), detail: format!("must be refused, but anthem exits with {rc} and emits {} problems", problems.len()) }); }
            } else if rc == 101 || err.contains("panicked at") {
                fails.push(Failure { property: "C16", input, detail: format!("refused by a panic: {}", err.lines().take(2).collect::<Vec<_>>().join(" / ")) });
            }
        } else if rc != 0 || problems.is_empty() {
            fails.push(Failure { property: "C11", input, detail: format!("is inside the accepted class, but anthem exits with {rc} and emits {} problems: {}", problems.len(), err.lines().take(2).collect::<Vec<_>>().join(" / ")) });
        }
    }
}
