//! Bounded stand-in for C07 (and the idempotence / determinism half of C18): `anthem simplify` is run on a corpus of
//! formulas; every output is compared with its input in sampled interpretations and under every assignment of the free
//! variables over a small value set — HT for the intuitionistic and ht portfolios, classical (H = T) for classic.
//!
//! Only pairs in which BOTH formulas are exactly evaluable are compared (every quantified variable that occurs in its
//! scope is pinned by an equation or guarded by an atom among the top-level conjuncts of an existential body / of the
//! antecedent of a universal implication): for those the evaluator's verdict is the truth value over the full standard
//! domain, so a reported difference is a genuine counter-model. Other pairs are counted as skipped.
use crate::dom::{Domain, GroundAtom, Ht, Rng, Sort, Val, sample_interpretations};
use crate::hteval::{Env, Eval, World, cheapest_first, free_vars};
use crate::trans::Failure;
use anthem::syntax_tree::fol::sigma_0 as fol;
use std::io::Write as _;
use std::process::{Command, Stdio};
use std::str::FromStr;

pub fn anthem_bin() -> std::path::PathBuf {
    std::env::current_exe().unwrap().parent().unwrap().join("anthem")
}

/// exit status used for a run that was killed because it did not end in time
pub const TIMED_OUT: i32 = -99;

pub fn run_anthem(args: &[&str], stdin: Option<&str>) -> Result<(i32, String, String), String> { run_anthem_within(args, stdin, 120) }

/// runs the binary; a run that has not ended after `secs` seconds is killed and reported with the status TIMED_OUT
pub fn run_anthem_within(args: &[&str], stdin: Option<&str>, secs: u64) -> Result<(i32, String, String), String> {
    use std::io::Read as _;
    let mut cmd = Command::new(anthem_bin());
    cmd.args(args).stdout(Stdio::piped()).stderr(Stdio::piped()).stdin(if stdin.is_some() { Stdio::piped() } else { Stdio::null() });
    let mut child = cmd.spawn().map_err(|e| format!("cannot start {}: {e}", anthem_bin().display()))?;
    let (mut so, mut se) = (child.stdout.take().unwrap(), child.stderr.take().unwrap());
    let si = child.stdin.take();
    let text = stdin.map(|s| s.to_string());
    let writer = std::thread::spawn(move || { if let (Some(mut si), Some(t)) = (si, text) { let _ = si.write_all(t.as_bytes()); } });
    let ro = std::thread::spawn(move || { let mut b = Vec::new(); let _ = so.read_to_end(&mut b); b });
    let re = std::thread::spawn(move || { let mut b = Vec::new(); let _ = se.read_to_end(&mut b); b });
    let t0 = std::time::Instant::now();
    let status = loop {
        match child.try_wait().map_err(|e| e.to_string())? {
            Some(st) => break Some(st),
            None => { if t0.elapsed().as_secs() >= secs { let _ = child.kill(); let _ = child.wait(); break None; } std::thread::sleep(std::time::Duration::from_millis(3)); }
        }
    };
    let _ = writer.join();
    let (out, err) = (ro.join().unwrap_or_default(), re.join().unwrap_or_default());
    match status {
        Some(st) => Ok((st.code().unwrap_or(-1), String::from_utf8_lossy(&out).into_owned(), String::from_utf8_lossy(&err).into_owned())),
        None => Ok((TIMED_OUT, String::from_utf8_lossy(&out).into_owned(), format!("killed: no result after {secs} s"))),
    }
}

// ---------------------------------------------------------------------------------------------------------------------
// exact evaluability

fn mentions(f: &fol::Formula, v: &fol::Variable) -> bool {
    let mut fv = Vec::new();
    free_vars(f, &mut Vec::new(), &mut fv);
    fv.iter().any(|(n, s)| *n == v.name && *s == v.sort)
}

fn term_is_var(t: &fol::GeneralTerm, v: &fol::Variable) -> bool {
    match (t, v.sort) {
        (fol::GeneralTerm::Variable(n), fol::Sort::General) => *n == v.name,
        (fol::GeneralTerm::IntegerTerm(fol::IntegerTerm::Variable(n)), fol::Sort::Integer) => *n == v.name,
        (fol::GeneralTerm::SymbolicTerm(fol::SymbolicTerm::Variable(n)), fol::Sort::Symbol) => *n == v.name,
        _ => false,
    }
}

fn conj<'f>(f: &'f fol::Formula, out: &mut Vec<&'f fol::Formula>) {
    match f {
        fol::Formula::BinaryFormula { connective: fol::BinaryConnective::Conjunction, lhs, rhs } => { conj(lhs, out); conj(rhs, out); }
        _ => out.push(f),
    }
}

fn term_mentions(t: &fol::GeneralTerm, vs: &[&fol::Variable]) -> bool {
    let f = fol::Formula::AtomicFormula(fol::AtomicFormula::Comparison(fol::Comparison { term: t.clone(), guards: vec![] }));
    vs.iter().any(|v| mentions(&f, v))
}

/// the block variables that are restricted by the conjuncts: atom argument, or (iteratively) equation with a term over restricted variables
fn restricted(block: &[fol::Variable], cs: &[&fol::Formula]) -> bool {
    let mut open: Vec<&fol::Variable> = block.iter().filter(|v| cs.iter().any(|c| mentions(c, v))).collect();
    loop {
        let before = open.len();
        let snapshot = open.clone();
        open.retain(|v| {
            let ok = cs.iter().any(|c| match c {
                fol::Formula::AtomicFormula(fol::AtomicFormula::Atom(a)) => a.terms.iter().any(|t| term_is_var(t, v)),
                fol::Formula::AtomicFormula(fol::AtomicFormula::Comparison(c)) if c.guards.len() == 1 && c.guards[0].relation == fol::Relation::Equal => {
                    let (l, r) = (&c.term, &c.guards[0].term);
                    (term_is_var(l, v) && !term_mentions(r, &snapshot)) || (term_is_var(r, v) && !term_mentions(l, &snapshot))
                }
                _ => false,
            });
            !ok
        });
        if open.is_empty() { return true; }
        if open.len() == before { return false; }
    }
}

pub fn quantified_variables(f: &fol::Formula) -> usize {
    match f {
        fol::Formula::AtomicFormula(_) => 0,
        fol::Formula::UnaryFormula { formula, .. } => quantified_variables(formula),
        fol::Formula::BinaryFormula { lhs, rhs, .. } => quantified_variables(lhs) + quantified_variables(rhs),
        fol::Formula::QuantifiedFormula { quantification, formula } => quantification.variables.len() + quantified_variables(formula),
    }
}

pub fn exactly_evaluable(f: &fol::Formula) -> bool {
    match f {
        fol::Formula::AtomicFormula(_) => true,
        fol::Formula::UnaryFormula { formula, .. } => exactly_evaluable(formula),
        fol::Formula::BinaryFormula { lhs, rhs, .. } => exactly_evaluable(lhs) && exactly_evaluable(rhs),
        fol::Formula::QuantifiedFormula { quantification, formula } => {
            if !exactly_evaluable(formula) { return false; }
            // forall distributes over conjunction, exists over disjunction (the evaluator does the same)
            match (&quantification.quantifier, &**formula) {
                (fol::Quantifier::Forall, fol::Formula::BinaryFormula { connective: fol::BinaryConnective::Conjunction, lhs, rhs })
                | (fol::Quantifier::Exists, fol::Formula::BinaryFormula { connective: fol::BinaryConnective::Disjunction, lhs, rhs }) => {
                    return [lhs, rhs].iter().all(|g| exactly_evaluable(&fol::Formula::QuantifiedFormula { quantification: quantification.clone(), formula: (*g).clone() }));
                }
                _ => {}
            }
            let mut cs = Vec::new();
            match quantification.quantifier {
                fol::Quantifier::Exists => conj(formula, &mut cs),
                fol::Quantifier::Forall => match &**formula {
                    fol::Formula::BinaryFormula { connective: fol::BinaryConnective::Implication, lhs, rhs } => {
                        // variables occurring only in the consequent are unrestricted
                        if quantification.variables.iter().any(|v| mentions(rhs, v) && !mentions(lhs, v)) { return false; }
                        conj(lhs, &mut cs)
                    }
                    fol::Formula::BinaryFormula { connective: fol::BinaryConnective::ReverseImplication, lhs, rhs } => {
                        if quantification.variables.iter().any(|v| mentions(lhs, v) && !mentions(rhs, v)) { return false; }
                        conj(rhs, &mut cs)
                    }
                    _ => return !quantification.variables.iter().any(|v| mentions(formula, v)),
                },
            }
            restricted(&quantification.variables, &cs)
        }
    }
}

// ---------------------------------------------------------------------------------------------------------------------
// corpus

const PATTERNS: &[&str] = &[
    // connective identities and their near misses
    "p and #true", "#true and p", "p or #false", "#false or p", "p and #false", "p or #true", "p -> #true", "#true -> p", "#false -> p", "p -> #false", "p <- #true", "#false <- p",
    "p <-> #true", "p <-> #false", "#true <-> p", "p and p", "p or p", "p and q", "p and (p or q)", "p -> p", "p <-> p", "p <- p", "(p and q) and (p and q)", "(p or q) or (q or p)",
    "not #true", "not #false", "not not p", "not not not p", "not p or p", "p or not p", "not p and p", "not (p and not p)", "p -> not not p", "not not p -> p", "not p -> #false", "(p -> #false) -> #false",
    "(p -> q) and (q -> p)", "(p -> q) and (p -> q)", "(p -> q) and (q <- p)", "(p <- q) and (q -> p)", "(p <- q) and (q <- p)", "(p -> q) and (p <- q)", "(q -> p) and (p -> q)", "(p -> q) or (q -> p)",
    "(p -> q) and (q -> r)", "(p <-> q) and (q <-> p)", "p <- q", "(p <- q) <- r", "p -> (q <- r)", "(p and q) <-> (q and p)", "not p <-> (p -> #false)", "(p -> q) <-> (not p or q)",
    // comparisons
    "X = X", "X != X", "X < X", "X <= X", "1 = 1", "1 != 1", "1 = 2", "1 < 2", "a = a", "a = b", "a < 1", "#inf < X", "X <= #sup", "X = Y", "X = Y and Y = X", "N$i = N$i", "N$i + 1 = N$i + 1", "N$i + 1 = 1 + N$i",
    "1 + 1 = 2", "X = 1 and X = 2", "X = 1 and 1 = X", "1 < X < 3", "X < Y < X", "X = Y = X", "X = X = Y", "1 <= X <= 1", "X != Y or X = Y", "N$i * 0 = 0", "N$i - N$i = 0", "X = a and X = 1",
    "X = Y and Y = Z", "X = Y and Y = Z and p(X)", "X = Y and X = Y", "X = Y and Y = X and p(X, Y)", "X = Y and X < Y", "X = Y and Y = Z and X = Z", "X = N$i and N$i = Y", "X = Y and Y = 1", "X < Y and Y < Z",
    // quantifiers: orphaned variables, empty and nested blocks
    "exists X (p)", "forall X (p)", "exists X (p(Y))", "exists X Y (p(X))", "forall X Y (p(X) -> q)", "exists X (exists Y (p(X) and q(Y)))", "exists X (exists X (p(X)))", "forall X (forall Y (p(X) and q(Y) -> r))",
    "exists X (forall Y (q(Y) -> p(X) and q(X)))", "forall X (exists Y (p(X) -> q(Y) and p(Y)))", "exists X (p(X) and exists Y (q(X, Y)))", "exists X (p(X) and exists X (q(X)))", "forall X (p(X) -> forall X (q(X) -> r))",
    "exists X (p(X)) and q", "q and exists X (p(X))", "exists X (p(X)) or q", "forall X (p(X) -> r) and q", "forall X (p(X) -> r) or q", "q -> exists X (p(X))", "exists X (p(X)) -> q", "forall X (p(X) -> r) -> q",
    "q -> forall X (p(X) -> r)", "exists X (p(X)) and q(X)", "q(X) and exists X (p(X))", "exists X (p(X)) and exists X (q(X))", "exists X (p(X)) and exists Y (q(Y))", "forall X (p(X) -> r) and forall X (q(X) -> r)",
    "exists X (p(X) and q(Y)) and q(X)", "exists X (p(X)) or exists X (q(X))", "not exists X (p(X))", "not forall X (p(X) -> q(X))", "exists X (p(X) and not q(X))", "exists X (p(X) and #true)", "exists X (p(X) and #false)",
    "exists X$i (p(X$i))", "exists X$i X (p(X$i) and q(X))", "exists X X$i (p(X$i) and q(X))", "forall X$i (p(X$i) -> q(X$i))", "exists X (p(X)) <-> exists Y (p(Y))", "exists X (p(X) and q) <-> (exists X (p(X)) and q)",
    // defined variables and domain restriction
    "exists X (X = 1 and p(X))", "exists X (1 = X and p(X))", "exists X (X = Y and p(X))", "exists X (X = Y and p(X) and q(X, Y))", "exists X (X = Y and exists Y (q(Y) and p(X)))", "exists X (X = Y and forall Y (q(Y) -> p(X)))",
    "exists X (p(X) and X = Y)", "exists X (X = Y and p(Y))", "exists X (X = X and p(X))", "exists X (X = a and not p(X))", "forall X (X = 1 -> p(X))", "forall X (X = Y -> p(X))", "forall X (X = Y and q(X) -> p(X))",
    "forall X (p(X) -> X = 1)", "exists X Y (X = Y and p(X) and q(Y))", "exists X Y (X = 1 and Y = X and q(X, Y))", "exists X (X = N$i and p(X))", "exists X (X = N$i + 1 and p(X))", "exists N$i (N$i = X and p(N$i))",
    "exists N$i (X = N$i and p(X))", "exists N$i (N$i = 1 and p(N$i))", "exists X (exists N$i (X = N$i) and p(X))", "exists X (exists N$i (X = N$i and q(N$i)) and p(X))", "exists X (exists N$i M$i (X = N$i and Y = M$i) and p(X))",
    "exists X Y (exists N$i M$i (X = N$i and Y = M$i and N$i < M$i) and q(X, Y))", "forall X (exists N$i (X = N$i) and p(X) -> q(X))", "forall X (exists N$i (X = N$i and p(N$i)) -> q(X))", "exists X (X = Y + 1 and p(X))",
    "exists Z (Z = X and p(Z)) and exists Z (Z = Y and q(Z))", "exists Z (Z = X and exists Z1 (Z1 = Z and q(Z, Z1)))", "exists Z Z1 (Z = X and Z1 = Y and Z = Z1)", "exists Z Z1 (Z = X and Z1 = Y and Z < Z1 and q(Z, Z1))",
    "forall V1 (exists I$i J$i (I$i = X and J$i = 1 and V1 = I$i + J$i) and exists Z (Z = X and q(Z)) -> p(V1))", "forall X V1 (V1 = X and exists Z (Z = X and q(Z)) -> p(V1))", "forall X (exists Z (Z = X and q(Z)) -> exists Z (Z = X and p(Z)))",
    "forall X V1 (V1 = X and q(X) and not exists Z (Z = X and r(Z)) -> p(V1))", "forall X V1 (V1 = X and q(X) and not not exists Z (Z = X and r(Z)) -> p(V1) or not p(V1))", "exists I$i J$i K$i (I$i = 0 and J$i = 1 and X = K$i and I$i <= K$i <= J$i and p(X))",
    "forall X (q(X) and exists Z Z1 (Z = X and Z1 = 1 and Z > Z1) -> #false)", "exists I$i J$i Q$i R$i (I$i = J$i * Q$i + R$i and I$i = 3 and J$i = 2 and J$i != 0 and R$i >= 0 and R$i < J$i and X = Q$i and q(R$i, Q$i) and p(X))",
];

const LEAVES0: &[&str] = &["p", "q", "r", "#true", "#false"];

struct Gen { rng: Rng }

impl Gen {
    fn pick<'a>(&mut self, xs: &[&'a str]) -> &'a str { xs[self.rng.below(xs.len() as u64) as usize] }

    fn term(&mut self, gens: &[String], ints: &[String]) -> String {
        let n = self.rng.below(10);
        if n < 4 && !gens.is_empty() { return gens[self.rng.below(gens.len() as u64) as usize].clone(); }
        if n < 6 && !ints.is_empty() { return ints[self.rng.below(ints.len() as u64) as usize].clone(); }
        if n == 6 && !ints.is_empty() { return format!("{} + 1", ints[self.rng.below(ints.len() as u64) as usize]); }
        self.pick(&["0", "1", "a", "2", "#inf"]).to_string()
    }

    fn leaf(&mut self, gens: &[String], ints: &[String]) -> String {
        match self.rng.below(10) {
            0 | 1 => self.pick(LEAVES0).to_string(),
            2 | 3 | 4 => format!("{}({})", self.pick(&["p", "q"]), self.term(gens, ints)),
            5 => format!("q({}, {})", self.term(gens, ints), self.term(gens, ints)),
            6 => format!("{} {} {} {} {}", self.term(gens, ints), self.pick(&["=", "<", "<=", "!="]), self.term(gens, ints), self.pick(&["=", "<", "<=", ">"]), self.term(gens, ints)),
            _ => format!("{} {} {}", self.term(gens, ints), self.pick(&["=", "=", "=", "!=", "<", "<=", ">", ">="]), self.term(gens, ints)),
        }
    }

    /// a formula whose quantifiers are guarded
    fn formula(&mut self, depth: u32, gens: &mut Vec<String>, ints: &mut Vec<String>) -> String {
        if depth == 0 { return self.leaf(gens, ints); }
        match self.rng.below(12) {
            0 => self.leaf(gens, ints),
            1 => format!("not {}", self.sub(depth - 1, gens, ints)),
            2 | 3 => format!("{} and {}", self.sub(depth - 1, gens, ints), self.sub(depth - 1, gens, ints)),
            4 => format!("{} or {}", self.sub(depth - 1, gens, ints), self.sub(depth - 1, gens, ints)),
            5 => format!("{} -> {}", self.sub(depth - 1, gens, ints), self.sub(depth - 1, gens, ints)),
            6 => format!("{} <- {}", self.sub(depth - 1, gens, ints), self.sub(depth - 1, gens, ints)),
            7 => format!("{} <-> {}", self.sub(depth - 1, gens, ints), self.sub(depth - 1, gens, ints)),
            _ => {
                // guarded quantifier over one or two fresh-or-shadowing variables
                let exists = self.rng.below(2) == 0;
                let int_sorted = self.rng.below(4) == 0;
                let name = if int_sorted { self.pick(&["N$i", "M$i", "I$i", "X$i", "Y$i"]) } else { self.pick(&["X", "Y", "Z", "Z1", "S$s", "X$s", "N"]) }.to_string();
                let guard = match self.rng.below(4) {
                    0 => { let t = self.term(gens, ints); if t.contains(name.trim_end_matches("$i").trim_end_matches("$s")) { format!("p({name})") } else { format!("{name} = {t}") } }
                    1 => format!("q({name}, {})", self.term(gens, ints)),
                    _ => format!("{}({name})", self.pick(&["p", "q"])),
                };
                let (pushed_g, pushed_i) = if int_sorted { ints.push(name.clone()); (false, true) } else { gens.push(name.clone()); (true, false) };
                let body = self.sub(depth - 1, gens, ints);
                if pushed_g { gens.pop(); }
                if pushed_i { ints.pop(); }
                let orphan = if self.rng.below(6) == 0 { " W" } else { "" };
                if exists { format!("exists {name}{orphan} ({guard} and {body})") } else if self.rng.below(2) == 0 { format!("forall {name}{orphan} ({guard} -> {body})") } else { format!("forall {name}{orphan} ({guard} and {} -> {body})", self.leaf(gens, ints)) }
            }
        }
    }

    fn sub(&mut self, depth: u32, gens: &mut Vec<String>, ints: &mut Vec<String>) -> String {
        let f = self.formula(depth, gens, ints);
        if f.contains(' ') && !(f.starts_with("exists") || f.starts_with("forall")) && !is_atomic_text(&f) { format!("({f})") } else { f }
    }
}

fn is_atomic_text(f: &str) -> bool {
    !(f.contains(" and ") || f.contains(" or ") || f.contains("->") || f.contains("<-") || f.starts_with("not ") || f.starts_with("exists") || f.starts_with("forall"))
}

pub fn corpus(deep: bool) -> Vec<String> {
    let mut out: Vec<String> = PATTERNS.iter().map(|s| s.to_string()).collect();
    // all binary combinations of two binary propositional formulas over p, q (the equivalence-definition shapes live here)
    let ops = ["and", "or", "->", "<-", "<->"];
    let props = ["p", "q", "#true", "#false"];
    for a in props { for o in ops { for b in props { out.push(format!("{a} {o} {b}")); } } }
    let small: Vec<String> = { let mut v = Vec::new(); for a in ["p", "q"] { for o in ["->", "<-", "and", "<->"] { for b in ["p", "q", "r"] { v.push(format!("({a} {o} {b})")); } } } v };
    for a in &small { for o in ops { for b in &small { out.push(format!("{a} {o} {b}")); } } }
    // variables of different sorts that share a name are different variables
    for t in ["exists X (X$i = 1 and p(X))", "exists X (X$s = a and p(X))", "exists X (p(X) and 1 = X$i)", "forall X$i (q(X$i) -> exists X (X$i = 1 and p(X)))", "forall X$s (exists X (X$s = a and p(X)) or q(X$s))",
              "exists X$i (X = 1 and p(X$i))", "exists X X$i (X = X$i and p(X) and q(X$i))", "exists X$i (X$i = X and p(X$i)) and p(X)", "forall X (p(X) -> exists X$i (X$i = X and q(X$i, X)))", "exists Y (Y$i = N$i and q(Y, Y$i))",
              "exists X$s X$i (X = X$s and X = X$i and p(X))", "exists X (X = X$i and exists X$i (X$i = 1 and q(X, X$i)))", "exists N (N = N$i + 1 and p(N)) and p(N$i)", "forall X$i X (X = X$i -> p(X)) -> p(X$i)"] {
        out.push(t.to_string());
    }
    // orphaned, repeated and shadowed variables of different sorts
    for t in ["exists X$i (p(X))", "exists X X$i (p(X$i))", "forall X$i X (p(X) -> q)", "exists X (exists X$i (p(X)))", "exists X$i (exists X (p(X$i)))", "exists X (forall X (p(X) -> q(X)))", "exists X (exists X (p(X)) and q(X))",
              "forall X (exists X$i (p(X$i)) -> q(X))", "exists X$s X$i X (p(X))", "exists X (p(X)) and exists X$i (p(X$i))", "forall X X (p(X) -> q(X))", "exists X Y X (q(X, Y))", "exists X$i (forall X$i (p(X$i) -> q(X$i)) and p(X$i))"] {
        out.push(t.to_string());
    }
    // the three sorts side by side
    for t in ["exists X$i Y$s (Z = X$i and Z = Y$s and p(X$i))", "exists X$i Y$s (X$i = Z and Y$s = Z and p(X$i) and q(Y$s))", "exists Y$s X$i (Z = Y$s and X$i = Z and p(1))", "forall X (exists X$i Y$s (#inf = X$i and #inf = Y$s and p(X$i)) -> q(X))",
              "exists X$s (X$s = a and p(X$s))", "exists X$s (X$s = Y and p(X$s))", "exists X$s Y$s (X$s = Y$s and q(X$s, Y$s))", "forall X$s (p(X$s) -> exists N$i (q(N$i) and N$i < X$s))", "exists X (exists Y$s (X = Y$s) and p(X))",
              "exists X Y$s N$i (X = Y$s and X = N$i and p(X))", "exists N$i Y$s (N$i = 1 and Y$s = a and q(N$i, Y$s))", "exists Y$s (Y$s = X and Y$s = Z and p(Y$s))"] {
        out.push(t.to_string());
    }
    // a quantifier next to a formula in which some, all or none of its variables occur free (scope extension must not capture)
    for t in ["p(X) and exists X Y (q(X, Y))", "exists X Y (q(X, Y)) and p(X)", "exists X Y (q(X, Y)) and p(Y)", "p(Y) or forall X Y (q(X, Y))", "forall X Y (q(X, Y) -> p(X)) and q(Y, Y)", "q(X, Z) and exists Z Y X (q(X, Y) and p(Z))",
              "exists X$i Y (q(X$i, Y)) and p(Y)", "p(X$i) or exists Y X$i (q(X$i, Y))", "exists X Y (q(X, Y)) and exists Y Z (q(Y, Z) and p(X))", "exists X (p(X, Y)) and exists Y (q(X, Y))", "forall X (p(X, Y)) or forall Y (q(X, Y))",
              "q(X, Y) and exists X Y (q(X, Y))", "exists X Y (q(X, Y)) or q(X, Y)", "p(Z) and exists X Y (q(X, Y))", "exists X (p(X)) and exists X (q(X))", "exists X (p(X)) and forall X (q(X) -> p(X))", "forall X (p(X)) and forall X (q(X))",
              "exists X (p(X)) or exists X (q(X))", "forall X (p(X)) or forall Y (q(Y))", "exists X Y (q(X, Y)) and forall Y (p(Y) -> q(X, Y))", "(exists X (p(X)) and q(X)) and exists X (q(X))", "not (p(X) and exists X Y (q(X, Y)))",
              "exists Y (q(X, Y)) -> exists X (p(X))", "p(X) -> forall X Y (q(X, Y))", "forall X Y (q(X, Y)) <- p(Y)", "exists X$i Y$i (q(X$i, Y$i)) and p(X)", "exists X Y$i (q(X, Y$i)) and p(Y)"] {
        out.push(t.to_string());
    }
    // unguarded quantifiers: non-trivial only when an extent may be co-finite (evaluated by pure.rs)
    for t in ["forall X (p(X))", "exists X (p(X) -> q(X))", "exists X (p(X) <- q(X))", "exists X (p(X) <-> q(X))", "forall X (p(X) or q(X))", "forall X (p(X)) or forall X (q(X))", "forall X (p(X) or q)", "exists X (p(X) -> q)", "exists X (q -> p(X))",
              "forall X (p(X)) -> exists X (q(X))", "not forall X (p(X))", "not exists X (not p(X))", "forall X (not not p(X))", "not not forall X (p(X))", "forall X (p(X) -> q(X)) -> (forall X (p(X)) -> forall X (q(X)))", "forall X exists Y (q(X, Y))",
              "exists Y forall X (q(X, Y))", "forall X (exists Y (q(X, Y)) -> p(X))", "forall X Y (q(X, Y) or p(X))", "forall X (p(X) or not p(X))", "exists X (p(X) or not p(X))", "forall X (p(X) -> #false)", "exists X (p(X) -> #false)", "forall X (X = 0 or p(X))",
              "forall X (X != a -> p(X))", "exists X (X != 0 and X != 1 and not p(X))", "forall X Y (X = Y or q(X, Y))", "forall X (p(X) and q(X))", "forall X (p(X)) and forall X (q(X))", "exists X (p(X) and q)", "forall X$i (p(X$i))", "forall X$s (p(X$s) or q(X$s))",
              "exists X$i (p(X$i) -> q(X$i))", "forall X (p(X) <-> q(X))", "forall X (p(X) <-> q(X)) -> (forall X (p(X)) <-> forall X (q(X)))", "exists X (forall Y (q(X, Y)) -> p(X))", "forall X (p(X) <- q(X)) and exists X (not q(X))",
              "forall Y exists X (p(X) <- q(Y) and X != Y)", "not exists X (p(X) -> q(X))", "exists X (not p(X) -> q(X))", "exists X (p(X) -> exists Y (q(X, Y) -> p(Y)))"] {
        out.push(t.to_string());
    }
    // an integer variable that restricts a general one, with the indexed variants of its name taken (the fresh-name search has to move on)
    for t in ["forall X Y I1$i I2$i (exists Z I$i (q(X, Z) and Y = I$i and I$i > I1$i + I2$i) -> p(X))", "forall Y I1$i (exists I$i (Y = I$i and I$i > I1$i) -> p(Y))", "forall Y I1$i I2$i I3$i (exists I$i (Y = I$i and I$i > I1$i + I2$i + I3$i) -> p(Y))",
              "forall V1 (p(V1) <-> exists I1$i I2$i (q(I1$i, I2$i) and exists I$i J$i (V1 = I$i + J$i and I$i = I1$i and J$i = I2$i)))", "forall Y N1$i N2$i (exists N$i (Y = N$i and q(N1$i, N2$i) and N$i >= 0) -> p(Y))",
              "forall X J1$i J2$i (exists J$i (X = J$i and q(J$i, J1$i)) -> q(X, J2$i))", "exists Y I1$i I2$i (exists I$i (Y = I$i and q(I1$i, I2$i) and p(I$i)))", "forall Y I2$i (exists I$i I1$i (Y = I$i and I$i > I1$i + I2$i) -> p(Y))"] {
        out.push(t.to_string());
    }
    // the shapes of restrict_quantifier_domain, with and without an inner block that binds the outer variable again
    for t in ["exists Z (exists I$i Z (I$i = Z and q(Z)) and p(Z))", "exists Z (exists I$i (I$i = Z and q(Z)) and p(Z))", "exists Z (exists I$i Z (I$i = Z and q(I$i)) and p(Z))", "exists Z (p(Z) and exists Z I$i (Z = I$i and q(Z)))",
              "forall Z (exists I$i Z (I$i = Z and q(Z)) -> p(Z))", "forall Z (exists I$i (I$i = Z and q(Z)) -> p(1))", "forall Z (exists Z I$i (Z = I$i and q(I$i)) -> p(a))", "exists Y Z (exists I$i Z (I$i = Z and q(Z, Y)) and p(Z))",
              "exists Z (exists I$i J$i Z (I$i = Z and J$i = I$i and q(Z)) and p(Z))", "exists Z (exists I$i (exists Z (I$i = Z and q(Z))) and p(Z))", "forall X (exists Z (exists I$i Z (I$i = Z and q(Z, X)) and p(Z)) -> q(X))"] {
        out.push(t.to_string());
    }
    // a defined variable whose definition mentions V and its indexed namesake V1, substituted below a binder of V (the renamed binder must avoid both)
    for t in ["exists X$i (X$i = Y$i * Y1$i and exists Y$i (q(X$i, Y$i)))", "exists X$i (X$i = Y$i + Y1$i and forall Y$i (q(Y$i, X$i) -> p(Y$i)))", "exists X$i (X$i = N$i - N1$i and exists N$i N2$i (q(N$i, N2$i) and p(X$i)))",
              "forall X$i (X$i = Y$i * Y1$i -> exists Y$i (q(X$i, Y$i)))", "exists X$i (X$i = Y1$i * Y$i and exists Y$i (q(Y$i, X$i) and exists Y1$i (p(Y1$i))))", "exists X$i (X$i = Y$i + Y1$i + Y2$i and exists Y$i Y1$i (q(Y$i, Y1$i) and p(X$i)))"] {
        out.push(t.to_string());
    }
    // comparison chains next to plain equations that share a term with them (a chain `V = t < u` is not a definition of V)
    for t in ["exists X$i Y$i (X$i = Z and Y$i = Z < 3 and p(Y$i))", "exists X Y (X = Z and Y = Z != 1 and q(X, Y))", "exists Y$i (Y$i = Z < 1 and p(Y$i))", "forall X$i Y$i (X$i = Z and Y$i = Z <= 0 -> q(X$i, Y$i))",
              "exists X (X = Y = 1 and p(X))", "exists X$i Y$i (X$i = N$i + 1 and Y$i = N$i + 1 > 1 and q(X$i, Y$i))", "exists X Y (Y = Z < a and X = Z and q(Y, X))", "exists X Y (X = Z and Z = Y < 1 and q(X, Y))",
              "exists X$i Y$i (X$i = Z and Y$i = Z = 0 and p(X$i))", "forall X Y (X = Z and Y = Z > 0 -> p(Y)) and p(Z)", "exists X$s Y$s (X$s = Z and Y$s = Z != a and q(X$s, Y$s))", "exists X Y (X = 1 and Y = 1 < X and q(X, Y))"] {
        out.push(t.to_string());
    }
    // long comparison chains: one rewrite makes the formula grow before the others shrink it again
    for t in ["exists N$i (0 < N$i < M$i < K$i < 10 and N$i = 1)", "forall X (p(X) -> X = X = X = X = X = X)", "X = X = X = X", "1 < 2 < 3 < 4 < 5 and p and p", "exists X (X = Y = Y = Y = Y and p(X))", "0 <= N$i <= N$i <= N$i <= 2 and (p or p)",
              "not 1 < 2 < 3 < 4 < 5 < 6 < 7", "forall N$i (p(N$i) and 0 < N$i < N$i + 1 < N$i + 2 < 5 -> q(N$i) and #true)", "a = a = a = a = a <-> (p <-> p)", "exists Z (Z = X and 0 <= Z <= Z <= Z <= 1 and p(Z) and #true)"] {
        out.push(t.to_string());
    }
    // long formulas: many rewriting passes are needed before the fixpoint strategy stops
    let n = 40;
    out.push((1..=n).map(|i| format!("exists X{i} (p(X{i}))")).collect::<Vec<_>>().join(" and "));
    out.push((1..=n).map(|i| format!("exists X{i} (q(X{i}, Y))")).collect::<Vec<_>>().join(" and ") + " and p(Y)");
    out.push(format!("exists {} ({} and p(X{n}))", (1..=n).map(|i| format!("X{i}")).collect::<Vec<_>>().join(" "), (1..n).map(|i| format!("X{i} = X{}", i + 1)).collect::<Vec<_>>().join(" and ")));
    out.push(format!("exists {} (X1 = Y and {} and p(X{n}))", (1..=n).map(|i| format!("X{i}")).collect::<Vec<_>>().join(" "), (1..n).map(|i| format!("X{} = X{i}", i + 1)).collect::<Vec<_>>().join(" and ")));
    out.push(format!("{}p", "not ".repeat(71)));
    out.push(format!("{}p{}", "(".repeat(n), " and #true)".repeat(n)));
    out.push(format!("{}p{}", "(#false or ".repeat(n), ")".repeat(n)));
    out.push((1..=n).fold("p(Y)".to_string(), |acc, i| format!("exists X{i} (p(X{i}) and {acc})")));
    out.push((1..=n).fold("p(Y)".to_string(), |acc, i| format!("forall X{i} (p(X{i}) -> {acc})")));
    out.push((1..=12).fold("q".to_string(), |acc, i| format!("(p(X) and {acc} <- r) and (exists Z{i} (Z{i} = X and q(Z{i})))")));
    let mut g = Gen { rng: Rng(0x5eed_c07 ^ crate::dom::run_seed().wrapping_mul(0x9E3779B97F4A7C15) | 1) };
    let n = if deep { 20000 } else { 1200 };
    for i in 0..n {
        let depth = 1 + (i % 4) as u32;
        let mut gens = vec!["X".to_string(), "Y".to_string()];
        let mut ints = vec!["N$i".to_string(), "X$i".to_string()];
        out.push(g.formula(depth, &mut gens, &mut ints));
    }
    let mut seen = std::collections::BTreeSet::new();
    out.retain(|f| seen.insert(f.clone()));
    out
}

// ---------------------------------------------------------------------------------------------------------------------

fn universe() -> Vec<GroundAtom> {
    let inner = [Val::Int(0), Val::Int(1), Val::Sym("a".into())];
    let mut u: Vec<GroundAtom> = vec![("p".into(), vec![]), ("q".into(), vec![]), ("r".into(), vec![])];
    for v in &inner { u.push(("p".into(), vec![v.clone()])); u.push(("q".into(), vec![v.clone()])); u.push(("r".into(), vec![v.clone()])); }
    for v in &inner { for w in &inner { u.push(("q".into(), vec![v.clone(), w.clone()])); u.push(("p".into(), vec![v.clone(), w.clone()])); } }
    u
}

fn assignments(fv: &[(String, fol::Sort)]) -> Vec<Env> {
    let mut out = vec![Env::default()];
    for (n, s) in fv {
        let vals: Vec<Val> = match s {
            fol::Sort::General => vec![Val::Int(0), Val::Int(1), Val::Sym("a".into()), Val::Int(2)],
            fol::Sort::Integer => vec![Val::Int(0), Val::Int(1), Val::Int(-1)],
            fol::Sort::Symbol => vec![Val::Sym("a".into()), Val::Sym("b".into())],
        };
        let mut next = Vec::new();
        for e in &out { for v in &vals { let mut e2 = e.clone(); e2.push(n, crate::hteval::sort_of(*s), v.clone()); next.push(e2); } }
        out = next;
        if out.len() > 200 { out.truncate(200); }
    }
    out
}

/// One formula per printed line. A line is trusted only if it parses and the parsed formula prints back to the very same text:
/// anthem's concrete syntax is ambiguous in places (`p <- N$i = 1` is read as the comparison chain `p < -N$i = 1`; a C15 matter,
/// see DESIGN.md), and a misread output must not be mistaken for a wrong one. Untrusted lines are skipped (and counted).
pub fn read_printed(out: &str) -> Vec<Option<fol::Formula>> {
    out.lines().filter(|l| !l.trim().is_empty()).map(|l| {
        let t = l.trim().strip_suffix('.').unwrap_or(l.trim());
        match fol::Formula::from_str(t) { Ok(f) if f.to_string() == t => Some(f), _ => None }
    }).collect()
}

pub struct SimpStats { pub formulas: usize, pub compared: usize, pub skipped_inexact: usize, pub evaluations: usize, pub runs: usize }

pub fn check(deep: bool, stats: &mut SimpStats, fails: &mut Vec<Failure>) {
    let corpus = corpus(deep);
    // keep only formulas anthem parses (the generator may produce a few it rejects) and that are exactly evaluable
    let mut inputs: Vec<(String, fol::Formula)> = Vec::new();
    for t in &corpus {
        match fol::Formula::from_str(t) {
            // every formula is simplified (termination, free variables, determinism, idempotence); truth values are compared where the evaluation is exact
            Ok(f) => { inputs.push((t.clone(), f)); }
            Err(_) => {}
        }
    }
    if inputs.len() < corpus.len() / 2 { fails.push(Failure { property: "harness", input: "simp corpus".into(), detail: format!("only {} of {} corpus formulas are usable", inputs.len(), corpus.len()) }); return; }
    stats.formulas = inputs.len();
    let text: String = inputs.iter().map(|(t, _)| format!("{t}.\n")).collect();
    let dom = Domain::new(-3, 4, &["a", "b"]);
    let n_interp = if deep { 60 } else { 16 };
    let uni = universe();
    for portfolio in ["intuitionistic", "ht", "classic"] {
        for strategy in ["shallow", "recursive", "fixpoint"] {
            stats.runs += 1;
            let what = format!("anthem simplify --portfolio {portfolio} --strategy {strategy}");
            let (rc, out, err) = match run_anthem(&["simplify", "--portfolio", portfolio, "--strategy", strategy], Some(&text)) { Ok(x) => x, Err(e) => { fails.push(Failure { property: "harness", input: what, detail: e }); return; } };
            if rc == TIMED_OUT {
                // termination (C18): which formulas are the ones that never come back? each on its own, with a short limit
                let hung: Vec<Option<String>> = crate::par_map(&(0..inputs.len()).collect::<Vec<_>>(), |i| {
                    match run_anthem_within(&["simplify", "--portfolio", portfolio, "--strategy", strategy], Some(&format!("{}.\n", inputs[*i].0)), 8) { Ok((r, _, _)) if r == TIMED_OUT => Some(inputs[*i].0.clone()), _ => None }
                });
                let hung: Vec<String> = hung.into_iter().flatten().collect();
                if hung.is_empty() { fails.push(Failure { property: "C18", input: what.clone(), detail: "no result for the corpus after 120 s, although each formula on its own is simplified within 8 s".into() }); }
                for h in hung.iter().take(6) {
                    for prop in ["C18", "C07"] { fails.push(Failure { property: prop, input: format!("{what}: {h}"), detail: "the simplification of this formula does not end (no result after 8 s; the process was killed)".into() }); }
                }
                continue;
            }
            if rc != 0 {
                fails.push(Failure { property: "C16", input: what.clone(), detail: format!("exit status {rc} on the corpus: {}", err.chars().take(600).collect::<String>()) });
                continue;
            }
            // determinism (C18): a second process prints the same bytes
            if let Ok((_, out2, _)) = run_anthem(&["simplify", "--portfolio", portfolio, "--strategy", strategy], Some(&text)) {
                if out2 != out { fails.push(Failure { property: "C18", input: what.clone(), detail: "two runs on the same input printed different output".into() }); }
            }
            // the only access to the simplified formulas is the printed text
            let outputs = read_printed(&out);
            if outputs.len() != inputs.len() { fails.push(Failure { property: "C07", input: what.clone(), detail: format!("{} formulas in, {} formulas out", inputs.len(), outputs.len()) }); continue; }
            if strategy == "fixpoint" {
                // idempotence (C18): simplifying the result again returns it unchanged
                if let Ok((rc2, again, _)) = run_anthem(&["simplify", "--portfolio", portfolio, "--strategy", strategy], Some(&out)) {
                    if rc2 == 0 && again != out {
                        let (a, b): (Vec<&str>, Vec<&str>) = (out.lines().collect(), again.lines().collect());
                        let i = (0..a.len().min(b.len())).find(|i| a[*i] != b[*i]).unwrap_or(0);
                        fails.push(Failure { property: "C18", input: format!("{what}: {}", inputs.get(i).map(|x| x.0.as_str()).unwrap_or("")), detail: format!("fixpoint result `{}` simplifies further to `{}`", a.get(i).unwrap_or(&""), b.get(i).unwrap_or(&"")) });
                    }
                }
            }
            let classical = portfolio == "classic";
            let results: Vec<Option<Failure>> = crate::par_map(&(0..inputs.len()).collect::<Vec<_>>(), |i| {
                let (src, fin) = &inputs[*i];
                let fout = match &outputs[*i] { Some(f) => f, None => return Some(Failure { property: "skip", input: String::new(), detail: String::new() }) };
                let (mut fv_in, mut fv_out) = (Vec::new(), Vec::new());
                free_vars(fin, &mut Vec::new(), &mut fv_in);
                free_vars(fout, &mut Vec::new(), &mut fv_out);
                if let Some(v) = fv_out.iter().find(|v| !fv_in.contains(v)) {
                    return Some(Failure { property: "C07", input: format!("{what}: {src}"), detail: format!("output `{fout}` has the free variable {} that the input does not have", v.0) });
                }
                if fin == fout { return None; }
                // the long formulas are in the corpus for the pass count of the fixpoint strategy; evaluating dozens of nested
                // quantifiers is exponential, so only the checks above and the idempotence check apply to them
                if quantified_variables(fin) > 12 { return None; }
                let seed = src.bytes().fold(0xcbf29ce484222325u64, |h, b| (h ^ b as u64).wrapping_mul(0x100000001b3));
                // interpretations with co-finite extents (pure.rs): exact for formulas without arithmetic and order comparisons
                let pure = pure_small(fin) && pure_small(fout);
                if pure {
                    if let Some(d) = crate::pure::first_difference(fin, fout, classical, if deep { 40 } else { 12 }, seed) { return Some(Failure { property: "C07", input: format!("{what}: {src}"), detail: d }); }
                }
                if !exactly_evaluable(fin) || !exactly_evaluable(fout) { return if pure { None } else { Some(Failure { property: "skip", input: String::new(), detail: String::new() }) }; }
                let (ein, eout) = (cheapest_first(fin), cheapest_first(fout));
                for m in sample_interpretations(&uni, n_interp, seed) {
                    let m = if classical { Ht { here: m.there.clone(), there: m.there, consts: m.consts } } else { m };
                    let ev = Eval { dom: &dom, ht: &m };
                    for mut env in assignments(&fv_in) {
                        for w in [World::Here, World::There] {
                            let a = ev.sat(&ein, &mut env, w);
                            let b = ev.sat(&eout, &mut env, w);
                            if a != b {
                                return Some(Failure { property: "C07", input: format!("{what}: {src}"), detail: format!(
                                    "input `{fin}` is {a} but output `{fout}` is {b} at world {w:?} of <{}> under {:?}", m.show(), env.0) });
                            }
                        }
                    }
                }
                None
            });
            for r in results.into_iter().flatten() {
                if r.property == "skip" { stats.skipped_inexact += 1; } else { fails.push(r); }
            }
            stats.compared += inputs.len();
            stats.evaluations += inputs.len() * n_interp;
        }
    }
    let _ = Sort::General;
}

// ---------------------------------------------------------------------------------------------------------------------
// C05: gamma

/// pure (pure.rs) and small enough for the exact finite evaluation with co-finite extents
pub fn pure_small(f: &fol::Formula) -> bool { crate::pure::is_pure(f) && crate::pure::variable_count(f) <= 3 }

pub fn check_gamma(deep: bool, stats: &mut SimpStats, fails: &mut Vec<Failure>) {
    let corpus = corpus(deep);
    let mut inputs: Vec<(String, fol::Formula)> = Vec::new();
    for t in &corpus {
        if let Ok(f) = fol::Formula::from_str(t) { if quantified_variables(&f) > 12 { continue; } if exactly_evaluable(&f) || pure_small(&f) { inputs.push((t.clone(), f)); } else { stats.skipped_inexact += 1; } }
    }
    // predicates whose names begin with the letters gamma puts in front of a name: the copies of p and of hp stay apart
    for t in ["hp -> p", "p and not hp", "tp or not p", "hp(1) <-> p(1)", "forall X (hp(X) -> p(X))", "exists X (tq(X) and not q(X))", "hhp -> (hp -> p)", "t and not h", "not not tp <- p", "thp or not htp", "p -> tp", "hq(a) or not q(a)",
              "forall X (p(X) <-> not tp(X))", "exists X (hp(X) and tp(X) and not p(X))", "h -> ht", "not (hp and not p)", "(hp <-> p) -> tq(0)", "forall X (q(X) or tq(X) -> exists Y (hp(Y) and not p(Y)))"] {
        if let Ok(f) = fol::Formula::from_str(t) { inputs.push((t.to_string(), f)); } else { fails.push(Failure { property: "harness", input: t.to_string(), detail: "corpus formula does not parse".into() }); }
    }
    stats.formulas = inputs.len();
    let text: String = inputs.iter().map(|(t, _)| format!("{t}.\n")).collect();
    let what = "anthem translate --with gamma".to_string();
    let (rc, out, err) = match run_anthem(&["translate", "--with", "gamma"], Some(&text)) { Ok(x) => x, Err(e) => { fails.push(Failure { property: "harness", input: what, detail: e }); return; } };
    stats.runs += 1;
    if rc != 0 { fails.push(Failure { property: "C05", input: what, detail: format!("exit status {rc}: {}", err.chars().take(400).collect::<String>()) }); return; }
    let outputs = read_printed(&out);
    if outputs.len() != inputs.len() { fails.push(Failure { property: "C05", input: what, detail: format!("{} formulas in, {} formulas out", inputs.len(), outputs.len()) }); return; }
    let dom = Domain::new(-3, 4, &["a", "b"]);
    let n_interp = if deep { 60 } else { 16 };
    let mut uni = universe();
    for n in ["hp", "tp", "hhp", "thp", "htp", "h", "t", "ht"] { uni.push((n.into(), vec![])); }
    for n in ["hp", "tp", "tq", "hq"] { for v in [Val::Int(0), Val::Int(1), Val::Sym("a".into())] { uni.push((n.into(), vec![v])); } }
    let results: Vec<Option<Failure>> = crate::par_map(&(0..inputs.len()).collect::<Vec<_>>(), |i| {
        let (src, fin) = &inputs[*i];
        let fout = match &outputs[*i] { Some(f) => f, None => return Some(Failure { property: "skip", input: String::new(), detail: String::new() }) };
        let (mut fv_in, mut fv_out) = (Vec::new(), Vec::new());
        free_vars(fin, &mut Vec::new(), &mut fv_in);
        free_vars(fout, &mut Vec::new(), &mut fv_out);
        if fv_out.iter().any(|v| !fv_in.contains(v)) { return Some(Failure { property: "C05", input: format!("{what}: {src}"), detail: format!("gamma formula `{fout}` has a free variable the input does not have") }); }
        // distinct predicates receive distinct copies: the copies of p/n are exactly hp/n and tp/n
        let preds_in: std::collections::BTreeSet<(String, usize)> = crate::own::formula_preds(fin);
        for (q_symbol, q_arity) in crate::own::formula_preds(fout) {
            struct Q { symbol: String, arity: usize }
            let q = Q { symbol: q_symbol, arity: q_arity };
            let ok = (q.symbol.starts_with('h') || q.symbol.starts_with('t')) && preds_in.contains(&(q.symbol[1..].to_string(), q.arity));
            if !ok { return Some(Failure { property: "C05", input: format!("{what}: {src}"), detail: format!("gamma formula `{fout}` mentions {}/{}, which is not the h- or t-copy of a predicate of the input", q.symbol, q.arity) }); }
        }
        let seed = src.bytes().fold(0xcbf29ce484222325u64, |h, b| (h ^ b as u64).wrapping_mul(0x100000001b3));
        let pure = pure_small(fin) && pure_small(fout);
        if pure {
            if let Some(d) = crate::pure::first_gamma_difference(fin, fout, if deep { 60 } else { 20 }, seed) { return Some(Failure { property: "C05", input: format!("{what}: {src}"), detail: d }); }
        }
        if !exactly_evaluable(fin) || !exactly_evaluable(fout) { return if pure { None } else { Some(Failure { property: "skip", input: String::new(), detail: String::new() }) }; }
        let (ein, eout) = (cheapest_first(fin), cheapest_first(fout));
        for m in sample_interpretations(&uni, n_interp, seed) {
            let mut there = crate::dom::Atoms::new();
            for (p, a) in &m.here { there.insert((format!("h{p}"), a.clone())); }
            for (p, a) in &m.there { there.insert((format!("t{p}"), a.clone())); }
            let cm = Ht { here: there.clone(), there, consts: Default::default() };
            let (ev, cev) = (Eval { dom: &dom, ht: &m }, Eval { dom: &dom, ht: &cm });
            for mut env in assignments(&fv_in) {
                let a = ev.sat(&ein, &mut env, World::Here);
                let b = cev.sat(&eout, &mut env, World::There);
                if a != b {
                    return Some(Failure { property: "C05", input: format!("{what}: {src}"), detail: format!("<{}> {} `{fin}` but the classical interpretation with h-/t-extents {} gamma formula `{fout}` under {:?}", m.show(), if a { "satisfies" } else { "does not satisfy" }, if b { "satisfies" } else { "does not satisfy" }, env.0) });
                }
            }
        }
        None
    });
    for r in results.into_iter().flatten() { if r.property == "skip" { stats.skipped_inexact += 1; } else { fails.push(r); } }
    stats.compared += inputs.len();
    stats.evaluations += inputs.len() * n_interp;
}
