// unit `gamma` — C05 (and the gamma part of C03)
use vstd::prelude::*;
use vstd::std_specs::iter::IteratorSpec;
verus! {
//@include spec/prelude.rs
broadcast use {axiom_string_ext, axiom_str_of, axiom_vec_ext, axiom_vec_of, axiom_display_string, axiom_display_str};
//@include spec/indexset.rs
//@include units/fol_types.inc
//@include spec/sem.rs
//@include spec/quant_lemmas.rs
//@include spec/fol_spec.rs
//@include units/fol_lib.inc
//@include spec/core_lemmas.rs
//@include spec/gamma_lemmas.rs

pub trait Apply: Sized {
//@fn src/convenience/apply/mod.rs :: trait Apply :: fn apply
//@ .apit F0
//@ .ret r
//@ .spec
//@     requires forall|y: Self| (*old(f)).requires((y,)),
//@ .sig only
//@end
}

impl Apply for Formula {
//@fn src/convenience/apply/mod.rs :: impl Apply for Formula :: fn apply
//@ .apit F0
//@ .ret r
//@ .spec
//@     ensures
//@         *final(f) == *old(f),
//@         forall|g: spec_fn(Formula) -> Formula| implements(*old(f), g) ==> r == sapply(self, g),
//@     decreases self,
//@ .hint before "f(inner)"
//@     proof {
//@         assert((*f).requires((inner,)));
//@         assert forall|g: spec_fn(Formula) -> Formula| implements(*f, g) implies #[trigger] g(inner) == sapply(self, g) by {
//@             match self {
//@                 Formula::AtomicFormula(_) => { assert(inner == self); }
//@                 Formula::UnaryFormula { connective, formula } => {
//@                     assert(inner == Formula::UnaryFormula { connective, formula: Box::new(sapply(*formula, g)) });
//@                 }
//@                 Formula::BinaryFormula { connective, lhs, rhs } => {
//@                     assert(inner == Formula::BinaryFormula { connective, lhs: Box::new(sapply(*lhs, g)), rhs: Box::new(sapply(*rhs, g)) });
//@                 }
//@                 Formula::QuantifiedFormula { quantification, formula } => {
//@                     assert(inner == Formula::QuantifiedFormula { quantification, formula: Box::new(sapply(*formula, g)) });
//@                 }
//@             }
//@         }
//@     }
//@end
}

pub trait Gamma { fn gamma(self) -> Self; }
pub trait Here { fn here(self) -> Self; }
pub trait There { fn there(self) -> Self; }

//@fn src/translating/classical_reduction/gamma.rs :: fn prepend_predicate
//@ .ret r
//@ .spec
//@     ensures r == spec_prefix(prefix@, formula),
//@ .closure "|formula| match formula" as "|formula: Formula| -> (z: Formula)"
//@     ensures z == spec_prefix_atom(prefix@, formula)
//@ .hint before "formula.apply"
//@     proof { lemma_sapply_prefix(prefix@, formula); }
//@end

impl Here for Formula {
//@fn src/translating/classical_reduction/gamma.rs :: impl Here for Formula :: fn here
//@ .ret r
//@ .spec
//@     ensures r == spec_prefix(pre_h(), self),
//@end
}

impl There for Formula {
//@fn src/translating/classical_reduction/gamma.rs :: impl There for Formula :: fn there
//@ .ret r
//@ .spec
//@     ensures r == spec_prefix(pre_t(), self),
//@end
}

impl Gamma for Formula {
//@fn src/translating/classical_reduction/gamma.rs :: impl Gamma for Formula :: fn gamma
//@ .ret r
//@ .spec
//@     ensures r == spec_gamma(self),
//@     decreases self,
//@end
}

} // verus!
fn main() {}
