#![feature(allocator_api)]
// unit `simp_int` — C07: the intuitionistic portfolio (local rewrite rules)
use vstd::prelude::*;
use vstd::std_specs::iter::IteratorSpec;
verus! {
//@include spec/prelude.rs
broadcast use {axiom_string_ext, axiom_str_ext, axiom_str_of, axiom_vec_ext, axiom_vec_of, axiom_display_string, axiom_display_str};
// (needs #![feature(allocator_api)]: the allocator parameter of Vec appears in the signature)
// T14. Vec::dedup ("Removes consecutive repeated elements in the vector according to the PartialEq trait implementation"): no element is lost or invented
pub assume_specification<T: PartialEq, A: std::alloc::Allocator>[ Vec::<T, A>::dedup ](v: &mut Vec<T, A>)
    ensures forall|x: T| final(v)@.contains(x) == old(v)@.contains(x);

//@include spec/sortspec.rs
//@include spec/indexset.rs
//@include units/fol_types.inc
//@include spec/sem.rs
//@include spec/quant_lemmas.rs
//@include spec/fol_spec.rs
//@include units/fol_lib.inc
//@include spec/core_lemmas.rs
//@include units/unbox.inc
//@include spec/simp_spec.rs
//@include spec/evalcmp_lemmas.rs
//@include spec/fvlink_lemmas.rs
//@include spec/block_lemmas.rs
//@include spec/scope_lemmas.rs
//@include spec/quantvars_lemmas.rs

//@fn src/simplifying/fol/sigma_0/intuitionistic.rs :: fn evaluate_comparisons
//@ .ret r
//@ .spec
//@     ensures preserves_ht(r, formula),
//@ .loop 1 as it
//@     invariant
//@         formula == Formula::AtomicFormula(AtomicFormula::Comparison(Comparison { term, guards })),
//@         formulas@.len() == it.index@,
//@         0 <= it.index@ <= guards@.len(),
//@         it.seq() == guards@,
//@         lhs == prev_term(term, guards@, it.index@ as int),
//@         forall|i: int| 0 <= i < formulas@.len() ==> #[trigger] elem_ok(formulas@[i], term, guards@, i),
//@ .hint before "lhs = rhs;"
//@     proof {
//@         let i = it.index@ as int;
//@         lemma_link(formulas@[i], term, guards@, i, lhs, rhs, relation);
//@     }
//@ .hint before "Formula::conjoin(formulas)"
//@     proof { lemma_eval_comparisons(formulas@, Comparison { term, guards }); }
//@end

//@fn src/simplifying/fol/sigma_0/intuitionistic.rs :: fn apply_negation_definition_inverse
//@ .ret r
//@ .spec
//@     ensures preserves_ht(r, formula),
//@ .hint before "match formula.unbox()"
//@     proof { broadcast use lemma_persist_any; reveal_with_fuel(ht_sat, 3); reveal_with_fuel(cl_sat, 3); reveal_with_fuel(fv, 3); }
//@end

//@fn src/simplifying/fol/sigma_0/intuitionistic.rs :: fn apply_reverse_implication_definition
//@ .ret r
//@ .spec
//@     ensures preserves_ht(r, formula),
//@ .hint before "match formula.unbox()"
//@     proof { broadcast use lemma_persist_any; reveal_with_fuel(ht_sat, 3); reveal_with_fuel(cl_sat, 3); reveal_with_fuel(fv, 3); }
//@end

//@fn src/simplifying/fol/sigma_0/intuitionistic.rs :: fn apply_equivalence_definition_inverse
//@ .ret r
//@ .spec
//@     ensures preserves_ht(r, formula),
//@ .hint before "match formula.unbox()"
//@     proof { broadcast use lemma_persist_any; reveal_with_fuel(ht_sat, 4); reveal_with_fuel(cl_sat, 4); reveal_with_fuel(fv, 4); reveal_with_fuel(spec_conjoin, 3); }
//@end

//@fn src/simplifying/fol/sigma_0/intuitionistic.rs :: fn remove_identities
//@ .ret r
//@ .spec
//@     ensures preserves_ht(r, formula),
//@ .hint before "match formula.unbox()"
//@     proof { broadcast use lemma_persist_any; reveal_with_fuel(ht_sat, 3); reveal_with_fuel(cl_sat, 3); reveal_with_fuel(fv, 3); }
//@end

//@fn src/simplifying/fol/sigma_0/intuitionistic.rs :: fn remove_annihilations
//@ .ret r
//@ .spec
//@     ensures preserves_ht(r, formula),
//@ .hint before "match formula.unbox()"
//@     proof { broadcast use lemma_persist_any; reveal_with_fuel(ht_sat, 3); reveal_with_fuel(cl_sat, 3); reveal_with_fuel(fv, 3); }
//@end

//@fn src/simplifying/fol/sigma_0/intuitionistic.rs :: fn remove_idempotences
//@ .ret r
//@ .spec
//@     ensures preserves_ht(r, formula),
//@ .hint before "match formula.unbox()"
//@     proof { broadcast use lemma_persist_any; reveal_with_fuel(ht_sat, 3); reveal_with_fuel(cl_sat, 3); reveal_with_fuel(fv, 3); }
//@end

//@fn src/simplifying/fol/sigma_0/intuitionistic.rs :: fn remove_empty_quantifications
//@ .ret r
//@ .spec
//@     ensures preserves_ht(r, formula),
//@ .hint before "match formula {"
//@     proof { broadcast use lemma_persist_any; reveal_with_fuel(ht_sat, 3); reveal_with_fuel(cl_sat, 3); reveal_with_fuel(fv, 3); }
//@end

//@fn src/simplifying/fol/sigma_0/intuitionistic.rs :: fn remove_orphaned_variables
//@ .ret r
//@ .attr #[verifier::loop_isolation(false)]
//@ .spec
//@     ensures preserves_ht(r, formula),
//@ .hint before "match formula {"
//@     let ghost orig = formula;
//@ .hint before "let free_variables = formula.free_variables();"
//@     let ghost vars0 = variables@;
//@     let ghost body = *formula;
//@ .loop 1 as it
//@     invariant
//@         it.seq() == vars0, 0 <= it.index@ <= vars0.len(),
//@         forall|x: Variable| #[trigger] d23_0_out@.contains(x) ==> vars0.contains(x) && free_variables@.contains(x),
//@         forall|j: int| 0 <= j < it.index@ && free_variables@.contains(#[trigger] vars0[j]) ==> d23_0_out@.contains(vars0[j]),
//@ .hint before "if d23_0_keep"
//@     let ghost o0 = d23_0_out@;
//@     let ghost j0 = it.index@ as int;
//@ .hint after "d23_0_out.push(d23_0_x); }"
//@     proof {
//@         assert(d23_0_keep ==> d23_0_out@ == o0.push(vars0[j0]));
//@         assert forall|x: Variable| #[trigger] d23_0_out@.contains(x) implies vars0.contains(x) && free_variables@.contains(x) by {
//@             if d23_0_keep { let q0 = choose|q0: int| 0 <= q0 < d23_0_out@.len() && d23_0_out@[q0] == x; if q0 < o0.len() { assert(o0[q0] == x); assert(o0.contains(x)); } else { assert(x == vars0[j0]); } }
//@         }
//@         assert forall|j: int| 0 <= j < j0 + 1 && free_variables@.contains(#[trigger] vars0[j]) implies d23_0_out@.contains(vars0[j]) by {
//@             if j < j0 { assert(o0.contains(vars0[j])); let q0 = choose|q0: int| 0 <= q0 < o0.len() && o0[q0] == vars0[j]; assert(d23_0_out@[q0] == vars0[j]); }
//@             else { assert(d23_0_out@[o0.len() as int] == vars0[j0]); }
//@         }
//@     }
//@ .hint after "d23_0_out };"
//@     proof {
//@         let kept = variables@;
//@         assert forall|k: VKey| bound_by(kept, k) implies bound_by(vars0, k) by {
//@             let i = choose|i: int| 0 <= i < kept.len() && #[trigger] vkey(kept[i]) == k;
//@             assert(kept.contains(kept[i]));
//@             let j = choose|j: int| 0 <= j < vars0.len() && vars0[j] == kept[i];
//@             assert(vkey(vars0[j]) == k);
//@         }
//@         assert forall|k: VKey| bound_by(vars0, k) && !bound_by(kept, k) implies !fv(body, k) by {
//@             let j = choose|j: int| 0 <= j < vars0.len() && #[trigger] vkey(vars0[j]) == k;
//@             lemma_spec_fv(body, vars0[j]);
//@             if fv(body, k) {
//@                 assert(kept.contains(vars0[j]));
//@                 let i = choose|i: int| 0 <= i < kept.len() && kept[i] == vars0[j];
//@                 assert(vkey(kept[i]) == k);
//@             }
//@         }
//@         assert(is_block(orig, quantifier, vars0, body));
//@         assert forall|r2: Formula| is_block(r2, quantifier, kept, body) implies #[trigger] preserves_ht(r2, orig) by {
//@             lemma_orphans(orig, r2, quantifier, vars0, kept, body);
//@         }
//@     }
//@end

//@fn src/simplifying/fol/sigma_0/intuitionistic.rs :: fn join_nested_quantifiers
//@ .ret r
//@ .spec
//@     ensures preserves_ht(r, formula),
//@ .hint before "match formula.unbox()"
//@     let ghost orig = formula;
//@ .hint before "let mut variables = outer_quantification.variables;"
//@     let ghost xs = outer_quantification.variables@;
//@     let ghost ys = inner_quantification.variables@;
//@     let ghost q = outer_quantification.quantifier;
//@     let ghost body = *inner_formula;
//@ .hint before "variables.sort();"
//@     let ghost v1 = variables@;
//@ .hint before "variables.dedup();"
//@     let ghost v2 = variables@;
//@ .hint before "inner_formula.quantify(outer_quantification.quantifier, variables)"
//@     proof {
//@         let zs = variables@;
//@         assert(v1 =~= xs + ys);
//@         v1.to_multiset_ensures();
//@         v2.to_multiset_ensures();
//@         assert forall|x: Variable| #[trigger] zs.contains(x) == (xs + ys).contains(x) by {
//@             assert(v1.contains(x) == (v1.to_multiset().count(x) > 0));
//@             assert(v2.contains(x) == (v2.to_multiset().count(x) > 0));
//@         }
//@         assert forall|k: VKey| bound_by(zs, k) == (bound_by(xs, k) || bound_by(ys, k)) by {
//@             lemma_bound_by_concat(xs, ys, k);
//@             let xy = xs + ys;
//@             if bound_by(zs, k) { let i = choose|i: int| 0 <= i < zs.len() && #[trigger] vkey(zs[i]) == k; assert(zs.contains(zs[i])); let j = choose|j: int| 0 <= j < xy.len() && xy[j] == zs[i]; assert(vkey(xy[j]) == k); }
//@             if bound_by(xy, k) { let i = choose|i: int| 0 <= i < xy.len() && #[trigger] vkey(xy[i]) == k; assert(xy.contains(xy[i])); assert(zs.contains(xy[i]) == (xs + ys).contains(xy[i])); let j = choose|j: int| 0 <= j < zs.len() && zs[j] == xy[i]; assert(vkey(zs[j]) == k); }
//@         }
//@         lemma_join(orig, q, xs, ys, zs, body, *orig->QuantifiedFormula_formula);
//@     }
//@end

} // verus!
fn main() {}
