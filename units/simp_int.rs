// unit `simp_int` — C07: the intuitionistic portfolio (local rewrite rules)
use vstd::prelude::*;
use vstd::std_specs::iter::IteratorSpec;
verus! {
//@include spec/prelude.rs
broadcast use {axiom_string_ext, axiom_str_ext, axiom_str_of, axiom_vec_ext, axiom_vec_of, axiom_display_string, axiom_display_str};
//@include spec/indexset.rs
//@include units/fol_types.inc
//@include spec/sem.rs
//@include spec/quant_lemmas.rs
//@include spec/fol_spec.rs
//@include units/fol_lib.inc
//@include spec/core_lemmas.rs
//@include units/unbox.inc
//@include spec/simp_spec.rs
//@include spec/evalcmp_lemmas.rs

//@fn src/simplifying/fol/sigma_0/intuitionistic.rs :: fn evaluate_comparisons
//@ .ret r
//@ .spec
//@     ensures preserves_ht(r, formula),
//@ .loop 1 as it
//@     invariant
//@         formula == Formula::AtomicFormula(AtomicFormula::Comparison(Comparison { term, guards })),
//@         formulas@.len() == it.index@,
//@         0 <= it.index@ <= guards@.len(),
//@         it.seq() == guards@,
//@         lhs == prev_term(term, guards@, it.index@ as int),
//@         forall|i: int| 0 <= i < formulas@.len() ==> #[trigger] elem_ok(formulas@[i], term, guards@, i),
//@ .hint before "lhs = rhs;"
//@     proof {
//@         let i = it.index@ as int;
//@         lemma_link(formulas@[i], term, guards@, i, lhs, rhs, relation);
//@     }
//@ .hint before "Formula::conjoin(formulas)"
//@     proof { lemma_eval_comparisons(formulas@, Comparison { term, guards }); }
//@end

//@fn src/simplifying/fol/sigma_0/intuitionistic.rs :: fn apply_negation_definition_inverse
//@ .ret r
//@ .spec
//@     ensures preserves_ht(r, formula),
//@ .hint before "match formula.unbox()"
//@     proof { broadcast use lemma_persist_any; reveal_with_fuel(ht_sat, 3); reveal_with_fuel(cl_sat, 3); reveal_with_fuel(fv, 3); }
//@end

//@fn src/simplifying/fol/sigma_0/intuitionistic.rs :: fn apply_reverse_implication_definition
//@ .ret r
//@ .spec
//@     ensures preserves_ht(r, formula),
//@ .hint before "match formula.unbox()"
//@     proof { broadcast use lemma_persist_any; reveal_with_fuel(ht_sat, 3); reveal_with_fuel(cl_sat, 3); reveal_with_fuel(fv, 3); }
//@end

//@fn src/simplifying/fol/sigma_0/intuitionistic.rs :: fn apply_equivalence_definition_inverse
//@ .ret r
//@ .spec
//@     ensures preserves_ht(r, formula),
//@ .hint before "match formula.unbox()"
//@     proof { broadcast use lemma_persist_any; reveal_with_fuel(ht_sat, 4); reveal_with_fuel(cl_sat, 4); reveal_with_fuel(fv, 4); reveal_with_fuel(spec_conjoin, 3); }
//@end

//@fn src/simplifying/fol/sigma_0/intuitionistic.rs :: fn remove_identities
//@ .ret r
//@ .spec
//@     ensures preserves_ht(r, formula),
//@ .hint before "match formula.unbox()"
//@     proof { broadcast use lemma_persist_any; reveal_with_fuel(ht_sat, 3); reveal_with_fuel(cl_sat, 3); reveal_with_fuel(fv, 3); }
//@end

//@fn src/simplifying/fol/sigma_0/intuitionistic.rs :: fn remove_annihilations
//@ .ret r
//@ .spec
//@     ensures preserves_ht(r, formula),
//@ .hint before "match formula.unbox()"
//@     proof { broadcast use lemma_persist_any; reveal_with_fuel(ht_sat, 3); reveal_with_fuel(cl_sat, 3); reveal_with_fuel(fv, 3); }
//@end

//@fn src/simplifying/fol/sigma_0/intuitionistic.rs :: fn remove_idempotences
//@ .ret r
//@ .spec
//@     ensures preserves_ht(r, formula),
//@ .hint before "match formula.unbox()"
//@     proof { broadcast use lemma_persist_any; reveal_with_fuel(ht_sat, 3); reveal_with_fuel(cl_sat, 3); reveal_with_fuel(fv, 3); }
//@end

//@fn src/simplifying/fol/sigma_0/intuitionistic.rs :: fn remove_empty_quantifications
//@ .ret r
//@ .spec
//@     ensures preserves_ht(r, formula),
//@ .hint before "match formula {"
//@     proof { broadcast use lemma_persist_any; reveal_with_fuel(ht_sat, 3); reveal_with_fuel(cl_sat, 3); reveal_with_fuel(fv, 3); }
//@end

} // verus!
fn main() {}
