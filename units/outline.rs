// unit `outline` — C13: proof outlines (inductive lemmas)
use vstd::prelude::*;
use vstd::std_specs::iter::IteratorSpec;
verus! {
//@include spec/prelude.rs
broadcast use {axiom_string_ext, axiom_str_ext, axiom_str_of, axiom_vec_ext, axiom_vec_of, axiom_display_string, axiom_display_str};
//@include spec/indexset.rs
//@include units/fol_types.inc
//@include spec/sem.rs
//@include spec/quant_lemmas.rs
//@include spec/fol_spec.rs
//@include units/fol_lib.inc
//@include spec/core_lemmas.rs
//@include spec/fvlink_lemmas.rs
//@include spec/block_lemmas.rs
//@include spec/subst_lemmas.rs
//@include spec/subst_formula_lemmas.rs
//@include spec/subst_loop_lemmas.rs
//@include spec/ucl_lemmas.rs
//@include spec/induction_lemmas.rs
//@include spec/definition_lemmas.rs
//@include units/unbox.inc

pub mod fol { pub use super::*; }

// with_warnings (extracted)
//@type src/convenience/with_warnings/mod.rs :: struct WithWarnings
impl<D, W> WithWarnings<D, W> {
//@fn src/convenience/with_warnings/mod.rs :: impl<D, W> WithWarnings<D, W> :: fn flawless
//@ .ret r
//@ .spec
//@     ensures r.data == data, r.warnings@.len() == 0,
//@end
}
pub type Result<D, W, E> = std::result::Result<WithWarnings<D, W>, E>;

//@type src/verifying/outline/mod.rs :: enum ProofOutlineError
//@type src/verifying/outline/mod.rs :: enum ProofOutlineWarning

// Formula::substitute: the contract PROVED in unit `subst` (C17), used here as the callee's contract
impl Formula {
    #[verifier::external_body]
    pub fn substitute(self, var: Variable, term: GeneralTerm) -> (r: Self)
        requires sort_ok(var, term),
        ensures subst_ht(r, self, var, term),
    { unimplemented!() }

//@fn src/syntax_tree/fol/sigma_0.rs :: impl Formula :: fn universal_closure
//@ .ret r
//@ .spec
//@     ensures r == spec_ucl(self),
//@end
}

impl<D, W> WithWarnings<D, W> {
//@fn src/convenience/with_warnings/mod.rs :: impl<D, W> WithWarnings<D, W> :: fn preface_warnings
//@ .ret r
//@ .spec
//@     ensures r.data == self.data,
//@end
}

impl Variable {
// D19: `impl TryFrom<GeneralTerm> for Variable` verified as an inherent method
//@fn src/syntax_tree/fol/sigma_0.rs :: impl TryFrom<GeneralTerm> for Variable :: fn try_from
//@ .assoc Error=GeneralTerm
//@ .ret r
//@ .spec
//@     ensures r is Ok == term_var(term) is Some, r is Ok ==> Some(r->Ok_0) == term_var(term), r is Err ==> r->Err_0 == term,
//@end
}

pub trait CheckInternal: Sized {
    fn inductive_lemma(self) -> Result<(fol::Formula, fol::Formula), ProofOutlineWarning, ProofOutlineError>;
}

impl Formula {
// D19: the trait method `CheckInternal::definition` verified as an inherent method (same body)
//@fn src/verifying/outline/mod.rs :: impl CheckInternal for fol::Formula :: fn definition
//@ .ret res
//@ .attr #[verifier::loop_isolation(false)]
//@ .spec
//@     ensures
//@         // C13: an accepted definition has the definitional form and side conditions (hence is conservative: lemma_definition_conservative)
//@         res matches Ok(ww) ==> def_ok(*self, taken_predicates@, ww.data),
//@ .loop 1 as it
//@     invariant
//@         it.seq().len() == a.terms@.len(), forall|j: int| 0 <= j < a.terms@.len() ==> *it.seq()[j] == a.terms@[j],
//@         forall|j: int| 0 <= j < it.index@ ==> (#[trigger] term_var(a.terms@[j])) is Some && terms_as_vars@.contains(term_var(a.terms@[j])->Some_0),
//@         forall|x: Variable| terms_as_vars@.contains(x) ==> exists|j: int| 0 <= j < a.terms@.len() && #[trigger] term_var(a.terms@[j]) == Some(x),
//@         // as many set elements as terms so far only if the terms so far are pairwise distinct variables
//@         terms_as_vars@.len() <= it.index@,
//@         terms_as_vars@.len() == it.index@ ==> args_distinct_upto(a.terms@, it.index@ as int),
//@ .hint before "terms_as_vars.insert(v);"
//@     proof {
//@         if !terms_as_vars@.contains(v) && terms_as_vars@.len() == it.index@ {
//@             assert forall|i: int, j: int| 0 <= i < j < it.index@ + 1 implies #[trigger] term_var(a.terms@[i]) != #[trigger] term_var(a.terms@[j]) by {
//@                 if j == it.index@ { assert(terms_as_vars@.contains(term_var(a.terms@[i])->Some_0)); }
//@             }
//@         }
//@         assert forall|x: Variable| #[trigger] seq_insert(terms_as_vars@, v).contains(x) == (terms_as_vars@.contains(x) || x == v) by { lemma_seq_insert_contains(terms_as_vars@, v, x); }
//@         assert(term_var(a.terms@[it.index@ as int]) == Some(v));
//@     }
//@ .hint before "Ok(WithWarnings::flawless(predicate).preface_warnings(warnings))"
//@     proof { lemma_def_ok(*self, taken_predicates@, predicate, uniques@, terms_as_vars@); }
//@end
}

impl CheckInternal for fol::Formula {
//@fn src/verifying/outline/mod.rs :: impl CheckInternal for fol::Formula :: fn inductive_lemma
//@ .ret res
//@ .spec
//@     ensures
//@         // C13: the two obligations together imply the lemma, in every interpretation (sort-respecting assignment)
//@         res matches Ok(ww) ==> forall|m: Interp, s: Asg| wf_asg(s) && cl_sat(ww.data.0, m, s) && cl_sat(ww.data.1, m, s) ==> #[trigger] cl_sat(self, m, s),
//@ .hint before "Ok(WithWarnings::flawless((base_case, inductive_step)))"
//@     proof {
//@         let nvar = induction_variable;
//@         let fb = choose|fb: Formula| subst_ht(fb, *rhs, nvar, num_term(n)) && base_case == spec_ucl(fb);
//@         let fs = choose|fs: Formula| subst_ht(fs, *rhs, nvar, succ_term(nvar.name)) && inductive_step == spec_ucl(Formula::BinaryFormula {
//@             connective: BinaryConnective::Implication,
//@             lhs: Box::new(Formula::BinaryFormula { connective: BinaryConnective::Conjunction, lhs: lhs, rhs: rhs }),
//@             rhs: Box::new(fs) });
//@         assert forall|m: Interp, s: Asg| wf_asg(s) && cl_sat(base_case, m, s) && cl_sat(inductive_step, m, s) implies #[trigger] cl_sat(original, m, s) by {
//@             lemma_induction(original, variables@, *rhs, nvar.name, n, *lhs, fb, fs, base_case, inductive_step, m, s);
//@         }
//@     }
//@end
}

} // verus!
impl std::fmt::Display for GeneralTerm { fn fmt(&self, _f: &mut std::fmt::Formatter<'_>) -> std::fmt::Result { Ok(()) } }
impl std::fmt::Display for Variable { fn fmt(&self, _f: &mut std::fmt::Formatter<'_>) -> std::fmt::Result { Ok(()) } }
fn main() {}
