// unit `seq` — C13 (first sentence): in the problems built from a proof outline, a lemma is available as an axiom only in problems emitted after
// the problems that establish it; those problems use only the premises of their direction, the accepted definitions and the lemmas established earlier.
// The two outline blocks of AssembledExternalEquivalenceTask::decompose are extracted as statement fragments (D9).
use vstd::prelude::*;
use vstd::std_specs::iter::IteratorSpec;
verus! {
//@include spec/prelude.rs
broadcast use {axiom_string_ext, axiom_str_ext, axiom_str_of, axiom_vec_ext, axiom_vec_of, axiom_display_string, axiom_display_str, axiom_display_usize};
//@include spec/indexset.rs
//@include units/fol_types.inc

pub mod fol { pub use super::*; }

pub open spec fn as_problem(f: AnnotatedFormula, role: problem::Role) -> problem::AnnotatedFormula {
    problem::AnnotatedFormula { name: f.name, role, formula: f.formula }
}
impl AnnotatedFormula {
//@fn src/syntax_tree/fol/sigma_0.rs :: impl AnnotatedFormula :: fn into_problem_formula
//@ .ret r
//@ .spec
//@     ensures r == as_problem(self, role),
//@end
}

//@type src/command_line/arguments.rs :: enum Decomposition
//@type src/verifying/outline/mod.rs :: struct GeneralLemma
//@type src/verifying/outline/mod.rs :: struct ProofOutline
//@type src/verifying/task/external_equivalence.rs :: struct AssembledExternalEquivalenceTask

pub type PF = problem::AnnotatedFormula;

// ---- Problem as a builder: the sequence of annotated formulas a problem was assembled from (ASSUMED contracts of the builder methods) ----
pub uninterp spec fn psrc(p: Problem) -> Seq<PF>;
pub uninterp spec fn pname(p: Problem) -> Seq<char>;

#[verifier::external_type_specification]
#[verifier::external_body]
#[verifier::reject_recursive_types(T)]
pub struct ExOnce<T>(std::iter::Once<T>);
pub uninterp spec fn once_item<T>(o: std::iter::Once<T>) -> T;
// std docs, iter::once: "Creates an iterator that yields an element exactly once."
pub assume_specification<T>[ std::iter::once::<T> ](x: T) -> (r: std::iter::Once<T>)
    ensures once_item(r) == x;

pub trait FormulaSource { spec fn items(&self) -> Seq<PF>; }
impl FormulaSource for Vec<PF> { open spec fn items(&self) -> Seq<PF> { self@ } }
impl FormulaSource for std::iter::Once<PF> { open spec fn items(&self) -> Seq<PF> { seq![once_item(*self)] } }

impl Problem {
    // ASSUMED (generic Into<String> / IntoIterator, iterator filter chains, outside Verus' subset): the builder methods neither add nor drop nor reorder
    // formulas beyond what they are given; rename_conflicting_symbols and create_unique_formula_names only rename identifiers (C09; unit `problem`)
    #[verifier::external_body]
    pub fn with_name(name: String) -> (r: Problem) ensures psrc(r) == Seq::<PF>::empty(), pname(r) == name@ { unimplemented!() }
    #[verifier::external_body]
    pub fn add_annotated_formulas<I: FormulaSource>(self, annotated_formulas: I) -> (r: Problem) ensures psrc(r) == psrc(self) + annotated_formulas.items(), pname(r) == pname(self) { unimplemented!() }
    #[verifier::external_body]
    pub fn rename_conflicting_symbols(self) -> (r: Problem) ensures psrc(r) == psrc(self), pname(r) == pname(self) { unimplemented!() }
    #[verifier::external_body]
    pub fn create_unique_formula_names(self) -> (r: Problem) ensures psrc(r) == psrc(self), pname(r) == pname(self) { unimplemented!() }
}

// ---- what the outline problems must be ------------------------------------------------------------------------------------------
/// the consequences of the first n lemmas, in order
pub open spec fn cons_upto(lemmas: Seq<GeneralLemma>, n: int) -> Seq<PF>
    decreases n,
{
    if n <= 0 { Seq::empty() } else { cons_upto(lemmas, n - 1) + lemmas[n - 1].consequences@ }
}
/// the formulas of the problem for conjecture j of lemma i: base axioms, consequences of the EARLIER lemmas, and that conjecture
pub open spec fn outline_src(base: Seq<PF>, lemmas: Seq<GeneralLemma>, i: int, j: int) -> Seq<PF> {
    base + cons_upto(lemmas, i) + seq![lemmas[i].conjectures@[j]]
}
/// the sources of the problems emitted for the first n lemmas, in order of emission
pub open spec fn outline_srcs(base: Seq<PF>, lemmas: Seq<GeneralLemma>, n: int) -> Seq<Seq<PF>>
    decreases n,
{
    if n <= 0 { Seq::empty() } else { outline_srcs(base, lemmas, n - 1) + Seq::new(lemmas[n - 1].conjectures@.len(), |j: int| outline_src(base, lemmas, n - 1, j)) }
}
pub open spec fn srcs_of(ps: Seq<Problem>) -> Seq<Seq<PF>> { Seq::new(ps.len(), |q: int| psrc(ps[q])) }

/// number of problems emitted for the first n lemmas
pub open spec fn offset(lemmas: Seq<GeneralLemma>, n: int) -> int
    decreases n,
{
    if n <= 0 { 0 } else { offset(lemmas, n - 1) + lemmas[n - 1].conjectures@.len() }
}
/// C13: problem number offset(i) + j is the problem of conjecture j of lemma i — it has the consequences of lemmas 0..i-1 only
pub proof fn lemma_outline_index(base: Seq<PF>, lemmas: Seq<GeneralLemma>, n: int, i: int, j: int)
    requires 0 <= i < n <= lemmas.len(), 0 <= j < lemmas[i].conjectures@.len(),
    ensures outline_srcs(base, lemmas, n).len() == offset(lemmas, n), 0 <= offset(lemmas, i) + j < offset(lemmas, n),
        outline_srcs(base, lemmas, n)[offset(lemmas, i) + j] == outline_src(base, lemmas, i, j),
    decreases n,
{
    lemma_outline_len(base, lemmas, n);
    lemma_outline_len(base, lemmas, i);
    if i < n - 1 {
        lemma_outline_index(base, lemmas, n - 1, i, j);
    } else {
        lemma_outline_len(base, lemmas, n - 1);
    }
}
pub proof fn lemma_outline_len(base: Seq<PF>, lemmas: Seq<GeneralLemma>, n: int)
    requires 0 <= n <= lemmas.len(),
    ensures outline_srcs(base, lemmas, n).len() == offset(lemmas, n), offset(lemmas, n) >= 0,
    decreases n,
{
    if n > 0 { lemma_outline_len(base, lemmas, n - 1); }
}

pub open spec fn defs_as_axioms(defs: Seq<AnnotatedFormula>) -> Seq<PF> { Seq::new(defs.len(), |i: int| as_problem(defs[i], problem::Role::Axiom)) }

impl AssembledExternalEquivalenceTask {
    /// the forward outline block of decompose: one problem per conjecture of every forward lemma
    #[verifier::loop_isolation(false)]
    fn forward_outline(self, problems: &mut Vec<Problem>)
        requires old(problems)@.len() == 0,
        ensures srcs_of(final(problems)@) =~= outline_srcs(
            self.stable_premises@ + self.forward_premises@ + defs_as_axioms(self.proof_outline.forward_definitions@),
            self.proof_outline.forward_lemmas@, self.proof_outline.forward_lemmas@.len() as int),
    {
        let ghost lemmas = self.proof_outline.forward_lemmas@;
        let ghost base = self.stable_premises@ + self.forward_premises@ + defs_as_axioms(self.proof_outline.forward_definitions@);
        let ghost defs = self.proof_outline.forward_definitions@;
//@stmts src/verifying/task/external_equivalence.rs :: impl Task for AssembledExternalEquivalenceTask :: fn decompose
//@ .from "let mut axioms = self.stable_premises.clone(); axioms.extend(self.forward_premises.clone());"
//@ .until "problems.append( &mut Problem::with_name(\"forward_problem\")"
//@ .extend push
//@ .fmt
//@ .loop 1 as e1
//@     invariant axioms@ == self.stable_premises@ + e1.seq().take(e1.index@ as int), e1.seq() == self.forward_premises@,
//@ .loop 2 as e2
//@     invariant axioms@ == self.stable_premises@ + self.forward_premises@ + defs_as_axioms(defs.take(e2.index@ as int)), e2.seq() == defs,
//@ .hint before "{ let mut d14_k0"
//@     proof { assert(defs.take(defs.len() as int) =~= defs); assert(axioms@ =~= base); vstd::std_specs::vec::axiom_spec_len(&self.proof_outline.forward_lemmas); }
//@ .loop 3 as it
//@     invariant
//@         it.seq().len() == lemmas.len(), forall|q: int| 0 <= q < lemmas.len() ==> *it.seq()[q] == lemmas[q],
//@         d14_k0 == it.index@, lemmas.len() <= usize::MAX,
//@         axioms@ =~= base + cons_upto(lemmas, it.index@ as int),
//@         srcs_of(problems@) =~= outline_srcs(base, lemmas, it.index@ as int),
//@ .hint before "{ let mut d14_k1"
//@     let ghost i0 = it.index@ as int;
//@     let ghost p0 = problems@;
//@     proof { assert(*lemma == lemmas[i0]); vstd::std_specs::vec::axiom_spec_len(&lemma.conjectures); }
//@ .loop 4 as it2
//@     invariant
//@         it2.seq().len() == lemmas[i0].conjectures@.len(), forall|q: int| 0 <= q < lemmas[i0].conjectures@.len() ==> *it2.seq()[q] == lemmas[i0].conjectures@[q],
//@         d14_k1 == it2.index@, lemmas[i0].conjectures@.len() <= usize::MAX,
//@         axioms@ =~= base + cons_upto(lemmas, i0),
//@         srcs_of(problems@) =~= outline_srcs(base, lemmas, i0) + Seq::new(it2.index@ as nat, |j: int| outline_src(base, lemmas, i0, j)),
//@ .hint before "problems.push( Problem::with_name("
//@     let ghost pj = problems@;
//@     let ghost jj = it2.index@ as int;
//@ .hint after ".create_unique_formula_names(), );"
//@     proof {
//@         assert(*conjecture == lemmas[i0].conjectures@[jj]);
//@         assert(problems@ =~= pj.push(problems@.last()));
//@         assert(psrc(problems@.last()) =~= outline_src(base, lemmas, i0, jj));
//@         assert(srcs_of(problems@) =~= srcs_of(pj).push(outline_src(base, lemmas, i0, jj)));
//@         assert(Seq::new((jj + 1) as nat, |j: int| outline_src(base, lemmas, i0, j)) =~= Seq::new(jj as nat, |j: int| outline_src(base, lemmas, i0, j)).push(outline_src(base, lemmas, i0, jj)));
//@     }
//@ .hint before "axioms.append(&mut lemma.consequences.clone());"
//@     proof {
//@         assert(srcs_of(problems@) =~= outline_srcs(base, lemmas, i0 + 1));
//@     }
//@end
    }

    /// the backward outline block of decompose: one problem per conjecture of every backward lemma
    #[verifier::loop_isolation(false)]
    fn backward_outline(self, problems: &mut Vec<Problem>)
        requires old(problems)@.len() == 0,
        ensures srcs_of(final(problems)@) =~= outline_srcs(
            self.stable_premises@ + self.backward_premises@ + defs_as_axioms(self.proof_outline.backward_definitions@),
            self.proof_outline.backward_lemmas@, self.proof_outline.backward_lemmas@.len() as int),
    {
        let ghost lemmas = self.proof_outline.backward_lemmas@;
        let ghost base = self.stable_premises@ + self.backward_premises@ + defs_as_axioms(self.proof_outline.backward_definitions@);
        let ghost defs = self.proof_outline.backward_definitions@;
//@stmts src/verifying/task/external_equivalence.rs :: impl Task for AssembledExternalEquivalenceTask :: fn decompose
//@ .from "let mut axioms = self.stable_premises.clone(); axioms.extend(self.backward_premises.clone());"
//@ .until "problems.append( &mut Problem::with_name(\"backward_problem\")"
//@ .extend push
//@ .fmt
//@ .loop 1 as e1
//@     invariant axioms@ == self.stable_premises@ + e1.seq().take(e1.index@ as int), e1.seq() == self.backward_premises@,
//@ .loop 2 as e2
//@     invariant axioms@ == self.stable_premises@ + self.backward_premises@ + defs_as_axioms(defs.take(e2.index@ as int)), e2.seq() == defs,
//@ .hint before "{ let mut d14_k0"
//@     proof { assert(defs.take(defs.len() as int) =~= defs); assert(axioms@ =~= base); vstd::std_specs::vec::axiom_spec_len(&self.proof_outline.backward_lemmas); }
//@ .loop 3 as it
//@     invariant
//@         it.seq().len() == lemmas.len(), forall|q: int| 0 <= q < lemmas.len() ==> *it.seq()[q] == lemmas[q],
//@         d14_k0 == it.index@, lemmas.len() <= usize::MAX,
//@         axioms@ =~= base + cons_upto(lemmas, it.index@ as int),
//@         srcs_of(problems@) =~= outline_srcs(base, lemmas, it.index@ as int),
//@ .hint before "{ let mut d14_k1"
//@     let ghost i0 = it.index@ as int;
//@     let ghost p0 = problems@;
//@     proof { assert(*lemma == lemmas[i0]); vstd::std_specs::vec::axiom_spec_len(&lemma.conjectures); }
//@ .loop 4 as it2
//@     invariant
//@         it2.seq().len() == lemmas[i0].conjectures@.len(), forall|q: int| 0 <= q < lemmas[i0].conjectures@.len() ==> *it2.seq()[q] == lemmas[i0].conjectures@[q],
//@         d14_k1 == it2.index@, lemmas[i0].conjectures@.len() <= usize::MAX,
//@         axioms@ =~= base + cons_upto(lemmas, i0),
//@         srcs_of(problems@) =~= outline_srcs(base, lemmas, i0) + Seq::new(it2.index@ as nat, |j: int| outline_src(base, lemmas, i0, j)),
//@ .hint before "problems.push( Problem::with_name("
//@     let ghost pj = problems@;
//@     let ghost jj = it2.index@ as int;
//@ .hint after ".create_unique_formula_names(), );"
//@     proof {
//@         assert(*conjecture == lemmas[i0].conjectures@[jj]);
//@         assert(problems@ =~= pj.push(problems@.last()));
//@         assert(psrc(problems@.last()) =~= outline_src(base, lemmas, i0, jj));
//@         assert(srcs_of(problems@) =~= srcs_of(pj).push(outline_src(base, lemmas, i0, jj)));
//@         assert(Seq::new((jj + 1) as nat, |j: int| outline_src(base, lemmas, i0, j)) =~= Seq::new(jj as nat, |j: int| outline_src(base, lemmas, i0, j)).push(outline_src(base, lemmas, i0, jj)));
//@     }
//@ .hint before "axioms.append(&mut lemma.consequences.clone());"
//@     proof {
//@         assert(srcs_of(problems@) =~= outline_srcs(base, lemmas, i0 + 1));
//@     }
//@end
    }
}

} // verus!
pub mod problem {
    use vstd::prelude::*;
    use super::*;
    verus! {
//@type src/verifying/problem/mod.rs :: enum Interpretation
//@type src/verifying/problem/mod.rs :: enum Role
//@type src/verifying/problem/mod.rs :: struct AnnotatedFormula
//@type src/verifying/problem/mod.rs :: struct Problem
    } // verus!
}
pub use problem::Problem;
pub mod asp {
    use vstd::prelude::*;
    verus! {
//@include units/asp_types.inc
    } // verus!
}
pub mod syntax_tree { pub mod asp { pub use crate::asp as mini_gringo; } pub mod fol { pub mod sigma_0 { pub use crate::*; } } }
pub mod verifying { pub mod problem { pub use crate::problem::*; } }
fn main() {}
