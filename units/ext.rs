// unit `ext` — C02: routing of formulas into premises and conclusions (ValidatedExternalEquivalenceTask::decompose)
use vstd::prelude::*;
use vstd::std_specs::iter::IteratorSpec;
verus! {
//@include spec/prelude.rs
broadcast use {axiom_string_ext, axiom_str_ext, axiom_str_of, axiom_vec_ext, axiom_vec_of, axiom_display_string, axiom_display_str};
//@include spec/indexset.rs
//@include units/fol_types.inc
//@include spec/route_spec.rs

pub mod fol { pub use super::*; }

impl IntoIterator for Specification {
    type Item = AnnotatedFormula;
    type IntoIter = std::vec::IntoIter<AnnotatedFormula>;
    // D7: derive_more::IntoIterator(owned) delegates to the single field
    fn into_iter(self) -> (r: std::vec::IntoIter<AnnotatedFormula>)
        ensures r.remaining() == self.formulas@, vstd::std_specs::vec::into_iter_elts(r) == r.remaining(), r.decrease() is Some,
    { self.formulas.into_iter() }
}

impl AnnotatedFormula {
//@fn src/syntax_tree/fol/sigma_0.rs :: impl AnnotatedFormula :: fn into_problem_formula
//@ .ret r
//@ .spec
//@     ensures r == as_problem(self, role),
//@end
}

// ASSUMED CONTRACT (iterator chain with enumerate + format!; checked on the real code by the bounded harness)
#[verifier::external_body]
pub fn break_equivalences_annotated_formula(annotated_formula: AnnotatedFormula) -> (r: Specification)
    ensures r.formulas@ == spec_broken(annotated_formula),
{ unimplemented!() }

//@type src/convenience/with_warnings/mod.rs :: struct WithWarnings
impl<D, W> WithWarnings<D, W> {
//@fn src/convenience/with_warnings/mod.rs :: impl<D, W> WithWarnings<D, W> :: fn flawless
//@ .ret r
//@ .spec
//@     ensures r.data == data, r.warnings@.len() == 0,
//@end
//@fn src/convenience/with_warnings/mod.rs :: impl<D, W> WithWarnings<D, W> :: fn preface_warnings
//@ .ret r
//@ .spec
//@     ensures r.data == self.data,
//@end
}
pub type Result<D, W, E> = std::result::Result<WithWarnings<D, W>, E>;

//@type src/command_line/arguments.rs :: enum Decomposition
//@type src/verifying/outline/mod.rs :: enum ProofOutlineError
//@type src/verifying/outline/mod.rs :: enum ProofOutlineWarning
//@type src/verifying/outline/mod.rs :: struct GeneralLemma
//@type src/verifying/outline/mod.rs :: struct ProofOutline
//@type src/verifying/task/external_equivalence.rs :: enum ExternalEquivalenceTaskWarning
//@type src/verifying/task/external_equivalence.rs :: enum ExternalEquivalenceTaskError
//@type src/verifying/task/external_equivalence.rs :: struct ValidatedExternalEquivalenceTask
//@type src/verifying/task/external_equivalence.rs :: struct AssembledExternalEquivalenceTask

/// what the (unverified) problem assembly makes of an assembled task
pub uninterp spec fn spec_assembled(a: AssembledExternalEquivalenceTask) -> Result<Vec<Problem>, ExternalEquivalenceTaskWarning, ExternalEquivalenceTaskError>;

impl AssembledExternalEquivalenceTask {
    // NOT VERIFIED (enumerate / format! / iter::once / flat_map): stand-in that records its input
    #[verifier::external_body]
    fn decompose(self) -> (r: Result<Vec<Problem>, ExternalEquivalenceTaskWarning, ExternalEquivalenceTaskError>)
        ensures r == spec_assembled(self),
    { unimplemented!() }
}

/// C02 (routing): the assembled task a validated task must produce
pub open spec fn expected_assembled(t: ValidatedExternalEquivalenceTask) -> AssembledExternalEquivalenceTask {
    let l = t.left@;
    let r = t.right@;
    AssembledExternalEquivalenceTask {
        stable_premises: vec_of(t.user_guide_assumptions@.map_values(|f: AnnotatedFormula| as_problem(f, problem::Role::Axiom))
            + route_stable(l, l.len() as int) + route_stable(r, r.len() as int)),
        forward_premises: vec_of(route_premises(l, l.len() as int, true)),
        forward_conclusions: vec_of(route_conclusions(r, r.len() as int, false, t.break_equivalences)),
        backward_premises: vec_of(route_premises(r, r.len() as int, false)),
        backward_conclusions: vec_of(route_conclusions(l, l.len() as int, true, t.break_equivalences)),
        proof_outline: t.proof_outline,
        decomposition: t.decomposition,
        direction: t.direction,
    }
}

impl ValidatedExternalEquivalenceTask {
//@fn src/verifying/task/external_equivalence.rs :: impl Task for ValidatedExternalEquivalenceTask :: fn decompose
//@ .ret res
//@ .assoc Warning=ExternalEquivalenceTaskWarning Error=ExternalEquivalenceTaskError
//@ .lettype forward_premises as Vec<problem::AnnotatedFormula>
//@ .lettype forward_conclusions as Vec<problem::AnnotatedFormula>
//@ .lettype backward_premises as Vec<problem::AnnotatedFormula>
//@ .lettype backward_conclusions as Vec<problem::AnnotatedFormula>
//@ .lettype warnings as Vec<ExternalEquivalenceTaskWarning>
//@ .spec
//@     requires roles_ok(self.left@), roles_ok(self.right@),      // under it the unreachable!() arms are unreachable
//@     ensures match spec_assembled(expected_assembled(self)) { Ok(ww) => res matches Ok(rw) && rw.data == ww.data, Err(_) => res is Err },
//@ .closure "|a| a.into_problem_formula(problem::Role::Axiom)" as "|a: AnnotatedFormula| -> (z: problem::AnnotatedFormula)"
//@     ensures z == as_problem(a, problem::Role::Axiom)
//@ .hint before "let mut forward_premises"
//@     proof {
//@         let mv = self.user_guide_assumptions@.map_values(|f: AnnotatedFormula| as_problem(f, problem::Role::Axiom));
//@         assert(stable_premises@.len() == mv.len());
//@         assert forall|i: int| 0 <= i < mv.len() implies stable_premises@[i] == mv[i] by {}
//@         assert(stable_premises@ =~= mv);
//@     }
//@ .loop 1 as it
//@     invariant
//@         it.seq() == self.left@, roles_ok(self.left@),
//@         stable_premises@ =~= self.user_guide_assumptions@.map_values(|f: AnnotatedFormula| as_problem(f, problem::Role::Axiom)) + route_stable(self.left@, it.index@ as int),
//@         forward_premises@ =~= route_premises(self.left@, it.index@ as int, true),
//@         backward_conclusions@ =~= route_conclusions(self.left@, it.index@ as int, true, self.break_equivalences),
//@         backward_premises@.len() == 0, forward_conclusions@.len() == 0,
//@ .loop 2 as it2
//@     invariant
//@         it2.seq() == spec_broken(it.seq()[it.index@ as int]),
//@         backward_conclusions@ =~= route_conclusions(self.left@, it.index@ as int, true, self.break_equivalences)
//@             + spec_broken(it.seq()[it.index@ as int]).take(it2.index@ as int).map_values(|g: AnnotatedFormula| as_problem(g, problem::Role::Conjecture)),
//@ .loop 3 as it
//@     invariant
//@         it.seq() == self.right@, roles_ok(self.right@),
//@         stable_premises@ =~= self.user_guide_assumptions@.map_values(|f: AnnotatedFormula| as_problem(f, problem::Role::Axiom)) + route_stable(self.left@, self.left@.len() as int) + route_stable(self.right@, it.index@ as int),
//@         forward_premises@ =~= route_premises(self.left@, self.left@.len() as int, true),
//@         backward_conclusions@ =~= route_conclusions(self.left@, self.left@.len() as int, true, self.break_equivalences),
//@         backward_premises@ =~= route_premises(self.right@, it.index@ as int, false),
//@         forward_conclusions@ =~= route_conclusions(self.right@, it.index@ as int, false, self.break_equivalences),
//@ .loop 4 as it2
//@     invariant
//@         it2.seq() == spec_broken(it.seq()[it.index@ as int]),
//@         forward_conclusions@ =~= route_conclusions(self.right@, it.index@ as int, false, self.break_equivalences)
//@             + spec_broken(it.seq()[it.index@ as int]).take(it2.index@ as int).map_values(|g: AnnotatedFormula| as_problem(g, problem::Role::Conjecture)),
//@end
}

} // verus!
pub mod problem {
    use vstd::prelude::*;
    use super::*;
    verus! {
//@type src/verifying/problem/mod.rs :: enum Interpretation
//@type src/verifying/problem/mod.rs :: enum Role
//@type src/verifying/problem/mod.rs :: struct AnnotatedFormula
//@type src/verifying/problem/mod.rs :: struct Problem
    } // verus!
}
pub use problem::Problem;
pub mod asp {
    use vstd::prelude::*;
    verus! {
//@include units/asp_types.inc
    } // verus!
}
pub mod syntax_tree { pub mod asp { pub use crate::asp as mini_gringo; } pub mod fol { pub mod sigma_0 { pub use crate::*; } } }
pub mod verifying { pub mod problem { pub use crate::problem::*; } }
fn main() {}
