// unit `break` — C19 (equivalence breaking)
use vstd::prelude::*;
use vstd::std_specs::iter::IteratorSpec;
verus! {
//@include spec/prelude.rs
broadcast use {axiom_string_ext, axiom_str_of, axiom_vec_ext, axiom_vec_of, axiom_display_string, axiom_display_str};
//@include spec/indexset.rs
//@include units/fol_types.inc
//@include spec/sem.rs
//@include spec/quant_lemmas.rs
//@include spec/fol_spec.rs
//@include units/fol_lib.inc
//@include units/unbox.inc
//@include spec/break_lemmas.rs

//@fn src/breaking/fol/sigma_0/ht.rs :: fn break_equivalences_formula
//@ .ret r
//@ .spec
//@     ensures r.formulas@ == spec_break(formula),
//@     decreases formula,
//@ .closure "|f| f.quantify" as "|f: Formula| -> (z: Formula)"
//@     ensures z == spec_quantify(f, Quantifier::Forall, variables@)
//@end

} // verus!
fn main() {}
