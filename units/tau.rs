// unit `tau` — C01: the tau* translation
use vstd::prelude::*;
use vstd::std_specs::iter::IteratorSpec;
verus! {
//@include spec/prelude.rs
broadcast use {axiom_string_ext, axiom_str_ext, axiom_str_of, axiom_vec_ext, axiom_vec_of, axiom_display_string, axiom_display_str, axiom_display_usize};
//@include spec/indexset.rs
//@include units/fol_types.inc
//@include spec/sem.rs
//@include spec/quant_lemmas.rs
//@include spec/fol_spec.rs
//@include units/fol_lib.inc
//@include spec/core_lemmas.rs
//@include spec/fvlink_lemmas.rs
//@include spec/fresh_lemmas.rs

pub mod fol { pub use super::*; }

// T7. slice::contains over a type whose PartialEq is structural equality
pub assume_specification<T: PartialEq>[ <[T]>::contains ](s: &[T], x: &T) -> (b: bool)
    ensures b == s@.contains(*x);
// T9. str::clone_into overwrites the target with a copy of the string slice
pub assume_specification[ str::clone_into ](s: &str, target: &mut String)
    ensures final(target)@ == s@;

pub open spec fn names_of(vs: Seq<String>) -> Seq<Seq<char>> { vs.map_values(|x: String| x@) }

/// the names produced are `arity` many, pairwise distinct, none is the name of a variable in `variables`,
/// and each is the variant or the variant followed by a decimal numeral
pub open spec fn fresh_ok(r: Seq<String>, variables: Seq<Variable>, variant: Seq<char>, arity: nat) -> bool {
    &&& r.len() == arity
    &&& forall|i: int, j: int| 0 <= i < j < r.len() ==> #[trigger] r[i]@ != #[trigger] r[j]@
    &&& forall|i: int, k: int| 0 <= i < r.len() && 0 <= k < variables.len() ==> #[trigger] r[i]@ != #[trigger] variables[k].name@
    &&& forall|i: int| 0 <= i < r.len() ==> (#[trigger] r[i]@ == variant || exists|n: nat| r[i]@ == cand(variant, n))
}

pub proof fn lemma_names_contains(vs: Seq<String>, x: String)
    ensures vs.contains(x) == names_of(vs).contains(x@),
{
    let ns = names_of(vs);
    if vs.contains(x) { let i = choose|i: int| 0 <= i < vs.len() && vs[i] == x; assert(ns[i] == x@); }
    if ns.contains(x@) { let i = choose|i: int| 0 <= i < ns.len() && ns[i] == x@; assert(vs[i] == x); }
}

/// taken_vars holds exactly the names of `variables`
pub open spec fn taken_is(taken: Seq<String>, variables: Seq<Variable>) -> bool {
    taken.len() == variables.len() && forall|j: int| 0 <= j < taken.len() ==> #[trigger] taken[j]@ == variables[j].name@
}

/// the fresh names chosen so far
pub open spec fn fresh_inv(fresh: Seq<String>, taken: Seq<String>, variant: Seq<char>) -> bool {
    &&& forall|i: int, j: int| 0 <= i < j < fresh.len() ==> #[trigger] fresh[i]@ != #[trigger] fresh[j]@
    &&& forall|i: int| 0 <= i < fresh.len() ==> !names_of(taken).contains(#[trigger] fresh[i]@)
    &&& forall|i: int| 0 <= i < fresh.len() ==> (#[trigger] fresh[i]@ == variant || exists|n: nat| fresh[i]@ == cand(variant, n))
}

pub proof fn lemma_fresh_push(fresh: Seq<String>, taken: Seq<String>, variant: Seq<char>, c: String, n: nat)
    requires fresh_inv(fresh, taken, variant), !taken.contains(c), !fresh.contains(c), c@ == variant || c@ == cand(variant, n),
    ensures fresh_inv(fresh.push(c), taken, variant),
{
    let f2 = fresh.push(c);
    lemma_names_contains(taken, c);
    assert forall|i: int, j: int| 0 <= i < j < f2.len() implies #[trigger] f2[i]@ != #[trigger] f2[j]@ by {
        if j == fresh.len() { if f2[i]@ == c@ { assert(fresh[i] == c); assert(fresh.contains(c)); } }
    }
    assert forall|i: int| 0 <= i < f2.len() implies (#[trigger] f2[i]@ == variant || exists|k: nat| f2[i]@ == cand(variant, k)) by {
        if i == fresh.len() { if c@ != variant { assert(f2[i]@ == cand(variant, n)); } }
    }
}

pub proof fn lemma_fresh_final(fresh: Seq<String>, taken: Seq<String>, variables: Seq<Variable>, variant: Seq<char>, arity: nat)
    requires fresh_inv(fresh, taken, variant), taken_is(taken, variables), fresh.len() == arity,
    ensures fresh_ok(fresh, variables, variant, arity),
{
    assert forall|i: int, k: int| 0 <= i < fresh.len() && 0 <= k < variables.len() implies #[trigger] fresh[i]@ != #[trigger] variables[k].name@ by {
        if fresh[i]@ == variables[k].name@ { assert(names_of(taken)[k] == fresh[i]@); }
    }
}

/// everything that is currently taken (by the program's variables or by earlier choices)
pub open spec fn all_names(taken: Seq<String>, fresh: Seq<String>) -> Seq<Seq<char>> { names_of(taken + fresh) }

pub proof fn lemma_all_names(taken: Seq<String>, fresh: Seq<String>, c: String)
    ensures all_names(taken, fresh).contains(c@) == (taken.contains(c) || fresh.contains(c)),
{
    let tf = taken + fresh;
    lemma_names_contains(tf, c);
    if tf.contains(c) {
        let i = choose|i: int| 0 <= i < tf.len() && tf[i] == c;
        if i < taken.len() { assert(taken[i] == c); } else { assert(fresh[i - taken.len()] == c); }
    }
    if taken.contains(c) { let i = choose|i: int| 0 <= i < taken.len() && taken[i] == c; assert(tf[i] == c); }
    if fresh.contains(c) { let i = choose|i: int| 0 <= i < fresh.len() && fresh[i] == c; assert(tf[i + taken.len()] == c); }
}

//@fn src/translating/formula_representation/tau_star.rs :: fn choose_fresh_variable_names
//@ .ret r
//@ .spec
//@     requires variables@.len() + 2 * arity + 2 < usize::MAX,
//@     ensures fresh_ok(r@, variables@, variant@, arity as nat),
//@ .loop 1 as it
//@     invariant
//@         it.seq().len() == variables@.len(),
//@         forall|j: int| 0 <= j < variables@.len() ==> *it.seq()[j] == variables@[j],
//@         taken_vars@.len() == it.index@,
//@         forall|j: int| 0 <= j < taken_vars@.len() ==> #[trigger] taken_vars@[j]@ == variables@[j].name@,
//@ .hint before "for n in 1..arity_bound"
//@     let ghost base: int = fresh_vars@.len() as int;
//@     proof {
//@         assert forall|x: String| #[trigger] taken_vars@.contains(x) == names_of(taken_vars@).contains(x@) by { lemma_names_contains(taken_vars@, x); }
//@         assert(fresh_inv(fresh_vars@, taken_vars@, variant@)) by {
//@             if base == 1 { assert(fresh_vars@[0]@ == variant@); }
//@         }
//@     }
//@ .loop 2 as it2
//@     invariant
//@         variables@.len() + 2 * arity + 2 < usize::MAX,
//@         taken_is(taken_vars@, variables@),
//@         0 <= base <= 1, arity_bound == arity + 1 - base, arity >= 1,
//@         fresh_vars@.len() == base + it2.index@,
//@         fresh_inv(fresh_vars@, taken_vars@, variant@),
//@ .loop 3
//@     invariant
//@         variables@.len() + 2 * arity + 2 < usize::MAX,
//@         taken_is(taken_vars@, variables@),
//@         0 <= base <= 1, arity_bound == arity + 1 - base, arity >= 1,
//@         1 <= n < arity_bound,
//@         fresh_vars@.len() < arity,
//@         fresh_inv(fresh_vars@, taken_vars@, variant@),
//@         n <= m,
//@         candidate@ == cand(variant@, m as nat),
//@         forall|j: nat| n <= j < m ==> all_names(taken_vars@, fresh_vars@).contains(#[trigger] cand(variant@, j)),
//@         m - n <= taken_vars@.len() + fresh_vars@.len(),
//@     decreases n + taken_vars@.len() + fresh_vars@.len() - m,
//@ .hint before "variant.clone_into(&mut candidate);"
//@     proof {
//@         lemma_all_names(taken_vars@, fresh_vars@, candidate);
//@         assert forall|j: nat| n <= j < m + 1 implies all_names(taken_vars@, fresh_vars@).contains(#[trigger] cand(variant@, j)) by {
//@             if j == m { assert(cand(variant@, j) == candidate@); }
//@         }
//@         lemma_taken_bound(variant@, all_names(taken_vars@, fresh_vars@), n as nat, (m + 1) as nat);
//@     }
//@ .hint before "fresh_vars.push(candidate.to_string());"
//@     proof {
//@         assert forall|c: String| c@ == candidate@ implies #[trigger] fresh_inv(fresh_vars@.push(c), taken_vars@, variant@) by {
//@             lemma_fresh_push(fresh_vars@, taken_vars@, variant@, c, m as nat);
//@         }
//@     }
//@ .hint before "fresh_vars }"
//@     proof { lemma_fresh_final(fresh_vars@, taken_vars@, variables@, variant@, arity as nat); }
//@end

} // verus!
fn main() {}
