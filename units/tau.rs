// unit `tau` — C01: the tau* translation
use vstd::prelude::*;
use vstd::std_specs::iter::IteratorSpec;
verus! {
//@include spec/prelude.rs
broadcast use {axiom_string_ext, axiom_str_ext, axiom_str_of, axiom_vec_ext, axiom_vec_of, axiom_display_string, axiom_display_str, axiom_display_usize, axiom_display_u128, axiom_display_asp_variable};
//@include spec/sortspec.rs
//@include spec/indexset.rs
//@include units/fol_types.inc
//@include spec/sem.rs
//@include spec/quant_lemmas.rs
//@include spec/fol_spec.rs
//@include units/fol_lib.inc
//@include spec/core_lemmas.rs
//@include spec/fvlink_lemmas.rs
//@include spec/block_lemmas.rs
//@include spec/simp_spec.rs
//@include spec/fresh_lemmas.rs

pub mod fol { pub use super::*; }

// T7. slice::contains over a type whose PartialEq is structural equality
pub assume_specification<T: PartialEq>[ <[T]>::contains ](s: &[T], x: &T) -> (b: bool)
    ensures b == s@.contains(*x);
// T9. str::clone_into overwrites the target with a copy of the string slice
pub assume_specification[ str::clone_into ](s: &str, target: &mut String)
    ensures final(target)@ == s@;

pub open spec fn names_of(vs: Seq<String>) -> Seq<Seq<char>> { vs.map_values(|x: String| x@) }

/// the names produced are `arity` many, pairwise distinct, none is the name of a variable in `variables`,
/// and each is the variant or the variant followed by a decimal numeral
pub open spec fn fresh_ok(r: Seq<String>, variables: Seq<Variable>, variant: Seq<char>, arity: nat) -> bool {
    &&& r.len() == arity
    &&& forall|i: int, j: int| 0 <= i < j < r.len() ==> #[trigger] r[i]@ != #[trigger] r[j]@
    &&& forall|i: int, k: int| 0 <= i < r.len() && 0 <= k < variables.len() ==> #[trigger] r[i]@ != #[trigger] variables[k].name@
    &&& forall|i: int| 0 <= i < r.len() ==> (#[trigger] r[i]@ == variant || exists|n: nat| r[i]@ == cand(variant, n))
}

pub proof fn lemma_names_contains(vs: Seq<String>, x: String)
    ensures vs.contains(x) == names_of(vs).contains(x@),
{
    let ns = names_of(vs);
    if vs.contains(x) { let i = choose|i: int| 0 <= i < vs.len() && vs[i] == x; assert(ns[i] == x@); }
    if ns.contains(x@) { let i = choose|i: int| 0 <= i < ns.len() && ns[i] == x@; assert(vs[i] == x); }
}

/// taken_vars holds exactly the names of `variables`
pub open spec fn taken_is(taken: Seq<String>, variables: Seq<Variable>) -> bool {
    taken.len() == variables.len() && forall|j: int| 0 <= j < taken.len() ==> #[trigger] taken[j]@ == variables[j].name@
}

/// the fresh names chosen so far
pub open spec fn fresh_inv(fresh: Seq<String>, taken: Seq<String>, variant: Seq<char>) -> bool {
    &&& forall|i: int, j: int| 0 <= i < j < fresh.len() ==> #[trigger] fresh[i]@ != #[trigger] fresh[j]@
    &&& forall|i: int| 0 <= i < fresh.len() ==> !names_of(taken).contains(#[trigger] fresh[i]@)
    &&& forall|i: int| 0 <= i < fresh.len() ==> (#[trigger] fresh[i]@ == variant || exists|n: nat| fresh[i]@ == cand(variant, n))
}

pub proof fn lemma_fresh_push(fresh: Seq<String>, taken: Seq<String>, variant: Seq<char>, c: String, n: nat)
    requires fresh_inv(fresh, taken, variant), !taken.contains(c), !fresh.contains(c), c@ == variant || c@ == cand(variant, n),
    ensures fresh_inv(fresh.push(c), taken, variant),
{
    let f2 = fresh.push(c);
    lemma_names_contains(taken, c);
    assert forall|i: int, j: int| 0 <= i < j < f2.len() implies #[trigger] f2[i]@ != #[trigger] f2[j]@ by {
        if j == fresh.len() { if f2[i]@ == c@ { assert(fresh[i] == c); assert(fresh.contains(c)); } }
    }
    assert forall|i: int| 0 <= i < f2.len() implies (#[trigger] f2[i]@ == variant || exists|k: nat| f2[i]@ == cand(variant, k)) by {
        if i == fresh.len() { if c@ != variant { assert(f2[i]@ == cand(variant, n)); } }
    }
}

pub proof fn lemma_fresh_final(fresh: Seq<String>, taken: Seq<String>, variables: Seq<Variable>, variant: Seq<char>, arity: nat)
    requires fresh_inv(fresh, taken, variant), taken_is(taken, variables), fresh.len() == arity,
    ensures fresh_ok(fresh, variables, variant, arity),
{
    assert forall|i: int, k: int| 0 <= i < fresh.len() && 0 <= k < variables.len() implies #[trigger] fresh[i]@ != #[trigger] variables[k].name@ by {
        if fresh[i]@ == variables[k].name@ { assert(names_of(taken)[k] == fresh[i]@); }
    }
}

/// everything that is currently taken (by the program's variables or by earlier choices)
pub open spec fn all_names(taken: Seq<String>, fresh: Seq<String>) -> Seq<Seq<char>> { names_of(taken + fresh) }

pub proof fn lemma_all_names(taken: Seq<String>, fresh: Seq<String>, c: String)
    ensures all_names(taken, fresh).contains(c@) == (taken.contains(c) || fresh.contains(c)),
{
    let tf = taken + fresh;
    lemma_names_contains(tf, c);
    if tf.contains(c) {
        let i = choose|i: int| 0 <= i < tf.len() && tf[i] == c;
        if i < taken.len() { assert(taken[i] == c); } else { assert(fresh[i - taken.len()] == c); }
    }
    if taken.contains(c) { let i = choose|i: int| 0 <= i < taken.len() && taken[i] == c; assert(tf[i] == c); }
    if fresh.contains(c) { let i = choose|i: int| 0 <= i < fresh.len() && fresh[i] == c; assert(tf[i + taken.len()] == c); }
}

//@fn src/translating/formula_representation/tau_star.rs :: fn choose_fresh_variable_names
//@ .ret r
//@ .spec
//@     requires variables@.len() + 2 * arity + 2 < usize::MAX,
//@     ensures fresh_ok(r@, variables@, variant@, arity as nat),
//@ .loop 1 as it
//@     invariant
//@         it.seq().len() == variables@.len(),
//@         forall|j: int| 0 <= j < variables@.len() ==> *it.seq()[j] == variables@[j],
//@         taken_vars@.len() == it.index@,
//@         forall|j: int| 0 <= j < taken_vars@.len() ==> #[trigger] taken_vars@[j]@ == variables@[j].name@,
//@ .hint before "for n in 1..arity_bound"
//@     let ghost base: int = fresh_vars@.len() as int;
//@     proof {
//@         assert forall|x: String| #[trigger] taken_vars@.contains(x) == names_of(taken_vars@).contains(x@) by { lemma_names_contains(taken_vars@, x); }
//@         assert(fresh_inv(fresh_vars@, taken_vars@, variant@)) by {
//@             if base == 1 { assert(fresh_vars@[0]@ == variant@); }
//@         }
//@     }
//@ .loop 2 as it2
//@     invariant
//@         variables@.len() + 2 * arity + 2 < usize::MAX,
//@         taken_is(taken_vars@, variables@),
//@         0 <= base <= 1, arity_bound == arity + 1 - base, arity >= 1,
//@         fresh_vars@.len() == base + it2.index@,
//@         fresh_inv(fresh_vars@, taken_vars@, variant@),
//@ .loop 3
//@     invariant
//@         variables@.len() + 2 * arity + 2 < usize::MAX,
//@         taken_is(taken_vars@, variables@),
//@         0 <= base <= 1, arity_bound == arity + 1 - base, arity >= 1,
//@         1 <= n < arity_bound,
//@         fresh_vars@.len() < arity,
//@         fresh_inv(fresh_vars@, taken_vars@, variant@),
//@         n <= m,
//@         candidate@ == cand(variant@, m as nat),
//@         forall|j: nat| n <= j < m ==> all_names(taken_vars@, fresh_vars@).contains(#[trigger] cand(variant@, j)),
//@         m - n <= taken_vars@.len() + fresh_vars@.len(),
//@     decreases n + taken_vars@.len() + fresh_vars@.len() - m,
//@ .hint before "variant.clone_into(&mut candidate);"
//@     proof {
//@         lemma_all_names(taken_vars@, fresh_vars@, candidate);
//@         assert forall|j: nat| n <= j < m + 1 implies all_names(taken_vars@, fresh_vars@).contains(#[trigger] cand(variant@, j)) by {
//@             if j == m { assert(cand(variant@, j) == candidate@); }
//@         }
//@         lemma_taken_bound(variant@, all_names(taken_vars@, fresh_vars@), n as nat, (m + 1) as nat);
//@     }
//@ .hint before "fresh_vars.push(candidate.to_string());"
//@     proof {
//@         assert forall|c: String| c@ == candidate@ implies #[trigger] fresh_inv(fresh_vars@.push(c), taken_vars@, variant@) by {
//@             lemma_fresh_push(fresh_vars@, taken_vars@, variant@, c, m as nat);
//@         }
//@     }
//@ .hint before "fresh_vars }"
//@     proof { lemma_fresh_final(fresh_vars@, taken_vars@, variables@, variant@, arity as nat); }
//@end

//@include spec/tau_spec.rs
//@include spec/taub_spec.rs
//@include spec/rule_spec.rs

//@fn src/translating/formula_representation/tau_star.rs :: fn construct_equality_formula
//@ .ret r
//@ .spec
//@     requires term is PrecomputedTerm || term is Variable, z.sort != Sort::Symbol,
//@     ensures val_ok(r, term, z),
//@ .hint before "fol::Formula::AtomicFormula(fol::AtomicFormula::Comparison(fol::Comparison {"
//@     proof {
//@         assert forall|f: Formula| cmp1(z_term(z), Relation::Equal, rhs, f) implies #[trigger] val_ok(f, term, z) by {
//@             assert forall|w: World, m: HT, s: Asg| #[trigger] ht_sat(f, w, m, s) == in_vals(term, s, zval(z, s)) by {
//@                 lemma_cmp1(z_term(z), Relation::Equal, rhs, f, w, m, s);
//@                 lemma_z_term(z, m.fc, s);
//@             }
//@             assert forall|k: VKey| #[trigger] fv(f, k) implies k == vkey(z) || asp_in_term(term, k) by {
//@                 lemma_cmp1_fv(z_term(z), Relation::Equal, rhs, f, k);
//@                 lemma_z_term(z, |a: Seq<char>, b: Sort| Val::Inf, Map::empty());
//@             }
//@         }
//@     }
//@end

//@fn src/translating/formula_representation/tau_star.rs :: fn construct_total_function_formula
//@ .ret r
//@ .spec
//@     requires
//@         binop is Add || binop is Subtract || binop is Multiply,
//@         z.sort != Sort::Symbol,
//@         i_var.name@ != j_var.name@,
//@     ensures total_sem(r, valti, valtj, binop, i_var.name, j_var.name, z),
//@ .hint before "fol::Formula::QuantifiedFormula {"
//@     proof {
//@         let body = Formula::BinaryFormula {
//@             connective: BinaryConnective::Conjunction,
//@             lhs: Box::new(Formula::BinaryFormula { connective: BinaryConnective::Conjunction, lhs: Box::new(zequals), rhs: Box::new(valti) }),
//@             rhs: Box::new(valtj) };
//@         let sum = GeneralTerm::IntegerTerm(IntegerTerm::BinaryOperation {
//@             op: match binop { asp::BinaryOperator::Add => BinaryOperator::Add, asp::BinaryOperator::Subtract => BinaryOperator::Subtract, _ => BinaryOperator::Multiply },
//@             lhs: Box::new(IntegerTerm::Variable(i)), rhs: Box::new(IntegerTerm::Variable(j)) });
//@         assert(cmp1(z_term(z), Relation::Equal, sum, zequals));
//@         assert forall|f: Formula| (f matches Formula::QuantifiedFormula { quantification, formula } && quantification.quantifier == Quantifier::Exists
//@                 && quantification.variables@ =~= seq![ivar(i), ivar(j)] && *formula == body)
//@             implies #[trigger] total_sem(f, valti, valtj, binop, i, j, z) by {
//@             assert forall|w: World, m: HT, s: Asg| #[trigger] ht_sat(f, w, m, s) == (exists|x: int, y: int| #[trigger] tr2(x, y) && {
//@                     let s2 = s.insert(int_key(i), Val::Int(x)).insert(int_key(j), Val::Int(y));
//@                     zval(z, s2) == Val::Int(total_op(binop, x, y)) && ht_sat(valti, w, m, s2) && ht_sat(valtj, w, m, s2) }) by {
//@                 lemma_ex2(i, j, body, w, m, s);
//@                 assert forall|x: int, y: int| #[trigger] tr2(x, y) implies ({
//@                         let s2 = s.insert(int_key(i), Val::Int(x)).insert(int_key(j), Val::Int(y));
//@                         ht_sat(body, w, m, s2) == (zval(z, s2) == Val::Int(total_op(binop, x, y)) && ht_sat(valti, w, m, s2) && ht_sat(valtj, w, m, s2)) }) by {
//@                     let s2 = s.insert(int_key(i), Val::Int(x)).insert(int_key(j), Val::Int(y));
//@                     lemma_cmp1(z_term(z), Relation::Equal, sum, zequals, w, m, s2);
//@                     lemma_z_term(z, m.fc, s2);
//@                     reveal_with_fuel(ht_sat, 3);
//@                     reveal_with_fuel(eval_int, 3);
//@                 }
//@             }
//@             assert forall|k: VKey| #[trigger] fv(f, k) implies (k == vkey(z) || fv(valti, k) || fv(valtj, k)) && k != int_key(i) && k != int_key(j) by {
//@                 lemma_cmp1_fv(z_term(z), Relation::Equal, sum, zequals, k);
//@                 lemma_z_term(z, |a: Seq<char>, b: Sort| Val::Inf, Map::empty());
//@                 reveal_with_fuel(fv, 3);
//@                 reveal_with_fuel(in_int, 3);
//@                 lemma_bound_by_tail(seq![ivar(i), ivar(j)], k);
//@                 assert(seq![ivar(i), ivar(j)].drop_first() =~= seq![ivar(j)]);
//@                 lemma_bound_by_tail(seq![ivar(j)], k);
//@                 assert(!bound_by(seq![ivar(j)].drop_first(), k));
//@             }
//@         }
//@     }
//@end

//@fn src/translating/formula_representation/tau_star.rs :: fn construct_interval_formula
//@ .ret r
//@ .spec
//@     requires
//@         z.sort != Sort::Symbol,
//@         i_var.sort == Sort::Integer, j_var.sort == Sort::Integer, k_var.sort == Sort::Integer,
//@         i_var.name@ != j_var.name@, i_var.name@ != k_var.name@, j_var.name@ != k_var.name@,
//@     ensures interval_sem(r, valti, valtj, i_var.name, j_var.name, k_var.name, z),
//@ .hint before "fol::Formula::QuantifiedFormula {"
//@     proof {
//@         let ni = i_var.name; let nj = j_var.name; let nk = k_var.name;
//@         let ti = GeneralTerm::IntegerTerm(IntegerTerm::Variable(ni));
//@         let tj = GeneralTerm::IntegerTerm(IntegerTerm::Variable(nj));
//@         let tk = GeneralTerm::IntegerTerm(IntegerTerm::Variable(nk));
//@         let zeq = subformula->BinaryFormula_rhs;
//@         assert(cmp1(z_term(z), Relation::Equal, tk, *zeq));
//@         let body = Formula::BinaryFormula { connective: BinaryConnective::Conjunction, lhs: Box::new(subformula), rhs: Box::new(range) };
//@         assert(i_var == ivar(ni) && j_var == ivar(nj) && k_var == ivar(nk));
//@         assert forall|f: Formula| (f matches Formula::QuantifiedFormula { quantification, formula } && quantification.quantifier == Quantifier::Exists
//@                 && quantification.variables@ =~= seq![ivar(ni), ivar(nj), ivar(nk)] && *formula == body)
//@             implies #[trigger] interval_sem(f, valti, valtj, ni, nj, nk, z) by {
//@             assert forall|w: World, m: HT, s: Asg| #[trigger] ht_sat(f, w, m, s) == (exists|x: int, y: int, u: int| #[trigger] tr3(x, y, u) && {
//@                     let s2 = s.insert(int_key(ni), Val::Int(x)).insert(int_key(nj), Val::Int(y)).insert(int_key(nk), Val::Int(u));
//@                     x <= u <= y && zval(z, s2) == Val::Int(u) && ht_sat(valti, w, m, s2) && ht_sat(valtj, w, m, s2) }) by {
//@                 lemma_ex3(ni, nj, nk, body, w, m, s);
//@                 assert forall|x: int, y: int, u: int| #[trigger] tr3(x, y, u) implies ({
//@                         let s2 = s.insert(int_key(ni), Val::Int(x)).insert(int_key(nj), Val::Int(y)).insert(int_key(nk), Val::Int(u));
//@                         ht_sat(body, w, m, s2) == (x <= u <= y && zval(z, s2) == Val::Int(u) && ht_sat(valti, w, m, s2) && ht_sat(valtj, w, m, s2)) }) by {
//@                     let s2 = s.insert(int_key(ni), Val::Int(x)).insert(int_key(nj), Val::Int(y)).insert(int_key(nk), Val::Int(u));
//@                     lemma_cmp1(z_term(z), Relation::Equal, tk, *zeq, w, m, s2);
//@                     lemma_z_term(z, m.fc, s2);
//@                     reveal_with_fuel(ht_sat, 4);
//@                     reveal_with_fuel(sat_guards, 4);
//@                     reveal_with_fuel(eval_int, 2);
//@                 }
//@             }
//@             assert forall|k: VKey| #[trigger] fv(f, k) implies (k == vkey(z) || fv(valti, k) || fv(valtj, k))
//@                     && k != int_key(ni) && k != int_key(nj) && k != int_key(nk) by {
//@                 lemma_cmp1_fv(z_term(z), Relation::Equal, tk, *zeq, k);
//@                 lemma_z_term(z, |a: Seq<char>, b: Sort| Val::Inf, Map::empty());
//@                 reveal_with_fuel(fv, 4);
//@                 lemma_bound3(ivar(ni), ivar(nj), ivar(nk), k);
//@                 let c = range->AtomicFormula_0->Comparison_0;
//@                 if in_guards(c.guards@, k) {
//@                     let gi = choose|gi: int| 0 <= gi < c.guards@.len() && #[trigger] in_gen(c.guards@[gi].term, k);
//@                     assert(gi == 0 || gi == 1);
//@                 }
//@             }
//@         }
//@     }
//@end

pub open spec fn qr_free_name(n: Seq<char>) -> bool { qr_free(n) }

//@fn src/translating/formula_representation/tau_star.rs :: fn construct_partial_function_formula
//@ .ret r
//@ .spec
//@     requires
//@         binop is Divide || binop is Modulo,
//@         z.sort != Sort::Symbol,
//@         i_var.name@ != j_var.name@, qr_free_name(i_var.name@), qr_free_name(j_var.name@),
//@         z.sort == Sort::Integer ==> qr_free_name(z.name@),
//@         forall|k: VKey| (fv(valti, k) || fv(valtj, k)) && k.1 == Sort::Integer ==> qr_free_name(k.0),
//@     ensures partial_sem(r, valti, valtj, binop, i_var.name, j_var.name, z),
//@ .hint before "let qvar = choose_fresh_variable_names"
//@     proof { axiom_indexset_len(&taken_vars); }
//@ .hint before "fol::Formula::QuantifiedFormula {"
//@     proof {
//@         reveal_strlit("Q"); reveal_strlit("R");
//@         assert(is_family(qvar@, "Q"@));
//@         assert(is_family(rvar@, "R"@));
//@         lemma_family_first(qvar@, "Q"@);
//@         lemma_family_first(rvar@, "R"@);
//@         assert(qvar@ != rvar@);
//@         assert(qvar@ != i@ && qvar@ != j@ && rvar@ != i@ && rvar@ != j@);
//@         let ti = GeneralTerm::IntegerTerm(IntegerTerm::Variable(i));
//@         let tj = GeneralTerm::IntegerTerm(IntegerTerm::Variable(j));
//@         let tq = GeneralTerm::IntegerTerm(IntegerTerm::Variable(qvar));
//@         let tr = GeneralTerm::IntegerTerm(IntegerTerm::Variable(rvar));
//@         let zero = GeneralTerm::IntegerTerm(IntegerTerm::Numeral(0));
//@         let jqr = GeneralTerm::IntegerTerm(IntegerTerm::BinaryOperation {
//@             op: BinaryOperator::Add,
//@             lhs: Box::new(IntegerTerm::BinaryOperation { op: BinaryOperator::Multiply, lhs: Box::new(IntegerTerm::Variable(j)), rhs: Box::new(IntegerTerm::Variable(qvar)) }),
//@             rhs: Box::new(IntegerTerm::Variable(rvar)) });
//@         assert(cmp1(ti, Relation::Equal, jqr, iequals));
//@         let c1 = conditions->BinaryFormula_lhs->BinaryFormula_lhs;
//@         let c2 = conditions->BinaryFormula_lhs->BinaryFormula_rhs;
//@         let c3 = conditions->BinaryFormula_rhs;
//@         assert(cmp1(tj, Relation::NotEqual, zero, *c1));
//@         assert(cmp1(tr, Relation::GreaterEqual, zero, *c2));
//@         assert(cmp1(tr, Relation::Less, tj, *c3));
//@         let zt = if binop is Divide { tq } else { tr };
//@         assert(cmp1(z_term(z), Relation::Equal, zt, zequals));
//@         let body = Formula::BinaryFormula { connective: BinaryConnective::Conjunction, lhs: Box::new(subformula), rhs: Box::new(zequals) };
//@         assert forall|f: Formula| (f matches Formula::QuantifiedFormula { quantification, formula } && quantification.quantifier == Quantifier::Exists
//@                 && quantification.variables@ =~= seq![ivar(i), ivar(j), ivar(qvar), ivar(rvar)] && *formula == body)
//@             implies #[trigger] partial_sem(f, valti, valtj, binop, i, j, z) by {
//@             assert forall|w: World, m: HT, s: Asg| #[trigger] ht_sat(f, w, m, s) == (exists|x: int, y: int, q: int, rr: int| #[trigger] tr4(x, y, q, rr) && {
//@                     let s2 = s.insert(int_key(i), Val::Int(x)).insert(int_key(j), Val::Int(y)).insert(int_key(qvar), Val::Int(q)).insert(int_key(rvar), Val::Int(rr));
//@                     x == y * q + rr && y != 0 && 0 <= rr < y
//@                     && zval(z, s2) == Val::Int(if binop is Divide { q } else { rr }) && ht_sat(valti, w, m, s2) && ht_sat(valtj, w, m, s2) }) by {
//@                 lemma_ex4(i, j, qvar, rvar, body, w, m, s);
//@                 assert forall|x: int, y: int, q: int, rr: int| #[trigger] tr4(x, y, q, rr) implies ({
//@                         let s2 = s.insert(int_key(i), Val::Int(x)).insert(int_key(j), Val::Int(y)).insert(int_key(qvar), Val::Int(q)).insert(int_key(rvar), Val::Int(rr));
//@                         ht_sat(body, w, m, s2) == (x == y * q + rr && y != 0 && 0 <= rr < y
//@                             && zval(z, s2) == Val::Int(if binop is Divide { q } else { rr }) && ht_sat(valti, w, m, s2) && ht_sat(valtj, w, m, s2)) }) by {
//@                     let s2 = s.insert(int_key(i), Val::Int(x)).insert(int_key(j), Val::Int(y)).insert(int_key(qvar), Val::Int(q)).insert(int_key(rvar), Val::Int(rr));
//@                     lemma_cmp1(ti, Relation::Equal, jqr, iequals, w, m, s2);
//@                     lemma_cmp1(tj, Relation::NotEqual, zero, *c1, w, m, s2);
//@                     lemma_cmp1(tr, Relation::GreaterEqual, zero, *c2, w, m, s2);
//@                     lemma_cmp1(tr, Relation::Less, tj, *c3, w, m, s2);
//@                     lemma_cmp1(z_term(z), Relation::Equal, zt, zequals, w, m, s2);
//@                     lemma_z_term(z, m.fc, s2);
//@                     reveal_with_fuel(ht_sat, 5);
//@                     reveal_with_fuel(eval_int, 4);
//@                 }
//@             }
//@             assert forall|k: VKey| #[trigger] fv(f, k) implies (k == vkey(z) || fv(valti, k) || fv(valtj, k))
//@                     && k != int_key(i) && k != int_key(j) && k != int_key(qvar) && k != int_key(rvar) by {
//@                 lemma_cmp1_fv(ti, Relation::Equal, jqr, iequals, k);
//@                 lemma_cmp1_fv(tj, Relation::NotEqual, zero, *c1, k);
//@                 lemma_cmp1_fv(tr, Relation::GreaterEqual, zero, *c2, k);
//@                 lemma_cmp1_fv(tr, Relation::Less, tj, *c3, k);
//@                 lemma_cmp1_fv(z_term(z), Relation::Equal, zt, zequals, k);
//@                 lemma_z_term(z, |a: Seq<char>, b: Sort| Val::Inf, Map::empty());
//@                 reveal_with_fuel(fv, 5);
//@                 reveal_with_fuel(in_int, 4);
//@                 lemma_bound4(ivar(i), ivar(j), ivar(qvar), ivar(rvar), k);
//@             }
//@             assert(partial_sem_with(f, valti, valtj, binop, i, j, qvar, rvar, z));
//@         }
//@     }
//@end

//@fn src/translating/formula_representation/tau_star.rs :: fn val
//@ .ret r
//@ .spec
//@     requires z.sort != Sort::Symbol, z.sort == Sort::Integer ==> qr_free(z.name@),
//@     ensures val_ok(r, t, z),
//@     decreases term_size(t),
//@ .hint before "taken_vars.insert(z.clone());"
//@     let ghost tv0 = taken_vars@;
//@ .hint before "let mut fresh_ivar = choose_fresh_variable_names"
//@     proof {
//@         axiom_indexset_len(&taken_vars);
//@         assert(taken_vars@.contains(z)) by { lemma_seq_insert_contains(tv0, z, z); }
//@     }
//@ .hint before "match t {"
//@     let ghost zi = choose|zi: int| 0 <= zi < taken_vars@.len() && taken_vars@[zi] == z;
//@     proof {
//@         assert(taken_vars@[zi].name@ == z.name@);
//@         assert(is_family(var1.name@, "I"@));
//@         assert(is_family(var2.name@, "J"@));
//@         assert(is_family(var3.name@, "K"@));
//@         lemma_families(var1.name@, var2.name@, var3.name@);
//@         assert(var1 == ivar(var1.name) && var2 == ivar(var2.name) && var3 == ivar(var3.name));
//@         assert(z.name@ != var1.name@ && z.name@ != var2.name@ && z.name@ != var3.name@);
//@     }
//@ .hint before "match t {"
//@     proof {
//@         // stated for every pair of sub-translations, so that nothing below depends on the names of temporaries
//@         let zero = asp::Term::PrecomputedTerm(asp::PrecomputedTerm::Numeral(0));
//@         assert forall|f: Formula, vi: Formula, vj: Formula| t is UnaryOperation && val_ok(vi, zero, var1) && val_ok(vj, *t->UnaryOperation_arg, var2)
//@                 && #[trigger] total_sem(f, vi, vj, asp::BinaryOperator::Subtract, var1.name, var2.name, z) implies val_ok(f, t, z) by {
//@             lemma_val_unary(t, var1.name, var2.name, z, vi, vj, f);
//@         }
//@         assert forall|f: Formula, vi: Formula, vj: Formula, op: asp::BinaryOperator| t is BinaryOperation && op == t->BinaryOperation_op
//@                 && (op is Add || op is Subtract || op is Multiply)
//@                 && val_ok(vi, *t->BinaryOperation_lhs, var1) && val_ok(vj, *t->BinaryOperation_rhs, var2)
//@                 && #[trigger] total_sem(f, vi, vj, op, var1.name, var2.name, z) implies val_ok(f, t, z) by {
//@             lemma_val_total(t, var1.name, var2.name, z, vi, vj, f);
//@         }
//@         assert forall|f: Formula, vi: Formula, vj: Formula, op: asp::BinaryOperator| t is BinaryOperation && op == t->BinaryOperation_op
//@                 && (op is Divide || op is Modulo)
//@                 && val_ok(vi, *t->BinaryOperation_lhs, var1) && val_ok(vj, *t->BinaryOperation_rhs, var2)
//@                 && #[trigger] partial_sem(f, vi, vj, op, var1.name, var2.name, z) implies val_ok(f, t, z) by {
//@             lemma_val_partial(t, var1.name, var2.name, z, vi, vj, f);
//@         }
//@         assert forall|f: Formula, vi: Formula, vj: Formula| t is BinaryOperation && t->BinaryOperation_op is Interval
//@                 && val_ok(vi, *t->BinaryOperation_lhs, var1) && val_ok(vj, *t->BinaryOperation_rhs, var2)
//@                 && #[trigger] interval_sem(f, vi, vj, var1.name, var2.name, var3.name, z) implies val_ok(f, t, z) by {
//@             lemma_val_interval(t, var1.name, var2.name, var3.name, z, vi, vj, f);
//@         }
//@         assert forall|vi: Formula, u: asp::Term, x: Variable, k: VKey| #[trigger] val_ok(vi, u, x) && (x == var1 || x == var2) && #[trigger] fv(vi, k) && k.1 == Sort::Integer
//@                 implies qr_free(k.0) by {
//@             lemma_asp_keys_general(u, k);
//@         }
//@     }
//@end

/// fresh names (fresh_ok) against a list that has every variable name of the terms: the side conditions of parts_ok
pub proof fn lemma_fresh_parts(terms: Seq<asp::Term>, names: Seq<String>, taken: Seq<Variable>, variant: Seq<char>)
    requires fresh_ok(names, taken, variant, terms.len() as nat), forall|k: VKey| terms_in(terms, k) ==> has_name(taken, k.0),
    ensures
        distinct_names(names), names.len() == terms.len(),
        forall|i: int, j: int, k: VKey| 0 <= i < names.len() && 0 <= j < terms.len() && #[trigger] asp_in_term(terms[j], k) ==> k != #[trigger] zkey(names[i]),
{
    assert forall|i: int, j: int, k: VKey| 0 <= i < names.len() && 0 <= j < terms.len() && #[trigger] asp_in_term(terms[j], k) implies k != #[trigger] zkey(names[i]) by {
        assert(terms_in(terms, k));
        let q = choose|q: int| 0 <= q < taken.len() && (#[trigger] taken[q]).name@ == k.0;
        assert(names[i]@ != taken[q].name@);
    }
}

pub mod tb2 {
use vstd::prelude::*;
use super::asp;
// T10. Display of a mini-gringo variable is its name (formatting/asp/mini_gringo/default.rs: `write!(f, "{}", self.0.0)`)
pub broadcast axiom fn axiom_display_asp_variable(v: &asp::Variable, r: String)
    requires #[trigger] vstd::string::to_string_from_display_ensures::<asp::Variable>(v, r),
    ensures r@ == v.0@;
// T11. Rust allocation limit: a Vec of mini-gringo terms (each at least 8 bytes) holds at most isize::MAX / 8 of them
pub axiom fn axiom_terms_len(v: &Vec<asp::Term>)
    ensures v@.len() <= isize::MAX / 8;
} // mod tb2
pub use tb2::*;

//@fn src/translating/formula_representation/tau_star.rs :: fn tau_b_propositional_literal
//@ .ret r
//@ .spec
//@     requires l.atom.terms@.len() == 0,
//@     ensures taub_ok(r, asp::AtomicFormula::Literal(l)),
//@ .hint before "match l.sign {"
//@     proof {
//@         assert forall|f: Formula| is_signed_atom(f, l.sign, l.atom.predicate_symbol@, Seq::<GeneralTerm>::empty())
//@             implies #[trigger] taub_ok(f, asp::AtomicFormula::Literal(l)) by { lemma_prop_literal(l, f); }
//@     }
//@end

//@fn src/translating/formula_representation/tau_star.rs :: fn tau_b_first_order_literal
//@ .ret r
//@ .attr #[verifier::loop_isolation(false)]
//@ .spec
//@     requires forall|k: VKey| terms_in(l.atom.terms@, k) ==> has_name(taken_vars@, k.0),
//@     ensures taub_ok(r, asp::AtomicFormula::Literal(l)),
//@ .hint before "let varnames = choose_fresh_variable_names"
//@     proof { axiom_indexset_len(&taken_vars); axiom_terms_len(&terms); }
//@ .loop 1 as it
//@     invariant
//@         d14_k0 == it.index@, 0 <= it.index@ <= terms@.len(),
//@         it.seq().len() == terms@.len(), forall|j: int| 0 <= j < terms@.len() ==> *it.seq()[j] == terms@[j],
//@         var_terms@.len() == it.index@, var_vars@.len() == it.index@, valtz_vec@.len() == it.index@,
//@         forall|j: int| 0 <= j < it.index@ ==> #[trigger] var_vars@[j] == zvar(varnames@[j]),
//@         forall|j: int| 0 <= j < it.index@ ==> #[trigger] var_terms@[j] == GeneralTerm::Variable(varnames@[j]),
//@         forall|j: int| 0 <= j < it.index@ ==> val_ok(#[trigger] valtz_vec@[j], terms@[j], zvar(varnames@[j])),
//@ .hint after "var_vars.push(var);"
//@     proof {
//@         assert(var_vars@[i as int] == zvar(varnames@[i as int]));
//@         assert(var_terms@[i as int] == GeneralTerm::Variable(varnames@[i as int]));
//@         assert(*t == terms@[i as int]);
//@         assert(val_ok(valtz_vec@[i as int], terms@[i as int], zvar(varnames@[i as int])));
//@     }
//@ .hint before "let valtz = fol::Formula::conjoin(valtz_vec);"
//@     let ghost names = varnames@;
//@     let ghost vals = valtz_vec@;
//@     proof {
//@         lemma_fresh_parts(terms@, names, taken_vars@, "Z"@);
//@         assert(parts_ok(terms@, names, vals));
//@         assert(var_vars@ =~= zvars(names));
//@         assert(var_terms@ =~= zterms(names));
//@     }
//@ .hint before "match l.sign {"
//@     proof {
//@         assert forall|f: Formula| fo_shape(f, names, vals, l.sign, l.atom.predicate_symbol@)
//@             implies #[trigger] taub_ok(f, asp::AtomicFormula::Literal(l)) by { lemma_fo_literal(l, names, vals, taub_rhs(f), f); }
//@     }
//@end

//@fn src/translating/formula_representation/tau_star.rs :: fn tau_b_comparison
//@ .ret r
//@ .spec
//@     requires forall|k: VKey| asp_in_term(c.lhs, k) || asp_in_term(c.rhs, k) ==> has_name(taken_vars@, k.0),
//@     ensures taub_ok(r, asp::AtomicFormula::Comparison(c)),
//@ .hint before "let varnames = choose_fresh_variable_names"
//@     proof { axiom_indexset_len(&taken_vars); }
//@ .hint before "let z1_rel_z2 ="
//@     let ghost names = varnames@;
//@     let ghost terms = seq![c.lhs, c.rhs];
//@     proof {
//@         assert forall|k: VKey| terms_in(terms, k) implies has_name(taken_vars@, k.0) by {
//@             let i = choose|i: int| 0 <= i < terms.len() && #[trigger] asp_in_term(terms[i], k);
//@             assert(i == 0 || i == 1);
//@         }
//@         lemma_fresh_parts(terms, names, taken_vars@, "Z"@);
//@         assert(exists|vals: Seq<Formula>| valtz == #[trigger] spec_conjoin(vals) && vals.len() == 2
//@             && val_ok(vals[0], c.lhs, zvar(names[0])) && val_ok(vals[1], c.rhs, zvar(names[1])));
//@     }
//@     let ghost vals = choose|vals: Seq<Formula>| valtz == #[trigger] spec_conjoin(vals) && vals.len() == 2
//@             && val_ok(vals[0], c.lhs, zvar(names[0])) && val_ok(vals[1], c.rhs, zvar(names[1]));
//@     proof {
//@         assert forall|i: int| 0 <= i < terms.len() implies #[trigger] val_ok(vals[i], terms[i], zvar(names[i])) by { assert(i == 0 || i == 1); }
//@         assert(parts_ok(terms, names, vals));
//@     }
//@ .hint before "fol::Formula::QuantifiedFormula {"
//@     proof {
//@         assert(cmp1(GeneralTerm::Variable(names[0]), rel_of(c.relation), GeneralTerm::Variable(names[1]), z1_rel_z2));
//@         assert forall|f: Formula| cmp_shape(f, names, vals, rel_of(c.relation)) implies #[trigger] taub_ok(f, asp::AtomicFormula::Comparison(c)) by {
//@             lemma_cmp_literal(c, names, vals, taub_rhs(f), f);
//@         }
//@         assert(seq![zvar(names[0]), zvar(names[1])] =~= zvars(names));
//@     }
//@end

//@fn src/translating/formula_representation/tau_star.rs :: fn tau_b
//@ .ret r
//@ .attr #[verifier::loop_isolation(false)]
//@ .spec
//@     ensures taub_ok(r, f),
//@ .loop 1 as it
//@     invariant
//@         it.seq().len() == d17_t0@.len(), forall|j: int| 0 <= j < d17_t0@.len() ==> *it.seq()[j] == d17_t0@[j],
//@         forall|j: int| 0 <= j < it.index@ ==> has_name(taken_vars@, #[trigger] d17_t0@[j].0@),
//@ .hint before "taken_vars.insert(fol::Variable {"
//@     proof {
//@         assert forall|tk: Seq<Variable>, x: Variable, n: Seq<char>| has_name(tk, n) || x.name@ == n implies #[trigger] has_name(seq_insert(tk, x), n) by {
//@             lemma_has_name_insert(tk, x, n);
//@         }
//@     }
//@ .endloop 1
//@     proof {
//@         assert forall|k: VKey| af_in(f, k) implies has_name(taken_vars@, k.0) by {
//@             let j = choose|j: int| 0 <= j < d17_t0@.len() && #[trigger] asp_var_key(d17_t0@[j]) == k;
//@             assert(has_name(taken_vars@, d17_t0@[j].0@));
//@         }
//@     }
//@ .hint before "match f {"
//@     proof {
//@         assert forall|k: VKey| f is Literal && #[trigger] terms_in(f->Literal_0.atom.terms@, k) implies has_name(taken_vars@, k.0) by { assert(af_in(f, k)); }
//@         assert forall|k: VKey| f is Comparison && #[trigger] asp_in_term(f->Comparison_0.lhs, k) implies has_name(taken_vars@, k.0) by { assert(af_in(f, k)); }
//@         assert forall|k: VKey| f is Comparison && #[trigger] asp_in_term(f->Comparison_0.rhs, k) implies has_name(taken_vars@, k.0) by { assert(af_in(f, k)); }
//@     }
//@end

//@fn src/translating/formula_representation/tau_star.rs :: fn tau_body
//@ .ret r
//@ .attr #[verifier::loop_isolation(false)]
//@ .spec
//@     ensures body_ok(r, b),
//@ .loop 1 as it
//@     invariant
//@         it.seq().len() == b.formulas@.len(), forall|j: int| 0 <= j < b.formulas@.len() ==> *it.seq()[j] == b.formulas@[j],
//@         formulas@.len() == it.index@,
//@         forall|j: int| 0 <= j < it.index@ ==> taub_ok(#[trigger] formulas@[j], b.formulas@[j]),
//@ .hint before "fol::Formula::conjoin(formulas)"
//@     proof {
//@         assert forall|f: Formula| f == spec_conjoin(formulas@) implies #[trigger] body_ok(f, b) by { lemma_body(formulas@, b, f); }
//@     }
//@end

// T13. slice::to_vec copies the elements (Clone of the syntax-tree types is structural, D1)
pub assume_specification<T: Clone>[ <[T]>::to_vec ](s: &[T]) -> (r: Vec<T>)
    ensures r@ == s@;

/// the quantifier prefix built so far: one general variable per variable of the rule met so far
pub open spec fn prefix_inv(gv: Seq<Variable>, vs: Seq<asp::Variable>, n: int) -> bool {
    gv.len() == n && forall|j: int| 0 <= j < n ==> (#[trigger] gv[j]).sort == Sort::General && gv[j].name@ == vs[j].0@
}

pub proof fn lemma_prefix_covers(gv: Seq<Variable>, vs: Seq<asp::Variable>, r: asp::Rule)
    requires prefix_inv(gv, vs, vs.len() as int), forall|k: VKey| rule_in(r, k) ==> has_key(vs, k),
    ensures gv_covers(gv, r), all_general(gv),
{
    assert forall|k: VKey| rule_in(r, k) implies #[trigger] bound_by(gv, k) by {
        let j = choose|j: int| 0 <= j < vs.len() && #[trigger] asp_var_key(vs[j]) == k;
        assert(gv[j].sort == Sort::General);
        assert(vkey(gv[j]) == k);
    }
}

//@fn src/translating/formula_representation/tau_star.rs :: fn tau_star_constraint_rule
//@ .ret res
//@ .attr #[verifier::loop_isolation(false)]
//@ .spec
//@     requires r.head is Falsity,
//@     ensures rule_ok(res, *r),
//@ .loop 1 as it
//@     invariant
//@         it.seq().len() == d17_t0@.len(), forall|j: int| 0 <= j < d17_t0@.len() ==> *it.seq()[j] == d17_t0@[j],
//@         prefix_inv(gvars@, d17_t0@, it.index@ as int),
//@ .endloop 1
//@     proof { lemma_prefix_covers(gvars@, d17_t0@, *r); }
//@ .hint before "gvars.sort();"
//@     let ghost gv0 = gvars@;
//@     let ghost e = Seq::<String>::empty();
//@     proof {
//@         let core = imp_lhs(imp);
//@         lemma_core_prop(*r, core);
//@         lemma_imp_sem(*r, e, core, imp);
//@     }
//@ .hint after "gvars.sort();"
//@     proof {
//@         lemma_perm_prefix(gv0, gvars@);
//@         assert forall|k: VKey| !bound_by(zvars(e), k) by { lemma_zvars_bound(e, k); }
//@         assert(rule_side(*r, gvars@, e));
//@         assert forall|f: Formula| closure_shape(f, gvars@, imp) implies #[trigger] rule_ok(f, *r) by { lemma_rule_closed(*r, f, gvars@, e, imp); }
//@     }
//@end

//@fn src/translating/formula_representation/tau_star.rs :: fn tau_star_prop_head_rule
//@ .ret res
//@ .attr #[verifier::loop_isolation(false)]
//@ .spec
//@     requires !(r.head is Falsity), head_args(r.head).len() == 0,
//@     ensures rule_ok(res, *r),
//@ .loop 1 as it
//@     invariant
//@         it.seq().len() == d17_t0@.len(), forall|j: int| 0 <= j < d17_t0@.len() ==> *it.seq()[j] == d17_t0@[j],
//@         prefix_inv(gvars@, d17_t0@, it.index@ as int),
//@ .endloop 1
//@     proof { lemma_prefix_covers(gvars@, d17_t0@, *r); }
//@ .hint before "let new_body = match &r.head {"
//@     let ghost e = Seq::<String>::empty();
//@     let ghost core = core_lhs;
//@     proof {
//@         lemma_core_prop(*r, core);
//@         assert(zterms(e) =~= Seq::<GeneralTerm>::empty());
//@     }
//@ .hint before "gvars.sort();"
//@     let ghost gv0 = gvars@;
//@     proof {
//@         assert(imp_shape(imp, core, r.head, e));
//@         lemma_imp_sem(*r, e, core, imp);
//@     }
//@ .hint after "gvars.sort();"
//@     proof {
//@         lemma_perm_prefix(gv0, gvars@);
//@         assert forall|k: VKey| !bound_by(zvars(e), k) by { lemma_zvars_bound(e, k); }
//@         assert(rule_side(*r, gvars@, e));
//@         assert forall|f: Formula| closure_shape(f, gvars@, imp) implies #[trigger] rule_ok(f, *r) by { lemma_rule_closed(*r, f, gvars@, e, imp); }
//@     }
//@end

// ASSUMED CONTRACT of valtz (drain/zip/map over two vectors, outside Verus' subset): the conjunction of val_ti(Vi)
//@fn src/translating/formula_representation/tau_star.rs :: fn valtz
//@ .ret r
//@ .sig assumed
//@ .spec
//@     requires terms@.len() == variables@.len(), forall|i: int| 0 <= i < variables@.len() ==> (#[trigger] variables@[i]).sort == Sort::General,
//@     ensures exists|vals: Seq<Formula>| r == #[trigger] spec_conjoin(vals) && vals.len() == terms@.len()
//@         && forall|i: int| 0 <= i < vals.len() ==> #[trigger] val_ok(vals[i], terms@[i], variables@[i]),
//@end


//@fn src/translating/formula_representation/tau_star.rs :: fn tau_star_fo_head_rule
//@ .ret res
//@ .attr #[verifier::loop_isolation(false)]
//@ .spec
//@     requires !(r.head is Falsity), globals_ok(globals@, *r),
//@     ensures rule_ok(res, *r),
//@ .loop 1 as it
//@     invariant
//@         it.seq().len() == d17_t0@.len(), forall|j: int| 0 <= j < d17_t0@.len() ==> *it.seq()[j] == d17_t0@[j],
//@         prefix_inv(gvars@, d17_t0@, it.index@ as int),
//@ .endloop 1
//@     proof { lemma_prefix_covers(gvars@, d17_t0@, *r); }
//@ .hint before "let head_terms = r.head.terms().unwrap();"
//@     let ghost gv1 = gvars@;
//@     let ghost vnames = fvars@;
//@     proof { assert(vnames =~= globals@.subrange(0, head_arity as int)); }
//@ .loop 2 as it2
//@     invariant
//@         d14_k0 == it2.index@, 0 <= it2.index@ <= head_terms@.len(),
//@         it2.seq().len() == head_terms@.len(),
//@         new_terms@.len() == it2.index@, fo_vars@.len() == it2.index@,
//@         forall|j: int| 0 <= j < it2.index@ ==> #[trigger] fo_vars@[j] == zvar(vnames[j]),
//@         forall|j: int| 0 <= j < it2.index@ ==> #[trigger] new_terms@[j] == GeneralTerm::Variable(vnames[j]),
//@ .hint after "new_terms.push(fol_term);"
//@     proof {
//@         assert(fo_vars@[i as int] == zvar(vnames[i as int]));
//@         assert(new_terms@[i as int] == GeneralTerm::Variable(vnames[i as int]));
//@     }
//@ .hint before "let valtz = valtz(head_terms.to_vec(), fo_vars);"
//@     proof {
//@         assert(fo_vars@ =~= zvars(vnames));
//@         assert(new_terms@ =~= zterms(vnames));
//@     }
//@ .hint before "let new_body = match r.head {"
//@     let ghost core = core_lhs;
//@     proof {
//@         let vals = choose|vals: Seq<Formula>| valtz == #[trigger] spec_conjoin(vals) && vals.len() == head_terms@.len()
//@             && forall|i: int| 0 <= i < vals.len() ==> #[trigger] val_ok(vals[i], head_terms@[i], zvars(vnames)[i]);
//@         assert forall|i: int| 0 <= i < vals.len() implies #[trigger] val_ok(vals[i], head_args(r.head)[i], zvar(vnames[i])) by {
//@             assert(val_ok(vals[i], head_terms@[i], zvars(vnames)[i]));
//@         }
//@         lemma_core_fo(*r, vnames, vals, *core->BinaryFormula_rhs, core);
//@     }
//@ .hint before "for var in fvars.iter() {"
//@     proof {
//@         assert(imp_shape(imp, core, r.head, vnames));
//@         lemma_imp_sem(*r, vnames, core, imp);
//@     }
//@ .loop 3 as it3
//@     invariant
//@         it3.seq().len() == vnames.len(), forall|j: int| 0 <= j < vnames.len() ==> *it3.seq()[j] == vnames[j],
//@         gvars@.len() == gv1.len() + it3.index@,
//@         forall|j: int| 0 <= j < gv1.len() ==> #[trigger] gvars@[j] == gv1[j],
//@         forall|j: int| 0 <= j < it3.index@ ==> #[trigger] gvars@[gv1.len() + j] == zvar(vnames[j]),
//@ .hint before "gvars.sort();"
//@     let ghost gv0 = gvars@;
//@     proof {
//@         assert forall|i: int| gv1.len() <= i < gv0.len() implies gv0[i] == zvars(vnames)[i - gv1.len()] by {
//@             let j = i - gv1.len();
//@             assert(gvars@[gv1.len() + j] == zvar(vnames[j]));
//@         }
//@         assert(gv0 =~= gv1 + zvars(vnames));
//@         assert forall|k: VKey| rule_in(*r, k) || bound_by(zvars(vnames), k) implies #[trigger] bound_by(gv0, k) by { lemma_bound_by_concat(gv1, zvars(vnames), k); }
//@         assert(all_general(gv0));
//@     }
//@ .hint after "gvars.sort();"
//@     proof {
//@         lemma_perm_prefix(gv0, gvars@);
//@         assert(rule_side(*r, gvars@, vnames));
//@         assert forall|f: Formula| closure_shape(f, gvars@, imp) implies #[trigger] rule_ok(f, *r) by { lemma_rule_closed(*r, f, gvars@, vnames, imp); }
//@     }
//@end

//@fn src/translating/formula_representation/tau_star.rs :: fn tau_star_rule
//@ .ret res
//@ .spec
//@     requires globals_ok(globals@, *r),
//@     ensures rule_ok(res, *r),
//@end


// ASSUMED COMPOSITION of choose_fresh_global_variables: its first and last sections are verified below as the fragments
// `globals_max_arity` and `globals_numbering` (whose postconditions give this contract by lemma_globals_compose); what is assumed is
// that the middle section (a read-only loop over the program's variables using the regex crate, outside Verus' subset) assigns
// nothing but `max_taken_var`.
//@fn src/translating/formula_representation/tau_star.rs :: fn choose_fresh_global_variables
//@ .ret r
//@ .sig assumed
//@ .spec
//@     ensures program_globals_ok(r@, *program),
//@end


//@fn src/translating/formula_representation/tau_star.rs :: fn tau_star
//@ .ret res
//@ .attr #[verifier::loop_isolation(false)]
//@ .spec
//@     ensures theory_ok(res, p),
//@ .loop 1 as it
//@     invariant
//@         it.seq().len() == p.rules@.len(), forall|j: int| 0 <= j < p.rules@.len() ==> *it.seq()[j] == p.rules@[j],
//@         formulas@.len() == it.index@,
//@         forall|j: int| 0 <= j < it.index@ ==> rule_ok(#[trigger] formulas@[j], p.rules@[j]),
//@ .hint before "formulas.push(tau_star_rule(r, &globals));"
//@     proof { assert(globals_ok(globals@, p.rules@[it.index@ as int])); }
//@end

// ---- choose_fresh_global_variables: its first and last sections as fragments ----------------------------------------
/// first section: the largest head arity
fn globals_max_arity(program: &asp::Program) -> (r: usize)
    ensures forall|i: int| 0 <= i < program.rules@.len() ==> head_args((#[trigger] program.rules@[i]).head).len() <= r,
{
//@stmts src/translating/formula_representation/tau_star.rs :: fn choose_fresh_global_variables
//@ .from "let mut max_arity = 0;"
//@ .until "let mut max_taken_var = 0;"
//@ .loop 1 as it
//@     invariant
//@         it.seq().len() == program.rules@.len(), forall|j: int| 0 <= j < program.rules@.len() ==> *it.seq()[j] == program.rules@[j],
//@         forall|j: int| 0 <= j < it.index@ ==> head_args((#[trigger] program.rules@[j]).head).len() <= max_arity,
//@end
    max_arity
}

pub open spec fn var_names(vs: Seq<asp::Variable>) -> Seq<Seq<char>> { vs.map_values(|v: asp::Variable| v.0@) }

pub proof fn lemma_var_names(vs: Seq<asp::Variable>, x: asp::Variable)
    ensures vs.contains(x) == var_names(vs).contains(x.0@),
{
    let ns = var_names(vs);
    if vs.contains(x) { let i = choose|i: int| 0 <= i < vs.len() && vs[i] == x; assert(ns[i] == x.0@); }
    if ns.contains(x.0@) { let i = choose|i: int| 0 <= i < ns.len() && ns[i] == x.0@; assert(vs[i].0@ == x.0@); assert(vs[i] == x); }
}

pub open spec fn v_name() -> Seq<char> { "V"@ }

pub open spec fn num_at(globals: Seq<String>, cs: Seq<nat>, counter: nat, i: int) -> bool { globals[i]@ == cand(v_name(), cs[i]) && cs[i] <= counter }
pub open spec fn num_free(cs: Seq<nat>, taken: Seq<asp::Variable>, i: int) -> bool { !var_names(taken).contains(cand(v_name(), cs[i])) }
pub open spec fn num_lt(cs: Seq<nat>, i: int, j: int) -> bool { cs[i] < cs[j] }

/// the fresh head variables chosen so far: V<c> for strictly increasing numbers c, none of them a variable of the program
pub open spec fn numbering_inv(globals: Seq<String>, cs: Seq<nat>, taken: Seq<asp::Variable>, counter: nat) -> bool {
    &&& cs.len() == globals.len()
    &&& forall|i: int| 0 <= i < cs.len() ==> #[trigger] num_at(globals, cs, counter, i)
    &&& forall|i: int| 0 <= i < cs.len() ==> #[trigger] num_free(cs, taken, i)
    &&& forall|i: int, j: int| 0 <= i < j < cs.len() ==> #[trigger] num_lt(cs, i, j)
}

pub proof fn lemma_numbering_final(globals: Seq<String>, cs: Seq<nat>, taken: Seq<asp::Variable>, counter: nat)
    requires numbering_inv(globals, cs, taken, counter),
    ensures distinct_names(globals), forall|i: int| 0 <= i < globals.len() ==> !taken.contains(asp::Variable(#[trigger] globals[i])),
{
    assert forall|i: int, j: int| 0 <= i < j < globals.len() implies #[trigger] globals[i]@ != #[trigger] globals[j]@ by {
        assert(num_at(globals, cs, counter, i) && num_at(globals, cs, counter, j) && num_lt(cs, i, j));
        if globals[i]@ == globals[j]@ { lemma_cand_injective(v_name(), cs[i], cs[j]); }
    }
    assert forall|i: int| 0 <= i < globals.len() implies !taken.contains(asp::Variable(#[trigger] globals[i])) by {
        assert(num_at(globals, cs, counter, i) && num_free(cs, taken, i));
        lemma_var_names(taken, asp::Variable(globals[i]));
    }
}

pub proof fn lemma_numbering_mono(globals: Seq<String>, cs: Seq<nat>, taken: Seq<asp::Variable>, c1: nat, c2: nat)
    requires numbering_inv(globals, cs, taken, c1), c1 <= c2,
    ensures numbering_inv(globals, cs, taken, c2),
{
    assert forall|i: int| 0 <= i < cs.len() implies #[trigger] num_at(globals, cs, c2, i) by { assert(num_at(globals, cs, c1, i)); }
}

pub proof fn lemma_numbering_push(globals: Seq<String>, cs: Seq<nat>, taken: Seq<asp::Variable>, c_old: nat, name: String, c: nat)
    requires numbering_inv(globals, cs, taken, c_old), c > c_old, name@ == cand(v_name(), c), !var_names(taken).contains(cand(v_name(), c)),
    ensures numbering_inv(globals.push(name), cs.push(c), taken, c),
{
    let g2 = globals.push(name);
    let c2 = cs.push(c);
    assert forall|i: int| 0 <= i < c2.len() implies #[trigger] num_at(g2, c2, c, i) by {
        if i < cs.len() { assert(num_at(globals, cs, c_old, i)); }
    }
    assert forall|i: int| 0 <= i < c2.len() implies #[trigger] num_free(c2, taken, i) by {
        if i < cs.len() { assert(num_free(cs, taken, i)); }
    }
    assert forall|i: int, j: int| 0 <= i < j < c2.len() implies #[trigger] num_lt(c2, i, j) by {
        if j < cs.len() { assert(num_lt(cs, i, j)); } else { assert(num_at(globals, cs, c_old, i)); }
    }
}

/// last section: V<max+1>, V<max+2>, ... skipping the names of program variables (repaired in dad0bac: no overflow, no collision)
#[verifier::loop_isolation(false)]
fn globals_numbering(taken_vars: IndexSet<asp::Variable>, max_taken_var: usize, max_arity: usize) -> (r: Vec<String>)
    ensures r@.len() == max_arity, distinct_names(r@), forall|i: int| 0 <= i < r@.len() ==> !taken_vars@.contains(asp::Variable(#[trigger] r@[i])),
{
    let ghost mut cs: Seq<nat> = Seq::empty();
    let ghost l = taken_vars@.len() as int;
    proof { axiom_indexset_len(&taken_vars); reveal_strlit("V"); }
//@stmts src/translating/formula_representation/tau_star.rs :: fn choose_fresh_global_variables
//@ .from "let mut globals = Vec::<String>::new();"
//@ .until "globals }"
//@ .fmt
//@ .loop 1 as it
//@     invariant
//@         globals@.len() == it.index@, 0 <= it.index@ <= max_arity,
//@         numbering_inv(globals@, cs, taken_vars@, counter as nat),
//@         max_taken_var <= counter, counter <= max_taken_var + it.index@ * (l + 1),
//@ .hint after "for _ in 0..max_arity {"
//@     proof {
//@         assert(it.index@ * (l + 1) <= 0x1_0000_0000_0000_0000 * 0x8000_0000_0000_0000) by (nonlinear_arith)
//@             requires 0 <= it.index@ <= 0xffff_ffff_ffff_ffff, 0 <= l + 1 <= 0x8000_0000_0000_0000;
//@     }
//@ .hint before "while taken_vars.contains"
//@     let ghost n0 = counter as nat;
//@     let ghost idx = it.index@;
//@ .loop 2
//@     invariant
//@         n0 <= counter, counter - n0 <= l,
//@         forall|j: nat| n0 <= j < counter ==> var_names(taken_vars@).contains(#[trigger] cand(v_name(), j)),
//@         globals@.len() == idx, n0 >= 1, numbering_inv(globals@, cs, taken_vars@, (n0 - 1) as nat),
//@     decreases n0 + l - counter,
//@ .hint after "(counter).to_string()]))) {"
//@     proof {
//@         // the loop condition held: the name V<counter> is the name of a program variable
//@         assert forall|x: asp::Variable| x.0@ == cand(v_name(), counter as nat) && #[trigger] taken_vars@.contains(x)
//@             implies var_names(taken_vars@).contains(cand(v_name(), counter as nat)) by { lemma_var_names(taken_vars@, x); }
//@         assert(var_names(taken_vars@).contains(cand(v_name(), counter as nat)));
//@         lemma_taken_bound(v_name(), var_names(taken_vars@), n0, (counter + 1) as nat);
//@     }
//@ .hint before "globals.push("
//@     let ghost gb = globals@;
//@ .hint after "(counter).to_string()]));"
//@     proof {
//@         assert forall|x: asp::Variable| x.0@ == cand(v_name(), counter as nat) && !(#[trigger] taken_vars@.contains(x))
//@             implies !var_names(taken_vars@).contains(cand(v_name(), counter as nat)) by { lemma_var_names(taken_vars@, x); }
//@         assert(!var_names(taken_vars@).contains(cand(v_name(), counter as nat)));
//@         assert(globals@ =~= gb.push(globals@.last()));
//@         lemma_numbering_push(gb, cs, taken_vars@, (n0 - 1) as nat, globals@.last(), counter as nat);
//@         cs = cs.push(counter as nat);
//@         assert(numbering_inv(globals@, cs, taken_vars@, counter as nat));
//@         assert((idx + 1) * (l + 1) == idx * (l + 1) + (l + 1)) by (nonlinear_arith);
//@     }
//@end
    proof { lemma_numbering_final(globals@, cs, taken_vars@, counter as nat); }
    globals
}

/// the postconditions of the two verified sections and of Program::variables give the assumed contract of choose_fresh_global_variables
pub proof fn lemma_globals_compose(program: asp::Program, taken: Seq<asp::Variable>, max_arity: usize, globals: Seq<String>)
    requires
        forall|i: int, k: VKey| 0 <= i < program.rules@.len() && #[trigger] rule_in(program.rules@[i], k) ==> has_key(taken, k),   // Program::variables
        forall|i: int| 0 <= i < program.rules@.len() ==> head_args((#[trigger] program.rules@[i]).head).len() <= max_arity,            // globals_max_arity
        globals.len() == max_arity, distinct_names(globals), forall|i: int| 0 <= i < globals.len() ==> !taken.contains(asp::Variable(#[trigger] globals[i])),  // globals_numbering
    ensures program_globals_ok(globals, program),
{
    assert forall|i: int| 0 <= i < program.rules@.len() implies #[trigger] globals_ok(globals, program.rules@[i]) by {
        let r = program.rules@[i];
        assert forall|j: int, k: VKey| 0 <= j < globals.len() && #[trigger] rule_in(r, k) implies k != #[trigger] zkey(globals[j]) by {
            if k == zkey(globals[j]) {
                let q = choose|q: int| 0 <= q < taken.len() && #[trigger] asp_var_key(taken[q]) == k;
                assert(taken[q].0@ == globals[j]@);
                assert(taken[q] == asp::Variable(globals[j]));
                assert(taken.contains(asp::Variable(globals[j])));
            }
        }
    }
}

} // verus!
pub mod asp {
    use vstd::prelude::*;
    use vstd::std_specs::iter::IteratorSpec;
    use super::{IndexSet, seq_extend, seq_insert, lemma_seq_extend_contains, VKey, asp_in_term, asp_var_key, has_key, terms_in, af_in,
        lemma_has_key_extend, lemma_has_key_contains, head_pred, head_args, head_in, body_in, rule_in, var_occ, terms_var_occ, lemma_extend_len};
    verus! {
    broadcast use {super::axiom_string_ext, super::axiom_vec_ext};
//@include units/asp_types.inc
//@include units/asp_vars.inc
    } // verus!
}
impl std::fmt::Display for Variable { fn fmt(&self, _f: &mut std::fmt::Formatter<'_>) -> std::fmt::Result { Ok(()) } }
impl std::fmt::Display for asp::Variable { fn fmt(&self, _f: &mut std::fmt::Formatter<'_>) -> std::fmt::Result { Ok(()) } }
pub mod syntax_tree { pub mod asp { pub use crate::asp as mini_gringo; } pub mod fol { pub mod sigma_0 { pub use crate::*; } } }
fn main() {}
