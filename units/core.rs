// unit `core` — semantic core lemmas (no extracted functions; checked once, used by other units)
use vstd::prelude::*;
use vstd::std_specs::iter::IteratorSpec;
verus! {
//@include spec/prelude.rs
broadcast use {axiom_string_ext, axiom_str_ext, axiom_str_of, axiom_vec_ext, axiom_vec_of, axiom_display_string, axiom_display_str};
//@include spec/indexset.rs
//@include units/fol_types.inc
//@include spec/sem.rs
//@include spec/quant_lemmas.rs
//@include spec/fol_spec.rs
//@include spec/core_lemmas.rs
//@include spec/fvlink_lemmas.rs
//@include spec/block_lemmas.rs
//@include spec/subst_lemmas.rs
//@include spec/subst_formula_lemmas.rs
//@include spec/subst_loop_lemmas.rs
//@include spec/induction_lemmas.rs
} // verus!
fn main() {}
