// unit `apply` — C07 (strategies) and C18 (fixpoint): Apply::apply / apply_fixpoint and the lifting lemmas
use vstd::prelude::*;
use vstd::std_specs::iter::IteratorSpec;
verus! {
//@include spec/prelude.rs
broadcast use {axiom_string_ext, axiom_str_ext, axiom_str_of, axiom_vec_ext, axiom_vec_of, axiom_display_string, axiom_display_str};
//@include spec/indexset.rs
//@include units/fol_types.inc
//@include spec/sem.rs
//@include spec/quant_lemmas.rs
//@include spec/fol_spec.rs
//@include units/fol_lib.inc
//@include spec/core_lemmas.rs
//@include spec/simp_spec.rs
//@include spec/lift_lemmas.rs

pub trait Apply: Sized {
//@fn src/convenience/apply/mod.rs :: trait Apply :: fn apply
//@ .apit F0
//@ .ret r
//@ .spec
//@     requires forall|y: Self| (*old(f)).requires((y,)),
//@ .sig only
//@end
//@fn src/convenience/apply/mod.rs :: trait Apply :: fn apply_fixpoint
//@ .apit F0
//@ .ret r
//@ .spec
//@     requires forall|y: Self| (*old(f)).requires((y,)),
//@ .sig only
//@end
}

impl Apply for Formula {
//@fn src/convenience/apply/mod.rs :: impl Apply for Formula :: fn apply
//@ .apit F0
//@ .ret r
//@ .spec
//@     ensures
//@         *final(f) == *old(f),
//@         forall|g: spec_fn(Formula) -> Formula| implements(*old(f), g) ==> r == sapply(self, g),
//@     decreases self,
//@ .hint before "f(inner)"
//@     proof {
//@         assert((*f).requires((inner,)));
//@         assert forall|g: spec_fn(Formula) -> Formula| implements(*f, g) implies #[trigger] g(inner) == sapply(self, g) by {
//@             match self {
//@                 Formula::AtomicFormula(_) => { assert(inner == self); }
//@                 Formula::UnaryFormula { connective, formula } => {
//@                     assert(inner == Formula::UnaryFormula { connective, formula: Box::new(sapply(*formula, g)) });
//@                 }
//@                 Formula::BinaryFormula { connective, lhs, rhs } => {
//@                     assert(inner == Formula::BinaryFormula { connective, lhs: Box::new(sapply(*lhs, g)), rhs: Box::new(sapply(*rhs, g)) });
//@                 }
//@                 Formula::QuantifiedFormula { quantification, formula } => {
//@                     assert(inner == Formula::QuantifiedFormula { quantification, formula: Box::new(sapply(*formula, g)) });
//@                 }
//@             }
//@         }
//@     }
//@end

// The trait's default method, specialised to the implementing type (Self = Formula): the impl does not
// override it, so this text is what runs for formulas.
//@fn src/convenience/apply/mod.rs :: trait Apply :: fn apply_fixpoint
//@ .apit F0
//@ .ret r
//@ .attr #[verifier::exec_allows_no_decreases_clause]
//@ .spec
//@     ensures
//@         *final(f) == *old(f),
//@         // C18 (idempotence): one more pass over the result changes nothing
//@         forall|g: spec_fn(Formula) -> Formula| implements(*old(f), g) ==> sapply(r, g) == r,
//@         // C07 (fixpoint strategy): the result has the meaning of the input
//@         forall|g: spec_fn(Formula) -> Formula| implements(*old(f), g) && pres_ht_fn(g) ==> preserves_ht(r, self),
//@         forall|g: spec_fn(Formula) -> Formula| implements(*old(f), g) && pres_cl_fn(g) ==> preserves_cl(r, self),
//@ .hint before "while previous != current"
//@     proof {
//@         assert forall|g: spec_fn(Formula) -> Formula| implements(*f, g) && pres_ht_fn(g) implies preserves_ht(current, self) by {
//@             lemma_sapply_preserves_ht(self, g);
//@         }
//@         assert forall|g: spec_fn(Formula) -> Formula| implements(*f, g) && pres_cl_fn(g) implies preserves_cl(current, self) by {
//@             lemma_sapply_preserves_cl(self, g);
//@         }
//@     }
//@ .loop 1
//@     invariant
//@         *f == *old(f),
//@         forall|y: Formula| (*f).requires((y,)),
//@         forall|g: spec_fn(Formula) -> Formula| implements(*f, g) ==> current == sapply(previous, g),
//@         forall|g: spec_fn(Formula) -> Formula| implements(*f, g) && pres_ht_fn(g) ==> preserves_ht(current, self),
//@         forall|g: spec_fn(Formula) -> Formula| implements(*f, g) && pres_cl_fn(g) ==> preserves_cl(current, self),
//@ .hint before "previous = current;"
//@     proof {
//@         assert forall|g: spec_fn(Formula) -> Formula| implements(*f, g) && pres_ht_fn(g) implies preserves_ht(sapply(current, g), self) by {
//@             lemma_sapply_preserves_ht(current, g);
//@             lemma_preserves_ht_trans(sapply(current, g), current, self);
//@         }
//@         assert forall|g: spec_fn(Formula) -> Formula| implements(*f, g) && pres_cl_fn(g) implies preserves_cl(sapply(current, g), self) by {
//@             lemma_sapply_preserves_cl(current, g);
//@             lemma_preserves_cl_trans(sapply(current, g), current, self);
//@         }
//@     }
//@end
}

} // verus!
fn main() {}
