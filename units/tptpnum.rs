// unit `tptpnum` — C16: rendering of integer numerals in TPTP output never crashes, for every isize
use vstd::prelude::*;
verus! {
// T10. isize::abs (std docs): "The absolute value of isize::MIN cannot be represented as an isize, and attempting to calculate it
// will cause an overflow. This means that code in debug mode will trigger a panic on this case."
pub assume_specification[ isize::abs ](x: isize) -> (r: isize)
    requires x != isize::MIN,
    ensures r >= 0, r == x || r == -x;
// T11. isize::unsigned_abs: "Computes the absolute value of self without any wrapping or panicking."
pub assume_specification[ isize::unsigned_abs ](x: isize) -> (r: usize)
    ensures r as int == (if x >= 0 { x as int } else { -(x as int) });

/// the numeral arm of `Display for Format<IntegerTerm>` with the write! calls dropped: what remains is the arithmetic on n
fn numeral_arm(n: &isize) -> (r: Result<(), ()>)
    // no precondition: every isize must be rendered without a panic
{
//@stmts src/formatting/fol/sigma_0/tptp.rs :: impl Display for Format<'_, IntegerTerm> :: fn fmt
//@ .from "if *n < 0 {"
//@ .until "} IntegerTerm::Variable(v)"
//@ .drop write
//@end
}

} // verus!
fn main() {}
