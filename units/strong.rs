// unit `strong` — C12 (h -> t transition axioms) and the coverage half of C03
use vstd::prelude::*;
use vstd::std_specs::iter::IteratorSpec;
verus! {
//@include spec/prelude.rs
broadcast use {axiom_string_ext, axiom_str_ext, axiom_str_of, axiom_vec_ext, axiom_vec_of, axiom_display_string, axiom_display_str, axiom_display_usize};
//@include spec/indexset.rs
//@include units/fol_types.inc
//@include spec/sem.rs
//@include spec/quant_lemmas.rs
//@include spec/fol_spec.rs
//@include units/fol_lib.inc
//@include spec/core_lemmas.rs
//@include spec/fvlink_lemmas.rs
//@include spec/gamma_lemmas.rs

pub mod fol { pub use super::*; }

// ---- Apply / prepend_predicate / here / there (as in unit gamma) -------------------------
pub trait Apply: Sized {
//@fn src/convenience/apply/mod.rs :: trait Apply :: fn apply
//@ .apit F0
//@ .ret r
//@ .spec
//@     requires forall|y: Self| (*old(f)).requires((y,)),
//@ .sig only
//@end
}
impl Apply for Formula {
//@fn src/convenience/apply/mod.rs :: impl Apply for Formula :: fn apply
//@ .apit F0
//@ .ret r
//@ .spec
//@     ensures
//@         *final(f) == *old(f),
//@         forall|g: spec_fn(Formula) -> Formula| implements(*old(f), g) ==> r == sapply(self, g),
//@     decreases self,
//@ .hint before "f(inner)"
//@     proof {
//@         assert((*f).requires((inner,)));
//@         assert forall|g: spec_fn(Formula) -> Formula| implements(*f, g) implies #[trigger] g(inner) == sapply(self, g) by {
//@             match self {
//@                 Formula::AtomicFormula(_) => { assert(inner == self); }
//@                 Formula::UnaryFormula { connective, formula } => {
//@                     assert(inner == Formula::UnaryFormula { connective, formula: Box::new(sapply(*formula, g)) });
//@                 }
//@                 Formula::BinaryFormula { connective, lhs, rhs } => {
//@                     assert(inner == Formula::BinaryFormula { connective, lhs: Box::new(sapply(*lhs, g)), rhs: Box::new(sapply(*rhs, g)) });
//@                 }
//@                 Formula::QuantifiedFormula { quantification, formula } => {
//@                     assert(inner == Formula::QuantifiedFormula { quantification, formula: Box::new(sapply(*formula, g)) });
//@                 }
//@             }
//@         }
//@     }
//@end
}
pub trait Here { fn here(self) -> Self; }
pub trait There { fn there(self) -> Self; }
//@fn src/translating/classical_reduction/gamma.rs :: fn prepend_predicate
//@ .ret r
//@ .spec
//@     ensures r == spec_prefix(prefix@, formula),
//@ .closure "|formula| match formula" as "|formula: Formula| -> (z: Formula)"
//@     ensures z == spec_prefix_atom(prefix@, formula)
//@ .hint before "formula.apply"
//@     proof { lemma_sapply_prefix(prefix@, formula); }
//@end
impl Here for Formula {
//@fn src/translating/classical_reduction/gamma.rs :: impl Here for Formula :: fn here
//@ .ret r
//@ .spec
//@     ensures r == spec_prefix(pre_h(), self),
//@end
}
impl There for Formula {
//@fn src/translating/classical_reduction/gamma.rs :: impl There for Formula :: fn there
//@ .ret r
//@ .spec
//@     ensures r == spec_prefix(pre_t(), self),
//@end
}

// ---- p(X1, ..., Xn) ----------------------------------------------------------------------------
pub open spec fn x_name(i: nat) -> Seq<char> { "X"@ + decimal(i) }
pub open spec fn spec_to_formula(p: Predicate) -> Formula {
    Formula::AtomicFormula(AtomicFormula::Atom(Atom {
        predicate_symbol: p.symbol,
        terms: vec_of(Seq::new(p.arity as nat, |i: int| GeneralTerm::Variable(str_of(x_name((i + 1) as nat))))),
    }))
}
pub open spec fn is_to_formula(r: Formula, p: Predicate) -> bool {
    r matches Formula::AtomicFormula(AtomicFormula::Atom(a))
        && a.predicate_symbol == p.symbol
        && a.terms@ =~= Seq::new(p.arity as nat, |i: int| GeneralTerm::Variable(str_of(x_name((i + 1) as nat))))
}
pub proof fn lemma_is_to_formula(r: Formula, p: Predicate)
    requires is_to_formula(r, p),
    ensures r == spec_to_formula(p),
{
    broadcast use axiom_vec_of;
}
impl Predicate {
//@fn src/syntax_tree/fol/sigma_0.rs :: impl Predicate :: fn to_formula
//@ .ret r
//@ .fmt
//@ .spec
//@     ensures is_to_formula(r, self),
//@ .closure "|i| GeneralTerm::Variable" as "|i: usize| -> (z: GeneralTerm)"
//@     ensures z == GeneralTerm::Variable(str_of(x_name(i as nat)))
//@end
}

// ---- the h -> t axioms -----------------------------------------------------------------------------
impl vstd::std_specs::convert::FromSpecImpl<asp::Predicate> for Predicate {
    open spec fn obeys_from_spec() -> bool { true }
    open spec fn from_spec(v: asp::Predicate) -> Predicate { Predicate { symbol: v.symbol, arity: v.arity } }
}
impl From<asp::Predicate> for Predicate {
//@fn src/syntax_tree/fol/sigma_0.rs :: impl From<crate::syntax_tree::asp::mini_gringo::Predicate> for Predicate :: fn from
//@ .ret r
//@ .spec
//@     ensures r == (Predicate { symbol: value.symbol, arity: value.arity }),
//@end
}

/// forall X1..Xn (hp(X1..Xn) -> tp(X1..Xn))   (no quantifier for n = 0)
pub open spec fn spec_transition(p: Predicate) -> Formula {
    let hp = spec_prefix(pre_h(), spec_to_formula(p));
    let tp = spec_prefix(pre_t(), spec_to_formula(p));
    spec_quantify(Formula::BinaryFormula { connective: BinaryConnective::Implication, lhs: Box::new(hp), rhs: Box::new(tp) },
                  Quantifier::Forall, spec_fv(hp))
}
pub open spec fn fol_pred(p: asp::Predicate) -> Predicate { Predicate { symbol: p.symbol, arity: p.arity } }

pub open spec fn all_preds(l: asp::Program, r: asp::Program) -> Seq<asp::Predicate> {
    seq_extend(asp::spec_program_preds(l.rules@, l.rules@.len() as int), asp::spec_program_preds(r.rules@, r.rules@.len() as int))
}
pub open spec fn spec_transition_axioms(l: asp::Program, r: asp::Program) -> Seq<Formula> {
    all_preds(l, r).map_values(|q: asp::Predicate| spec_transition(fol_pred(q)))
}

pub open spec fn is_axiom_of(f: Formula, l: asp::Program, r: asp::Program) -> bool {
    exists|q: asp::Predicate| (asp::occurs_in_program(l, q) || asp::occurs_in_program(r, q)) && f == spec_transition(#[trigger] fol_pred(q))
}

/// C12/C03 (coverage): there is an h -> t axiom for every predicate occurring in either program, and nothing else
pub proof fn lemma_transition_cover(l: asp::Program, r: asp::Program)
    ensures
        forall|q: asp::Predicate| asp::occurs_in_program(l, q) || asp::occurs_in_program(r, q)
            ==> exists|i: int| 0 <= i < spec_transition_axioms(l, r).len() && #[trigger] spec_transition_axioms(l, r)[i] == spec_transition(fol_pred(q)),
        forall|i: int| 0 <= i < spec_transition_axioms(l, r).len() ==> is_axiom_of(#[trigger] spec_transition_axioms(l, r)[i], l, r),
{
    let ps = all_preds(l, r);
    let ax = spec_transition_axioms(l, r);
    let pl = asp::spec_program_preds(l.rules@, l.rules@.len() as int);
    let pr = asp::spec_program_preds(r.rules@, r.rules@.len() as int);
    assert forall|q: asp::Predicate| ps.contains(q) == (asp::occurs_in_program(l, q) || asp::occurs_in_program(r, q)) by {
        asp::lemma_program_preds(l, l.rules@.len() as int, q);
        asp::lemma_program_preds(r, r.rules@.len() as int, q);
        lemma_seq_extend_contains(pl, pr, q);
    }
    assert forall|q: asp::Predicate| asp::occurs_in_program(l, q) || asp::occurs_in_program(r, q) implies
        exists|i: int| 0 <= i < ax.len() && #[trigger] ax[i] == spec_transition(fol_pred(q)) by {
        assert(ps.contains(q));
        let i = choose|i: int| 0 <= i < ps.len() && ps[i] == q;
        assert(ax[i] == spec_transition(fol_pred(q)));
    }
    assert forall|i: int| 0 <= i < ax.len() implies is_axiom_of(#[trigger] ax[i], l, r) by {
        let q = ps[i];
        assert(ps.contains(q));
        assert(ax[i] == spec_transition(fol_pred(q)));
        assert((asp::occurs_in_program(l, q) || asp::occurs_in_program(r, q)) && ax[i] == spec_transition(fol_pred(q)));
    }
}

pub proof fn lemma_forall_valid(vars: Seq<Variable>, body: Formula, i: Interp, s: Asg)
    requires forall|s2: Asg| #[trigger] cl_sat(body, i, s2),
    ensures cl_quant(Quantifier::Forall, vars, body, i, s),
    decreases vars.len(),
{
    if vars.len() > 0 {
        let v = vars[0];
        assert forall|x: Val| in_sort(x, v.sort) implies cl_quant(Quantifier::Forall, vars.drop_first(), body, i, #[trigger] s.insert(vkey(v), x)) by {
            lemma_forall_valid(vars.drop_first(), body, i, s.insert(vkey(v), x));
        }
    } else {
        assert(cl_sat(body, i, s));
    }
}

/// C12: every h -> t axiom is true in every interpretation arising from H subset of T
pub proof fn lemma_transition_true(p: Predicate, i: Interp, m: HT, s: Asg)
    requires coupled(i, m), ht_wf(m),
    ensures cl_sat(spec_transition(p), i, s),
{
    broadcast use axiom_str_of;
    let a = spec_to_formula(p);
    let hp = spec_prefix(pre_h(), a);
    let tp = spec_prefix(pre_t(), a);
    let body = Formula::BinaryFormula { connective: BinaryConnective::Implication, lhs: Box::new(hp), rhs: Box::new(tp) };
    assert forall|s2: Asg| #[trigger] cl_sat(body, i, s2) by {
        lemma_prefix_sat(a, World::Here, i, m, s2);
        lemma_prefix_sat(a, World::There, i, m, s2);
    }
    lemma_forall_valid(spec_fv(hp), body, i, s);
    lemma_quantify_cl(body, Quantifier::Forall, spec_fv(hp), i, s);
}

pub struct StrongEquivalenceTask { pub left: asp::Program, pub right: asp::Program }

impl StrongEquivalenceTask {
//@fn src/verifying/task/strong_equivalence.rs :: impl StrongEquivalenceTask :: fn transition_axioms
//@ .nested transition
//@ ..ret r
//@ ..spec
//@     ensures r == spec_transition(fol_pred(p)),
//@ ..hint before "let hp = p.clone().to_formula().here();"
//@     proof { assert forall|f: Formula| #[trigger] is_to_formula(f, p) implies f == spec_to_formula(p) by { lemma_is_to_formula(f, p); } }
//@ .ret r
//@ .spec
//@     ensures r.formulas@ =~= spec_transition_axioms(self.left, self.right),
//@end
}

} // verus!
pub mod asp {
    use vstd::prelude::*;
    use vstd::std_specs::iter::IteratorSpec;
    use super::{IndexSet, seq_extend, seq_insert, lemma_seq_extend_contains};
    verus! {
    broadcast use {super::axiom_string_ext, super::axiom_vec_ext};
//@include units/asp_types.inc
//@include spec/asp_spec.rs
//@include units/asp_lib.inc
    } // verus!
}
pub mod syntax_tree { pub mod asp { pub use crate::asp as mini_gringo; } pub mod fol { pub mod sigma_0 { pub use crate::*; } } }
fn main() {}
