// unit `files` — C20: role accessors as functions of the extension buckets
use vstd::prelude::*;
use std::path::PathBuf;
verus! {
#[verifier::external_type_specification]
#[verifier::external_body]
pub struct ExPathBuf(std::path::PathBuf);

//@type src/command_line/files.rs :: struct Files

pub open spec fn nth(v: Seq<PathBuf>, i: int) -> Option<PathBuf> {
    if 0 <= i < v.len() { Some(v[i]) } else { None }
}
pub open spec fn opt_deref(o: Option<&PathBuf>) -> Option<PathBuf> {
    match o { Some(p) => Some(*p), None => None }
}

impl Files {
//@fn src/command_line/files.rs :: impl Files :: fn left
//@ .ret r
//@ .spec
//@     ensures opt_deref(r) == nth(self.programs@, 0),   // the first .lp file is the left program
//@end
//@fn src/command_line/files.rs :: impl Files :: fn right
//@ .ret r
//@ .spec
//@     ensures opt_deref(r) == nth(self.programs@, 1),   // the next .lp file is the right program
//@end
//@fn src/command_line/files.rs :: impl Files :: fn program
//@ .ret r
//@ .spec
//@     ensures opt_deref(r) == (if self.specifications@.len() == 0 { nth(self.programs@, 1) } else { nth(self.programs@, 0) }),
//@end
//@fn src/command_line/files.rs :: impl Files :: fn user_guide
//@ .ret r
//@ .spec
//@     ensures opt_deref(r) == nth(self.user_guides@, 0),
//@end
//@fn src/command_line/files.rs :: impl Files :: fn proof_outline
//@ .ret r
//@ .spec
//@     ensures opt_deref(r) == nth(self.proof_outlines@, 0),
//@end
}

/// C20, last sentence: swapping the two programs swaps exactly the left/right roles.
pub proof fn lemma_swap(a: Files, b: Files)
    requires
        a.programs@.len() == 2, b.programs@.len() == 2,
        b.programs@[0] == a.programs@[1], b.programs@[1] == a.programs@[0],
    ensures
        nth(b.programs@, 0) == nth(a.programs@, 1),
        nth(b.programs@, 1) == nth(a.programs@, 0),
{}

} // verus!
fn main() {}
