// unit `files` — C20: role accessors as functions of the extension buckets
use vstd::prelude::*;
use std::path::PathBuf;
use std::ffi::OsStr;
verus! {
//@include spec/prelude.rs
broadcast use {axiom_str_ext};
#[verifier::external_type_specification]
#[verifier::external_body]
pub struct ExPathBuf(std::path::PathBuf);

//@type src/command_line/files.rs :: struct Files

pub open spec fn nth(v: Seq<PathBuf>, i: int) -> Option<PathBuf> {
    if 0 <= i < v.len() { Some(v[i]) } else { None }
}
pub open spec fn opt_deref(o: Option<&PathBuf>) -> Option<PathBuf> {
    match o { Some(p) => Some(*p), None => None }
}

// std docs, Option::or_else: "Returns the option if it contains a value, otherwise calls f and returns the result."
pub assume_specification<T, F: FnOnce() -> Option<T>>[ Option::<T>::or_else ](o: Option<T>, f: F) -> (r: Option<T>)
    requires o is None ==> f.requires(()),
    ensures o is Some ==> r == o, o is None ==> f.ensures((), r);

// the `either` crate's Either (two variants, no invariants)
pub enum Either<L, R> { Left(L), Right(R) }
pub open spec fn either_deref(o: Option<Either<&PathBuf, &PathBuf>>) -> Option<Either<PathBuf, PathBuf>> {
    match o { Some(Either::Left(p)) => Some(Either::Left(*p)), Some(Either::Right(p)) => Some(Either::Right(*p)), None => None }
}

impl Files {
//@fn src/command_line/files.rs :: impl Files :: fn left
//@ .ret r
//@ .spec
//@     ensures opt_deref(r) == nth(self.programs@, 0),   // the first .lp file is the left program
//@end
//@fn src/command_line/files.rs :: impl Files :: fn right
//@ .ret r
//@ .spec
//@     ensures opt_deref(r) == nth(self.programs@, 1),   // the next .lp file is the right program
//@end
//@fn src/command_line/files.rs :: impl Files :: fn specification
//@ .ret r
//@ .closure "|d20_x| Either::Right(d20_x)" as "|d20_x: &PathBuf| -> (z: Either<&PathBuf, &PathBuf>)"
//@     ensures z == Either::<&PathBuf, &PathBuf>::Right(d20_x)
//@ .closure "|d20_x| Either::Left(d20_x)" as "|d20_x: &PathBuf| -> (z: Either<&PathBuf, &PathBuf>)"
//@     ensures z == Either::<&PathBuf, &PathBuf>::Left(d20_x)
//@ .closure "|| self.programs.first()" as "|| -> (z: Option<Either<&PathBuf, &PathBuf>>)"
//@     ensures z == (match nth(self.programs@, 0) { Some(p) => Some(Either::<&PathBuf, &PathBuf>::Left(&self.programs@[0])), None => None })
//@ .spec
//@     // the first .spec file if there is one, else the first .lp file (as the program that serves as specification)
//@     ensures either_deref(r) == (if self.specifications@.len() > 0 { Some(Either::<PathBuf, PathBuf>::Right(self.specifications@[0])) }
//@                                 else if self.programs@.len() > 0 { Some(Either::<PathBuf, PathBuf>::Left(self.programs@[0])) } else { None }),
//@end
//@fn src/command_line/files.rs :: impl Files :: fn program
//@ .ret r
//@ .spec
//@     ensures opt_deref(r) == (if self.specifications@.len() == 0 { nth(self.programs@, 1) } else { nth(self.programs@, 0) }),
//@end
//@fn src/command_line/files.rs :: impl Files :: fn user_guide
//@ .ret r
//@ .spec
//@     ensures opt_deref(r) == nth(self.user_guides@, 0),
//@end
//@fn src/command_line/files.rs :: impl Files :: fn proof_outline
//@ .ret r
//@ .spec
//@     ensures opt_deref(r) == nth(self.proof_outlines@, 0),
//@end
}

// ---- Files::sort: the classification step (the traversal — WalkDir, the file system — is not under contract) -------------------
#[verifier::external_type_specification]
#[verifier::external_body]
pub struct ExOsStr(std::ffi::OsStr);

#[verifier::external_type_specification]
#[verifier::external_body]
pub struct ExPath(std::path::Path);

/// the extension of a path as text (None: no extension, or not valid UTF-8)
pub uninterp spec fn os_text(o: &OsStr) -> Option<Seq<char>>;
// std docs, Path::extension / OsStr::to_str; ext_of is their composition
pub uninterp spec fn path_ext(p: &std::path::Path) -> Option<&OsStr>;
pub assume_specification[ std::path::Path::extension ](p: &std::path::Path) -> (r: Option<&OsStr>)
    ensures r == path_ext(p);
pub uninterp spec fn as_path(p: &PathBuf) -> &std::path::Path;
pub assume_specification[ <PathBuf as std::ops::Deref>::deref ](p: &PathBuf) -> (r: &std::path::Path)
    ensures r == as_path(p);
pub open spec fn ext_text(p: PathBuf) -> Option<Seq<char>> {
    match path_ext(as_path(&p)) { Some(o) => os_text(o), None => None }
}

/// the five buckets after `path` was appended to bucket b
pub open spec fn pushed(a: Files, z: Files, b: Bucket, path: PathBuf) -> bool {
    &&& z.programs@ == (if b is Programs { a.programs@.push(path) } else { a.programs@ })
    &&& z.specifications@ == (if b is Specifications { a.specifications@.push(path) } else { a.specifications@ })
    &&& z.user_guides@ == (if b is UserGuides { a.user_guides@.push(path) } else { a.user_guides@ })
    &&& z.proof_outlines@ == (if b is ProofOutlines { a.proof_outlines@.push(path) } else { a.proof_outlines@ })
    &&& z.other@ == (if b is Other { a.other@.push(path) } else { a.other@ })
}

/// the classification step of Files::sort (the statement executed for every directory entry that is a file):
/// the file is appended to the bucket that its extension alone determines — lp, spec, ug, po, anything else — and nothing else changes
fn sort_one(result: &mut Files, path: PathBuf)
    ensures pushed(*old(result), *final(result), bucket_of(ext_text(path)), path),
{
    proof { reveal_strlit("lp"); reveal_strlit("spec"); reveal_strlit("ug"); reveal_strlit("po"); }
//@stmts src/command_line/files.rs :: impl Files :: fn sort
//@ .from "match path.extension().and_then(OsStr::to_str) {"
//@ .until "} } Ok(result)"
//@end
}

pub assume_specification[ OsStr::to_str ](o: &OsStr) -> (r: Option<&str>)
    ensures (match r { Some(t) => os_text(o) == Some(t@), None => os_text(o) is None });

pub enum Bucket { Programs, Specifications, UserGuides, ProofOutlines, Other }
/// C20: the role of a file depends only on its extension
pub open spec fn bucket_of(e: Option<Seq<char>>) -> Bucket {
    if e == Some("lp"@) { Bucket::Programs } else if e == Some("spec"@) { Bucket::Specifications } else if e == Some("ug"@) { Bucket::UserGuides }
    else if e == Some("po"@) { Bucket::ProofOutlines } else { Bucket::Other }
}

/// C20, last sentence: swapping the two programs swaps exactly the left/right roles.
pub proof fn lemma_swap(a: Files, b: Files)
    requires
        a.programs@.len() == 2, b.programs@.len() == 2,
        b.programs@[0] == a.programs@[1], b.programs@[1] == a.programs@[0],
    ensures
        nth(b.programs@, 0) == nth(a.programs@, 1),
        nth(b.programs@, 1) == nth(a.programs@, 0),
{}

} // verus!
fn main() {}
