// unit `nat` — C08: the natural translation (regularity, values of regular terms) and mu
use vstd::prelude::*;
use vstd::std_specs::iter::IteratorSpec;
verus! {
//@include spec/prelude.rs
broadcast use {axiom_string_ext, axiom_str_ext, axiom_str_of, axiom_vec_ext, axiom_vec_of, axiom_display_string, axiom_display_str, axiom_display_usize};
//@include spec/indexset.rs
//@include units/fol_types.inc
//@include spec/sem.rs
//@include spec/quant_lemmas.rs
//@include spec/fol_spec.rs
//@include units/fol_lib.inc
//@include spec/core_lemmas.rs
//@include spec/fvlink_lemmas.rs
//@include spec/fresh_lemmas.rs
//@include spec/tau_spec.rs
//@include spec/nat_spec.rs

pub mod fol { pub use super::*; }

//@fn src/translating/formula_representation/natural.rs :: fn contains_symbol_or_infimum_or_supremum
//@ .ret r
//@ .spec
//@     ensures r == spec_sis(*t),
//@     decreases t,
//@end

//@fn src/translating/formula_representation/natural.rs :: fn is_term_regular_of_first_kind
//@ .ret r
//@ .spec
//@     ensures r == spec_reg1(*t),
//@     decreases t,
//@end

//@fn src/translating/formula_representation/natural.rs :: fn is_term_regular_of_second_kind
//@ .ret r
//@ .spec
//@     ensures r == spec_reg2(*t),
//@end

//@fn src/translating/formula_representation/natural.rs :: fn p2f_int_term
//@ .ret r
//@ .spec
//@     ensures r == spec_p2f_int(*t),
//@     decreases t,
//@end

/// the term p2f produces for a term regular of the first kind; a variable becomes integer-sorted iff it is an "integer variable" of the rule
pub open spec fn spec_p2f(t: asp::Term, int_vars: Seq<String>) -> Option<GeneralTerm> {
    if !spec_reg1(t) { None } else {
        match t {
            asp::Term::Variable(v) => if (exists|i: int| 0 <= i < int_vars.len() && (#[trigger] int_vars[i])@ == v.0@) {
                Some(GeneralTerm::IntegerTerm(IntegerTerm::Variable(v.0)))
            } else { Some(GeneralTerm::Variable(v.0)) },
            asp::Term::PrecomputedTerm(p) => Some(match p {
                asp::PrecomputedTerm::Infimum => GeneralTerm::Infimum,
                asp::PrecomputedTerm::Numeral(i) => GeneralTerm::IntegerTerm(IntegerTerm::Numeral(i)),
                asp::PrecomputedTerm::Symbol(a) => GeneralTerm::SymbolicTerm(SymbolicTerm::Symbol(a)),
                asp::PrecomputedTerm::Supremum => GeneralTerm::Supremum,
            }),
            _ => match spec_p2f_int(t) { Some(it) => Some(GeneralTerm::IntegerTerm(it)), None => None },
        }
    }
}

//@fn src/translating/formula_representation/natural.rs :: fn p2f
//@ .ret r
//@ .spec
//@     ensures r == spec_p2f(*t, int_vars@),
//@ .closure "|d20_x| fol::GeneralTerm::IntegerTerm(d20_x)" as "|d20_x: IntegerTerm| -> (z: GeneralTerm)"
//@     ensures z == GeneralTerm::IntegerTerm(d20_x)
//@end

// ---- mu: natural where possible, tau* otherwise (callees are stand-ins that record their arguments) ----
pub uninterp spec fn spec_natural_rule(r: asp::Rule) -> Option<Formula>;
pub uninterp spec fn spec_tau_star_rule(r: asp::Rule, globals: Seq<String>) -> Formula;
pub uninterp spec fn spec_globals(p: asp::Program) -> Seq<String>;
pub mod natural {
    use super::*;
    #[verifier::external_body]
    pub fn natural_rule(r: &asp::Rule) -> (o: Option<Formula>) ensures o == spec_natural_rule(*r) { unimplemented!() }
}
pub mod tau_star {
    use super::*;
    #[verifier::external_body]
    pub fn tau_star_rule(r: &asp::Rule, globals: &[String]) -> (f: Formula) ensures f == spec_tau_star_rule(*r, globals@) { unimplemented!() }
    #[verifier::external_body]
    pub fn choose_fresh_global_variables(program: &asp::Program) -> (g: Vec<String>) ensures g@ == spec_globals(*program) { unimplemented!() }
}
pub open spec fn mu_rule(r: asp::Rule, globals: Seq<String>) -> Formula {
    match spec_natural_rule(r) { Some(f) => f, None => spec_tau_star_rule(r, globals) }
}
pub trait Mu { type Output; fn mu(self) -> Self::Output; }
impl Mu for asp::Program {
    type Output = Theory;
//@fn src/translating/formula_representation/mu.rs :: impl Mu for asp::Program :: fn mu
//@ .ret r
//@ .spec
//@     ensures
//@         // C08: mu never fails and translates rule by rule: the natural translation where it exists, tau* otherwise
//@         r.formulas@.len() == self.rules@.len(),
//@         forall|i: int| 0 <= i < self.rules@.len() ==> #[trigger] r.formulas@[i] == mu_rule(self.rules@[i], spec_globals(self)),
//@ .loop 1 as it
//@     invariant
//@         it.seq() == self.rules@,
//@         globals@ == spec_globals(self),
//@         formulas@.len() == it.index@,
//@         forall|i: int| 0 <= i < formulas@.len() ==> #[trigger] formulas@[i] == mu_rule(self.rules@[i], spec_globals(self)),
//@end
}

} // verus!
pub mod asp {
    use vstd::prelude::*;
    verus! {
    broadcast use {super::axiom_string_ext, super::axiom_vec_ext};
//@include units/asp_types.inc
    } // verus!
}
pub mod syntax_tree { pub mod asp { pub use crate::asp as mini_gringo; } pub mod fol { pub mod sigma_0 { pub use crate::*; } } }
fn main() {}
