// unit `nat` — C08: the natural translation (regularity, values of regular terms) and mu
use vstd::prelude::*;
use vstd::std_specs::iter::IteratorSpec;
verus! {
//@include spec/prelude.rs
broadcast use {axiom_string_ext, axiom_str_ext, axiom_str_of, axiom_vec_ext, axiom_vec_of, axiom_display_string, axiom_display_str, axiom_display_usize, axiom_display_i32};
//@include spec/indexset.rs
//@include units/fol_types.inc
//@include spec/sem.rs
//@include spec/quant_lemmas.rs
//@include spec/fol_spec.rs
//@include units/fol_lib.inc
//@include spec/core_lemmas.rs
//@include spec/fvlink_lemmas.rs
//@include spec/block_lemmas.rs
//@include spec/simp_spec.rs
//@include spec/fresh_lemmas.rs
//@include spec/tau_spec.rs
//@include spec/taub_spec.rs
//@include spec/rule_spec.rs
//@include spec/ucl_lemmas.rs
//@include spec/nat_spec.rs
//@include spec/nathead_spec.rs
//@include spec/natrule_spec.rs
//@include spec/nathead2_spec.rs
//@include spec/natfinal_spec.rs

pub mod fol { pub use super::*; }

//@fn src/translating/formula_representation/natural.rs :: fn contains_symbol_or_infimum_or_supremum
//@ .ret r
//@ .spec
//@     ensures r == spec_sis(*t),
//@     decreases t,
//@end

//@fn src/translating/formula_representation/natural.rs :: fn is_term_regular_of_first_kind
//@ .ret r
//@ .spec
//@     ensures r == spec_reg1(*t),
//@     decreases t,
//@end

//@fn src/translating/formula_representation/natural.rs :: fn is_term_regular_of_second_kind
//@ .ret r
//@ .spec
//@     ensures r == spec_reg2(*t),
//@end

//@fn src/translating/formula_representation/natural.rs :: fn p2f_int_term
//@ .ret r
//@ .spec
//@     ensures r == spec_p2f_int(*t),
//@     decreases t,
//@end

/// the term p2f produces for a term regular of the first kind; a variable becomes integer-sorted iff it is an "integer variable" of the rule
pub open spec fn spec_p2f(t: asp::Term, int_vars: Seq<String>) -> Option<GeneralTerm> {
    if !spec_reg1(t) { None } else {
        match t {
            asp::Term::Variable(v) => if (exists|i: int| 0 <= i < int_vars.len() && (#[trigger] int_vars[i])@ == v.0@) {
                Some(GeneralTerm::IntegerTerm(IntegerTerm::Variable(v.0)))
            } else { Some(GeneralTerm::Variable(v.0)) },
            asp::Term::PrecomputedTerm(p) => Some(match p {
                asp::PrecomputedTerm::Infimum => GeneralTerm::Infimum,
                asp::PrecomputedTerm::Numeral(i) => GeneralTerm::IntegerTerm(IntegerTerm::Numeral(i)),
                asp::PrecomputedTerm::Symbol(a) => GeneralTerm::SymbolicTerm(SymbolicTerm::Symbol(a)),
                asp::PrecomputedTerm::Supremum => GeneralTerm::Supremum,
            }),
            _ => match spec_p2f_int(t) { Some(it) => Some(GeneralTerm::IntegerTerm(it)), None => None },
        }
    }
}

//@fn src/translating/formula_representation/natural.rs :: fn p2f
//@ .ret r
//@ .spec
//@     ensures r == spec_p2f(*t, int_vars@),
//@ .closure "|d20_x| fol::GeneralTerm::IntegerTerm(d20_x)" as "|d20_x: IntegerTerm| -> (z: GeneralTerm)"
//@     ensures z == GeneralTerm::IntegerTerm(d20_x)
//@end

// ---- the integer variables of a rule ---------------------------------------------------------------------------------------
// ASSUMED CONTRACT of asp::Rule::terms (for_each / cloned().collect() chains in the syntax-tree module): the set of arguments and comparison sides of the rule
impl asp::Rule {
    #[verifier::external_body]
    pub fn terms(&self) -> (r: IndexSet<asp::Term>)
        ensures forall|t: asp::Term| r@.contains(t) == #[trigger] top_term(*self, t),
    { unimplemented!() }
}

//@fn src/translating/formula_representation/natural.rs :: fn int_variables
//@ .ret res
//@ .attr #[verifier::loop_isolation(false)]
//@ .spec
//@     ensures int_vars_ok(res@, *r),
//@ .hint before "for term in r.terms()"
//@     proof {
//@         assert forall|v0: Seq<String>, x: String, n: Seq<char>| #[trigger] is_int_var(seq_insert(v0, x), n) == (is_int_var(v0, n) || x@ == n) by { lemma_member_insert(v0, x, n); }
//@         assert forall|vs: Seq<asp::Variable>, k: int, n: Seq<char>| 0 <= k < vs.len() implies #[trigger] has_var_name(vs.take(k + 1), n) == (has_var_name(vs.take(k), n) || vs[k].0@ == n) by { lemma_has_var_name_take(vs, k, n); }
//@         assert forall|vs: Seq<asp::Variable>, t: asp::Term, n: Seq<char>| (forall|k: VKey| asp_in_term(t, k) ==> has_key(vs, k)) && (forall|x: asp::Variable| vs.contains(x) ==> asp_in_term(t, #[trigger] asp_var_key(x)))
//@             implies #[trigger] has_var_name(vs, n) == #[trigger] asp_in_term(t, (n, Sort::General)) by { lemma_var_names_of_term(vs, t, n); }
//@         assert forall|vs: Seq<asp::Variable>| #[trigger] vs.take(vs.len() as int) =~= vs by {}
//@         assert forall|vs: Seq<asp::Variable>, n: Seq<char>| !#[trigger] has_var_name(vs.take(0), n) by {}
//@     }
//@ .loop 1 as it
//@     invariant
//@         0 <= it.index@ <= it.seq().len(),
//@         forall|t: asp::Term| it.seq().contains(t) == #[trigger] top_term(*r, t),
//@         forall|n: Seq<char>| is_int_var(vars@, n) == #[trigger] just_terms(it.seq(), it.index@ as int, n),
//@         it.index@ == it.seq().len() ==> forall|n: Seq<char>| #[trigger] is_int_var(vars@, n) == just_top(*r, n),
//@ .hint before "match term {"
//@     let ghost tset = it.seq();
//@     let ghost ti = it.index@ as int;
//@     let ghost v0 = vars@;
//@     proof {
//@         assert(term == tset[ti]);
//@         assert forall|k: VKey| #[trigger] asp_in_term(tset[ti], k) == (match tset[ti] {
//@             asp::Term::PrecomputedTerm(_) => false,
//@             asp::Term::Variable(x) => k == asp_var_key(x),
//@             asp::Term::UnaryOperation { op, arg } => asp_in_term(*arg, k),
//@             asp::Term::BinaryOperation { op, lhs, rhs } => asp_in_term(*lhs, k) || asp_in_term(*rhs, k) }) by {}
//@         assert forall|n: Seq<char>| #[trigger] just_terms(tset, ti + 1, n) == (just_terms(tset, ti, n) || (is_op(tset[ti]) && asp_in_term(tset[ti], (n, Sort::General)))) by { lemma_just_terms_step(tset, ti, n); }
//@     }
//@ .loop 2 as it2
//@     invariant
//@         0 <= it2.index@ <= it2.seq().len(),
//@         forall|n: Seq<char>| has_var_name(it2.seq(), n) == #[trigger] asp_in_term(*arg, (n, Sort::General)),
//@         forall|n: Seq<char>| #[trigger] is_int_var(vars@, n) == (is_int_var(v0, n) || has_var_name(it2.seq().take(it2.index@ as int), n)),
//@ .loop 3 as it3
//@     invariant
//@         0 <= it3.index@ <= it3.seq().len(),
//@         forall|n: Seq<char>| has_var_name(it3.seq(), n) == #[trigger] asp_in_term(*lhs, (n, Sort::General)),
//@         forall|n: Seq<char>| #[trigger] is_int_var(vars@, n) == (is_int_var(v0, n) || has_var_name(it3.seq().take(it3.index@ as int), n)),
//@ .loop 4 as it4
//@     invariant
//@         0 <= it4.index@ <= it4.seq().len(),
//@         forall|n: Seq<char>| has_var_name(it4.seq(), n) == #[trigger] asp_in_term(*rhs, (n, Sort::General)),
//@         forall|n: Seq<char>| #[trigger] is_int_var(vars@, n) == (is_int_var(v0, n) || asp_in_term(*lhs, (n, Sort::General)) || has_var_name(it4.seq().take(it4.index@ as int), n)),
//@ .hint after "_ => (), }"
//@     proof {
//@         assert forall|n: Seq<char>| is_int_var(vars@, n) == #[trigger] just_terms(tset, ti + 1, n) by {}
//@         assert forall|n: Seq<char>| ti + 1 == tset.len() implies #[trigger] is_int_var(vars@, n) == just_top(*r, n) by { lemma_just_top(*r, tset, n); }
//@     }
//@ .hint before "for f in r.body.formulas.iter()"
//@     proof {
//@         assert forall|n: Seq<char>| !just_cmps(r.body.formulas@, 0, n) by {}
//@     }
//@ .loop 5 as it5
//@     invariant
//@         it5.seq().len() == r.body.formulas@.len(), forall|q: int| 0 <= q < r.body.formulas@.len() ==> *it5.seq()[q] == r.body.formulas@[q],
//@         forall|n: Seq<char>| #[trigger] is_int_var(vars@, n) == (just_top(*r, n) || just_cmps(r.body.formulas@, it5.index@ as int, n)),
//@ .hint before "if let asp::AtomicFormula::Comparison(c) = f"
//@     let ghost v1 = vars@;
//@     let ghost fi = it5.index@ as int;
//@     proof {
//@         assert(*f == r.body.formulas@[fi]);
//@         assert forall|n: Seq<char>| #[trigger] just_cmps(r.body.formulas@, fi + 1, n) == (just_cmps(r.body.formulas@, fi, n)
//@             || (is_interval_eq(r.body.formulas@[fi]) && asp_in_term(r.body.formulas@[fi]->Comparison_0.lhs, (n, Sort::General)))) by { lemma_just_cmps_step(r.body.formulas@, fi, n); }
//@     }
//@ .loop 6 as it6
//@     invariant
//@         0 <= it6.index@ <= it6.seq().len(),
//@         forall|n: Seq<char>| has_var_name(it6.seq(), n) == #[trigger] asp_in_term(c.lhs, (n, Sort::General)),
//@         forall|n: Seq<char>| #[trigger] is_int_var(vars@, n) == (is_int_var(v1, n) || has_var_name(it6.seq().take(it6.index@ as int), n)),
//@ .hint before "vars }"
//@     proof { lemma_int_vars_final2(vars@, *r); }
//@end

// ---- bodies --------------------------------------------------------------------------------------------------------------
impl vstd::std_specs::convert::FromSpecImpl<asp::Relation> for Relation {
    open spec fn obeys_from_spec() -> bool { true }
    open spec fn from_spec(v: asp::Relation) -> Relation { rel_of(v) }
}
impl From<asp::Relation> for Relation {
//@fn src/syntax_tree/fol/sigma_0.rs :: impl From<crate::syntax_tree::asp::mini_gringo::Relation> for Relation :: fn from
//@ .ret r
//@ .spec
//@     ensures r == rel_of(value),
//@end
}

//@fn src/translating/formula_representation/natural.rs :: fn natural_comparison
//@ .ret r
//@ .spec
//@     ensures r matches Some(f) ==> nat_cmp_shape(f, *c, int_vars@),
//@end

//@fn src/translating/formula_representation/natural.rs :: fn natural_b_atom
//@ .ret r
//@ .attr #[verifier::loop_isolation(false)]
//@ .spec
//@     ensures r matches Some(a) ==> p2f_all_some(l.terms@, int_vars@) && a.predicate_symbol@ == l.predicate_symbol@ && a.terms@ == p2f_seq(l.terms@, int_vars@),
//@ .loop 1 as it
//@     invariant
//@         it.seq().len() == l.terms@.len(), forall|q: int| 0 <= q < l.terms@.len() ==> *it.seq()[q] == l.terms@[q],
//@         d27_0_out@.len() == it.index@,
//@         forall|q: int| 0 <= q < it.index@ ==> (#[trigger] spec_p2f(l.terms@[q], int_vars@)) is Some && d27_0_out@[q] == spec_p2f(l.terms@[q], int_vars@)->Some_0,
//@end

//@fn src/translating/formula_representation/natural.rs :: fn natural_b_literal
//@ .ret r
//@ .spec
//@     ensures r matches Some(f) ==> nat_lit_shape(f, *l, int_vars@),
//@end

//@fn src/translating/formula_representation/natural.rs :: fn natural_body
//@ .ret r
//@ .attr #[verifier::loop_isolation(false)]
//@ .spec
//@     ensures r matches Some(f) ==> nat_body_shape(f, b.formulas@, int_vars@),
//@ .loop 1 as it
//@     invariant
//@         it.seq().len() == b.formulas@.len(), forall|q: int| 0 <= q < b.formulas@.len() ==> *it.seq()[q] == b.formulas@[q],
//@         formulas@.len() == it.index@,
//@         forall|q: int| 0 <= q < it.index@ ==> #[trigger] nat_af_shape(formulas@[q], b.formulas@[q], int_vars@),
//@end

// ---- heads: fresh integer variables for interval arguments -------------------------------------------------------------------
pub open spec fn names_seq(vs: Seq<asp::Variable>) -> Seq<Seq<char>> { vs.map_values(|v: asp::Variable| v.0@) }
pub proof fn lemma_names_seq(vs: Seq<asp::Variable>, x: asp::Variable)
    ensures vs.contains(x) == names_seq(vs).contains(x.0@),
{
    let ns = names_seq(vs);
    if vs.contains(x) { let i = choose|i: int| 0 <= i < vs.len() && vs[i] == x; assert(ns[i] == x.0@); }
    if ns.contains(x.0@) { let i = choose|i: int| 0 <= i < ns.len() && ns[i] == x.0@; assert(vs[i].0@ == x.0@); assert(vs[i] == x); }
}

//@fn src/translating/formula_representation/natural.rs :: fn fresh_variables_for_head_atom
//@ .ret r
//@ .fmt
//@ .attr #[verifier::loop_isolation(false)]
//@ .spec
//@     requires terms_var_occ(a.terms@, a.terms@.len() as int) < 0x7fff_ffff,     // the search counter `j` is an i32: an atom with 2^31 - 1 or more variable occurrences is out of scope (recorded assumption)
//@     ensures head_names_ok(r@, a.terms@, a.terms@.len() as int),
//@ .hint before "let terms = &a.terms;"
//@     proof { reveal_strlit("N"); reveal_strlit("_"); axiom_indexset_len(&taken_vars); vstd::std_specs::vec::axiom_spec_len(&a.terms); }
//@ .loop 1 as it
//@     invariant
//@         d14_k0 == it.index@, 0 <= it.index@ <= a.terms@.len(),
//@         it.seq().len() == a.terms@.len(), forall|q: int| 0 <= q < a.terms@.len() ==> *it.seq()[q] == a.terms@[q],
//@         head_names_ok(fresh_vars@, a.terms@, it.index@ as int),
//@ .hint before "if !is_term_regular_of_first_kind(term)"
//@     let ghost f0 = fresh_vars@;
//@     let ghost pos0 = nonreg_positions(a.terms@, i as int);
//@     proof {
//@         assert(*term == a.terms@[i as int]);
//@         // a name that is not taken is not the name of a variable of the atom
//@         assert forall|x: asp::Variable, key: VKey| !taken_vars@.contains(x) && #[trigger] terms_in(a.terms@, key) implies key.0 != #[trigger] x.0@ by {
//@             if key.0 == x.0@ {
//@                 assert(has_key(taken_vars@, key));
//@                 let q = choose|q: int| 0 <= q < taken_vars@.len() && #[trigger] asp_var_key(taken_vars@[q]) == key;
//@                 assert(taken_vars@[q] == x);
//@             }
//@         }
//@     }
//@ .loop 2
//@     invariant
//@         0 <= j, j <= taken_vars@.len(), fresh_vars@ == f0,
//@         forall|q: nat| q < j ==> names_seq(taken_vars@).contains(#[trigger] cand(n_prefix(i as nat), q)),
//@     decreases taken_vars@.len() - j,
//@ .hint before "j += 1;"
//@     proof {
//@         assert forall|x: asp::Variable| x.0@ == cand(n_prefix(i as nat), j as nat) && #[trigger] taken_vars@.contains(x)
//@             implies names_seq(taken_vars@).contains(cand(n_prefix(i as nat), j as nat)) by { lemma_names_seq(taken_vars@, x); }
//@         assert(names_seq(taken_vars@).contains(cand(n_prefix(i as nat), j as nat)));
//@         lemma_taken_bound(n_prefix(i as nat), names_seq(taken_vars@), 0, (j + 1) as nat);
//@     }
//@ .hint before "} else { let mut j = 0;"
//@     proof {
//@         let last = fresh_vars@.last();
//@         assert(!taken_vars@.contains(asp::Variable(last)));
//@         assert forall|key: VKey| #[trigger] terms_in(a.terms@, key) implies key.0 != last@ by { assert(asp::Variable(last).0@ == last@); }
//@         lemma_head_push(f0, fresh_vars@, a.terms@, i as int);
//@     }
//@ .hint before "break;"
//@     proof {
//@         let last = fresh_vars@.last();
//@         assert(last@ == cand(n_prefix(i as nat), j as nat));
//@         assert(!taken_vars@.contains(asp::Variable(last)));
//@         assert forall|key: VKey| #[trigger] terms_in(a.terms@, key) implies key.0 != last@ by { assert(asp::Variable(last).0@ == last@); }
//@         lemma_head_push(f0, fresh_vars@, a.terms@, i as int);
//@     }
//@end

//@fn src/translating/formula_representation/natural.rs :: fn natural_head_atom
//@ .ret r
//@ .attr #[verifier::loop_isolation(false)]
//@ .spec
//@     requires fresh_vars@.len() == nrank(a.terms@, a.terms@.len() as int),
//@     ensures r matches Some(f) ==> head_regular(a.terms@, int_vars@) && is_atom(f, a.predicate_symbol@, head_args_seq(a.terms@, int_vars@, fresh_vars@)),
//@ .hint before "let mut terms = Vec::<fol::GeneralTerm>::new();"
//@     let ghost fv0 = fresh_vars@;
//@ .loop 1 as it
//@     invariant
//@         it.seq().len() == a.terms@.len(), forall|q: int| 0 <= q < a.terms@.len() ==> *it.seq()[q] == a.terms@[q],
//@         terms@.len() == it.index@,
//@         fresh_vars.remaining().len() == fv0.len() - nrank(a.terms@, it.index@ as int),
//@         forall|q: int| 0 <= q < fresh_vars.remaining().len() ==> *(#[trigger] fresh_vars.remaining()[q]) == fv0[nrank(a.terms@, it.index@ as int) + q],
//@         forall|q: int| 0 <= q < it.index@ ==> (#[trigger] spec_reg1(a.terms@[q]) || spec_reg2(a.terms@[q])) && terms@[q] == head_arg(a.terms@, int_vars@, fv0, q),
//@ .hint before "if is_term_regular_of_first_kind(t)"
//@     let ghost idx = it.index@ as int;
//@     proof { assert(*t == a.terms@[idx]); lemma_rank(a.terms@, idx); lemma_positions_prefix(a.terms@, idx + 1, a.terms@.len() as int); if spec_reg1(*t) { lemma_reg1_p2f_some(*t, int_vars@); } }
//@ .hint before "Some(fol::Formula::AtomicFormula(fol::AtomicFormula::Atom("
//@     proof {
//@         lemma_head_regular(a.terms@, int_vars@);
//@         assert(terms@ =~= head_args_seq(a.terms@, int_vars@, fv0));
//@     }
//@end

//@fn src/translating/formula_representation/natural.rs :: fn natural_head_interval
//@ .ret r
//@ .attr #[verifier::loop_isolation(false)]
//@ .spec
//@     requires fresh_vars@.len() == nrank(a.terms@, a.terms@.len() as int), head_regular(a.terms@, int_vars@),
//@     ensures exists|fs: Seq<Formula>| r == #[trigger] spec_conjoin(fs) && head_conds_ok(fs, a.terms@, int_vars@, fresh_vars@),
//@ .hint before "let mut formulas = Vec::<fol::Formula>::new();"
//@     let ghost fv0 = fresh_vars@;
//@     let ghost pos = nonreg_positions(a.terms@, a.terms@.len() as int);
//@ .loop 1 as it
//@     invariant
//@         it.seq().len() == a.terms@.len(), forall|q: int| 0 <= q < a.terms@.len() ==> *it.seq()[q] == a.terms@[q],
//@         formulas@.len() == nrank(a.terms@, it.index@ as int),
//@         fresh_vars.remaining().len() == fv0.len() - nrank(a.terms@, it.index@ as int),
//@         forall|q: int| 0 <= q < fresh_vars.remaining().len() ==> *(#[trigger] fresh_vars.remaining()[q]) == fv0[nrank(a.terms@, it.index@ as int) + q],
//@         forall|k: int| 0 <= k < formulas@.len() ==> #[trigger] cmp2(lo_of(a.terms@, int_vars@, pos[k]), Relation::LessEqual, nvar_term(fv0[k]), Relation::LessEqual, hi_of(a.terms@, int_vars@, pos[k]), formulas@[k]),
//@ .hint before "if is_term_regular_of_second_kind(t)"
//@     let ghost idx = it.index@ as int;
//@     let ghost f0 = formulas@;
//@     proof { assert(*t == a.terms@[idx]); lemma_rank(a.terms@, idx); lemma_positions_prefix(a.terms@, idx + 1, a.terms@.len() as int); assert(spec_reg1(a.terms@[idx]) || spec_reg2(a.terms@[idx])); }
//@ .hint after "formulas.push(comp_formula);"
//@     proof {
//@         assert(pos[nrank(a.terms@, idx)] == idx);
//@         assert forall|k: int| 0 <= k < formulas@.len() implies #[trigger] cmp2(lo_of(a.terms@, int_vars@, pos[k]), Relation::LessEqual, nvar_term(fv0[k]), Relation::LessEqual, hi_of(a.terms@, int_vars@, pos[k]), formulas@[k]) by {
//@             if k < f0.len() { assert(formulas@[k] == f0[k]); }
//@         }
//@     }
//@ .hint before "fol::Formula::conjoin(formulas)"
//@     proof { assert(head_conds_ok(formulas@, a.terms@, int_vars@, fv0)); }
//@end

//@fn src/translating/formula_representation/natural.rs :: fn natural_basic_head
//@ .ret r
//@ .closure "|v| fol::Variable" as "|v: &String| -> (z: Variable)"
//@     ensures z == ivar(*v)
//@ .spec
//@     requires terms_var_occ(a.terms@, a.terms@.len() as int) < 0x7fff_ffff,
//@     ensures r matches Some(hf) ==> nat_head_shape(hf, a.terms@, false, a.predicate_symbol@, int_vars@),
//@ .hint before "if fresh_vars.is_empty()"
//@     proof {
//@         if fresh_vars@.len() == 0 {
//@             assert(head_conds_ok(Seq::<Formula>::empty(), a.terms@, int_vars@, fresh_vars@));
//@             assert(nat_head_wit(conclusion, a.terms@, false, a.predicate_symbol@, int_vars@, fresh_vars@, Seq::<Formula>::empty(), conclusion));
//@         }
//@     }
//@ .hint before "Some(fol::Formula::QuantifiedFormula {"
//@     proof {
//@         let fs = choose|fs: Seq<Formula>| conditions == #[trigger] spec_conjoin(fs) && head_conds_ok(fs, a.terms@, int_vars@, fresh_vars@);
//@         assert(quantification.variables@ =~= ivars(fresh_vars@));
//@         assert forall|hf: Formula| head_shape(hf, fresh_vars@, conditions, conclusion) implies #[trigger] nat_head_shape(hf, a.terms@, false, a.predicate_symbol@, int_vars@) by {
//@             assert(nat_head_wit(hf, a.terms@, false, a.predicate_symbol@, int_vars@, fresh_vars@, fs, conclusion));
//@         }
//@     }
//@end

//@fn src/translating/formula_representation/natural.rs :: fn natural_choice_head
//@ .ret r
//@ .closure "|v| fol::Variable" as "|v: &String| -> (z: Variable)"
//@     ensures z == ivar(*v)
//@ .spec
//@     requires terms_var_occ(a.terms@, a.terms@.len() as int) < 0x7fff_ffff,
//@     ensures r matches Some(hf) ==> nat_head_shape(hf, a.terms@, true, a.predicate_symbol@, int_vars@),
//@ .hint before "if fresh_vars.is_empty()"
//@     proof {
//@         if fresh_vars@.len() == 0 {
//@             assert(head_conds_ok(Seq::<Formula>::empty(), a.terms@, int_vars@, fresh_vars@));
//@             assert(nat_head_wit(conclusion, a.terms@, true, a.predicate_symbol@, int_vars@, fresh_vars@, Seq::<Formula>::empty(), conclusion));
//@         }
//@     }
//@ .hint before "Some(fol::Formula::QuantifiedFormula {"
//@     proof {
//@         let fs = choose|fs: Seq<Formula>| conditions == #[trigger] spec_conjoin(fs) && head_conds_ok(fs, a.terms@, int_vars@, fresh_vars@);
//@         assert(quantification.variables@ =~= ivars(fresh_vars@));
//@         assert forall|hf: Formula| head_shape(hf, fresh_vars@, conditions, conclusion) implies #[trigger] nat_head_shape(hf, a.terms@, true, a.predicate_symbol@, int_vars@) by {
//@             assert(nat_head_wit(hf, a.terms@, true, a.predicate_symbol@, int_vars@, fresh_vars@, fs, conclusion));
//@         }
//@     }
//@end

//@fn src/translating/formula_representation/natural.rs :: fn natural_constraint
//@ .ret r
//@ .spec
//@     ensures is_falsity(r),
//@end

/// size of the head: the i32 search counter of fresh_variables_for_head_atom (recorded assumption on input size)
pub open spec fn small_head(h: asp::Head) -> bool { terms_var_occ(head_args(h), head_args(h).len() as int) < 0x7fff_ffff }

//@fn src/translating/formula_representation/natural.rs :: fn natural_head
//@ .ret r
//@ .spec
//@     requires small_head(*h),
//@     ensures r matches Some(hf) ==> nat_head_of(hf, *h, int_vars@),
//@end

impl Formula {
//@fn src/syntax_tree/fol/sigma_0.rs :: impl Formula :: fn universal_closure
//@ .ret r
//@ .spec
//@     ensures r == spec_ucl(self),
//@end
}

//@fn src/translating/formula_representation/natural.rs :: fn natural_rule
//@ .ret res
//@ .spec
//@     requires small_head(r.head),
//@     // C08: whenever the natural translation accepts a rule, the sentence it produces is closed and is true in <H,T> (H included in T, either world)
//@     // exactly when every ground instance of the rule is satisfied — the meaning tau* gives the rule (rule_ok, proved for tau_star_rule in unit tau)
//@     ensures res matches Some(f) ==> rule_ok(f, *r),
//@ .hint before "Some( (fol::Formula::BinaryFormula {"
//@     proof {
//@         assert forall|mx: Formula| nat_matrix(mx, *r, int_vars@) implies #[trigger] rule_ok(spec_ucl(mx), *r) by { lemma_nat_rule(spec_ucl(mx), mx, *r, int_vars@); }
//@     }
//@end

/// every rule of the program has a head of moderate size
pub open spec fn small_program(p: asp::Program) -> bool { forall|i: int| 0 <= i < p.rules@.len() ==> small_head((#[trigger] p.rules@[i]).head) }

//@fn src/translating/formula_representation/natural.rs :: fn natural
//@ .ret res
//@ .attr #[verifier::loop_isolation(false)]
//@ .spec
//@     requires small_program(program),
//@     ensures res matches Some(t) ==> theory_ok(t, program),
//@ .hint before "let mut formulas = Vec::<fol::Formula>::new();"
//@     let ghost rules0 = program.rules@;
//@ .loop 1 as it
//@     invariant
//@         it.seq() == rules0, formulas@.len() == it.index@,
//@         forall|q: int| 0 <= q < it.index@ ==> rule_ok(#[trigger] formulas@[q], rules0[q]),
//@ .hint before "if let Some(f) = natural_rule(&r)"
//@     proof { assert(r == rules0[it.index@ as int]); assert(small_head(rules0[it.index@ as int].head)); }
//@end

// ---- mu: natural where possible, tau* otherwise ---------------------------------------------------------------------------------
pub mod natural { pub use super::natural_rule; }
// tau_star_rule and choose_fresh_global_variables carry the contracts PROVED (resp. assumed as a composition) in unit `tau` (C01)
pub mod tau_star {
    use super::*;
    #[verifier::external_body]
    pub fn tau_star_rule(r: &asp::Rule, globals: &[String]) -> (f: Formula) requires globals_ok(globals@, *r), ensures rule_ok(f, *r) { unimplemented!() }
    #[verifier::external_body]
    pub fn choose_fresh_global_variables(program: &asp::Program) -> (g: Vec<String>) ensures program_globals_ok(g@, *program) { unimplemented!() }
}
// D19: the trait method `Mu::mu` verified as an inherent method (a trait implementation cannot carry the size precondition)
impl asp::Program {
//@fn src/translating/formula_representation/mu.rs :: impl Mu for asp::Program :: fn mu
//@ .assoc Output=Theory
//@ .ret r
//@ .attr #[verifier::loop_isolation(false)]
//@ .spec
//@     requires small_program(self),
//@     ensures
//@         // C08: mu never fails; rule by rule its output has the meaning of the rule (the natural translation where it exists, tau* otherwise),
//@         // hence is HT-equivalent, formula by formula, to the tau* output
//@         theory_ok(r, self),
//@ .loop 1 as it
//@     invariant
//@         it.seq() == self.rules@,
//@         formulas@.len() == it.index@,
//@         forall|q: int| 0 <= q < it.index@ ==> rule_ok(#[trigger] formulas@[q], self.rules@[q]),
//@ .hint before "match natural::natural_rule(&r)"
//@     proof { assert(r == self.rules@[it.index@ as int]); assert(small_head(self.rules@[it.index@ as int].head)); assert(globals_ok(globals@, self.rules@[it.index@ as int])); }
//@end
}

} // verus!
pub mod asp {
    use vstd::prelude::*;
    use vstd::std_specs::iter::IteratorSpec;
    use super::{IndexSet, seq_extend, seq_insert, lemma_seq_extend_contains, VKey, asp_in_term, asp_var_key, has_key, terms_in, af_in,
        lemma_has_key_extend, lemma_has_key_contains, head_pred, head_args, head_in, body_in, rule_in, var_occ, terms_var_occ, lemma_extend_len};
    verus! {
    broadcast use {super::axiom_string_ext, super::axiom_vec_ext};
//@include units/asp_types.inc
//@include units/asp_vars.inc
    } // verus!
}
pub mod syntax_tree { pub mod asp { pub use crate::asp as mini_gringo; } pub mod fol { pub mod sigma_0 { pub use crate::*; } } }
fn main() {}
