// unit `nat` — C08: the natural translation (regularity, values of regular terms) and mu
use vstd::prelude::*;
use vstd::std_specs::iter::IteratorSpec;
verus! {
//@include spec/prelude.rs
broadcast use {axiom_string_ext, axiom_str_ext, axiom_str_of, axiom_vec_ext, axiom_vec_of, axiom_display_string, axiom_display_str, axiom_display_usize, axiom_display_i32};
//@include spec/indexset.rs
//@include units/fol_types.inc
//@include spec/sem.rs
//@include spec/quant_lemmas.rs
//@include spec/fol_spec.rs
//@include units/fol_lib.inc
//@include spec/core_lemmas.rs
//@include spec/fvlink_lemmas.rs
//@include spec/block_lemmas.rs
//@include spec/simp_spec.rs
//@include spec/fresh_lemmas.rs
//@include spec/tau_spec.rs
//@include spec/taub_spec.rs
//@include spec/rule_spec.rs
//@include spec/nat_spec.rs
//@include spec/nathead_spec.rs

pub mod fol { pub use super::*; }

//@fn src/translating/formula_representation/natural.rs :: fn contains_symbol_or_infimum_or_supremum
//@ .ret r
//@ .spec
//@     ensures r == spec_sis(*t),
//@     decreases t,
//@end

//@fn src/translating/formula_representation/natural.rs :: fn is_term_regular_of_first_kind
//@ .ret r
//@ .spec
//@     ensures r == spec_reg1(*t),
//@     decreases t,
//@end

//@fn src/translating/formula_representation/natural.rs :: fn is_term_regular_of_second_kind
//@ .ret r
//@ .spec
//@     ensures r == spec_reg2(*t),
//@end

//@fn src/translating/formula_representation/natural.rs :: fn p2f_int_term
//@ .ret r
//@ .spec
//@     ensures r == spec_p2f_int(*t),
//@     decreases t,
//@end

/// the term p2f produces for a term regular of the first kind; a variable becomes integer-sorted iff it is an "integer variable" of the rule
pub open spec fn spec_p2f(t: asp::Term, int_vars: Seq<String>) -> Option<GeneralTerm> {
    if !spec_reg1(t) { None } else {
        match t {
            asp::Term::Variable(v) => if (exists|i: int| 0 <= i < int_vars.len() && (#[trigger] int_vars[i])@ == v.0@) {
                Some(GeneralTerm::IntegerTerm(IntegerTerm::Variable(v.0)))
            } else { Some(GeneralTerm::Variable(v.0)) },
            asp::Term::PrecomputedTerm(p) => Some(match p {
                asp::PrecomputedTerm::Infimum => GeneralTerm::Infimum,
                asp::PrecomputedTerm::Numeral(i) => GeneralTerm::IntegerTerm(IntegerTerm::Numeral(i)),
                asp::PrecomputedTerm::Symbol(a) => GeneralTerm::SymbolicTerm(SymbolicTerm::Symbol(a)),
                asp::PrecomputedTerm::Supremum => GeneralTerm::Supremum,
            }),
            _ => match spec_p2f_int(t) { Some(it) => Some(GeneralTerm::IntegerTerm(it)), None => None },
        }
    }
}

//@fn src/translating/formula_representation/natural.rs :: fn p2f
//@ .ret r
//@ .spec
//@     ensures r == spec_p2f(*t, int_vars@),
//@ .closure "|d20_x| fol::GeneralTerm::IntegerTerm(d20_x)" as "|d20_x: IntegerTerm| -> (z: GeneralTerm)"
//@     ensures z == GeneralTerm::IntegerTerm(d20_x)
//@end

// ---- heads: fresh integer variables for interval arguments -------------------------------------------------------------------
pub open spec fn names_seq(vs: Seq<asp::Variable>) -> Seq<Seq<char>> { vs.map_values(|v: asp::Variable| v.0@) }
pub proof fn lemma_names_seq(vs: Seq<asp::Variable>, x: asp::Variable)
    ensures vs.contains(x) == names_seq(vs).contains(x.0@),
{
    let ns = names_seq(vs);
    if vs.contains(x) { let i = choose|i: int| 0 <= i < vs.len() && vs[i] == x; assert(ns[i] == x.0@); }
    if ns.contains(x.0@) { let i = choose|i: int| 0 <= i < ns.len() && ns[i] == x.0@; assert(vs[i].0@ == x.0@); assert(vs[i] == x); }
}

//@fn src/translating/formula_representation/natural.rs :: fn fresh_variables_for_head_atom
//@ .ret r
//@ .fmt
//@ .attr #[verifier::loop_isolation(false)]
//@ .spec
//@     requires terms_var_occ(a.terms@, a.terms@.len() as int) < 0x7fff_ffff,     // the search counter `j` is an i32: an atom with 2^31 - 1 or more variable occurrences is out of scope (recorded assumption)
//@     ensures head_names_ok(r@, a.terms@, a.terms@.len() as int),
//@ .hint before "let terms = &a.terms;"
//@     proof { reveal_strlit("N"); reveal_strlit("_"); axiom_indexset_len(&taken_vars); vstd::std_specs::vec::axiom_spec_len(&a.terms); }
//@ .loop 1 as it
//@     invariant
//@         d14_k0 == it.index@, 0 <= it.index@ <= a.terms@.len(),
//@         it.seq().len() == a.terms@.len(), forall|q: int| 0 <= q < a.terms@.len() ==> *it.seq()[q] == a.terms@[q],
//@         head_names_ok(fresh_vars@, a.terms@, it.index@ as int),
//@ .hint before "if !is_term_regular_of_first_kind(term)"
//@     let ghost f0 = fresh_vars@;
//@     let ghost pos0 = nonreg_positions(a.terms@, i as int);
//@     proof {
//@         assert(*term == a.terms@[i as int]);
//@         // a name that is not taken is not the name of a variable of the atom
//@         assert forall|x: asp::Variable, key: VKey| !taken_vars@.contains(x) && #[trigger] terms_in(a.terms@, key) implies key.0 != #[trigger] x.0@ by {
//@             if key.0 == x.0@ {
//@                 assert(has_key(taken_vars@, key));
//@                 let q = choose|q: int| 0 <= q < taken_vars@.len() && #[trigger] asp_var_key(taken_vars@[q]) == key;
//@                 assert(taken_vars@[q] == x);
//@             }
//@         }
//@     }
//@ .loop 2
//@     invariant
//@         0 <= j, j <= taken_vars@.len(), fresh_vars@ == f0,
//@         forall|q: nat| q < j ==> names_seq(taken_vars@).contains(#[trigger] cand(n_prefix(i as nat), q)),
//@     decreases taken_vars@.len() - j,
//@ .hint before "j += 1;"
//@     proof {
//@         assert forall|x: asp::Variable| x.0@ == cand(n_prefix(i as nat), j as nat) && #[trigger] taken_vars@.contains(x)
//@             implies names_seq(taken_vars@).contains(cand(n_prefix(i as nat), j as nat)) by { lemma_names_seq(taken_vars@, x); }
//@         assert(names_seq(taken_vars@).contains(cand(n_prefix(i as nat), j as nat)));
//@         lemma_taken_bound(n_prefix(i as nat), names_seq(taken_vars@), 0, (j + 1) as nat);
//@     }
//@ .hint before "} else { let mut j = 0;"
//@     proof {
//@         let last = fresh_vars@.last();
//@         assert(!taken_vars@.contains(asp::Variable(last)));
//@         assert forall|key: VKey| #[trigger] terms_in(a.terms@, key) implies key.0 != last@ by { assert(asp::Variable(last).0@ == last@); }
//@         lemma_head_push(f0, fresh_vars@, a.terms@, i as int);
//@     }
//@ .hint before "break;"
//@     proof {
//@         let last = fresh_vars@.last();
//@         assert(last@ == cand(n_prefix(i as nat), j as nat));
//@         assert(!taken_vars@.contains(asp::Variable(last)));
//@         assert forall|key: VKey| #[trigger] terms_in(a.terms@, key) implies key.0 != last@ by { assert(asp::Variable(last).0@ == last@); }
//@         lemma_head_push(f0, fresh_vars@, a.terms@, i as int);
//@     }
//@end

// ---- mu: natural where possible, tau* otherwise (callees are stand-ins that record their arguments) ----
pub uninterp spec fn spec_natural_rule(r: asp::Rule) -> Option<Formula>;
pub uninterp spec fn spec_tau_star_rule(r: asp::Rule, globals: Seq<String>) -> Formula;
pub uninterp spec fn spec_globals(p: asp::Program) -> Seq<String>;
pub mod natural {
    use super::*;
    #[verifier::external_body]
    pub fn natural_rule(r: &asp::Rule) -> (o: Option<Formula>) ensures o == spec_natural_rule(*r) { unimplemented!() }
}
pub mod tau_star {
    use super::*;
    #[verifier::external_body]
    pub fn tau_star_rule(r: &asp::Rule, globals: &[String]) -> (f: Formula) ensures f == spec_tau_star_rule(*r, globals@) { unimplemented!() }
    #[verifier::external_body]
    pub fn choose_fresh_global_variables(program: &asp::Program) -> (g: Vec<String>) ensures g@ == spec_globals(*program) { unimplemented!() }
}
pub open spec fn mu_rule(r: asp::Rule, globals: Seq<String>) -> Formula {
    match spec_natural_rule(r) { Some(f) => f, None => spec_tau_star_rule(r, globals) }
}
pub trait Mu { type Output; fn mu(self) -> Self::Output; }
impl Mu for asp::Program {
    type Output = Theory;
//@fn src/translating/formula_representation/mu.rs :: impl Mu for asp::Program :: fn mu
//@ .ret r
//@ .spec
//@     ensures
//@         // C08: mu never fails and translates rule by rule: the natural translation where it exists, tau* otherwise
//@         r.formulas@.len() == self.rules@.len(),
//@         forall|i: int| 0 <= i < self.rules@.len() ==> #[trigger] r.formulas@[i] == mu_rule(self.rules@[i], spec_globals(self)),
//@ .loop 1 as it
//@     invariant
//@         it.seq() == self.rules@,
//@         globals@ == spec_globals(self),
//@         formulas@.len() == it.index@,
//@         forall|i: int| 0 <= i < formulas@.len() ==> #[trigger] formulas@[i] == mu_rule(self.rules@[i], spec_globals(self)),
//@end
}

} // verus!
pub mod asp {
    use vstd::prelude::*;
    use vstd::std_specs::iter::IteratorSpec;
    use super::{IndexSet, seq_extend, seq_insert, lemma_seq_extend_contains, VKey, asp_in_term, asp_var_key, has_key, terms_in, af_in,
        lemma_has_key_extend, lemma_has_key_contains, head_pred, head_args, head_in, body_in, rule_in, var_occ, terms_var_occ, lemma_extend_len};
    verus! {
    broadcast use {super::axiom_string_ext, super::axiom_vec_ext};
//@include units/asp_types.inc
//@include units/asp_vars.inc
    } // verus!
}
pub mod syntax_tree { pub mod asp { pub use crate::asp as mini_gringo; } pub mod fol { pub mod sigma_0 { pub use crate::*; } } }
fn main() {}
