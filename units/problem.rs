// unit `problem` — C09 (unique formula names), C03/C02 glue (add_theory)
use vstd::prelude::*;
use vstd::std_specs::iter::IteratorSpec;
verus! {
//@include spec/prelude.rs
broadcast use {axiom_string_ext, axiom_str_ext, axiom_str_of, axiom_vec_ext, axiom_vec_of, axiom_display_string, axiom_display_str, axiom_display_usize};
//@include spec/indexset.rs
//@include units/fol_types.inc

} // verus!
pub mod problem {
    use vstd::prelude::*;
    use vstd::std_specs::iter::IteratorSpec;
    use super::*;
    verus! {
    broadcast use {super::axiom_string_ext, super::axiom_str_ext, super::axiom_str_of, super::axiom_vec_ext, super::axiom_vec_of, super::axiom_display_string, super::axiom_display_str, super::axiom_display_usize};
//@type src/verifying/problem/mod.rs :: enum Interpretation
//@type src/verifying/problem/mod.rs :: enum Role
//@type src/verifying/problem/mod.rs :: struct AnnotatedFormula
//@type src/verifying/problem/mod.rs :: struct Problem

/// formula_{i}_{old name}
pub open spec fn unique_name(i: nat, old: Seq<char>) -> Seq<char> { "formula_"@ + decimal(i) + "_"@ + old }

/// distinct positions give distinct names, whatever the old names are
pub proof fn lemma_unique_names(i: nat, j: nat, a: Seq<char>, b: Seq<char>)
    requires unique_name(i, a) == unique_name(j, b),
    ensures i == j,
{
    broadcast use axiom_decimal_digits;
    reveal_strlit("formula_");
    reveal_strlit("_");
    let x = unique_name(i, a);
    let y = unique_name(j, b);
    let di = decimal(i);
    let dj = decimal(j);
    axiom_decimal_nonempty(i);
    axiom_decimal_nonempty(j);
    // position 8 + k holds the k-th digit; the first '_' after position 8 marks the end of the numeral
    assert forall|k: int| 0 <= k < di.len() implies x[8 + k] == di[k] by {}
    assert forall|k: int| 0 <= k < dj.len() implies y[8 + k] == dj[k] by {}
    assert(x[8 + di.len() as int] == '_');
    assert(y[8 + dj.len() as int] == '_');
    if di.len() < dj.len() { assert(is_digit(dj[di.len() as int])); assert(y[8 + di.len() as int] == dj[di.len() as int]); }
    if dj.len() < di.len() { assert(is_digit(di[dj.len() as int])); assert(x[8 + dj.len() as int] == di[dj.len() as int]); }
    assert(di.len() == dj.len());
    assert(di =~= dj) by {
        assert forall|k: int| 0 <= k < di.len() implies di[k] == dj[k] by { assert(x[8 + k] == y[8 + k]); }
    }
    axiom_decimal_injective(i, j);
}

impl Problem {
//@fn src/verifying/problem/mod.rs :: impl Problem :: fn add_theory
//@ .ret r
//@ .spec
//@     requires forall|i: usize, f: Formula| annotate.requires((i, f)),
//@     ensures
//@         r.name == self.name,
//@         r.formulas@.len() == self.formulas@.len() + theory.formulas@.len(),
//@         forall|i: int| 0 <= i < self.formulas@.len() ==> r.formulas@[i] == self.formulas@[i],
//@         // the i-th formula of the theory is annotated with its own index and appended in order
//@         forall|i: int| 0 <= i < theory.formulas@.len() ==> annotate.ensures((i as usize, theory.formulas@[i]), #[trigger] r.formulas@[self.formulas@.len() + i]),
//@ .hint before "let mut d14_k0"
//@     let ghost old_formulas = d16_self.formulas@;
//@     let ghost th = theory.formulas@;
//@     let ghost ann0 = annotate;
//@     proof { vstd::std_specs::vec::axiom_spec_len(&theory.formulas); }
//@ .loop 1 as it
//@     invariant
//@         it.seq() == th, th.len() <= usize::MAX,
//@         d14_k0 == it.index@,
//@         annotate == ann0,
//@         forall|i: usize, f: Formula| annotate.requires((i, f)),
//@         d16_self.name == self.name,
//@         d16_self.formulas@.len() == old_formulas.len() + it.index@,
//@         forall|i: int| 0 <= i < old_formulas.len() ==> d16_self.formulas@[i] == old_formulas[i],
//@         forall|i: int| 0 <= i < it.index@ ==> ann0.ensures((i as usize, th[i]), #[trigger] d16_self.formulas@[old_formulas.len() + i]),
//@end

//@fn src/verifying/problem/mod.rs :: impl Problem :: fn create_unique_formula_names
//@ .ret r
//@ .fmt
//@ .lettype formulas as Vec<AnnotatedFormula>
//@ .spec
//@     ensures
//@         r.name == self.name,
//@         r.formulas@.len() == self.formulas@.len(),
//@         // same roles and formulas, in the same order; the i-th name is formula_{i}_{old name}
//@         forall|i: int| 0 <= i < r.formulas@.len() ==> (#[trigger] r.formulas@[i]).role == self.formulas@[i].role
//@             && r.formulas@[i].formula == self.formulas@[i].formula
//@             && r.formulas@[i].name@ == unique_name(i as nat, self.formulas@[i].name@),
//@         // C09: formula names are unique
//@         forall|i: int, j: int| 0 <= i < j < r.formulas@.len() ==> (#[trigger] r.formulas@[i]).name@ != (#[trigger] r.formulas@[j]).name@,
//@ .hint before "let mut formulas"
//@     let ghost old_formulas = d16_self.formulas@;
//@     proof { vstd::std_specs::vec::axiom_spec_len(&d16_self.formulas); }
//@ .loop 1 as it
//@     invariant
//@         it.seq() == old_formulas,
//@         old_formulas.len() <= usize::MAX,
//@         d14_k0 == it.index@,
//@         formulas@.len() == it.index@,
//@         forall|i: int| 0 <= i < formulas@.len() ==> (#[trigger] formulas@[i]).role == old_formulas[i].role
//@             && formulas@[i].formula == old_formulas[i].formula
//@             && formulas@[i].name@ == unique_name(i as nat, old_formulas[i].name@),
//@ .hint before "d16_self.formulas = formulas;"
//@     proof {
//@         assert forall|i: int, j: int| 0 <= i < j < formulas@.len() implies (#[trigger] formulas@[i]).name@ != (#[trigger] formulas@[j]).name@ by {
//@             if formulas@[i].name@ == formulas@[j].name@ { lemma_unique_names(i as nat, j as nat, old_formulas[i].name@, old_formulas[j].name@); }
//@         }
//@     }
//@end
}

    } // verus!
}
fn main() {}
