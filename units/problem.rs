// unit `problem` — C09 (unique formula names), C03/C02 glue (add_theory)
use vstd::prelude::*;
use vstd::std_specs::iter::IteratorSpec;
verus! {
//@include spec/prelude.rs
broadcast use {axiom_string_ext, axiom_str_ext, axiom_str_of, axiom_vec_ext, axiom_vec_of, axiom_display_string, axiom_display_str, axiom_display_usize};
//@include spec/indexset.rs
//@include units/fol_types.inc
//@include spec/sem.rs
//@type src/command_line/arguments.rs :: enum Decomposition

} // verus!
pub mod problem {
    use vstd::prelude::*;
    use vstd::std_specs::iter::IteratorSpec;
    use super::*;
    verus! {
    broadcast use {super::axiom_string_ext, super::axiom_str_ext, super::axiom_str_of, super::axiom_vec_ext, super::axiom_vec_of, super::axiom_display_string, super::axiom_display_str, super::axiom_display_usize};
//@type src/verifying/problem/mod.rs :: enum Interpretation
//@type src/verifying/problem/mod.rs :: enum Role
//@type src/verifying/problem/mod.rs :: struct AnnotatedFormula
//@type src/verifying/problem/mod.rs :: struct Problem

/// formula_{i}_{old name}
pub open spec fn unique_name(i: nat, old: Seq<char>) -> Seq<char> { "formula_"@ + decimal(i) + "_"@ + old }

/// distinct positions give distinct names, whatever the old names are
pub proof fn lemma_unique_names(i: nat, j: nat, a: Seq<char>, b: Seq<char>)
    requires unique_name(i, a) == unique_name(j, b),
    ensures i == j,
{
    broadcast use axiom_decimal_digits;
    reveal_strlit("formula_");
    reveal_strlit("_");
    let x = unique_name(i, a);
    let y = unique_name(j, b);
    let di = decimal(i);
    let dj = decimal(j);
    axiom_decimal_nonempty(i);
    axiom_decimal_nonempty(j);
    // position 8 + k holds the k-th digit; the first '_' after position 8 marks the end of the numeral
    assert forall|k: int| 0 <= k < di.len() implies x[8 + k] == di[k] by {}
    assert forall|k: int| 0 <= k < dj.len() implies y[8 + k] == dj[k] by {}
    assert(x[8 + di.len() as int] == '_');
    assert(y[8 + dj.len() as int] == '_');
    if di.len() < dj.len() { assert(is_digit(dj[di.len() as int])); assert(y[8 + di.len() as int] == dj[di.len() as int]); }
    if dj.len() < di.len() { assert(is_digit(di[dj.len() as int])); assert(x[8 + dj.len() as int] == di[dj.len() as int]); }
    assert(di.len() == dj.len());
    assert(di =~= dj) by {
        assert forall|k: int| 0 <= k < di.len() implies di[k] == dj[k] by { assert(x[8 + k] == y[8 + k]); }
    }
    axiom_decimal_injective(i, j);
}

// ---- decomposition (C19, C09): structure ---------------------------------------------------------------------------------
/// the formulas with the given role among the first n, in order (spec of `iter().filter(role ==).cloned().collect_vec()`)
pub open spec fn by_role(fs: Seq<AnnotatedFormula>, role: Role, n: int) -> Seq<AnnotatedFormula>
    decreases n,
{
    if n <= 0 { Seq::empty() } else if fs[n - 1].role == role { by_role(fs, role, n - 1).push(fs[n - 1]) } else { by_role(fs, role, n - 1) }
}
pub proof fn lemma_by_role_len(fs: Seq<AnnotatedFormula>, role: Role, n: int)
    requires 0 <= n <= fs.len(),
    ensures by_role(fs, role, n).len() <= n,
    decreases n,
{
    if n > 0 { lemma_by_role_len(fs, role, n - 1); }
}
pub proof fn lemma_by_role_roles(fs: Seq<AnnotatedFormula>, role: Role, n: int)
    requires 0 <= n <= fs.len(),
    ensures forall|i: int| 0 <= i < by_role(fs, role, n).len() ==> (#[trigger] by_role(fs, role, n)[i]).role == role,
    decreases n,
{
    if n > 0 { lemma_by_role_roles(fs, role, n - 1); }
}
pub open spec fn axioms_of(p: Problem) -> Seq<AnnotatedFormula> { by_role(p.formulas@, Role::Axiom, p.formulas@.len() as int) }
pub open spec fn conjectures_of(p: Problem) -> Seq<AnnotatedFormula> { by_role(p.formulas@, Role::Conjecture, p.formulas@.len() as int) }

pub open spec fn sub_name(p: Problem, i: int) -> Seq<char> { p.name@ + "_"@ + decimal(i as nat) }

/// the i-th problem of the independent decomposition: the axioms and the i-th conjecture
pub open spec fn independent_at(p: Problem, q: Problem, i: int) -> bool {
    q.formulas@ == axioms_of(p).push(conjectures_of(p)[i]) && q.name@ == sub_name(p, i) && q.interpretation == p.interpretation
}
pub open spec fn independent_ok(p: Problem, r: Seq<Problem>) -> bool {
    r.len() == conjectures_of(p).len() && forall|i: int| 0 <= i < r.len() ==> #[trigger] independent_at(p, r[i], i)
}

pub open spec fn as_axiom(f: AnnotatedFormula) -> AnnotatedFormula { AnnotatedFormula { name: f.name, role: Role::Axiom, formula: f.formula } }
pub open spec fn as_axioms(fs: Seq<AnnotatedFormula>) -> Seq<AnnotatedFormula> { Seq::new(fs.len(), |i: int| as_axiom(fs[i])) }

/// the i-th problem of the sequential decomposition: the axioms, the earlier conjectures as axioms, and the i-th conjecture
pub open spec fn sequential_at(p: Problem, q: Problem, i: int) -> bool {
    q.formulas@ == axioms_of(p) + as_axioms(conjectures_of(p).take(i)) + seq![conjectures_of(p)[i]] && q.name@ == sub_name(p, i) && q.interpretation == p.interpretation
}
pub open spec fn sequential_ok(p: Problem, r: Seq<Problem>) -> bool {
    r.len() == conjectures_of(p).len() && forall|i: int| 0 <= i < r.len() ==> #[trigger] sequential_at(p, r[i], i)
}

// ---- decomposition (C19): an interpretation refutes the problem iff it refutes one of its parts ---------------------------------
/// `truth` is the truth of formulas in some fixed interpretation (any logic, any class of interpretations): the interpretation does not
/// refute q if, whenever all axioms of q are true, all its conjectures are
pub open spec fn not_refuted(q: Problem, truth: spec_fn(Formula) -> bool) -> bool {
    (forall|j: int| 0 <= j < q.formulas@.len() && (#[trigger] q.formulas@[j]).role == Role::Axiom ==> truth(q.formulas@[j].formula))
    ==> (forall|j: int| 0 <= j < q.formulas@.len() && (#[trigger] q.formulas@[j]).role == Role::Conjecture ==> truth(q.formulas@[j].formula))
}

pub proof fn lemma_by_role_mem(fs: Seq<AnnotatedFormula>, role: Role, n: int, x: AnnotatedFormula)
    requires 0 <= n <= fs.len(),
    ensures by_role(fs, role, n).contains(x) == (exists|j: int| 0 <= j < n && #[trigger] fs[j] == x && fs[j].role == role),
    decreases n,
{
    if n > 0 {
        lemma_by_role_mem(fs, role, n - 1, x);
        let pre = by_role(fs, role, n - 1);
        let cur = by_role(fs, role, n);
        if cur.contains(x) {
            let i = choose|i: int| 0 <= i < cur.len() && cur[i] == x;
            if i < pre.len() { assert(pre[i] == x); assert(pre.contains(x)); } else { assert(fs[n - 1] == x); }
        }
        if exists|j: int| 0 <= j < n && #[trigger] fs[j] == x && fs[j].role == role {
            let j = choose|j: int| 0 <= j < n && #[trigger] fs[j] == x && fs[j].role == role;
            if j < n - 1 { assert(pre.contains(x)); let i = choose|i: int| 0 <= i < pre.len() && pre[i] == x; assert(cur[i] == x); }
            else { assert(cur[cur.len() - 1] == x); }
        }
    }
}

pub open spec fn all_true(fs: Seq<AnnotatedFormula>, truth: spec_fn(Formula) -> bool) -> bool { forall|k: int| 0 <= k < fs.len() ==> truth((#[trigger] fs[k]).formula) }

/// not_refuted in terms of the two role-filtered lists
pub proof fn lemma_not_refuted(p: Problem, truth: spec_fn(Formula) -> bool)
    ensures not_refuted(p, truth) == (all_true(axioms_of(p), truth) ==> all_true(conjectures_of(p), truth)),
{
    let fs = p.formulas@;
    let n = fs.len() as int;
    let ax = axioms_of(p);
    let cs = conjectures_of(p);
    assert forall|role: Role| (forall|j: int| 0 <= j < n && (#[trigger] fs[j]).role == role ==> truth(fs[j].formula)) == all_true(#[trigger] by_role(fs, role, n), truth) by {
        let l = by_role(fs, role, n);
        if forall|j: int| 0 <= j < n && (#[trigger] fs[j]).role == role ==> truth(fs[j].formula) {
            assert forall|k: int| 0 <= k < l.len() implies truth((#[trigger] l[k]).formula) by {
                lemma_by_role_mem(fs, role, n, l[k]);
                assert(l.contains(l[k]));
                let j = choose|j: int| 0 <= j < n && #[trigger] fs[j] == l[k] && fs[j].role == role;
            }
        }
        if all_true(l, truth) {
            assert forall|j: int| 0 <= j < n && (#[trigger] fs[j]).role == role implies truth(fs[j].formula) by {
                lemma_by_role_mem(fs, role, n, fs[j]);
                let k = choose|k: int| 0 <= k < l.len() && l[k] == fs[j];
                assert(truth(l[k].formula));
            }
        }
    }
    assert(by_role(fs, Role::Axiom, n) == ax);
    assert(by_role(fs, Role::Conjecture, n) == cs);
}

/// a problem made of premises (all axioms) and one conjecture
pub proof fn lemma_single(q: Problem, prem: Seq<AnnotatedFormula>, c: AnnotatedFormula, truth: spec_fn(Formula) -> bool)
    requires q.formulas@ == prem.push(c), c.role == Role::Conjecture, forall|k: int| 0 <= k < prem.len() ==> (#[trigger] prem[k]).role == Role::Axiom,
    ensures not_refuted(q, truth) == (all_true(prem, truth) ==> truth(c.formula)),
{
    let fs = q.formulas@;
    if all_true(prem, truth) { assert forall|j: int| 0 <= j < fs.len() && (#[trigger] fs[j]).role == Role::Axiom implies truth(fs[j].formula) by { assert(j < prem.len()); assert(truth(prem[j].formula)); } }
    if forall|j: int| 0 <= j < fs.len() && (#[trigger] fs[j]).role == Role::Axiom ==> truth(fs[j].formula) {
        assert forall|k: int| 0 <= k < prem.len() implies truth((#[trigger] prem[k]).formula) by { assert(fs[k] == prem[k]); }
    }
    if truth(c.formula) { assert forall|j: int| 0 <= j < fs.len() && (#[trigger] fs[j]).role == Role::Conjecture implies truth(fs[j].formula) by { assert(j == prem.len()); } }
    if forall|j: int| 0 <= j < fs.len() && (#[trigger] fs[j]).role == Role::Conjecture ==> truth(fs[j].formula) { assert(fs[prem.len() as int] == c); }
}

/// C19 (independent): the interpretation refutes p iff it refutes one of the emitted problems
pub proof fn lemma_independent_sound(p: Problem, r: Seq<Problem>, truth: spec_fn(Formula) -> bool)
    requires independent_ok(p, r),
    ensures (forall|i: int| 0 <= i < r.len() ==> #[trigger] not_refuted(r[i], truth)) == not_refuted(p, truth),
{
    let ax = axioms_of(p);
    let cs = conjectures_of(p);
    lemma_not_refuted(p, truth);
    lemma_by_role_roles(p.formulas@, Role::Axiom, p.formulas@.len() as int);
    lemma_by_role_roles(p.formulas@, Role::Conjecture, p.formulas@.len() as int);
    assert forall|i: int| 0 <= i < r.len() implies #[trigger] not_refuted(r[i], truth) == (all_true(ax, truth) ==> truth(cs[i].formula)) by {
        assert(independent_at(p, r[i], i));
        lemma_single(r[i], ax, cs[i], truth);
    }
    if forall|i: int| 0 <= i < r.len() ==> #[trigger] not_refuted(r[i], truth) {
        if all_true(ax, truth) { assert forall|k: int| 0 <= k < cs.len() implies truth((#[trigger] cs[k]).formula) by { assert(not_refuted(r[k], truth)); } }
    }
    if not_refuted(p, truth) {
        assert forall|i: int| 0 <= i < r.len() implies #[trigger] not_refuted(r[i], truth) by { if all_true(ax, truth) { assert(truth(cs[i].formula)); } }
    }
}

/// C19 (sequential): the same, although later problems use earlier conjectures as axioms
pub proof fn lemma_sequential_sound(p: Problem, r: Seq<Problem>, truth: spec_fn(Formula) -> bool)
    requires sequential_ok(p, r),
    ensures (forall|i: int| 0 <= i < r.len() ==> #[trigger] not_refuted(r[i], truth)) == not_refuted(p, truth),
{
    let ax = axioms_of(p);
    let cs = conjectures_of(p);
    lemma_not_refuted(p, truth);
    lemma_by_role_roles(p.formulas@, Role::Axiom, p.formulas@.len() as int);
    lemma_by_role_roles(p.formulas@, Role::Conjecture, p.formulas@.len() as int);
    assert forall|i: int| 0 <= i < r.len() implies #[trigger] not_refuted(r[i], truth) == ((all_true(ax, truth) && all_true(cs.take(i), truth)) ==> truth(cs[i].formula)) by {
        assert(sequential_at(p, r[i], i));
        let prem = ax + as_axioms(cs.take(i));
        assert(r[i].formulas@ =~= prem.push(cs[i]));
        assert forall|k: int| 0 <= k < prem.len() implies (#[trigger] prem[k]).role == Role::Axiom by { if k < ax.len() { assert(prem[k] == ax[k]); } else { assert(prem[k] == as_axiom(cs.take(i)[k - ax.len()])); } }
        lemma_single(r[i], prem, cs[i], truth);
        if all_true(prem, truth) {
            assert forall|k: int| 0 <= k < ax.len() implies truth((#[trigger] ax[k]).formula) by { assert(prem[k] == ax[k]); }
            assert forall|k: int| 0 <= k < cs.take(i).len() implies truth((#[trigger] cs.take(i)[k]).formula) by { assert(prem[ax.len() + k] == as_axiom(cs.take(i)[k])); }
        }
        if all_true(ax, truth) && all_true(cs.take(i), truth) {
            assert forall|k: int| 0 <= k < prem.len() implies truth((#[trigger] prem[k]).formula) by {
                if k < ax.len() { assert(prem[k] == ax[k]); } else { assert(prem[k] == as_axiom(cs.take(i)[k - ax.len()])); assert(truth(cs.take(i)[k - ax.len()].formula)); }
            }
        }
    }
    if forall|i: int| 0 <= i < r.len() ==> #[trigger] not_refuted(r[i], truth) {
        if all_true(ax, truth) { lemma_chain(r, ax, cs, truth, cs.len() as int); assert(cs.take(cs.len() as int) =~= cs); }
    }
    if not_refuted(p, truth) {
        assert forall|i: int| 0 <= i < r.len() implies #[trigger] not_refuted(r[i], truth) by { if all_true(ax, truth) { assert(truth(cs[i].formula)); } }
    }
}

/// the induction behind the sequential decomposition: the first n conjectures are true
pub proof fn lemma_chain(r: Seq<Problem>, ax: Seq<AnnotatedFormula>, cs: Seq<AnnotatedFormula>, truth: spec_fn(Formula) -> bool, n: int)
    requires
        0 <= n <= cs.len(), r.len() == cs.len(), all_true(ax, truth),
        forall|i: int| 0 <= i < r.len() ==> #[trigger] not_refuted(r[i], truth),
        forall|i: int| 0 <= i < r.len() ==> #[trigger] not_refuted(r[i], truth) == ((all_true(ax, truth) && all_true(cs.take(i), truth)) ==> truth(cs[i].formula)),
    ensures all_true(cs.take(n), truth),
    decreases n,
{
    if n > 0 {
        lemma_chain(r, ax, cs, truth, n - 1);
        assert(not_refuted(r[n - 1], truth));
        assert(truth(cs[n - 1].formula));
        assert forall|k: int| 0 <= k < cs.take(n).len() implies truth((#[trigger] cs.take(n)[k]).formula) by {
            if k < n - 1 { assert(cs.take(n)[k] == cs.take(n - 1)[k]); assert(truth(cs.take(n - 1)[k].formula)); }
        }
    }
}

impl Problem {
//@fn src/verifying/problem/mod.rs :: impl Problem :: fn add_theory
//@ .ret r
//@ .spec
//@     requires forall|i: usize, f: Formula| annotate.requires((i, f)),
//@     ensures
//@         r.name == self.name,
//@         r.formulas@.len() == self.formulas@.len() + theory.formulas@.len(),
//@         forall|i: int| 0 <= i < self.formulas@.len() ==> r.formulas@[i] == self.formulas@[i],
//@         // the i-th formula of the theory is annotated with its own index and appended in order
//@         forall|i: int| 0 <= i < theory.formulas@.len() ==> annotate.ensures((i as usize, theory.formulas@[i]), #[trigger] r.formulas@[self.formulas@.len() + i]),
//@ .hint before "let mut d14_k0"
//@     let ghost old_formulas = d16_self.formulas@;
//@     let ghost th = theory.formulas@;
//@     let ghost ann0 = annotate;
//@     proof { vstd::std_specs::vec::axiom_spec_len(&theory.formulas); }
//@ .loop 1 as it
//@     invariant
//@         it.seq() == th, th.len() <= usize::MAX,
//@         d14_k0 == it.index@,
//@         annotate == ann0,
//@         forall|i: usize, f: Formula| annotate.requires((i, f)),
//@         d16_self.name == self.name,
//@         d16_self.formulas@.len() == old_formulas.len() + it.index@,
//@         forall|i: int| 0 <= i < old_formulas.len() ==> d16_self.formulas@[i] == old_formulas[i],
//@         forall|i: int| 0 <= i < it.index@ ==> ann0.ensures((i as usize, th[i]), #[trigger] d16_self.formulas@[old_formulas.len() + i]),
//@end

//@fn src/verifying/problem/mod.rs :: impl Problem :: fn create_unique_formula_names
//@ .ret r
//@ .fmt
//@ .lettype formulas as Vec<AnnotatedFormula>
//@ .spec
//@     ensures
//@         r.name == self.name,
//@         r.formulas@.len() == self.formulas@.len(),
//@         // same roles and formulas, in the same order; the i-th name is formula_{i}_{old name}
//@         forall|i: int| 0 <= i < r.formulas@.len() ==> (#[trigger] r.formulas@[i]).role == self.formulas@[i].role
//@             && r.formulas@[i].formula == self.formulas@[i].formula
//@             && r.formulas@[i].name@ == unique_name(i as nat, self.formulas@[i].name@),
//@         // C09: formula names are unique
//@         forall|i: int, j: int| 0 <= i < j < r.formulas@.len() ==> (#[trigger] r.formulas@[i]).name@ != (#[trigger] r.formulas@[j]).name@,
//@ .hint before "let mut formulas"
//@     let ghost old_formulas = d16_self.formulas@;
//@     proof { vstd::std_specs::vec::axiom_spec_len(&d16_self.formulas); }
//@ .loop 1 as it
//@     invariant
//@         it.seq() == old_formulas,
//@         old_formulas.len() <= usize::MAX,
//@         d14_k0 == it.index@,
//@         formulas@.len() == it.index@,
//@         forall|i: int| 0 <= i < formulas@.len() ==> (#[trigger] formulas@[i]).role == old_formulas[i].role
//@             && formulas@[i].formula == old_formulas[i].formula
//@             && formulas@[i].name@ == unique_name(i as nat, old_formulas[i].name@),
//@ .hint before "d16_self.formulas = formulas;"
//@     proof {
//@         assert forall|i: int, j: int| 0 <= i < j < formulas@.len() implies (#[trigger] formulas@[i]).name@ != (#[trigger] formulas@[j]).name@ by {
//@             if formulas@[i].name@ == formulas@[j].name@ { lemma_unique_names(i as nat, j as nat, old_formulas[i].name@, old_formulas[j].name@); }
//@         }
//@     }
//@end

//@fn src/verifying/problem/mod.rs :: impl Problem :: fn axioms
//@ .ret r
//@ .attr #[verifier::loop_isolation(false)]
//@ .spec
//@     ensures r@ == by_role(self.formulas@, Role::Axiom, self.formulas@.len() as int),
//@ .loop 1 as it
//@     invariant
//@         it.seq().len() == self.formulas@.len(), forall|j: int| 0 <= j < self.formulas@.len() ==> *it.seq()[j] == self.formulas@[j],
//@         d22_0_out@ == by_role(self.formulas@, Role::Axiom, it.index@ as int),
//@end
//@fn src/verifying/problem/mod.rs :: impl Problem :: fn conjectures
//@ .ret r
//@ .attr #[verifier::loop_isolation(false)]
//@ .spec
//@     ensures r@ == by_role(self.formulas@, Role::Conjecture, self.formulas@.len() as int),
//@ .loop 1 as it
//@     invariant
//@         it.seq().len() == self.formulas@.len(), forall|j: int| 0 <= j < self.formulas@.len() ==> *it.seq()[j] == self.formulas@[j],
//@         d22_0_out@ == by_role(self.formulas@, Role::Conjecture, it.index@ as int),
//@end

//@fn src/verifying/problem/mod.rs :: impl Problem :: fn decompose_independent
//@ .ret r
//@ .fmt
//@ .attr #[verifier::loop_isolation(false)]
//@ .spec
//@     ensures independent_ok(*self, r@),
//@ .hint before "{ let mut d21_0_out"
//@     let ghost cs = by_role(self.formulas@, Role::Conjecture, self.formulas@.len() as int);
//@     proof { vstd::std_specs::vec::axiom_spec_len(&self.formulas); lemma_by_role_len(self.formulas@, Role::Conjecture, self.formulas@.len() as int); }
//@ .loop 1 as it
//@     invariant
//@         it.seq() == cs, cs.len() <= usize::MAX,
//@         d21_0_k == it.index@, d21_0_out@.len() == it.index@,
//@         forall|i: int| 0 <= i < it.index@ ==> #[trigger] independent_at(*self, d21_0_out@[i], i),
//@end

//@fn src/verifying/problem/mod.rs :: impl Problem :: fn decompose_sequential
//@ .ret r
//@ .fmt
//@ .attr #[verifier::loop_isolation(false)]
//@ .spec
//@     ensures sequential_ok(*self, r@),
//@ .hint before "{ let mut d21_0_out"
//@     let ghost ax = by_role(self.formulas@, Role::Axiom, self.formulas@.len() as int);
//@     let ghost cs = by_role(self.formulas@, Role::Conjecture, self.formulas@.len() as int);
//@     proof { vstd::std_specs::vec::axiom_spec_len(&self.formulas); lemma_by_role_len(self.formulas@, Role::Conjecture, self.formulas@.len() as int);
//@             lemma_by_role_roles(self.formulas@, Role::Axiom, self.formulas@.len() as int); }
//@ .loop 1 as it
//@     invariant
//@         it.seq() == cs, cs.len() <= usize::MAX,
//@         d21_0_k == it.index@, d21_0_out@.len() == it.index@,
//@         it.index@ == 0 ==> formulas@ == ax,
//@         it.index@ > 0 ==> formulas@ == ax + as_axioms(cs.take(it.index@ - 1)) + seq![cs[it.index@ - 1]],
//@         forall|i: int| 0 <= i < it.index@ ==> #[trigger] sequential_at(*self, d21_0_out@[i], i),
//@ .hint before "formulas.push(c);"
//@     proof {
//@         let n = it.index@;
//@         assert(formulas@ == ax + as_axioms(cs.take(n))) by {
//@             if n > 0 {
//@                 assert(cs.take(n) =~= cs.take(n - 1).push(cs[n - 1]));
//@                 assert(as_axioms(cs.take(n)) =~= as_axioms(cs.take(n - 1)).push(as_axiom(cs[n - 1])));
//@                 assert(formulas@ =~= ax + as_axioms(cs.take(n)));
//@             } else {
//@                 assert(as_axioms(cs.take(0)) =~= Seq::<AnnotatedFormula>::empty());
//@                 assert(formulas@ =~= ax + as_axioms(cs.take(0))) by {
//@                     if ax.len() > 0 { assert(ax.last().role == Role::Axiom); assert(formulas@.last() == ax.last()); }
//@                 }
//@             }
//@         }
//@     }
//@ .hint after "formulas.push(c);"
//@     proof {
//@         let n = it.index@;
//@         assert(c == cs[n]);
//@         assert(formulas@ =~= ax + as_axioms(cs.take(n)) + seq![cs[n]]);
//@         assert(cs.take(n + 1 - 1) =~= cs.take(n));
//@     }
//@end

//@fn src/verifying/problem/mod.rs :: impl Problem :: fn decompose
//@ .ret r
//@ .spec
//@     ensures strategy is Independent ==> independent_ok(*self, r@), strategy is Sequential ==> sequential_ok(*self, r@),
//@end
}

    } // verus!
}
fn main() {}
