#![feature(allocator_api)]
// unit `ensure` — C11: applicability checks of external equivalence (the ensure_* methods that fit Verus' subset)
use vstd::prelude::*;
use vstd::std_specs::iter::IteratorSpec;
verus! {
//@include spec/prelude.rs
broadcast use {axiom_string_ext, axiom_str_ext, axiom_str_of, axiom_vec_ext, axiom_vec_of, axiom_display_string, axiom_display_str};
//@include spec/indexset.rs
//@include units/fol_types.inc
//@include spec/sem.rs
//@include spec/quant_lemmas.rs
//@include spec/fol_spec.rs
//@include units/fol_lib.inc

pub mod fol { pub use super::*; }

impl AnnotatedFormula {
//@fn src/syntax_tree/fol/sigma_0.rs :: impl AnnotatedFormula :: fn predicates
//@ .ret r
//@ .spec
//@     ensures r@ == spec_preds(self.formula),
//@end
}

pub proof fn lemma_seq_extend_contains_e<T>(s: Seq<T>, t: Seq<T>, y: T)
    ensures seq_extend(s, t).contains(y) == (s.contains(y) || t.contains(y)),
    decreases t.len(),
{
    if t.len() > 0 {
        lemma_seq_insert_contains(s, t[0], y);
        lemma_seq_extend_contains_e(seq_insert(s, t[0]), t.drop_first(), y);
        let rest = t.drop_first();
        if t.contains(y) { let i = choose|i: int| 0 <= i < t.len() && t[i] == y; if i > 0 { assert(rest[i - 1] == y); } }
        if rest.contains(y) { let i = choose|i: int| 0 <= i < rest.len() && rest[i] == y; assert(t[i + 1] == y); }
        if y == t[0] { assert(t.contains(y)); }
    }
}

pub enum Either<L, R> { Left(L), Right(R) }

//@type src/convenience/with_warnings/mod.rs :: struct WithWarnings
impl<D, W> WithWarnings<D, W> {
//@fn src/convenience/with_warnings/mod.rs :: impl<D, W> WithWarnings<D, W> :: fn flawless
//@ .ret r
//@ .spec
//@     ensures r.data == data, r.warnings@.len() == 0,
//@end
//@fn src/convenience/with_warnings/mod.rs :: impl<D, W> WithWarnings<D, W> :: fn add_warning
//@ .ret r
//@ .spec
//@     ensures r.data == self.data, r.warnings@ == self.warnings@.push(warning),
//@end
}
pub type Result<D, W, E> = std::result::Result<WithWarnings<D, W>, E>;

//@type src/command_line/arguments.rs :: enum Decomposition
//@type src/command_line/arguments.rs :: enum FormulaRepresentation
//@type src/verifying/outline/mod.rs :: enum ProofOutlineError
//@type src/verifying/outline/mod.rs :: enum ProofOutlineWarning
//@type src/verifying/task/external_equivalence.rs :: enum ExternalEquivalenceTaskWarning
//@type src/verifying/task/external_equivalence.rs :: enum ExternalEquivalenceTaskError
//@type src/verifying/task/external_equivalence.rs :: struct ExternalEquivalenceTask

// Tightness::is_tight: petgraph / HashMap — NOT verified here; its result is an uninterpreted function of the program
pub uninterp spec fn spec_tight(p: asp::Program) -> bool;
pub trait Tightness { fn is_tight(&self) -> (b: bool); }
impl Tightness for asp::Program {
    #[verifier::external_body]
    fn is_tight(&self) -> (b: bool) ensures b == spec_tight(*self) { unimplemented!() }
}

impl vstd::std_specs::convert::FromSpecImpl<PlaceholderDeclaration> for FunctionConstant {
    open spec fn obeys_from_spec() -> bool { true }
    open spec fn from_spec(v: PlaceholderDeclaration) -> FunctionConstant { FunctionConstant { name: v.name, sort: v.sort } }
}
impl From<PlaceholderDeclaration> for FunctionConstant {
//@fn src/syntax_tree/fol/sigma_0.rs :: impl From<PlaceholderDeclaration> for FunctionConstant :: fn from
//@ .ret r
//@ .spec
//@     ensures r == (FunctionConstant { name: value.name, sort: value.sort }),
//@end
}

/// the placeholders declared so far: one (name, sort) per declaration, in order, without repetition
pub open spec fn spec_placeholders(es: Seq<UserGuideEntry>, n: int) -> Seq<FunctionConstant>
    decreases n,
{
    if n <= 0 { Seq::empty() } else {
        match es[n - 1] {
            UserGuideEntry::PlaceholderDeclaration(p) => seq_insert(spec_placeholders(es, n - 1), FunctionConstant { name: p.name, sort: p.sort }),
            _ => spec_placeholders(es, n - 1),
        }
    }
}

/// p is declared `input:` / `output:` in the user guide
pub open spec fn declared_input(es: Seq<UserGuideEntry>, n: int, p: Predicate) -> bool { exists|i: int| 0 <= i < n && #[trigger] es[i] == UserGuideEntry::InputPredicate(p) }
pub open spec fn declared_output(es: Seq<UserGuideEntry>, n: int, p: Predicate) -> bool { exists|i: int| 0 <= i < n && #[trigger] es[i] == UserGuideEntry::OutputPredicate(p) }
pub open spec fn is_input(u: UserGuide, p: Predicate) -> bool { declared_input(u.entries@, u.entries@.len() as int, p) }
pub open spec fn is_output(u: UserGuide, p: Predicate) -> bool { declared_output(u.entries@, u.entries@.len() as int, p) }

impl UserGuide {
//@fn src/syntax_tree/fol/sigma_0.rs :: impl UserGuide :: fn input_predicates
//@ .ret r
//@ .attr #[verifier::loop_isolation(false)]
//@ .spec
//@     ensures forall|p: Predicate| r@.contains(p) == is_input(*self, p),
//@ .loop 1 as it
//@     invariant
//@         it.seq().len() == self.entries@.len(), forall|j: int| 0 <= j < self.entries@.len() ==> *it.seq()[j] == self.entries@[j],
//@         forall|p: Predicate| result@.contains(p) == declared_input(self.entries@, it.index@ as int, p),
//@ .hint before "if let UserGuideEntry::InputPredicate(p) = entry"
//@     let ghost r0 = result@;
//@     let ghost idx = it.index@ as int;
//@     proof {
//@         assert forall|x: Predicate, y: Predicate| #[trigger] seq_insert(r0, x).contains(y) == (r0.contains(y) || y == x) by { lemma_seq_insert_contains(r0, x, y); }
//@         assert forall|q: Predicate| declared_input(self.entries@, idx + 1, q) == (declared_input(self.entries@, idx, q) || self.entries@[idx] == UserGuideEntry::InputPredicate(q)) by {
//@             if declared_input(self.entries@, idx + 1, q) { let i = choose|i: int| 0 <= i < idx + 1 && #[trigger] self.entries@[i] == UserGuideEntry::InputPredicate(q); if i < idx { assert(declared_input(self.entries@, idx, q)); } }
//@             if declared_input(self.entries@, idx, q) { let i = choose|i: int| 0 <= i < idx && #[trigger] self.entries@[i] == UserGuideEntry::InputPredicate(q); assert(0 <= i < idx + 1 && self.entries@[i] == UserGuideEntry::InputPredicate(q)); }
//@         }
//@     }
//@end
//@fn src/syntax_tree/fol/sigma_0.rs :: impl UserGuide :: fn output_predicates
//@ .ret r
//@ .attr #[verifier::loop_isolation(false)]
//@ .spec
//@     ensures forall|p: Predicate| r@.contains(p) == is_output(*self, p),
//@ .loop 1 as it
//@     invariant
//@         it.seq().len() == self.entries@.len(), forall|j: int| 0 <= j < self.entries@.len() ==> *it.seq()[j] == self.entries@[j],
//@         forall|p: Predicate| result@.contains(p) == declared_output(self.entries@, it.index@ as int, p),
//@ .hint before "if let UserGuideEntry::OutputPredicate(p) = entry"
//@     let ghost r0 = result@;
//@     let ghost idx = it.index@ as int;
//@     proof {
//@         assert forall|x: Predicate, y: Predicate| #[trigger] seq_insert(r0, x).contains(y) == (r0.contains(y) || y == x) by { lemma_seq_insert_contains(r0, x, y); }
//@         assert forall|q: Predicate| declared_output(self.entries@, idx + 1, q) == (declared_output(self.entries@, idx, q) || self.entries@[idx] == UserGuideEntry::OutputPredicate(q)) by {
//@             if declared_output(self.entries@, idx + 1, q) { let i = choose|i: int| 0 <= i < idx + 1 && #[trigger] self.entries@[i] == UserGuideEntry::OutputPredicate(q); if i < idx { assert(declared_output(self.entries@, idx, q)); } }
//@             if declared_output(self.entries@, idx, q) { let i = choose|i: int| 0 <= i < idx && #[trigger] self.entries@[i] == UserGuideEntry::OutputPredicate(q); assert(0 <= i < idx + 1 && self.entries@[i] == UserGuideEntry::OutputPredicate(q)); }
//@         }
//@     }
//@end
//@fn src/syntax_tree/fol/sigma_0.rs :: impl UserGuide :: fn placeholders
//@ .ret r
//@ .spec
//@     ensures r@ == spec_placeholders(self.entries@, self.entries@.len() as int),
//@ .loop 1 as it
//@     invariant result@ == spec_placeholders(self.entries@, it.index@ as int), 0 <= it.index@ <= self.entries@.len(),
//@end
}

pub proof fn lemma_seq_insert_contains<T>(s: Seq<T>, x: T, y: T)
    ensures seq_insert(s, x).contains(y) == (s.contains(y) || y == x),
{
    if !s.contains(x) {
        let r = s.push(x);
        if r.contains(y) { let i = choose|i: int| 0 <= i < r.len() && r[i] == y; if i < s.len() { assert(s[i] == y); } }
        if s.contains(y) { let i = choose|i: int| 0 <= i < s.len() && s[i] == y; assert(r[i] == y); }
        if y == x { assert(r[s.len() as int] == y); }
    }
}

/// no assumption among the first n formulas mentions an output predicate
pub open spec fn assumptions_free_of_output(u: UserGuide, fs: Seq<AnnotatedFormula>, n: int) -> bool {
    forall|i: int, q: Predicate| 0 <= i < n && (#[trigger] fs[i]).role == Role::Assumption && #[trigger] spec_preds(fs[i].formula).contains(q) ==> !is_output(u, q)
}
/// every predicate of every assumption among the first n formulas is an extra input symbol or a declared input predicate
pub open spec fn assumptions_input_only(u: UserGuide, extra: Seq<Predicate>, fs: Seq<AnnotatedFormula>, n: int) -> bool {
    forall|i: int, q: Predicate| 0 <= i < n && (#[trigger] fs[i]).role == Role::Assumption && #[trigger] spec_preds(fs[i].formula).contains(q) ==> extra.contains(q) || is_input(u, q)
}

/// two of the first n placeholders have the same name
pub open spec fn name_clash(ps: Seq<FunctionConstant>, n: int) -> bool {
    exists|i: int, j: int| 0 <= i < j < n && #[trigger] ps[i].name@ == #[trigger] ps[j].name@
}

/// a control-language specification "consists of annotated formulas of two types: assumptions and specs" (manual, specification.md)
pub open spec fn roles_supported(fs: Seq<AnnotatedFormula>, n: int) -> bool {
    forall|i: int| 0 <= i < n ==> ((#[trigger] fs[i]).role == Role::Assumption || fs[i].role == Role::Spec)
}

/// the entry condition of ValidatedExternalEquivalenceTask::decompose (unit `ext`): its `unreachable!()` arms for
/// Lemma | Definition | InductiveLemma must not be reachable
pub open spec fn roles_ok(fs: Seq<AnnotatedFormula>) -> bool {
    forall|i: int| 0 <= i < fs.len() ==> ((#[trigger] fs[i]).role == Role::Assumption || fs[i].role == Role::Spec)
}

/// C16/C11 call-site obligation: what ensure_specification_roles_are_supported accepts must satisfy the entry condition of the
/// routing step that consumes the specification's formulas (otherwise an accepted specification reaches unreachable!())
pub proof fn callsite_roles_checked_before_routing(fs: Seq<AnnotatedFormula>)
    requires roles_supported(fs, fs.len() as int),
    ensures roles_ok(fs),
{}

impl ExternalEquivalenceTask {
//@fn src/verifying/task/external_equivalence.rs :: impl ExternalEquivalenceTask :: fn ensure_program_tightness
//@ .ret r
//@ .spec
//@     ensures
//@         // C11: a non-tight program is refused unless --bypass-tightness, in which case it is accepted with a warning
//@         r is Err <==> !spec_tight(*program) && !self.bypass_tightness,
//@         r matches Ok(ww) ==> (ww.warnings@.len() > 0 <==> !spec_tight(*program)),
//@end

//@fn src/verifying/task/external_equivalence.rs :: impl ExternalEquivalenceTask :: fn ensure_input_and_output_predicates_are_disjoint
//@ .ret r
//@ .spec
//@     // C11: refused iff some predicate is declared both input and output
//@     ensures r is Ok <==> !(exists|p: Predicate| is_input(self.user_guide, p) && is_output(self.user_guide, p)),
//@ .hint before "if intersection.is_empty()"
//@     proof {
//@         if intersection@.len() > 0 {
//@             let p0 = intersection@[0];
//@             assert(intersection@.contains(p0));
//@             assert(is_input(self.user_guide, p0) && is_output(self.user_guide, p0));
//@         }
//@         if exists|p: Predicate| is_input(self.user_guide, p) && is_output(self.user_guide, p) {
//@             let p = choose|p: Predicate| is_input(self.user_guide, p) && is_output(self.user_guide, p);
//@             assert(intersection@.contains(p));
//@         }
//@     }
//@end

//@fn src/verifying/task/external_equivalence.rs :: impl ExternalEquivalenceTask :: fn ensure_specification_assumptions_do_not_contain_output_predicates
//@ .ret r
//@ .attr #[verifier::loop_isolation(false)]
//@ .spec
//@     // C11: refused iff some assumption of the specification mentions an output predicate
//@     ensures r is Ok <==> assumptions_free_of_output(self.user_guide, specification.formulas@, specification.formulas@.len() as int),
//@ .loop 1 as it
//@     invariant
//@         it.seq().len() == specification.formulas@.len(), forall|j: int| 0 <= j < specification.formulas@.len() ==> *it.seq()[j] == specification.formulas@[j],
//@         assumptions_free_of_output(self.user_guide, specification.formulas@, it.index@ as int),
//@ .loop 2 as it2
//@     invariant
//@         it2.seq() == preds, 0 <= it2.index@ <= preds.len(),
//@         forall|x: Predicate| d23_0_out@.contains(x) ==> preds.contains(x) && is_output(self.user_guide, x),
//@         forall|j: int| 0 <= j < it2.index@ && is_output(self.user_guide, #[trigger] preds[j]) ==> d23_0_out@.contains(preds[j]),
//@ .hint before "let overlap: Vec<_> ="
//@     let ghost preds = spec_preds(formula.formula);
//@     let ghost fidx = it.index@ as int;
//@ .hint before "if d23_0_keep"
//@     let ghost o0 = d23_0_out@;
//@     let ghost j0 = it2.index@ as int;
//@ .hint after "d23_0_out.push(d23_0_x); }"
//@     proof {
//@         assert(d23_0_keep ==> d23_0_out@ == o0.push(preds[j0]));
//@         assert forall|x: Predicate| d23_0_out@.contains(x) implies preds.contains(x) && is_output(self.user_guide, x) by {
//@             if d23_0_keep { let q = choose|q: int| 0 <= q < d23_0_out@.len() && d23_0_out@[q] == x; if q < o0.len() { assert(o0[q] == x); assert(o0.contains(x)); } else { assert(x == preds[j0]); } }
//@         }
//@         assert forall|j: int| 0 <= j < j0 + 1 && is_output(self.user_guide, #[trigger] preds[j]) implies d23_0_out@.contains(preds[j]) by {
//@             if j < j0 { assert(o0.contains(preds[j])); let q = choose|q: int| 0 <= q < o0.len() && o0[q] == preds[j]; assert(d23_0_out@[q] == preds[j]); }
//@             else { assert(d23_0_out@[o0.len() as int] == preds[j0]); }
//@         }
//@     }
//@ .hint before "if !overlap.is_empty()"
//@     proof {
//@         if overlap@.len() > 0 {
//@             let q0 = overlap@[0];
//@             assert(overlap@.contains(q0));
//@             assert(preds.contains(q0) && is_output(self.user_guide, q0));
//@             assert(specification.formulas@[fidx].role == Role::Assumption && spec_preds(specification.formulas@[fidx].formula).contains(q0));
//@             assert(!assumptions_free_of_output(self.user_guide, specification.formulas@, specification.formulas@.len() as int));
//@         }
//@         if exists|q: Predicate| preds.contains(q) && is_output(self.user_guide, q) {
//@             let q = choose|q: Predicate| preds.contains(q) && is_output(self.user_guide, q);
//@             let j = choose|j: int| 0 <= j < preds.len() && preds[j] == q;
//@             assert(overlap@.contains(preds[j]));
//@         }
//@     }
//@end

//@fn src/verifying/task/external_equivalence.rs :: impl ExternalEquivalenceTask :: fn ensure_assumptions_only_contain_input_symbols
//@ .ret r
//@ .attr #[verifier::loop_isolation(false)]
//@ .spec
//@     // C11: refused iff some assumption mentions a predicate that is neither one of the given extra input symbols nor declared input
//@     ensures r is Ok <==> assumptions_input_only(self.user_guide, program_input_symbols@, formulas@, formulas@.len() as int),
//@ .loop 1 as it
//@     invariant
//@         it.seq().len() == formulas@.len(), forall|j: int| 0 <= j < formulas@.len() ==> *it.seq()[j] == formulas@[j],
//@         assumptions_input_only(self.user_guide, program_input_symbols@, formulas@, it.index@ as int),
//@ .hint after "let predicates = formula.formula.predicates();"
//@     proof {
//@         assert forall|a: Seq<Predicate>, b: Seq<Predicate>, x: Predicate| #[trigger] seq_extend(a, b).contains(x) == (a.contains(x) || b.contains(x)) by { lemma_seq_extend_contains_e(a, b, x); }
//@         assert forall|x: Predicate| input_symbols@.contains(x) == (program_input_symbols@.contains(x) || is_input(self.user_guide, x)) by {}
//@         assert forall|i: int| 0 <= i < predicates@.len() implies predicates@.contains(#[trigger] predicates@[i]) by {}
//@     }
//@end

//@fn src/verifying/task/external_equivalence.rs :: impl ExternalEquivalenceTask :: fn ensure_valid_formula_representation
//@ .ret r
//@ .spec
//@     ensures r is Ok <==> self.formula_representation == FormulaRepresentation::TauStar,
//@end

//@fn src/verifying/task/external_equivalence.rs :: impl ExternalEquivalenceTask :: fn ensure_specification_roles_are_supported
//@ .ret r
//@ .spec
//@     ensures r is Ok <==> roles_supported(formulas@, formulas@.len() as int),
//@ .loop 1 as it
//@     invariant
//@         it.seq().len() == formulas@.len(), forall|j: int| 0 <= j < formulas@.len() ==> *it.seq()[j] == formulas@[j],
//@         roles_supported(formulas@, it.index@ as int),
//@end

//@fn src/verifying/task/external_equivalence.rs :: impl ExternalEquivalenceTask :: fn ensure_placeholder_name_uniqueness
//@ .ret r
//@ .spec
//@     ensures
//@         // C11: refused iff some name is declared as a placeholder with two sorts
//@         r is Ok <==> !name_clash(spec_placeholders(self.user_guide.entries@, self.user_guide.entries@.len() as int),
//@                                  spec_placeholders(self.user_guide.entries@, self.user_guide.entries@.len() as int).len() as int),
//@ .hint before "let mut names = IndexSet::new();"
//@     let ghost ps = placeholders@;
//@ .hint before "if names.contains(&p.name)"
//@     let ghost idx = it.index@ as int;
//@     let ghost names0 = names@;
//@     proof { assert(p == ps[idx]); }
//@ .hint before "return Err("
//@     proof {
//@         let i = choose|i: int| 0 <= i < idx && #[trigger] ps[i].name == p.name;
//@         assert(ps[i].name@ == ps[idx].name@);
//@         assert(name_clash(ps, ps.len() as int));
//@     }
//@ .hint after "names.insert(p.name);"
//@     proof {
//@         assert forall|x: String| names@.contains(x) == (names0.contains(x) || x == ps[idx].name) by { lemma_seq_insert_contains(names0, ps[idx].name, x); }
//@         assert forall|x: String| names@.contains(x) implies exists|i: int| 0 <= i < idx + 1 && #[trigger] ps[i].name == x by {
//@             if names0.contains(x) { let i = choose|i: int| 0 <= i < idx && #[trigger] ps[i].name == x; assert(0 <= i < idx + 1 && ps[i].name == x); }
//@             else { assert(0 <= idx < idx + 1 && ps[idx].name == x); }
//@         }
//@         assert(!name_clash(ps, idx + 1)) by {
//@             if name_clash(ps, idx + 1) {
//@                 let (i, j) = choose|i: int, j: int| 0 <= i < j < idx + 1 && #[trigger] ps[i].name@ == #[trigger] ps[j].name@;
//@                 if j == idx { assert(names0.contains(ps[i].name)); assert(ps[i].name == ps[idx].name); } else { assert(name_clash(ps, idx)); }
//@             }
//@         }
//@     }
//@ .loop 1 as it
//@     invariant
//@         it.seq() == ps,
//@         ps == spec_placeholders(self.user_guide.entries@, self.user_guide.entries@.len() as int),
//@         !name_clash(ps, it.index@ as int),
//@         forall|i: int| 0 <= i < it.index@ ==> names@.contains(#[trigger] ps[i].name),
//@         forall|x: String| names@.contains(x) ==> exists|i: int| 0 <= i < it.index@ && #[trigger] ps[i].name == x,
//@end
}

// ---- C11: the checks are made, with the right arguments, before anything is emitted --------------------------
// The block of ensure_* calls of ExternalEquivalenceTask::decompose is extracted as a statement fragment (D9); the checks
// themselves are replaced by stand-ins that only record WHICH check was applied to WHICH arguments.
// T12. Vec::extend appends (the appended elements are irrelevant to the claims of this unit)
pub assume_specification<T, A: std::alloc::Allocator, I: std::iter::IntoIterator<Item = T>>[ <std::vec::Vec<T, A> as std::iter::Extend<T>>::extend ](v: &mut std::vec::Vec<T, A>, it: I)
    ensures true;

pub struct ChecksTask {
    pub specification: Either<asp::Program, Specification>,
    pub program: asp::Program,
    pub user_guide: UserGuide,
}
pub type CheckResult = Result<(), ExternalEquivalenceTaskWarning, ExternalEquivalenceTaskError>;
pub uninterp spec fn chk_disjoint(t: ChecksTask) -> bool;
pub uninterp spec fn chk_tight(t: ChecksTask, p: asp::Program) -> bool;
pub uninterp spec fn chk_no_private_recursion(t: ChecksTask, p: asp::Program, private: Seq<Predicate>) -> bool;
pub uninterp spec fn chk_heads_no_input(t: ChecksTask, p: asp::Program) -> bool;
pub uninterp spec fn chk_placeholders(t: ChecksTask) -> bool;
pub uninterp spec fn chk_assumptions_input_only(t: ChecksTask, extra: Seq<Predicate>, fs: Seq<AnnotatedFormula>) -> bool;
pub uninterp spec fn chk_spec_assumptions_no_output(t: ChecksTask, s: Specification) -> bool;
pub uninterp spec fn chk_roles(t: ChecksTask, fs: Seq<AnnotatedFormula>) -> bool;
pub uninterp spec fn spec_ug_formulas(u: UserGuide) -> Seq<AnnotatedFormula>;

impl UserGuide {
    #[verifier::external_body]
    pub fn formulas(&self) -> (r: Vec<AnnotatedFormula>) ensures r@ == spec_ug_formulas(*self) { unimplemented!() }
}
impl ChecksTask {
    #[verifier::external_body]
    fn ensure_input_and_output_predicates_are_disjoint(&self) -> (r: CheckResult) ensures r is Ok <==> chk_disjoint(*self) { unimplemented!() }
    #[verifier::external_body]
    fn ensure_program_tightness(&self, program: &asp::Program) -> (r: CheckResult) ensures r is Ok <==> chk_tight(*self, *program) { unimplemented!() }
    #[verifier::external_body]
    fn ensure_absence_of_private_recursion(&self, program: &asp::Program, private_predicates: &IndexSet<Predicate>) -> (r: CheckResult)
        ensures r is Ok <==> chk_no_private_recursion(*self, *program, private_predicates@) { unimplemented!() }
    #[verifier::external_body]
    fn ensure_rule_heads_do_not_contain_input_predicates(&self, program: &asp::Program) -> (r: CheckResult) ensures r is Ok <==> chk_heads_no_input(*self, *program) { unimplemented!() }
    #[verifier::external_body]
    fn ensure_placeholder_name_uniqueness(&self) -> (r: CheckResult) ensures r is Ok <==> chk_placeholders(*self) { unimplemented!() }
    #[verifier::external_body]
    fn ensure_assumptions_only_contain_input_symbols(&self, program_input_symbols: &IndexSet<Predicate>, formulas: &Vec<AnnotatedFormula>) -> (r: CheckResult)
        ensures r is Ok <==> chk_assumptions_input_only(*self, program_input_symbols@, formulas@) { unimplemented!() }
    #[verifier::external_body]
    fn ensure_specification_assumptions_do_not_contain_output_predicates(&self, specification: &Specification) -> (r: CheckResult)
        ensures r is Ok <==> chk_spec_assumptions_no_output(*self, *specification) { unimplemented!() }
    #[verifier::external_body]
    fn ensure_specification_roles_are_supported(&self, formulas: &Vec<AnnotatedFormula>) -> (r: CheckResult) ensures r is Ok <==> chk_roles(*self, formulas@) { unimplemented!() }

    /// C11: if the block of checks lets the task through, every documented condition was checked on the right object:
    /// both programs tight (modulo bypass, inside the check) and free of private recursion w.r.t. THEIR OWN private predicates, no input predicate in a head, ...
    fn checks_block(self, specification_private_predicates: IndexSet<Predicate>, program_private_predicates: IndexSet<Predicate>, warnings: Vec<ExternalEquivalenceTaskWarning>) -> (res: std::result::Result<(), ExternalEquivalenceTaskError>)
        ensures res is Ok ==> {
            &&& chk_disjoint(self) && chk_tight(self, self.program) && chk_no_private_recursion(self, self.program, program_private_predicates@)
            &&& chk_heads_no_input(self, self.program) && chk_placeholders(self)
            &&& chk_assumptions_input_only(self, Seq::empty(), spec_ug_formulas(self.user_guide))
            &&& match self.specification {
                    Either::Left(p) => chk_tight(self, p) && chk_no_private_recursion(self, p, specification_private_predicates@) && chk_heads_no_input(self, p),
                    Either::Right(sp) => chk_spec_assumptions_no_output(self, sp) && chk_assumptions_input_only(self, program_private_predicates@, sp.formulas@) && chk_roles(self, sp.formulas@),
                }
        },
    {
        let mut warnings = warnings;
//@stmts src/verifying/task/external_equivalence.rs :: impl Task for ExternalEquivalenceTask :: fn decompose
//@ .from "self.ensure_input_and_output_predicates_are_disjoint()?;"
//@ .until "fn head_predicate"
//@end
        Ok(())
    }
}

} // verus!
pub mod asp {
    use vstd::prelude::*;
    verus! {
    broadcast use {super::axiom_string_ext, super::axiom_vec_ext};
//@include units/asp_types.inc
    } // verus!
}
pub mod syntax_tree { pub mod asp { pub use crate::asp as mini_gringo; } pub mod fol { pub mod sigma_0 { pub use crate::*; } } }
fn main() {}
