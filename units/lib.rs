// unit `lib` — the basic syntax-tree queries every other unit relies on (carriers only)
use vstd::prelude::*;
use vstd::std_specs::iter::IteratorSpec;
verus! {
//@include spec/prelude.rs
broadcast use {axiom_string_ext, axiom_str_of, axiom_vec_ext, axiom_vec_of, axiom_display_string, axiom_display_str};
//@include spec/indexset.rs
//@include units/fol_types.inc
//@include spec/sem.rs
//@include spec/quant_lemmas.rs
//@include spec/fol_spec.rs
//@include units/fol_lib.inc
} // verus!
fn main() {}
