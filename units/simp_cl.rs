// unit `simp_cl` — C07: the classic portfolio (the rewrites within Verus' subset)
use vstd::prelude::*;
use vstd::std_specs::iter::IteratorSpec;
verus! {
//@include spec/prelude.rs
broadcast use {axiom_string_ext, axiom_str_ext, axiom_str_of, axiom_vec_ext, axiom_vec_of, axiom_display_string, axiom_display_str};
//@include spec/indexset.rs
//@include units/fol_types.inc
//@include spec/sem.rs
//@include spec/quant_lemmas.rs
//@include spec/fol_spec.rs
//@include units/fol_lib.inc
//@include spec/core_lemmas.rs
//@include spec/fvlink_lemmas.rs
//@include spec/block_lemmas.rs
//@include units/unbox.inc
//@include spec/simp_spec.rs
//@include spec/scope_lemmas.rs

//@fn src/simplifying/fol/sigma_0/classic.rs :: fn remove_double_negation
//@ .ret r
//@ .spec
//@     ensures preserves_cl(r, formula),     // not an HT equivalence: the contract is classical only
//@ .hint before "match formula.unbox()"
//@     proof { reveal_with_fuel(cl_sat, 3); reveal_with_fuel(fv, 3); }
//@end

//@fn src/simplifying/fol/sigma_0/classic.rs :: mod unstable :: fn extend_quantifier_scope
//@ .ret r
//@ .spec
//@     ensures preserves_cl(r, formula),
//@ .hint before "match formula.clone().unbox()"
//@     proof {
//@         reveal_with_fuel(cl_sat, 3); reveal_with_fuel(fv, 3);
//@         assert forall|q: Quantifier, v: Vec<Variable>, f: Formula, g: Formula, c: BinaryConnective| is_and_or(c) && no_collision(v@, g) implies
//@             #[trigger] preserves_cl(Formula::QuantifiedFormula { quantification: Quantification { quantifier: q, variables: v }, formula: Box::new(Formula::BinaryFormula { connective: c, lhs: Box::new(f), rhs: Box::new(g) }) },
//@                                     Formula::BinaryFormula { connective: c, lhs: Box::new(Formula::QuantifiedFormula { quantification: Quantification { quantifier: q, variables: v }, formula: Box::new(f) }), rhs: Box::new(g) }) by { lemma_scope_left(q, v, f, g, c); }
//@         assert forall|q: Quantifier, v: Vec<Variable>, f: Formula, g: Formula, c: BinaryConnective| is_and_or(c) && no_collision(v@, g) implies
//@             #[trigger] preserves_cl(Formula::QuantifiedFormula { quantification: Quantification { quantifier: q, variables: v }, formula: Box::new(Formula::BinaryFormula { connective: c, lhs: Box::new(g), rhs: Box::new(f) }) },
//@                                     Formula::BinaryFormula { connective: c, lhs: Box::new(g), rhs: Box::new(Formula::QuantifiedFormula { quantification: Quantification { quantifier: q, variables: v }, formula: Box::new(f) }) }) by { lemma_scope_right(q, v, f, g, c); }
//@     }
//@ .loop 1 as it
//@     invariant
//@         it.seq().len() == variables@.len(), forall|j: int| 0 <= j < variables@.len() ==> *it.seq()[j] == variables@[j],
//@         !collision ==> forall|i: int| 0 <= i < it.index@ ==> !fv(rhs, #[trigger] vkey(variables@[i])),
//@     ensures collision || no_collision(variables@, rhs),
//@ .hint before "if rhs.free_variables().contains(var)"
//@     proof { lemma_spec_fv(rhs, *var); }
//@ .loop 2 as it
//@     invariant
//@         it.seq().len() == variables@.len(), forall|j: int| 0 <= j < variables@.len() ==> *it.seq()[j] == variables@[j],
//@         !collision ==> forall|i: int| 0 <= i < it.index@ ==> !fv(lhs, #[trigger] vkey(variables@[i])),
//@     ensures collision || no_collision(variables@, lhs),
//@ .hint before "if lhs.free_variables().contains(var)"
//@     proof { lemma_spec_fv(lhs, *var); }
//@end

} // verus!
fn main() {}
