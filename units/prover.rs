// unit `prover` — C10: status word map and the success aggregation of `verify`
use vstd::prelude::*;
use vstd::std_specs::iter::IteratorSpec;
verus! {
//@include spec/prelude.rs
broadcast use {axiom_string_ext, axiom_str_ext, axiom_str_of, axiom_vec_ext, axiom_vec_of, axiom_display_string, axiom_display_str};

//@type src/verifying/prover/mod.rs :: enum Success
//@type src/verifying/prover/mod.rs :: enum Failure
//@type src/verifying/prover/mod.rs :: enum Status
// thiserror-derived error type: variants copied by the extractor, Display/Error impls dropped
//@type src/verifying/prover/mod.rs :: enum StatusExtractionError
//@helpers src/verifying/prover/mod.rs :: impl Status
//@helpers src/verifying/prover/mod.rs :: impl Success
//@helpers src/verifying/prover/mod.rs :: impl Failure

// ---------------------------------------------------------------------------------------------
// C10 (a): the SZS status word -> Status map.  The regex capture that yields `status` is outside
// Verus' reach (regex crate); the match on the captured word is the real code (fragment, D9).
pub open spec fn spec_status_of_word(w: Seq<char>) -> Option<Status> {
    if w == "Theorem"@ { Some(Status::Success(Success::Theorem)) }
    else if w == "CounterSatisfiable"@ { Some(Status::Success(Success::CounterSatisfiable)) }
    else if w == "ContradictoryAxioms"@ { Some(Status::Success(Success::ContradictoryAxioms)) }
    else if w == "Timeout"@ { Some(Status::Failure(Failure::TimeOut)) }
    else if w == "MemoryOut"@ { Some(Status::Failure(Failure::MemoryOut)) }
    else if w == "GaveUp"@ { Some(Status::Failure(Failure::GaveUp)) }
    else if w == "Error"@ { Some(Status::Failure(Failure::Error)) }
    else { None }
}

pub proof fn reveal_status_words()
    ensures
        "Theorem"@ != "CounterSatisfiable"@, "Theorem"@ != "ContradictoryAxioms"@, "Theorem"@ != "Timeout"@,
        "Theorem"@ != "MemoryOut"@, "Theorem"@ != "GaveUp"@, "Theorem"@ != "Error"@,
{
    reveal_strlit("Theorem"); reveal_strlit("CounterSatisfiable"); reveal_strlit("ContradictoryAxioms");
    reveal_strlit("Timeout"); reveal_strlit("MemoryOut"); reveal_strlit("GaveUp"); reveal_strlit("Error");
    assert("Theorem"@.len() == 7);
    assert("CounterSatisfiable"@.len() == 18);
    assert("ContradictoryAxioms"@.len() == 19);
    assert("MemoryOut"@.len() == 9);
    assert("GaveUp"@.len() == 6);
    assert("Error"@.len() == 5);
    assert("Theorem"@[1] == 'h');
    assert("Timeout"@[1] == 'i');
}

impl Status {
    fn status_of_word(status: &str) -> (r: Result<Status, StatusExtractionError>)
        ensures
            match spec_status_of_word(status@) {
                Some(st) => r == Ok::<Status, StatusExtractionError>(st),
                None => r is Err,
            },
            // the only word that yields Theorem is "Theorem"
            (r == Ok::<Status, StatusExtractionError>(Status::Success(Success::Theorem))) == (status@ == "Theorem"@),
    {
        proof { reveal_status_words(); }
//@stmts src/verifying/prover/mod.rs :: impl FromStr for Status :: fn from_str
//@ .from "match status {"
//@ .to_end
//@end
    }
}

// ---------------------------------------------------------------------------------------------
// C10 (b): the success flag of `verify`.  `prove_all`, the report type and the error types are
// stand-ins with ASSUMED contracts (thread pool / process spawning are outside both verifiers):
// prove_all yields some sequence of results; report.status() is a function of the report.
pub struct ProblemStub { pub name: String }
pub struct OutputStub { pub stdout: String, pub stderr: String }
pub struct DurationStub { pub ms: u128 }
impl DurationStub { #[verifier::external_body] pub fn as_millis(&self) -> u128 { unimplemented!() } }
pub struct ReportStub { pub problem: ProblemStub, pub output: OutputStub, pub elapsed_time: DurationStub, pub st: Option<Status> }
pub struct ProverError {}
pub struct ProverStub {}
pub struct ProblemsStub {}

impl ReportStub {
    pub open spec fn spec_status(&self) -> Option<Status> { self.st }
    #[verifier::external_body]
    pub fn status(&self) -> (r: Result<Status, StatusExtractionError>)
        ensures match self.spec_status() { Some(s) => r == Ok::<Status, StatusExtractionError>(s), None => r is Err }
    { unimplemented!() }
}

pub uninterp spec fn spec_results(p: ProverStub, ps: ProblemsStub) -> Seq<Result<ReportStub, ProverError>>;
impl ProverStub {
    #[verifier::external_body]
    pub fn prove_all(&self, problems: ProblemsStub) -> (r: Vec<Result<ReportStub, ProverError>>)
        ensures r@ == spec_results(*self, problems)
    { unimplemented!() }
}

/// a run counts as proven iff the prover produced a report whose SZS status is Theorem
pub open spec fn proven(r: Result<ReportStub, ProverError>) -> bool {
    match r {
        Ok(report) => report.spec_status() == Some(Status::Success(Success::Theorem)),
        Err(_) => false,
    }
}
pub open spec fn all_proven(rs: Seq<Result<ReportStub, ProverError>>, n: int) -> bool {
    forall|i: int| 0 <= i < n ==> #[trigger] proven(rs[i])
}

pub proof fn lemma_all_proven_step(rs: Seq<Result<ReportStub, ProverError>>, i: int)
    requires 0 <= i < rs.len(),
    ensures all_proven(rs, i + 1) == (all_proven(rs, i) && proven(rs[i])),
{
    if all_proven(rs, i) && proven(rs[i]) {
        assert forall|j: int| 0 <= j < i + 1 implies #[trigger] proven(rs[j]) by { if j < i { } }
    }
    if all_proven(rs, i + 1) {
        assert(proven(rs[i]));
        assert forall|j: int| 0 <= j < i implies #[trigger] proven(rs[j]) by { }
    }
}

fn verdict(prover: ProverStub, problems: ProblemsStub, no_timing: bool) -> (success: bool)
    ensures success == all_proven(spec_results(prover, problems), spec_results(prover, problems).len() as int),
{
//@stmts src/command_line/procedures.rs :: fn main
//@ .from "let mut success = true;"
//@ .until "if success {"
//@ .drop print
//@ .loop 1 as it
//@     invariant
//@         it.seq() == spec_results(prover, problems),
//@         success == all_proven(spec_results(prover, problems), it.index@ as int),
//@ .hint before "match result {"
//@     proof {
//@         assert(result == spec_results(prover, problems)[it.index@ as int]);
//@         lemma_all_proven_step(spec_results(prover, problems), it.index@ as int);
//@     }
//@end
    success
}

} // verus!
fn main() {}
