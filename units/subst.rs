// unit `subst` — C17: substitution of a term for a variable never captures variables
use vstd::prelude::*;
use vstd::std_specs::iter::IteratorSpec;
verus! {
//@include spec/prelude.rs
broadcast use {axiom_string_ext, axiom_str_ext, axiom_str_of, axiom_vec_ext, axiom_vec_of, axiom_display_string, axiom_display_str};
//@include spec/indexset.rs
//@include units/fol_types.inc
//@include spec/sem.rs
//@include spec/quant_lemmas.rs
//@include spec/fol_spec.rs
//@include units/fol_lib.inc
//@include spec/core_lemmas.rs
//@include spec/fvlink_lemmas.rs
//@include spec/block_lemmas.rs
//@include spec/subst_lemmas.rs
//@include spec/subst_formula_lemmas.rs
//@include spec/subst_loop_lemmas.rs

impl IntegerTerm {
//@fn src/syntax_tree/fol/sigma_0.rs :: impl IntegerTerm :: fn substitute
//@ .ret r
//@ .spec
//@     ensures r == ssub_int(self, var, term),
//@     decreases self,
//@end
}
impl SymbolicTerm {
//@fn src/syntax_tree/fol/sigma_0.rs :: impl SymbolicTerm :: fn substitute
//@ .ret r
//@ .spec
//@     ensures r == ssub_sym(self, var, term),
//@end
}
impl GeneralTerm {
//@fn src/syntax_tree/fol/sigma_0.rs :: impl GeneralTerm :: fn substitute
//@ .ret r
//@ .spec
//@     requires sort_ok(var, term),          // under it the two panic! arms are unreachable
//@     ensures r == ssub_gen(self, var, term),
//@end
}
impl vstd::std_specs::convert::FromSpecImpl<Variable> for GeneralTerm {
    open spec fn obeys_from_spec() -> bool { true }
    open spec fn from_spec(v: Variable) -> GeneralTerm { var_term(v) }
}
impl From<Variable> for GeneralTerm {
//@fn src/syntax_tree/fol/sigma_0.rs :: impl From<Variable> for GeneralTerm :: fn from
//@ .ret r
//@ .spec
//@     ensures r == var_term(variable),
//@end
}
impl Atom {
//@fn src/syntax_tree/fol/sigma_0.rs :: impl Atom :: fn substitute
//@ .ret r
//@ .spec
//@     requires sort_ok(var, term),
//@     ensures r.predicate_symbol == self.predicate_symbol, r.terms@ == ssub_terms(self.terms@, var, term),
//@ .loop 1 as it
//@     invariant
//@         sort_ok(var, term),
//@         it.seq() == self.terms@,
//@         0 <= it.index@ <= self.terms@.len(),
//@         terms@ =~= ssub_terms(self.terms@, var, term).take(it.index@ as int),
//@ .hint before "Atom {"
//@     proof { assert(ssub_terms(self.terms@, var, term).take(self.terms@.len() as int) =~= ssub_terms(self.terms@, var, term)); }
//@end
}
impl Comparison {
//@fn src/syntax_tree/fol/sigma_0.rs :: impl Comparison :: fn substitute
//@ .ret r
//@ .spec
//@     requires sort_ok(var, term),
//@     ensures r.term == ssub_gen(self.term, var, term), r.guards@ == ssub_guards(self.guards@, var, term),
//@ .loop 1 as it
//@     invariant
//@         sort_ok(var, term),
//@         it.seq() == self.guards@,
//@         0 <= it.index@ <= self.guards@.len(),
//@         guards@ =~= ssub_guards(self.guards@, var, term).take(it.index@ as int),
//@ .hint before "Comparison { term: lhs, guards }"
//@     proof { assert(ssub_guards(self.guards@, var, term).take(self.guards@.len() as int) =~= ssub_guards(self.guards@, var, term)); }
//@end
}
impl AtomicFormula {
//@fn src/syntax_tree/fol/sigma_0.rs :: impl AtomicFormula :: fn substitute
//@ .ret r
//@ .spec
//@     requires sort_ok(var, term),
//@     ensures r == ssub_atomic(self, var, term),
//@end
}

// T7. slice::contains over a type whose (derived) PartialEq is structural equality
pub assume_specification<T: PartialEq>[ <[T]>::contains ](s: &[T], x: &T) -> (b: bool)
    ensures b == s@.contains(*x);

impl Formula {
//@fn src/syntax_tree/fol/sigma_0.rs :: impl Formula :: fn substitute
//@ .ret r
//@ .attr #[verifier::loop_isolation(false)]
//@ .fresh_search
//@ .spec
//@     requires sort_ok(var, term),
//@     ensures subst_ht(r, self, var, term),
//@     decreases fsize(self),
//@ .hint before "match self {"
//@     proof {
//@         assert forall|a: AtomicFormula| #[trigger] subst_ht(Formula::AtomicFormula(ssub_atomic(a, var, term)), Formula::AtomicFormula(a), var, term) by {
//@             lemma_subst_atomic(a, var, term);
//@         }
//@         assert forall|c: UnaryConnective, g: Formula, r1: Formula| subst_ht(r1, g, var, term) implies
//@             #[trigger] subst_ht(Formula::UnaryFormula { connective: c, formula: Box::new(r1) }, Formula::UnaryFormula { connective: c, formula: Box::new(g) }, var, term) by {
//@             lemma_subst_unary(c, g, r1, var, term);
//@         }
//@         assert forall|c: BinaryConnective, g1: Formula, g2: Formula, r1: Formula, r2: Formula| subst_ht(r1, g1, var, term) && subst_ht(r2, g2, var, term) implies
//@             #[trigger] subst_ht(Formula::BinaryFormula { connective: c, lhs: Box::new(r1), rhs: Box::new(r2) },
//@                                 Formula::BinaryFormula { connective: c, lhs: Box::new(g1), rhs: Box::new(g2) }, var, term) by {
//@             lemma_subst_binary(c, g1, g2, r1, r2, var, term);
//@         }
//@         if self is QuantifiedFormula {
//@             lemma_contains_bound(self->QuantifiedFormula_quantification.variables@, var);
//@             if bound_by(self->QuantifiedFormula_quantification.variables@, vkey(var)) { lemma_subst_blocked(self, var, term); }
//@         }
//@     }
//@ .hint before "let mut formula = *formula;"
//@     let ghost f0 = *formula;
//@     let ghost xs = quantification.variables@;
//@     let ghost qq = quantification.quantifier;
//@     proof { lemma_loop_init(qq, xs, f0, var, term); }
//@ .loop 1 as it
//@     invariant
//@         sort_ok(var, term),
//@         self matches Formula::QuantifiedFormula { quantification: q0, formula: g0 } && q0.quantifier == qq && q0.variables@ == xs && *g0 == f0,
//@         quantification.quantifier == qq,
//@         it.seq() == xs,
//@         !bound_by(xs, vkey(var)),
//@         loop_inv(qq, xs, f0, var, term, it.index@ as int, variables@, formula),
//@ .hint before "if term_variables.contains(&variable)"
//@     let ghost i = it.index@ as int;
//@     let ghost x = variable;
//@     let ghost f_old = formula;
//@     let ghost vs_old = variables@;
//@     proof {
//@         assert(x == xs[i]);
//@         lemma_vars_gen(term, x);
//@         lemma_contains_bound(xs, var);
//@         assert(vkey(xs[i]) != vkey(var)) by { if vkey(xs[i]) == vkey(var) { assert(bound_by(xs, vkey(var))); } }
//@         assert(fsize(f_old) < fsize(self));
//@     }
//@ .hint before "formula = formula.substitute(variable, fresh_variable.clone().into());"
//@     let ghost y = fresh_variable;
//@     proof {
//@         lemma_vars_gen(term, y);
//@         lemma_spec_fv(f0, y);
//@         lemma_contains_bound(vs_old, y);
//@         assert(sort_ok(x, var_term(y)));
//@     }
//@ .hint after "variables.push(fresh_variable);"
//@     proof { lemma_loop_rename(qq, xs, f0, var, term, i, vs_old, f_old, y, formula); }
//@ .hint after "variables.push(variable);"
//@     proof { lemma_loop_keep(qq, xs, f0, var, term, i, vs_old, f_old); }
//@ .hint before "Formula::quantify("
//@     proof {
//@         assert forall|f2: Formula| subst_ht(f2, formula, var, term) implies #[trigger] subst_ht(spec_quantify(f2, qq, variables@), self, var, term) by {
//@             lemma_loop_final(qq, xs, f0, var, term, variables@, formula, f2, self);
//@         }
//@     }
//@end
}

/// C17 as stated: truth value (classical and here-and-there), free variables; for every formula,
/// variable and sort-compatible term — this is the postcondition of the real Formula::substitute.
pub proof fn theorem_c17(r: Formula, f: Formula, var: Variable, term: GeneralTerm)
    requires subst_ht(r, f, var, term),
    ensures
        forall|m: Interp, s: Asg| #[trigger] cl_sat(r, m, s) == cl_sat(f, m, s.insert(vkey(var), eval_gen(term, m.fc, s))),
        forall|w: World, m: HT, s: Asg| #[trigger] ht_sat(r, w, m, s) == ht_sat(f, w, m, s.insert(vkey(var), eval_gen(term, m.fc, s))),
        forall|k: VKey| fv(f, vkey(var)) ==> (#[trigger] fv(r, k) == ((fv(f, k) && k != vkey(var)) || in_gen(term, k))),
        forall|k: VKey| !fv(f, vkey(var)) ==> (#[trigger] fv(r, k) == fv(f, k)),
{
    lemma_subst_cl(r, f, var, term);
}

} // verus!
impl std::fmt::Display for GeneralTerm { fn fmt(&self, _f: &mut std::fmt::Formatter<'_>) -> std::fmt::Result { Ok(()) } }
impl std::fmt::Display for Variable { fn fmt(&self, _f: &mut std::fmt::Formatter<'_>) -> std::fmt::Result { Ok(()) } }
fn main() {}
