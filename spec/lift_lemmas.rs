// lift_lemmas.rs — C07/C18: lifting a meaning-preserving local rewrite through post-order
// application (Apply::apply), composition and fixpoint iteration.

pub open spec fn pres_ht_fn(g: spec_fn(Formula) -> Formula) -> bool {
    forall|x: Formula| #[trigger] preserves_ht(g(x), x)
}
pub open spec fn pres_cl_fn(g: spec_fn(Formula) -> Formula) -> bool {
    forall|x: Formula| #[trigger] preserves_cl(g(x), x)
}

pub proof fn lemma_preserves_ht_trans(a: Formula, b: Formula, c: Formula)
    requires preserves_ht(a, b), preserves_ht(b, c),
    ensures preserves_ht(a, c),
{
    assert forall|w: World, m: HT, s: Asg| ht_wf(m) implies #[trigger] ht_sat(a, w, m, s) == ht_sat(c, w, m, s) by {
        assert(ht_sat(a, w, m, s) == ht_sat(b, w, m, s));
        assert(ht_sat(b, w, m, s) == ht_sat(c, w, m, s));
    }
    assert forall|m: Interp, s: Asg| #[trigger] cl_sat(a, m, s) == cl_sat(c, m, s) by {
        assert(cl_sat(a, m, s) == cl_sat(b, m, s));
        assert(cl_sat(b, m, s) == cl_sat(c, m, s));
    }
    assert forall|k: VKey| #[trigger] fv(a, k) implies fv(c, k) by { assert(fv(b, k)); }
}

pub proof fn lemma_preserves_cl_trans(a: Formula, b: Formula, c: Formula)
    requires preserves_cl(a, b), preserves_cl(b, c),
    ensures preserves_cl(a, c),
{
    assert forall|m: Interp, s: Asg| #[trigger] cl_sat(a, m, s) == cl_sat(c, m, s) by {
        assert(cl_sat(a, m, s) == cl_sat(b, m, s));
        assert(cl_sat(b, m, s) == cl_sat(c, m, s));
    }
    assert forall|k: VKey| #[trigger] fv(a, k) implies fv(c, k) by { assert(fv(b, k)); }
}

pub proof fn lemma_preserves_refl(a: Formula)
    ensures preserves_ht(a, a), preserves_cl(a, a),
{}

/// a formula with the same top-level shape and pairwise equivalent children (HT)
pub proof fn lemma_congruence_ht(f1: Formula, f2: Formula)
    requires
        match (f1, f2) {
            (Formula::AtomicFormula(a), Formula::AtomicFormula(b)) => a == b,
            (Formula::UnaryFormula { connective: c1, formula: g1 }, Formula::UnaryFormula { connective: c2, formula: g2 }) =>
                c1 == c2 && preserves_ht(*g1, *g2),
            (Formula::BinaryFormula { connective: c1, lhs: l1, rhs: r1 }, Formula::BinaryFormula { connective: c2, lhs: l2, rhs: r2 }) =>
                c1 == c2 && preserves_ht(*l1, *l2) && preserves_ht(*r1, *r2),
            (Formula::QuantifiedFormula { quantification: q1, formula: g1 }, Formula::QuantifiedFormula { quantification: q2, formula: g2 }) =>
                q1 == q2 && preserves_ht(*g1, *g2),
            _ => false,
        },
    ensures preserves_ht(f1, f2),
{
    match (f1, f2) {
        (Formula::QuantifiedFormula { quantification: q1, formula: g1 }, Formula::QuantifiedFormula { quantification: q2, formula: g2 }) => {
            let q = q1.quantifier;
            let vars = q1.variables@;
            assert forall|w: World, m: HT, s: Asg| ht_wf(m) implies #[trigger] ht_sat(f1, w, m, s) == ht_sat(f2, w, m, s) by {
                lemma_ht_quant_pred(q, vars, *g1, w, m, s);
                lemma_ht_quant_pred(q, vars, *g2, w, m, s);
                assert forall|s2: Asg| #[trigger] ht_sat(*g1, w, m, s2) == ht_sat(*g2, w, m, s2) by {}
                lemma_quant_pred_ext(q, vars, |s2: Asg| ht_sat(*g1, w, m, s2), |s2: Asg| ht_sat(*g2, w, m, s2), s);
            }
            assert forall|m: Interp, s: Asg| #[trigger] cl_sat(f1, m, s) == cl_sat(f2, m, s) by {
                lemma_cl_quant_pred(q, vars, *g1, m, s);
                lemma_cl_quant_pred(q, vars, *g2, m, s);
                assert forall|s2: Asg| #[trigger] cl_sat(*g1, m, s2) == cl_sat(*g2, m, s2) by {}
                lemma_quant_pred_ext(q, vars, |s2: Asg| cl_sat(*g1, m, s2), |s2: Asg| cl_sat(*g2, m, s2), s);
            }
            assert forall|k: VKey| #[trigger] fv(f1, k) implies fv(f2, k) by { assert(fv(*g1, k)); }
        }
        (Formula::UnaryFormula { connective: c1, formula: g1 }, Formula::UnaryFormula { connective: c2, formula: g2 }) => {
            assert forall|w: World, m: HT, s: Asg| ht_wf(m) implies #[trigger] ht_sat(f1, w, m, s) == ht_sat(f2, w, m, s) by {
                assert(ht_sat(*g1, w, m, s) == ht_sat(*g2, w, m, s));
                assert(ht_sat(*g1, World::There, m, s) == ht_sat(*g2, World::There, m, s));
            }
            assert forall|m: Interp, s: Asg| #[trigger] cl_sat(f1, m, s) == cl_sat(f2, m, s) by {
                assert(cl_sat(*g1, m, s) == cl_sat(*g2, m, s));
            }
            assert forall|k: VKey| #[trigger] fv(f1, k) implies fv(f2, k) by { assert(fv(*g1, k)); }
        }
        (Formula::BinaryFormula { connective: c1, lhs: l1, rhs: r1 }, Formula::BinaryFormula { connective: c2, lhs: l2, rhs: r2 }) => {
            assert forall|w: World, m: HT, s: Asg| ht_wf(m) implies #[trigger] ht_sat(f1, w, m, s) == ht_sat(f2, w, m, s) by {
                assert(ht_sat(*l1, w, m, s) == ht_sat(*l2, w, m, s));
                assert(ht_sat(*l1, World::There, m, s) == ht_sat(*l2, World::There, m, s));
                assert(ht_sat(*r1, w, m, s) == ht_sat(*r2, w, m, s));
                assert(ht_sat(*r1, World::There, m, s) == ht_sat(*r2, World::There, m, s));
            }
            assert forall|m: Interp, s: Asg| #[trigger] cl_sat(f1, m, s) == cl_sat(f2, m, s) by {
                assert(cl_sat(*l1, m, s) == cl_sat(*l2, m, s));
                assert(cl_sat(*r1, m, s) == cl_sat(*r2, m, s));
            }
            assert forall|k: VKey| #[trigger] fv(f1, k) implies fv(f2, k) by {
                if fv(*l1, k) { assert(fv(*l2, k)); } else { assert(fv(*r1, k)); assert(fv(*r2, k)); }
            }
        }
        _ => {}
    }
}

/// the same for rewrites that are only classically valid
pub proof fn lemma_congruence_cl(f1: Formula, f2: Formula)
    requires
        match (f1, f2) {
            (Formula::AtomicFormula(a), Formula::AtomicFormula(b)) => a == b,
            (Formula::UnaryFormula { connective: c1, formula: g1 }, Formula::UnaryFormula { connective: c2, formula: g2 }) =>
                c1 == c2 && preserves_cl(*g1, *g2),
            (Formula::BinaryFormula { connective: c1, lhs: l1, rhs: r1 }, Formula::BinaryFormula { connective: c2, lhs: l2, rhs: r2 }) =>
                c1 == c2 && preserves_cl(*l1, *l2) && preserves_cl(*r1, *r2),
            (Formula::QuantifiedFormula { quantification: q1, formula: g1 }, Formula::QuantifiedFormula { quantification: q2, formula: g2 }) =>
                q1 == q2 && preserves_cl(*g1, *g2),
            _ => false,
        },
    ensures preserves_cl(f1, f2),
{
    match (f1, f2) {
        (Formula::QuantifiedFormula { quantification: q1, formula: g1 }, Formula::QuantifiedFormula { quantification: q2, formula: g2 }) => {
            let q = q1.quantifier;
            let vars = q1.variables@;
            assert forall|m: Interp, s: Asg| #[trigger] cl_sat(f1, m, s) == cl_sat(f2, m, s) by {
                lemma_cl_quant_pred(q, vars, *g1, m, s);
                lemma_cl_quant_pred(q, vars, *g2, m, s);
                assert forall|s2: Asg| #[trigger] cl_sat(*g1, m, s2) == cl_sat(*g2, m, s2) by {}
                lemma_quant_pred_ext(q, vars, |s2: Asg| cl_sat(*g1, m, s2), |s2: Asg| cl_sat(*g2, m, s2), s);
            }
            assert forall|k: VKey| #[trigger] fv(f1, k) implies fv(f2, k) by { assert(fv(*g1, k)); }
        }
        (Formula::UnaryFormula { connective: c1, formula: g1 }, Formula::UnaryFormula { connective: c2, formula: g2 }) => {
            assert forall|m: Interp, s: Asg| #[trigger] cl_sat(f1, m, s) == cl_sat(f2, m, s) by {
                assert(cl_sat(*g1, m, s) == cl_sat(*g2, m, s));
            }
            assert forall|k: VKey| #[trigger] fv(f1, k) implies fv(f2, k) by { assert(fv(*g1, k)); }
        }
        (Formula::BinaryFormula { connective: c1, lhs: l1, rhs: r1 }, Formula::BinaryFormula { connective: c2, lhs: l2, rhs: r2 }) => {
            assert forall|m: Interp, s: Asg| #[trigger] cl_sat(f1, m, s) == cl_sat(f2, m, s) by {
                assert(cl_sat(*l1, m, s) == cl_sat(*l2, m, s));
                assert(cl_sat(*r1, m, s) == cl_sat(*r2, m, s));
            }
            assert forall|k: VKey| #[trigger] fv(f1, k) implies fv(f2, k) by {
                if fv(*l1, k) { assert(fv(*l2, k)); } else { assert(fv(*r1, k)); assert(fv(*r2, k)); }
            }
        }
        _ => {}
    }
}

/// the node rebuilt by `apply` before the operation is applied to it
pub open spec fn sapply_inner(f: Formula, g: spec_fn(Formula) -> Formula) -> Formula {
    match f {
        Formula::AtomicFormula(a) => f,
        Formula::UnaryFormula { connective, formula } =>
            Formula::UnaryFormula { connective, formula: Box::new(sapply(*formula, g)) },
        Formula::BinaryFormula { connective, lhs, rhs } =>
            Formula::BinaryFormula { connective, lhs: Box::new(sapply(*lhs, g)), rhs: Box::new(sapply(*rhs, g)) },
        Formula::QuantifiedFormula { quantification, formula } =>
            Formula::QuantifiedFormula { quantification, formula: Box::new(sapply(*formula, g)) },
    }
}

/// C07 (recursive strategy): post-order application of a meaning-preserving operation preserves meaning
pub proof fn lemma_sapply_preserves_ht(f: Formula, g: spec_fn(Formula) -> Formula)
    requires pres_ht_fn(g),
    ensures preserves_ht(sapply(f, g), f),
    decreases f,
{
    let inner = sapply_inner(f, g);
    assert(sapply(f, g) == g(inner));
    match f {
        Formula::AtomicFormula(a) => {}
        Formula::UnaryFormula { connective, formula } => { lemma_sapply_preserves_ht(*formula, g); }
        Formula::BinaryFormula { connective, lhs, rhs } => { lemma_sapply_preserves_ht(*lhs, g); lemma_sapply_preserves_ht(*rhs, g); }
        Formula::QuantifiedFormula { quantification, formula } => { lemma_sapply_preserves_ht(*formula, g); }
    }
    lemma_congruence_ht(inner, f);
    assert(preserves_ht(g(inner), inner));
    lemma_preserves_ht_trans(g(inner), inner, f);
}

pub proof fn lemma_sapply_preserves_cl(f: Formula, g: spec_fn(Formula) -> Formula)
    requires pres_cl_fn(g),
    ensures preserves_cl(sapply(f, g), f),
    decreases f,
{
    let inner = sapply_inner(f, g);
    assert(sapply(f, g) == g(inner));
    match f {
        Formula::AtomicFormula(a) => {}
        Formula::UnaryFormula { connective, formula } => { lemma_sapply_preserves_cl(*formula, g); }
        Formula::BinaryFormula { connective, lhs, rhs } => { lemma_sapply_preserves_cl(*lhs, g); lemma_sapply_preserves_cl(*rhs, g); }
        Formula::QuantifiedFormula { quantification, formula } => { lemma_sapply_preserves_cl(*formula, g); }
    }
    lemma_congruence_cl(inner, f);
    assert(preserves_cl(g(inner), inner));
    lemma_preserves_cl_trans(g(inner), inner, f);
}

/// composition (portfolio = f_n o ... o f_1) of meaning-preserving operations preserves meaning
pub open spec fn compose_seq(fs: Seq<spec_fn(Formula) -> Formula>, x: Formula) -> Formula
    decreases fs.len(),
{
    if fs.len() == 0 { x } else { fs.last()(compose_seq(fs.drop_last(), x)) }
}

pub proof fn lemma_compose_preserves_ht(fs: Seq<spec_fn(Formula) -> Formula>, x: Formula)
    requires forall|i: int| 0 <= i < fs.len() ==> pres_ht_fn(#[trigger] fs[i]),
    ensures preserves_ht(compose_seq(fs, x), x),
    decreases fs.len(),
{
    if fs.len() > 0 {
        let pre = fs.drop_last();
        assert forall|i: int| 0 <= i < pre.len() implies pres_ht_fn(#[trigger] pre[i]) by { assert(pre[i] == fs[i]); }
        lemma_compose_preserves_ht(pre, x);
        let y = compose_seq(pre, x);
        assert(pres_ht_fn(fs[fs.len() - 1]));
        assert(preserves_ht(fs.last()(y), y));
        lemma_preserves_ht_trans(fs.last()(y), y, x);
    }
}

pub proof fn lemma_compose_preserves_cl(fs: Seq<spec_fn(Formula) -> Formula>, x: Formula)
    requires forall|i: int| 0 <= i < fs.len() ==> pres_cl_fn(#[trigger] fs[i]),
    ensures preserves_cl(compose_seq(fs, x), x),
    decreases fs.len(),
{
    if fs.len() > 0 {
        let pre = fs.drop_last();
        assert forall|i: int| 0 <= i < pre.len() implies pres_cl_fn(#[trigger] pre[i]) by { assert(pre[i] == fs[i]); }
        lemma_compose_preserves_cl(pre, x);
        let y = compose_seq(pre, x);
        assert(pres_cl_fn(fs[fs.len() - 1]));
        assert(preserves_cl(fs.last()(y), y));
        lemma_preserves_cl_trans(fs.last()(y), y, x);
    }
}
