// evalcmp_lemmas.rs — C07: evaluate_comparisons (chains evaluated link by link)

pub proof fn lemma_sym_lt_irrefl(a: Seq<char>)
    ensures !sym_lt(a, a),
    decreases a.len(),
{
    if a.len() > 0 { lemma_sym_lt_irrefl(a.drop_first()); }
}

pub proof fn lemma_val_lt_irrefl(a: Val)
    ensures !val_lt(a, a),
{
    match a { Val::Sym(x) => { lemma_sym_lt_irrefl(x); } _ => {} }
}

pub open spec fn prev_term(term: GeneralTerm, gs: Seq<Guard>, i: int) -> GeneralTerm {
    if i <= 0 { term } else { gs[i - 1].term }
}

pub open spec fn link_holds(term: GeneralTerm, gs: Seq<Guard>, i: int, fc: spec_fn(Seq<char>, Sort) -> Val, s: Asg) -> bool {
    rel_holds(gs[i].relation, eval_gen(prev_term(term, gs, i), fc, s), eval_gen(gs[i].term, fc, s))
}

pub open spec fn atomic_val(a: AtomicFormula, fc: spec_fn(Seq<char>, Sort) -> Val, s: Asg) -> bool {
    match a {
        AtomicFormula::Truth => true,
        AtomicFormula::Falsity => false,
        AtomicFormula::Comparison(c) => sat_comparison(c, fc, s),
        AtomicFormula::Atom(_) => false,
    }
}

/// the i-th emitted formula is a predicate-free atomic formula equivalent to the i-th link of the chain
pub open spec fn elem_ok(f: Formula, term: GeneralTerm, gs: Seq<Guard>, i: int) -> bool {
    &&& f matches Formula::AtomicFormula(a)
    &&& !(a is Atom)
    &&& forall|fc: spec_fn(Seq<char>, Sort) -> Val, s: Asg| #[trigger] atomic_val(a, fc, s) == link_holds(term, gs, i, fc, s)
    &&& forall|k: VKey| #[trigger] in_atomic(a, k) ==> in_gen(prev_term(term, gs, i), k) || in_gen(gs[i].term, k)
}

pub proof fn lemma_chain(prev: Val, term: GeneralTerm, gs: Seq<Guard>, i: int, fc: spec_fn(Seq<char>, Sort) -> Val, s: Asg)
    requires 0 <= i <= gs.len(), prev == eval_gen(prev_term(term, gs, i), fc, s),
    ensures sat_guards(prev, gs, i, fc, s) == (forall|j: int| i <= j < gs.len() ==> #[trigger] link_holds(term, gs, j, fc, s)),
    decreases gs.len() - i,
{
    if i < gs.len() {
        let cur = eval_gen(gs[i].term, fc, s);
        lemma_chain(cur, term, gs, i + 1, fc, s);
        if sat_guards(prev, gs, i, fc, s) {
            assert forall|j: int| i <= j < gs.len() implies #[trigger] link_holds(term, gs, j, fc, s) by {
                if j == i { } else { }
            }
        }
        if forall|j: int| i <= j < gs.len() ==> #[trigger] link_holds(term, gs, j, fc, s) {
            assert(link_holds(term, gs, i, fc, s));
        }
    }
}

/// the conjunction of formulas that are link-wise equivalent to the chain is equivalent to the chain
pub proof fn lemma_eval_comparisons(fs: Seq<Formula>, c: Comparison)
    requires
        fs.len() == c.guards@.len(),
        forall|i: int| 0 <= i < fs.len() ==> #[trigger] elem_ok(fs[i], c.term, c.guards@, i),
    ensures preserves_ht(spec_conjoin(fs), Formula::AtomicFormula(AtomicFormula::Comparison(c))),
{
    let orig = Formula::AtomicFormula(AtomicFormula::Comparison(c));
    let r = spec_conjoin(fs);
    let gs = c.guards@;
    assert forall|w: World, m: HT, s: Asg| ht_wf(m) implies #[trigger] ht_sat(r, w, m, s) == ht_sat(orig, w, m, s) by {
        lemma_conjoin_ht(fs, w, m, s);
        lemma_chain(eval_gen(c.term, m.fc, s), c.term, gs, 0, m.fc, s);
        if ht_sat(r, w, m, s) {
            assert forall|j: int| 0 <= j < gs.len() implies #[trigger] link_holds(c.term, gs, j, m.fc, s) by {
                assert(elem_ok(fs[j], c.term, gs, j));
                assert(ht_sat(fs[j], w, m, s));
                let a = fs[j]->AtomicFormula_0;
                assert(atomic_val(a, m.fc, s) == link_holds(c.term, gs, j, m.fc, s));
            }
        }
        if ht_sat(orig, w, m, s) {
            assert forall|j: int| 0 <= j < fs.len() implies #[trigger] ht_sat(fs[j], w, m, s) by {
                assert(elem_ok(fs[j], c.term, gs, j));
                assert(link_holds(c.term, gs, j, m.fc, s));
                let a = fs[j]->AtomicFormula_0;
                assert(atomic_val(a, m.fc, s) == link_holds(c.term, gs, j, m.fc, s));
            }
        }
    }
    assert forall|m: Interp, s: Asg| #[trigger] cl_sat(r, m, s) == cl_sat(orig, m, s) by {
        lemma_conjoin_cl(fs, m, s);
        lemma_chain(eval_gen(c.term, m.fc, s), c.term, gs, 0, m.fc, s);
        if cl_sat(r, m, s) {
            assert forall|j: int| 0 <= j < gs.len() implies #[trigger] link_holds(c.term, gs, j, m.fc, s) by {
                assert(elem_ok(fs[j], c.term, gs, j));
                assert(cl_sat(fs[j], m, s));
                let a = fs[j]->AtomicFormula_0;
                assert(atomic_val(a, m.fc, s) == link_holds(c.term, gs, j, m.fc, s));
            }
        }
        if cl_sat(orig, m, s) {
            assert forall|j: int| 0 <= j < fs.len() implies #[trigger] cl_sat(fs[j], m, s) by {
                assert(elem_ok(fs[j], c.term, gs, j));
                assert(link_holds(c.term, gs, j, m.fc, s));
                let a = fs[j]->AtomicFormula_0;
                assert(atomic_val(a, m.fc, s) == link_holds(c.term, gs, j, m.fc, s));
            }
        }
    }
    assert forall|k: VKey| #[trigger] fv(r, k) implies fv(orig, k) by {
        lemma_conjoin_fv(fs, k);
        let i = choose|i: int| 0 <= i < fs.len() && #[trigger] fv(fs[i], k);
        assert(elem_ok(fs[i], c.term, gs, i));
        let a = fs[i]->AtomicFormula_0;
        assert(in_atomic(a, k));
        if in_gen(gs[i].term, k) { assert(in_guards(gs, k)); }
        else if i > 0 { assert(in_gen(gs[i - 1].term, k)); assert(in_guards(gs, k)); }
    }
}

/// one link: the formula emitted for `lhs rel rhs`
pub proof fn lemma_link(f: Formula, term: GeneralTerm, gs: Seq<Guard>, i: int, lhs: GeneralTerm, rhs: GeneralTerm, relation: Relation)
    requires
        0 <= i < gs.len(), lhs == prev_term(term, gs, i), gs[i].term == rhs, gs[i].relation == relation,
        f matches Formula::AtomicFormula(a) && (if lhs == rhs {
            a == (match relation {
                Relation::Equal | Relation::GreaterEqual | Relation::LessEqual => AtomicFormula::Truth,
                Relation::NotEqual | Relation::Greater | Relation::Less => AtomicFormula::Falsity,
            })
        } else {
            a matches AtomicFormula::Comparison(c) && c.term == lhs && c.guards@.len() == 1 && c.guards@[0] == (Guard { relation, term: rhs })
        }),
    ensures elem_ok(f, term, gs, i),
{
    let a = f->AtomicFormula_0;
    assert forall|fc: spec_fn(Seq<char>, Sort) -> Val, s: Asg| #[trigger] atomic_val(a, fc, s) == link_holds(term, gs, i, fc, s) by {
        if lhs == rhs {
            lemma_val_lt_irrefl(eval_gen(lhs, fc, s));
        } else {
            reveal_with_fuel(sat_guards, 3);
        }
    }
    assert forall|k: VKey| #[trigger] in_atomic(a, k) implies in_gen(prev_term(term, gs, i), k) || in_gen(gs[i].term, k) by {
        if lhs != rhs {
            let c = a->Comparison_0;
            if in_guards(c.guards@, k) {
                let j = choose|j: int| 0 <= j < c.guards@.len() && #[trigger] in_gen(c.guards@[j].term, k);
                assert(j == 0);
            }
        }
    }
}
