// definition_lemmas.rs — C13: what an accepted definition must be, and why it is safe to use as an axiom.
// A definition `forall X (p(X) <-> F)` — p fresh, F over earlier predicates only, X exactly the arguments — is a
// CONSERVATIVE extension: every interpretation of the earlier vocabulary can be expanded by an extent for p that makes
// the definition true (lemma_definition_conservative).  Hand-written SPEC code only.

// ---- occurrence of a predicate symbol (name, arity) in a formula ------------------------------------------------------
pub open spec fn pred_in(f: Formula, n: Seq<char>, k: nat) -> bool
    decreases f,
{
    match f {
        Formula::AtomicFormula(a) => a is Atom && a->Atom_0.predicate_symbol@ == n && a->Atom_0.terms@.len() == k,
        Formula::UnaryFormula { connective, formula } => pred_in(*formula, n, k),
        Formula::BinaryFormula { connective, lhs, rhs } => pred_in(*lhs, n, k) || pred_in(*rhs, n, k),
        Formula::QuantifiedFormula { quantification, formula } => pred_in(*formula, n, k),
    }
}

pub open spec fn has_pred(ps: Seq<Predicate>, n: Seq<char>, k: nat) -> bool {
    exists|i: int| 0 <= i < ps.len() && (#[trigger] ps[i]).symbol@ == n && ps[i].arity == k
}

/// the real Formula::predicates() (== spec_preds, proved in fol_lib) lists every predicate that occurs
pub proof fn lemma_preds_cover(f: Formula, n: Seq<char>, k: nat)
    requires pred_in(f, n, k), k <= usize::MAX,
    ensures has_pred(spec_preds(f), n, k),
    decreases f,
{
    match f {
        Formula::AtomicFormula(a) => {
            let ps = spec_preds(f);
            assert(ps[0].symbol@ == n && ps[0].arity == k);
        }
        Formula::UnaryFormula { connective, formula } => { lemma_preds_cover(*formula, n, k); }
        Formula::BinaryFormula { connective, lhs, rhs } => {
            let a = spec_preds(*lhs);
            let b = spec_preds(*rhs);
            let e = seq_extend(a, b);
            if pred_in(*lhs, n, k) {
                lemma_preds_cover(*lhs, n, k);
                let i = choose|i: int| 0 <= i < a.len() && (#[trigger] a[i]).symbol@ == n && a[i].arity == k;
                lemma_seq_extend_contains(a, b, a[i]);
                assert(a.contains(a[i]));
                let j = choose|j: int| 0 <= j < e.len() && e[j] == a[i];
                assert(e[j].symbol@ == n && e[j].arity == k);
            } else {
                lemma_preds_cover(*rhs, n, k);
                let i = choose|i: int| 0 <= i < b.len() && (#[trigger] b[i]).symbol@ == n && b[i].arity == k;
                lemma_seq_extend_contains(a, b, b[i]);
                assert(b.contains(b[i]));
                let j = choose|j: int| 0 <= j < e.len() && e[j] == b[i];
                assert(e[j].symbol@ == n && e[j].arity == k);
            }
        }
        Formula::QuantifiedFormula { quantification, formula } => { lemma_preds_cover(*formula, n, k); }
    }
}

/// classical satisfaction depends only on the extents of the predicates that occur
pub open spec fn agree_preds(m1: Interp, m2: Interp, f: Formula) -> bool {
    m1.fc == m2.fc && forall|n: Seq<char>, a: Seq<Val>| pred_in(f, n, a.len()) ==> #[trigger] (m1.pred)(n, a) == (m2.pred)(n, a)
}

pub proof fn lemma_pred_coin_cl(f: Formula, m1: Interp, m2: Interp, s: Asg)
    requires agree_preds(m1, m2, f),
    ensures cl_sat(f, m1, s) == cl_sat(f, m2, s),
    decreases f,
{
    match f {
        Formula::AtomicFormula(a) => {
            if a is Atom {
                let at = a->Atom_0;
                let args = eval_terms(at.terms@, m1.fc, s);
                assert(pred_in(f, at.predicate_symbol@, args.len()));
            }
        }
        Formula::UnaryFormula { connective, formula } => { lemma_pred_coin_cl(*formula, m1, m2, s); }
        Formula::BinaryFormula { connective, lhs, rhs } => {
            assert(agree_preds(m1, m2, *lhs)) by {
                assert forall|n: Seq<char>, a: Seq<Val>| pred_in(*lhs, n, a.len()) implies #[trigger] (m1.pred)(n, a) == (m2.pred)(n, a) by { assert(pred_in(f, n, a.len())); }
            }
            assert(agree_preds(m1, m2, *rhs)) by {
                assert forall|n: Seq<char>, a: Seq<Val>| pred_in(*rhs, n, a.len()) implies #[trigger] (m1.pred)(n, a) == (m2.pred)(n, a) by { assert(pred_in(f, n, a.len())); }
            }
            lemma_pred_coin_cl(*lhs, m1, m2, s);
            lemma_pred_coin_cl(*rhs, m1, m2, s);
        }
        Formula::QuantifiedFormula { quantification, formula } => {
            let q = quantification.quantifier;
            let vars = quantification.variables@;
            assert(agree_preds(m1, m2, *formula)) by {
                assert forall|n: Seq<char>, a: Seq<Val>| pred_in(*formula, n, a.len()) implies #[trigger] (m1.pred)(n, a) == (m2.pred)(n, a) by { assert(pred_in(f, n, a.len())); }
            }
            lemma_cl_block(q, vars, *formula, m1, s);
            lemma_cl_block(q, vars, *formula, m2, s);
            let p1 = |s2: Asg| cl_sat(*formula, m1, s2);
            let p2 = |s2: Asg| cl_sat(*formula, m2, s2);
            assert forall|s2: Asg| #[trigger] p1(s2) == p2(s2) by { lemma_pred_coin_cl(*formula, m1, m2, s2); }
            match q {
                Quantifier::Forall => {
                    if quant_set(q, vars, p1, s) { assert forall|s2: Asg| variant(s2, s, vars) implies #[trigger] p2(s2) by { assert(p1(s2)); } }
                    if quant_set(q, vars, p2, s) { assert forall|s2: Asg| variant(s2, s, vars) implies #[trigger] p1(s2) by { assert(p2(s2)); } }
                }
                Quantifier::Exists => {
                    if quant_set(q, vars, p1, s) { let s2 = choose|s2: Asg| variant(s2, s, vars) && #[trigger] p1(s2); assert(p2(s2)); }
                    if quant_set(q, vars, p2, s) { let s2 = choose|s2: Asg| variant(s2, s, vars) && #[trigger] p2(s2); assert(p1(s2)); }
                }
            }
        }
    }
}

// ---- the shape and side conditions of an accepted definition ---------------------------------------------------------
/// the variable a term consists of, if it is one (spec of `TryFrom<GeneralTerm> for Variable`)
pub open spec fn term_var(t: GeneralTerm) -> Option<Variable> {
    match t {
        GeneralTerm::Variable(v) => Some(Variable { name: v, sort: Sort::General }),
        GeneralTerm::IntegerTerm(IntegerTerm::Variable(v)) => Some(Variable { name: v, sort: Sort::Integer }),
        GeneralTerm::SymbolicTerm(SymbolicTerm::Variable(v)) => Some(Variable { name: v, sort: Sort::Symbol }),
        _ => None,
    }
}

pub open spec fn is_def_shape(f: Formula) -> bool {
    f is QuantifiedFormula && f->QuantifiedFormula_quantification.quantifier == Quantifier::Forall
        && (*f->QuantifiedFormula_formula) is BinaryFormula && (*f->QuantifiedFormula_formula)->BinaryFormula_connective == BinaryConnective::Equivalence
        && (*(*f->QuantifiedFormula_formula)->BinaryFormula_lhs) is AtomicFormula && (*(*f->QuantifiedFormula_formula)->BinaryFormula_lhs)->AtomicFormula_0 is Atom
}
pub open spec fn def_vars(f: Formula) -> Seq<Variable> { f->QuantifiedFormula_quantification.variables@ }
pub open spec fn def_atom(f: Formula) -> Atom { (*(*f->QuantifiedFormula_formula)->BinaryFormula_lhs)->AtomicFormula_0->Atom_0 }
pub open spec fn def_rhs(f: Formula) -> Formula { *(*f->QuantifiedFormula_formula)->BinaryFormula_rhs }

/// the i-th quantified variable is one of the arguments of the defined atom
pub open spec fn var_is_arg(f: Formula, i: int) -> bool {
    exists|j: int| 0 <= j < def_atom(f).terms@.len() && #[trigger] term_var(def_atom(f).terms@[j]) == Some(def_vars(f)[i])
}

/// C13: `f` defines, by a closed equivalence `forall X (p(X) <-> F)` over distinct variables X that are exactly the arguments of
/// the atom, the predicate p, which is not among `taken`, and F mentions only predicates among `taken`
pub open spec fn args_distinct_upto(ts: Seq<GeneralTerm>, n: int) -> bool {
    forall|i: int, j: int| 0 <= i < j < n ==> #[trigger] term_var(ts[i]) != #[trigger] term_var(ts[j])
}
pub open spec fn args_distinct(ts: Seq<GeneralTerm>) -> bool { args_distinct_upto(ts, ts.len() as int) }

pub open spec fn def_ok(f: Formula, taken: Seq<Predicate>, p: Predicate) -> bool {
    &&& is_def_shape(f)
    &&& p.symbol@ == def_atom(f).predicate_symbol@ && p.arity == def_atom(f).terms@.len()
    &&& forall|i: int, j: int| 0 <= i < j < def_vars(f).len() ==> #[trigger] vkey(def_vars(f)[i]) != #[trigger] vkey(def_vars(f)[j])
    &&& forall|i: int| 0 <= i < def_atom(f).terms@.len() ==> (#[trigger] term_var(def_atom(f).terms@[i])) is Some && def_vars(f).contains(term_var(def_atom(f).terms@[i])->Some_0)
    &&& forall|i: int| 0 <= i < def_vars(f).len() ==> #[trigger] var_is_arg(f, i)
    // the arguments of the defined atom are pairwise distinct variables
    &&& args_distinct(def_atom(f).terms@)
    &&& !has_pred(taken, p.symbol@, p.arity as nat)
    &&& forall|k: VKey| #[trigger] fv(def_rhs(f), k) ==> bound_by(def_vars(f), k)
    &&& forall|n: Seq<char>, k: nat| #[trigger] pred_in(def_rhs(f), n, k) ==> has_pred(taken, n, k)
}

// ---- conservativity ------------------------------------------------------------------------------------------------------
pub open spec fn with_pred(m: Interp, n: Seq<char>, k: nat, ext: spec_fn(Seq<Val>) -> bool) -> Interp {
    Interp { pred: |x: Seq<char>, a: Seq<Val>| if x == n && a.len() == k { ext(a) } else { (m.pred)(x, a) }, fc: m.fc }
}

/// the extent that the definition prescribes for p in the interpretation m
pub open spec fn def_ext(f: Formula, m: Interp) -> spec_fn(Seq<Val>) -> bool {
    |a: Seq<Val>| exists|s3: Asg| #[trigger] def_witness(f, m, a, s3)
}
pub open spec fn def_witness(f: Formula, m: Interp, a: Seq<Val>, s3: Asg) -> bool {
    &&& forall|i: int| 0 <= i < def_vars(f).len() ==> in_sort(s3[#[trigger] vkey(def_vars(f)[i])], def_vars(f)[i].sort)
    &&& eval_terms(def_atom(f).terms@, m.fc, s3) == a
    &&& cl_sat(def_rhs(f), m, s3)
}

/// a variable-term evaluates to the value of its variable, injectively within the variable's sort
pub proof fn lemma_term_var_eval(t: GeneralTerm, fc: spec_fn(Seq<char>, Sort) -> Val, s1: Asg, s2: Asg)
    requires term_var(t) is Some, eval_gen(t, fc, s1) == eval_gen(t, fc, s2),
        in_sort(s1[vkey(term_var(t)->Some_0)], term_var(t)->Some_0.sort), in_sort(s2[vkey(term_var(t)->Some_0)], term_var(t)->Some_0.sort),
    ensures s1[vkey(term_var(t)->Some_0)] == s2[vkey(term_var(t)->Some_0)],
{
    reveal_with_fuel(eval_int, 2);
}

pub proof fn lemma_definition_conservative(f: Formula, taken: Seq<Predicate>, p: Predicate, m: Interp, s: Asg)
    requires def_ok(f, taken, p),
    ensures
        cl_sat(f, with_pred(m, p.symbol@, p.arity as nat, def_ext(f, m)), s),
        // the expansion changes nothing but the extent of p
        forall|x: Seq<char>, a: Seq<Val>| !(x == p.symbol@ && a.len() == p.arity) ==> #[trigger] (with_pred(m, p.symbol@, p.arity as nat, def_ext(f, m)).pred)(x, a) == (m.pred)(x, a),
{
    let n = p.symbol@;
    let k = p.arity as nat;
    let ext = def_ext(f, m);
    let m2 = with_pred(m, n, k, ext);
    let vars = def_vars(f);
    let at = def_atom(f);
    let rhs = def_rhs(f);
    let body = *f->QuantifiedFormula_formula;
    // p does not occur in the body F
    assert(agree_preds(m, m2, rhs)) by {
        assert forall|x: Seq<char>, a: Seq<Val>| pred_in(rhs, x, a.len()) implies #[trigger] (m.pred)(x, a) == (m2.pred)(x, a) by {
            assert(has_pred(taken, x, a.len()));
        }
    }
    lemma_cl_block(Quantifier::Forall, vars, body, m2, s);
    let pb = |s2: Asg| cl_sat(body, m2, s2);
    assert forall|s2: Asg| variant(s2, s, vars) implies #[trigger] pb(s2) by {
        lemma_pred_coin_cl(rhs, m, m2, s2);
        let a = eval_terms(at.terms@, m2.fc, s2);
        assert(a.len() == k);
        assert(cl_sat(*body->BinaryFormula_lhs, m2, s2) == ext(a));
        if cl_sat(rhs, m, s2) {
            assert(def_witness(f, m, a, s2)) by {
                assert forall|i: int| 0 <= i < vars.len() implies in_sort(s2[#[trigger] vkey(vars[i])], vars[i].sort) by { assert(bound_by(vars, vkey(vars[i]))); }
            }
        }
        if ext(a) {
            let s3 = choose|s3: Asg| #[trigger] def_witness(f, m, a, s3);
            // s3 and s2 agree on every quantified variable, hence on the free variables of F
            assert forall|kk: VKey| fv(rhs, kk) implies s3[kk] == s2[kk] by {
                assert(bound_by(vars, kk));
                let i = choose|i: int| 0 <= i < vars.len() && #[trigger] vkey(vars[i]) == kk;
                assert(var_is_arg(f, i));
                let j = choose|j: int| 0 <= j < at.terms@.len() && #[trigger] term_var(at.terms@[j]) == Some(vars[i]);
                let t = at.terms@[j];
                assert(eval_terms(at.terms@, m.fc, s3)[j] == eval_terms(at.terms@, m.fc, s2)[j]);
                assert(in_sort(s2[kk], kk.1));
                assert(in_sort(s3[vkey(vars[i])], vars[i].sort));
                lemma_term_var_eval(t, m.fc, s3, s2);
            }
            lemma_coin_cl(rhs, m, s3, s2);
        }
    }
}

// ---- linking the executable checks of CheckInternal::definition to def_ok ------------------------------------------------
pub proof fn lemma_pred_in_bound(f: Formula, n: Seq<char>, k: nat)
    requires pred_in(f, n, k),
    ensures k <= usize::MAX,
    decreases f,
{
    match f {
        Formula::AtomicFormula(a) => { vstd::std_specs::vec::axiom_spec_len(&a->Atom_0.terms); }
        Formula::UnaryFormula { connective, formula } => { lemma_pred_in_bound(*formula, n, k); }
        Formula::BinaryFormula { connective, lhs, rhs } => { if pred_in(*lhs, n, k) { lemma_pred_in_bound(*lhs, n, k); } else { lemma_pred_in_bound(*rhs, n, k); } }
        Formula::QuantifiedFormula { quantification, formula } => { lemma_pred_in_bound(*formula, n, k); }
    }
}

/// what the checks of CheckInternal::definition establish, in the vocabulary of the executable code
pub proof fn lemma_def_ok(f: Formula, taken: Seq<Predicate>, p: Predicate, uniques: Seq<Variable>, tvs: Seq<Variable>)
    requires
        is_def_shape(f),
        p == (Predicate { symbol: def_atom(f).predicate_symbol, arity: def_atom(f).terms@.len() as usize }),
        uniques == seq_extend(Seq::<Variable>::empty(), def_vars(f)), uniques.len() >= def_vars(f).len(),
        forall|i: int| 0 <= i < def_atom(f).terms@.len() ==> (#[trigger] term_var(def_atom(f).terms@[i])) is Some && tvs.contains(term_var(def_atom(f).terms@[i])->Some_0),
        forall|x: Variable| tvs.contains(x) ==> exists|j: int| 0 <= j < def_atom(f).terms@.len() && #[trigger] term_var(def_atom(f).terms@[j]) == Some(x),
        same_elements(uniques, tvs),
        args_distinct(def_atom(f).terms@),
        !taken.contains(p),
        forall|x: Variable| spec_fv(def_rhs(f)).contains(x) ==> uniques.contains(x),
        forall|q: Predicate| spec_preds(def_rhs(f)).contains(q) ==> taken.contains(q),
    ensures def_ok(f, taken, p),
{
    let vars = def_vars(f);
    let at = def_atom(f);
    let rhs = def_rhs(f);
    let e = Seq::<Variable>::empty();
    vstd::std_specs::vec::axiom_spec_len(&at.terms);
    lemma_extend_len(e, vars);
    assert forall|x: Variable| uniques.contains(x) == vars.contains(x) by { lemma_seq_extend_contains(e, vars, x); }
    assert forall|i: int, j: int| 0 <= i < j < vars.len() implies #[trigger] vkey(vars[i]) != #[trigger] vkey(vars[j]) by {
        assert(vars[i] != vars[j]);
        lemma_var_key(vars[i], vars[j].name, vars[j].sort);
    }
    assert forall|i: int| 0 <= i < at.terms@.len() implies (#[trigger] term_var(at.terms@[i])) is Some && vars.contains(term_var(at.terms@[i])->Some_0) by {
        let x = term_var(at.terms@[i])->Some_0;
        assert(tvs.contains(x));
        assert(uniques.contains(x));
    }
    assert forall|i: int| 0 <= i < vars.len() implies #[trigger] var_is_arg(f, i) by {
        assert(vars.contains(vars[i]));
        assert(uniques.contains(vars[i]));
        assert(tvs.contains(vars[i]));
    }
    assert(!has_pred(taken, p.symbol@, p.arity as nat)) by {
        if has_pred(taken, p.symbol@, p.arity as nat) {
            let i = choose|i: int| 0 <= i < taken.len() && (#[trigger] taken[i]).symbol@ == p.symbol@ && taken[i].arity == p.arity as nat;
            assert(taken[i] == p);
        }
    }
    assert forall|k: VKey| #[trigger] fv(rhs, k) implies bound_by(vars, k) by {
        let x = Variable { name: str_of(k.0), sort: k.1 };
        assert(vkey(x) == k);
        lemma_spec_fv(rhs, x);
        assert(vars.contains(x));
        let i = choose|i: int| 0 <= i < vars.len() && vars[i] == x;
        assert(vkey(vars[i]) == k);
    }
    assert forall|n: Seq<char>, k: nat| #[trigger] pred_in(rhs, n, k) implies has_pred(taken, n, k) by {
        lemma_pred_in_bound(rhs, n, k);
        lemma_preds_cover(rhs, n, k);
        let ps = spec_preds(rhs);
        let i = choose|i: int| 0 <= i < ps.len() && (#[trigger] ps[i]).symbol@ == n && ps[i].arity == k;
        assert(ps.contains(ps[i]));
        assert(taken.contains(ps[i]));
        let j = choose|j: int| 0 <= j < taken.len() && taken[j] == ps[i];
        assert(taken[j].symbol@ == n && taken[j].arity == k);
    }
}
