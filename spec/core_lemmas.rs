// core_lemmas.rs — the semantic core shared by C07, C13, C17: free occurrences, the coincidence
// lemma (truth depends only on the free variables), and quantifier blocks as sets of variables.

// ---- occurrences (as predicates on assignment keys) -----------------------------------
pub open spec fn in_int(t: IntegerTerm, k: VKey) -> bool
    decreases t,
{
    match t {
        IntegerTerm::Numeral(_) | IntegerTerm::FunctionConstant(_) => false,
        IntegerTerm::Variable(v) => k == (v@, Sort::Integer),
        IntegerTerm::UnaryOperation { op, arg } => in_int(*arg, k),
        IntegerTerm::BinaryOperation { op, lhs, rhs } => in_int(*lhs, k) || in_int(*rhs, k),
    }
}

pub open spec fn in_sym(t: SymbolicTerm, k: VKey) -> bool {
    match t {
        SymbolicTerm::Variable(v) => k == (v@, Sort::Symbol),
        _ => false,
    }
}

pub open spec fn in_gen(t: GeneralTerm, k: VKey) -> bool {
    match t {
        GeneralTerm::Variable(v) => k == (v@, Sort::General),
        GeneralTerm::IntegerTerm(t) => in_int(t, k),
        GeneralTerm::SymbolicTerm(t) => in_sym(t, k),
        _ => false,
    }
}

pub open spec fn in_terms(ts: Seq<GeneralTerm>, k: VKey) -> bool {
    exists|i: int| 0 <= i < ts.len() && #[trigger] in_gen(ts[i], k)
}

pub open spec fn in_guards(gs: Seq<Guard>, k: VKey) -> bool {
    exists|i: int| 0 <= i < gs.len() && #[trigger] in_gen(gs[i].term, k)
}

pub open spec fn in_atomic(a: AtomicFormula, k: VKey) -> bool {
    match a {
        AtomicFormula::Truth | AtomicFormula::Falsity => false,
        AtomicFormula::Atom(at) => in_terms(at.terms@, k),
        AtomicFormula::Comparison(c) => in_gen(c.term, k) || in_guards(c.guards@, k),
    }
}

pub open spec fn bound_by(vars: Seq<Variable>, k: VKey) -> bool {
    exists|i: int| 0 <= i < vars.len() && #[trigger] vkey(vars[i]) == k
}

/// k occurs free in f
pub open spec fn fv(f: Formula, k: VKey) -> bool
    decreases f,
{
    match f {
        Formula::AtomicFormula(a) => in_atomic(a, k),
        Formula::UnaryFormula { connective, formula } => fv(*formula, k),
        Formula::BinaryFormula { connective, lhs, rhs } => fv(*lhs, k) || fv(*rhs, k),
        Formula::QuantifiedFormula { quantification, formula } => fv(*formula, k) && !bound_by(quantification.variables@, k),
    }
}

// ---- coincidence: terms ------------------------------------------------------------------
pub proof fn lemma_coin_int(t: IntegerTerm, fc: spec_fn(Seq<char>, Sort) -> Val, s1: Asg, s2: Asg)
    requires forall|k: VKey| in_int(t, k) ==> s1[k] == s2[k],
    ensures eval_int(t, fc, s1) == eval_int(t, fc, s2),
    decreases t,
{
    match t {
        IntegerTerm::Variable(v) => { assert(in_int(t, (v@, Sort::Integer))); }
        IntegerTerm::UnaryOperation { op, arg } => {
            assert forall|k: VKey| in_int(*arg, k) implies s1[k] == s2[k] by { assert(in_int(t, k)); }
            lemma_coin_int(*arg, fc, s1, s2);
        }
        IntegerTerm::BinaryOperation { op, lhs, rhs } => {
            assert forall|k: VKey| in_int(*lhs, k) implies s1[k] == s2[k] by { assert(in_int(t, k)); }
            assert forall|k: VKey| in_int(*rhs, k) implies s1[k] == s2[k] by { assert(in_int(t, k)); }
            lemma_coin_int(*lhs, fc, s1, s2);
            lemma_coin_int(*rhs, fc, s1, s2);
        }
        _ => {}
    }
}

pub proof fn lemma_coin_gen(t: GeneralTerm, fc: spec_fn(Seq<char>, Sort) -> Val, s1: Asg, s2: Asg)
    requires forall|k: VKey| in_gen(t, k) ==> s1[k] == s2[k],
    ensures eval_gen(t, fc, s1) == eval_gen(t, fc, s2),
{
    match t {
        GeneralTerm::Variable(v) => { assert(in_gen(t, (v@, Sort::General))); }
        GeneralTerm::IntegerTerm(it) => {
            assert forall|k: VKey| in_int(it, k) implies s1[k] == s2[k] by { assert(in_gen(t, k)); }
            lemma_coin_int(it, fc, s1, s2);
        }
        GeneralTerm::SymbolicTerm(st) => {
            match st {
                SymbolicTerm::Variable(v) => { assert(in_gen(t, (v@, Sort::Symbol))); }
                _ => {}
            }
        }
        _ => {}
    }
}

pub proof fn lemma_coin_terms(ts: Seq<GeneralTerm>, fc: spec_fn(Seq<char>, Sort) -> Val, s1: Asg, s2: Asg)
    requires forall|k: VKey| in_terms(ts, k) ==> s1[k] == s2[k],
    ensures eval_terms(ts, fc, s1) == eval_terms(ts, fc, s2),
{
    assert forall|i: int| 0 <= i < ts.len() implies eval_gen(ts[i], fc, s1) == eval_gen(ts[i], fc, s2) by {
        assert forall|k: VKey| in_gen(ts[i], k) implies s1[k] == s2[k] by { assert(in_terms(ts, k)); }
        lemma_coin_gen(ts[i], fc, s1, s2);
    }
    assert(eval_terms(ts, fc, s1) =~= eval_terms(ts, fc, s2));
}

pub proof fn lemma_coin_guards(prev: Val, gs: Seq<Guard>, i: int, fc: spec_fn(Seq<char>, Sort) -> Val, s1: Asg, s2: Asg)
    requires forall|k: VKey| in_guards(gs, k) ==> s1[k] == s2[k], 0 <= i,
    ensures sat_guards(prev, gs, i, fc, s1) == sat_guards(prev, gs, i, fc, s2),
    decreases gs.len() - i,
{
    if i < gs.len() {
        assert forall|k: VKey| in_gen(gs[i].term, k) implies s1[k] == s2[k] by { assert(in_guards(gs, k)); }
        lemma_coin_gen(gs[i].term, fc, s1, s2);
        lemma_coin_guards(eval_gen(gs[i].term, fc, s1), gs, i + 1, fc, s1, s2);
    }
}

pub proof fn lemma_coin_atomic_parts(a: AtomicFormula, fc: spec_fn(Seq<char>, Sort) -> Val, s1: Asg, s2: Asg)
    requires forall|k: VKey| in_atomic(a, k) ==> s1[k] == s2[k],
    ensures
        a matches AtomicFormula::Atom(at) ==> eval_terms(at.terms@, fc, s1) == eval_terms(at.terms@, fc, s2),
        a matches AtomicFormula::Comparison(c) ==> sat_comparison(c, fc, s1) == sat_comparison(c, fc, s2),
{
    match a {
        AtomicFormula::Atom(at) => {
            assert forall|k: VKey| in_terms(at.terms@, k) implies s1[k] == s2[k] by { assert(in_atomic(a, k)); }
            lemma_coin_terms(at.terms@, fc, s1, s2);
        }
        AtomicFormula::Comparison(c) => {
            assert forall|k: VKey| in_gen(c.term, k) implies s1[k] == s2[k] by { assert(in_atomic(a, k)); }
            assert forall|k: VKey| in_guards(c.guards@, k) implies s1[k] == s2[k] by { assert(in_atomic(a, k)); }
            lemma_coin_gen(c.term, fc, s1, s2);
            lemma_coin_guards(eval_gen(c.term, fc, s1), c.guards@, 0, fc, s1, s2);
        }
        _ => {}
    }
}

// ---- coincidence: formulas (classical and here-and-there) -------------------------------
pub open spec fn agree_on(s1: Asg, s2: Asg, f: Formula) -> bool {
    forall|k: VKey| fv(f, k) ==> s1[k] == s2[k]
}

pub open spec fn agree_block(s1: Asg, s2: Asg, vars: Seq<Variable>, body: Formula) -> bool {
    forall|k: VKey| fv(body, k) && !bound_by(vars, k) ==> s1[k] == s2[k]
}

pub proof fn lemma_coin_cl(f: Formula, m: Interp, s1: Asg, s2: Asg)
    requires agree_on(s1, s2, f),
    ensures cl_sat(f, m, s1) == cl_sat(f, m, s2),
    decreases f, 0nat,
{
    match f {
        Formula::AtomicFormula(a) => { lemma_coin_atomic_parts(a, m.fc, s1, s2); }
        Formula::UnaryFormula { connective, formula } => { lemma_coin_cl(*formula, m, s1, s2); }
        Formula::BinaryFormula { connective, lhs, rhs } => {
            lemma_coin_cl(*lhs, m, s1, s2);
            lemma_coin_cl(*rhs, m, s1, s2);
        }
        Formula::QuantifiedFormula { quantification, formula } => {
            lemma_coin_cl_quant(quantification.quantifier, quantification.variables@, *formula, m, s1, s2);
        }
    }
}

pub proof fn lemma_bound_by_tail(vars: Seq<Variable>, k: VKey)
    requires vars.len() > 0,
    ensures bound_by(vars, k) == (vkey(vars[0]) == k || bound_by(vars.drop_first(), k)),
{
    let rest = vars.drop_first();
    if bound_by(vars, k) {
        let i = choose|i: int| 0 <= i < vars.len() && #[trigger] vkey(vars[i]) == k;
        if i > 0 { assert(vkey(rest[i - 1]) == k); }
    }
    if bound_by(rest, k) {
        let i = choose|i: int| 0 <= i < rest.len() && #[trigger] vkey(rest[i]) == k;
        assert(vkey(vars[i + 1]) == k);
    }
    if vkey(vars[0]) == k { assert(bound_by(vars, k)); }
}

pub proof fn lemma_coin_cl_quant(q: Quantifier, vars: Seq<Variable>, body: Formula, m: Interp, s1: Asg, s2: Asg)
    requires agree_block(s1, s2, vars, body),
    ensures cl_quant(q, vars, body, m, s1) == cl_quant(q, vars, body, m, s2),
    decreases body, vars.len() + 1,
{
    if vars.len() == 0 {
        assert forall|k: VKey| fv(body, k) implies s1[k] == s2[k] by { assert(!bound_by(vars, k)); }
        lemma_coin_cl(body, m, s1, s2);
    } else {
        let v = vars[0];
        let rest = vars.drop_first();
        assert forall|x: Val| cl_quant(q, rest, body, m, #[trigger] s1.insert(vkey(v), x))
            == cl_quant(q, rest, body, m, s2.insert(vkey(v), x)) by {
            assert forall|k: VKey| fv(body, k) && !bound_by(rest, k) implies
                s1.insert(vkey(v), x)[k] == s2.insert(vkey(v), x)[k] by {
                lemma_bound_by_tail(vars, k);
            }
            lemma_coin_cl_quant(q, rest, body, m, s1.insert(vkey(v), x), s2.insert(vkey(v), x));
        }
        // re-trigger on s2's insert terms
        assert forall|x: Val| cl_quant(q, rest, body, m, s1.insert(vkey(v), x))
            == cl_quant(q, rest, body, m, #[trigger] s2.insert(vkey(v), x)) by {
            let _ = s1.insert(vkey(v), x);
        }
    }
}

pub proof fn lemma_coin_ht(f: Formula, w: World, m: HT, s1: Asg, s2: Asg)
    requires agree_on(s1, s2, f),
    ensures ht_sat(f, w, m, s1) == ht_sat(f, w, m, s2),
    decreases f, 0nat,
{
    match f {
        Formula::AtomicFormula(a) => { lemma_coin_atomic_parts(a, m.fc, s1, s2); }
        Formula::UnaryFormula { connective, formula } => {
            lemma_coin_ht(*formula, w, m, s1, s2);
            lemma_coin_ht(*formula, World::There, m, s1, s2);
        }
        Formula::BinaryFormula { connective, lhs, rhs } => {
            lemma_coin_ht(*lhs, w, m, s1, s2);
            lemma_coin_ht(*rhs, w, m, s1, s2);
            lemma_coin_ht(*lhs, World::There, m, s1, s2);
            lemma_coin_ht(*rhs, World::There, m, s1, s2);
        }
        Formula::QuantifiedFormula { quantification, formula } => {
            lemma_coin_ht_quant(quantification.quantifier, quantification.variables@, *formula, w, m, s1, s2);
        }
    }
}

pub proof fn lemma_coin_ht_quant(q: Quantifier, vars: Seq<Variable>, body: Formula, w: World, m: HT, s1: Asg, s2: Asg)
    requires agree_block(s1, s2, vars, body),
    ensures ht_quant(q, vars, body, w, m, s1) == ht_quant(q, vars, body, w, m, s2),
    decreases body, vars.len() + 1,
{
    if vars.len() == 0 {
        assert forall|k: VKey| fv(body, k) implies s1[k] == s2[k] by { assert(!bound_by(vars, k)); }
        lemma_coin_ht(body, w, m, s1, s2);
    } else {
        let v = vars[0];
        let rest = vars.drop_first();
        assert forall|x: Val| ht_quant(q, rest, body, w, m, #[trigger] s1.insert(vkey(v), x))
            == ht_quant(q, rest, body, w, m, s2.insert(vkey(v), x)) by {
            assert forall|k: VKey| fv(body, k) && !bound_by(rest, k) implies
                s1.insert(vkey(v), x)[k] == s2.insert(vkey(v), x)[k] by {
                lemma_bound_by_tail(vars, k);
            }
            lemma_coin_ht_quant(q, rest, body, w, m, s1.insert(vkey(v), x), s2.insert(vkey(v), x));
        }
        assert forall|x: Val| ht_quant(q, rest, body, w, m, s1.insert(vkey(v), x))
            == ht_quant(q, rest, body, w, m, #[trigger] s2.insert(vkey(v), x)) by {
            let _ = s1.insert(vkey(v), x);
        }
    }
}

// ---- every sort is inhabited -----------------------------------------------------------------
pub open spec fn default_val(s: Sort) -> Val {
    match s { Sort::General => Val::Inf, Sort::Integer => Val::Int(0), Sort::Symbol => Val::Sym(Seq::empty()) }
}

// ---- quantifier blocks as sets ----------------------------------------------------------------
/// s2 differs from s only on keys bound by vars, and gives each of them a value of its sort
pub open spec fn variant(s2: Asg, s: Asg, vars: Seq<Variable>) -> bool {
    &&& forall|k: VKey| !bound_by(vars, k) ==> #[trigger] s2[k] == s[k]
    &&& forall|k: VKey| bound_by(vars, k) ==> in_sort(#[trigger] s2[k], k.1)
}

pub open spec fn quant_set(q: Quantifier, vars: Seq<Variable>, p: APred, s: Asg) -> bool {
    match q {
        Quantifier::Forall => forall|s2: Asg| variant(s2, s, vars) ==> #[trigger] p(s2),
        Quantifier::Exists => exists|s2: Asg| variant(s2, s, vars) && #[trigger] p(s2),
    }
}

// ---- persistence: <H,T> |= F implies T |= F ---------------------------------------------
pub proof fn lemma_persistence(f: Formula, m: HT, s: Asg)
    requires ht_wf(m),
    ensures ht_sat(f, World::Here, m, s) ==> ht_sat(f, World::There, m, s),
    decreases f, 0nat,
{
    match f {
        Formula::AtomicFormula(a) => {}
        Formula::UnaryFormula { connective, formula } => {}
        Formula::BinaryFormula { connective, lhs, rhs } => {
            lemma_persistence(*lhs, m, s);
            lemma_persistence(*rhs, m, s);
        }
        Formula::QuantifiedFormula { quantification, formula } => {
            lemma_persistence_quant(quantification.quantifier, quantification.variables@, *formula, m, s);
        }
    }
}

pub proof fn lemma_persistence_quant(q: Quantifier, vars: Seq<Variable>, body: Formula, m: HT, s: Asg)
    requires ht_wf(m),
    ensures ht_quant(q, vars, body, World::Here, m, s) ==> ht_quant(q, vars, body, World::There, m, s),
    decreases body, vars.len() + 1,
{
    if vars.len() == 0 {
        lemma_persistence(body, m, s);
    } else {
        let v = vars[0];
        assert forall|x: Val| ht_quant(q, vars.drop_first(), body, World::Here, m, #[trigger] s.insert(vkey(v), x))
            ==> ht_quant(q, vars.drop_first(), body, World::There, m, s.insert(vkey(v), x)) by {
            lemma_persistence_quant(q, vars.drop_first(), body, m, s.insert(vkey(v), x));
        }
    }
}


/// persistence in the form used by the simplification contracts (any world)
pub broadcast proof fn lemma_persist_any(g: Formula, w: World, m: HT, s: Asg)
    requires ht_wf(m),
    ensures #[trigger] ht_sat(g, w, m, s) ==> ht_sat(g, World::There, m, s),
{
    if w == World::Here { lemma_persistence(g, m, s); }
}

// ---- T |=cl F is the There world --------------------------------------------------------
pub proof fn lemma_there_classical(f: Formula, m: HT, s: Asg)
    ensures ht_sat(f, World::There, m, s) == cl_sat(f, there_interp(m), s),
    decreases f, 0nat,
{
    match f {
        Formula::AtomicFormula(a) => {}
        Formula::UnaryFormula { connective, formula } => { lemma_there_classical(*formula, m, s); }
        Formula::BinaryFormula { connective, lhs, rhs } => {
            lemma_there_classical(*lhs, m, s);
            lemma_there_classical(*rhs, m, s);
        }
        Formula::QuantifiedFormula { quantification, formula } => {
            lemma_there_quant(quantification.quantifier, quantification.variables@, *formula, m, s);
        }
    }
}

pub proof fn lemma_there_quant(q: Quantifier, vars: Seq<Variable>, body: Formula, m: HT, s: Asg)
    ensures ht_quant(q, vars, body, World::There, m, s) == cl_quant(q, vars, body, there_interp(m), s),
    decreases body, vars.len() + 1,
{
    if vars.len() == 0 {
        lemma_there_classical(body, m, s);
    } else {
        let v = vars[0];
        assert forall|x: Val| ht_quant(q, vars.drop_first(), body, World::There, m, #[trigger] s.insert(vkey(v), x))
            == cl_quant(q, vars.drop_first(), body, there_interp(m), s.insert(vkey(v), x)) by {
            lemma_there_quant(q, vars.drop_first(), body, m, s.insert(vkey(v), x));
        }
    }
}

