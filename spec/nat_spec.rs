// nat_spec.rs — C08: regularity of terms (Lifschitz 2021, "Transforming Gringo Rules into Formulas in a Natural Way"),
// and the value of a regular term.

/// t contains a symbolic constant, #inf or #sup
pub open spec fn spec_sis(t: asp::Term) -> bool
    decreases t,
{
    match t {
        asp::Term::Variable(_) => false,
        asp::Term::PrecomputedTerm(p) => !(p is Numeral),
        asp::Term::UnaryOperation { op, arg } => spec_sis(*arg),
        asp::Term::BinaryOperation { op, lhs, rhs } => spec_sis(*lhs) || spec_sis(*rhs),
    }
}

/// regular of the first kind: built from variables and precomputed terms with +, -, * (and unary minus),
/// where no operand of an arithmetic operation contains a symbol, #inf or #sup
pub open spec fn spec_reg1(t: asp::Term) -> bool
    decreases t,
{
    match t {
        asp::Term::Variable(_) | asp::Term::PrecomputedTerm(_) => true,
        asp::Term::UnaryOperation { op, arg } => spec_reg1(*arg) && !spec_sis(*arg),
        asp::Term::BinaryOperation { op, lhs, rhs } =>
            (op is Add || op is Subtract || op is Multiply)
            && spec_reg1(*lhs) && !spec_sis(*lhs) && spec_reg1(*rhs) && !spec_sis(*rhs),
    }
}

/// regular of the second kind: an interval t1..t2 of two symbol-free terms regular of the first kind
pub open spec fn spec_reg2(t: asp::Term) -> bool {
    match t {
        asp::Term::BinaryOperation { op, lhs, rhs } =>
            op is Interval && spec_reg1(*lhs) && !spec_sis(*lhs) && spec_reg1(*rhs) && !spec_sis(*rhs),
        _ => false,
    }
}

pub open spec fn spec_p2f_int(t: asp::Term) -> Option<IntegerTerm>
    decreases t,
{
    match t {
        asp::Term::Variable(v) => Some(IntegerTerm::Variable(v.0)),
        asp::Term::PrecomputedTerm(p) => match p { asp::PrecomputedTerm::Numeral(i) => Some(IntegerTerm::Numeral(i)), _ => None },
        asp::Term::UnaryOperation { op, arg } => match spec_p2f_int(*arg) {
            Some(a) => Some(IntegerTerm::UnaryOperation { op: UnaryOperator::Negative, arg: Box::new(a) }),
            None => None,
        },
        asp::Term::BinaryOperation { op, lhs, rhs } => {
            if op is Add || op is Subtract || op is Multiply {
                match (spec_p2f_int(*lhs), spec_p2f_int(*rhs)) {
                    (Some(a), Some(b)) => Some(IntegerTerm::BinaryOperation {
                        op: match op { asp::BinaryOperator::Add => BinaryOperator::Add, asp::BinaryOperator::Subtract => BinaryOperator::Subtract, _ => BinaryOperator::Multiply },
                        lhs: Box::new(a), rhs: Box::new(b) }),
                    _ => None,
                }
            } else { None }
        }
    }
}

/// every variable of t holds an integer
pub open spec fn ints_ok(t: asp::Term, s: Asg) -> bool { forall|k: VKey| asp_in_term(t, k) ==> (#[trigger] s[k]) is Int }

/// s2 gives the integer-sorted variable the value s gives the (general) program variable of the same name, for every variable of t
pub open spec fn int_view_on(t: asp::Term, s2: Asg, s: Asg) -> bool { forall|k: VKey| #[trigger] asp_in_term(t, k) ==> as_int(s2[(k.0, Sort::Integer)]) == as_int(s[k]) }

/// C08 (value of a regular term): a term that p2f_int_term translates has, under an assignment giving its variables integer
/// values, exactly one value — the integer the translated term denotes — and no value otherwise
pub proof fn lemma_p2f_int_value(t: asp::Term, it: IntegerTerm, fc: spec_fn(Seq<char>, Sort) -> Val, s: Asg, s2: Asg, i: int)
    requires spec_p2f_int(t) == Some(it), int_view_on(t, s2, s),
    ensures in_vals(t, s, Val::Int(i)) == (ints_ok(t, s) && i == eval_int(it, fc, s2)),
    decreases t,
{
    assert forall|k: VKey| #[trigger] asp_in_term(t, k) == (match t {
        asp::Term::PrecomputedTerm(_) => false,
        asp::Term::Variable(x) => k == asp_var_key(x),
        asp::Term::UnaryOperation { op, arg } => asp_in_term(*arg, k),
        asp::Term::BinaryOperation { op, lhs, rhs } => asp_in_term(*lhs, k) || asp_in_term(*rhs, k) }) by {}
    match t {
        asp::Term::Variable(v) => {
            let k = asp_var_key(v);
            assert(asp_in_term(t, k));
            assert(as_int(s2[(k.0, Sort::Integer)]) == as_int(s[k]));
            if s[k] == Val::Int(i) { assert forall|k2: VKey| asp_in_term(t, k2) implies (#[trigger] s[k2]) is Int by {} }
        }
        asp::Term::PrecomputedTerm(p) => {}
        asp::Term::UnaryOperation { op, arg } => {
            let a = spec_p2f_int(*arg)->Some_0;
            assert(int_view_on(*arg, s2, s)) by { assert forall|k: VKey| #[trigger] asp_in_term(*arg, k) implies as_int(s2[(k.0, Sort::Integer)]) == as_int(s[k]) by { assert(asp_in_term(t, k)); } }
            assert forall|j: int| #[trigger] tr1(j) implies in_vals(*arg, s, Val::Int(j)) == (ints_ok(*arg, s) && j == eval_int(a, fc, s2)) by {
                lemma_p2f_int_value(*arg, a, fc, s, s2, j);
            }
            assert(ints_ok(t, s) == ints_ok(*arg, s));
            if ints_ok(t, s) && i == eval_int(it, fc, s2) { assert(tr1(eval_int(a, fc, s2))); }
        }
        asp::Term::BinaryOperation { op, lhs, rhs } => {
            let a = spec_p2f_int(*lhs)->Some_0;
            let b = spec_p2f_int(*rhs)->Some_0;
            assert(int_view_on(*lhs, s2, s)) by { assert forall|k: VKey| #[trigger] asp_in_term(*lhs, k) implies as_int(s2[(k.0, Sort::Integer)]) == as_int(s[k]) by { assert(asp_in_term(t, k)); } }
            assert(int_view_on(*rhs, s2, s)) by { assert forall|k: VKey| #[trigger] asp_in_term(*rhs, k) implies as_int(s2[(k.0, Sort::Integer)]) == as_int(s[k]) by { assert(asp_in_term(t, k)); } }
            assert forall|x: int, y: int| #[trigger] tr2(x, y) implies
                in_vals(*lhs, s, Val::Int(x)) == (ints_ok(*lhs, s) && x == eval_int(a, fc, s2))
                && in_vals(*rhs, s, Val::Int(y)) == (ints_ok(*rhs, s) && y == eval_int(b, fc, s2)) by {
                lemma_p2f_int_value(*lhs, a, fc, s, s2, x);
                lemma_p2f_int_value(*rhs, b, fc, s, s2, y);
            }
            assert(ints_ok(t, s) == (ints_ok(*lhs, s) && ints_ok(*rhs, s))) by {
                if ints_ok(*lhs, s) && ints_ok(*rhs, s) { assert forall|k: VKey| asp_in_term(t, k) implies (#[trigger] s[k]) is Int by {} }
                if ints_ok(t, s) {
                    assert forall|k: VKey| asp_in_term(*lhs, k) implies (#[trigger] s[k]) is Int by { assert(asp_in_term(t, k)); }
                    assert forall|k: VKey| asp_in_term(*rhs, k) implies (#[trigger] s[k]) is Int by { assert(asp_in_term(t, k)); }
                }
            }
            if ints_ok(t, s) && i == eval_int(it, fc, s2) { assert(tr2(eval_int(a, fc, s2), eval_int(b, fc, s2))); }
        }
    }
}
