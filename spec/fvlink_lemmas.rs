// fvlink_lemmas.rs — links the executable queries (IndexSet<Variable> of variables()/free_variables())
// to the occurrence predicates of core_lemmas.rs.

pub proof fn lemma_seq_insert_contains<T>(s: Seq<T>, x: T, y: T)
    ensures seq_insert(s, x).contains(y) == (s.contains(y) || y == x),
{
    if !s.contains(x) {
        let r = s.push(x);
        if r.contains(y) {
            let i = choose|i: int| 0 <= i < r.len() && r[i] == y;
            if i < s.len() { assert(s[i] == y); }
        }
        if s.contains(y) {
            let i = choose|i: int| 0 <= i < s.len() && s[i] == y;
            assert(r[i] == y);
        }
        if y == x { assert(r[s.len() as int] == y); }
    }
}

pub proof fn lemma_seq_extend_contains<T>(s: Seq<T>, t: Seq<T>, y: T)
    ensures seq_extend(s, t).contains(y) == (s.contains(y) || t.contains(y)),
    decreases t.len(),
{
    if t.len() > 0 {
        lemma_seq_insert_contains(s, t[0], y);
        lemma_seq_extend_contains(seq_insert(s, t[0]), t.drop_first(), y);
        let rest = t.drop_first();
        if t.contains(y) {
            let i = choose|i: int| 0 <= i < t.len() && t[i] == y;
            if i > 0 { assert(rest[i - 1] == y); }
        }
        if rest.contains(y) {
            let i = choose|i: int| 0 <= i < rest.len() && rest[i] == y;
            assert(t[i + 1] == y);
        }
        if y == t[0] { assert(t.contains(y)); }
    }
}

pub proof fn lemma_seq_remove_contains<T>(s: Seq<T>, x: T, y: T)
    ensures seq_remove(s, x).contains(y) == (s.contains(y) && y != x),
    decreases s.len(),
{
    if s.len() > 0 {
        let pre = s.drop_last();
        let r = seq_remove(pre, x);
        lemma_seq_remove_contains(pre, x, y);
        if s.contains(y) {
            let i = choose|i: int| 0 <= i < s.len() && s[i] == y;
            if i < pre.len() { assert(pre[i] == y); }
        }
        if pre.contains(y) {
            let i = choose|i: int| 0 <= i < pre.len() && pre[i] == y;
            assert(s[i] == y);
        }
        if s.last() == y { assert(s[s.len() - 1] == y); }
        if s.last() != x {
            let r2 = r.push(s.last());
            if r2.contains(y) {
                let i = choose|i: int| 0 <= i < r2.len() && r2[i] == y;
                if i < r.len() { assert(r[i] == y); }
            }
            if r.contains(y) {
                let i = choose|i: int| 0 <= i < r.len() && r[i] == y;
                assert(r2[i] == y);
            }
            if y == s.last() { assert(r2[r.len() as int] == y); }
        }
    }
}

pub proof fn lemma_var_key(v: Variable, name: String, sort: Sort)
    ensures (v == Variable { name, sort }) == (vkey(v) == (name@, sort)),
{
}

pub proof fn lemma_vars_int(t: IntegerTerm, v: Variable)
    ensures spec_vars_int(t).contains(v) == in_int(t, vkey(v)),
    decreases t,
{
    match t {
        IntegerTerm::Variable(n) => {
            let x = Variable { name: n, sort: Sort::Integer };
            assert(seq![x][0] == x);
            if spec_vars_int(t).contains(v) { let i = choose|i: int| 0 <= i < seq![x].len() && seq![x][i] == v; }
        }
        IntegerTerm::UnaryOperation { op, arg } => { lemma_vars_int(*arg, v); }
        IntegerTerm::BinaryOperation { op, lhs, rhs } => {
            lemma_vars_int(*lhs, v);
            lemma_vars_int(*rhs, v);
            lemma_seq_extend_contains(spec_vars_int(*lhs), spec_vars_int(*rhs), v);
        }
        _ => {}
    }
}

pub proof fn lemma_vars_gen(t: GeneralTerm, v: Variable)
    ensures spec_vars_gen(t).contains(v) == in_gen(t, vkey(v)),
{
    match t {
        GeneralTerm::Variable(n) => {
            let x = Variable { name: n, sort: Sort::General };
            assert(seq![x][0] == x);
            if spec_vars_gen(t).contains(v) { let i = choose|i: int| 0 <= i < seq![x].len() && seq![x][i] == v; }
        }
        GeneralTerm::IntegerTerm(it) => { lemma_vars_int(it, v); }
        GeneralTerm::SymbolicTerm(st) => {
            match st {
                SymbolicTerm::Variable(n) => {
                    let x = Variable { name: n, sort: Sort::Symbol };
                    assert(seq![x][0] == x);
                    if spec_vars_sym(st).contains(v) { let i = choose|i: int| 0 <= i < seq![x].len() && seq![x][i] == v; }
                }
                _ => {}
            }
        }
        _ => {}
    }
}

pub proof fn lemma_vars_terms(acc: Seq<Variable>, ts: Seq<GeneralTerm>, n: int, v: Variable)
    requires 0 <= n <= ts.len(),
    ensures spec_vars_terms(acc, ts, n).contains(v)
        == (acc.contains(v) || exists|i: int| 0 <= i < n && #[trigger] in_gen(ts[i], vkey(v))),
    decreases n,
{
    if n > 0 {
        lemma_vars_terms(acc, ts, n - 1, v);
        lemma_vars_gen(ts[n - 1], v);
        lemma_seq_extend_contains(spec_vars_terms(acc, ts, n - 1), spec_vars_gen(ts[n - 1]), v);
        if exists|i: int| 0 <= i < n && #[trigger] in_gen(ts[i], vkey(v)) {
            let i = choose|i: int| 0 <= i < n && #[trigger] in_gen(ts[i], vkey(v));
            if i < n - 1 { assert(exists|i: int| 0 <= i < n - 1 && #[trigger] in_gen(ts[i], vkey(v))); }
        }
        if exists|i: int| 0 <= i < n - 1 && #[trigger] in_gen(ts[i], vkey(v)) {
            let i = choose|i: int| 0 <= i < n - 1 && #[trigger] in_gen(ts[i], vkey(v));
            assert(0 <= i < n && in_gen(ts[i], vkey(v)));
        }
        if in_gen(ts[n - 1], vkey(v)) { assert(0 <= n - 1 < n && in_gen(ts[n - 1], vkey(v))); }
    }
}

pub proof fn lemma_vars_guards(acc: Seq<Variable>, gs: Seq<Guard>, n: int, v: Variable)
    requires 0 <= n <= gs.len(),
    ensures spec_vars_guards(acc, gs, n).contains(v)
        == (acc.contains(v) || exists|i: int| 0 <= i < n && #[trigger] in_gen(gs[i].term, vkey(v))),
    decreases n,
{
    if n > 0 {
        lemma_vars_guards(acc, gs, n - 1, v);
        lemma_vars_gen(gs[n - 1].term, v);
        lemma_seq_extend_contains(spec_vars_guards(acc, gs, n - 1), spec_vars_gen(gs[n - 1].term), v);
        if exists|i: int| 0 <= i < n && #[trigger] in_gen(gs[i].term, vkey(v)) {
            let i = choose|i: int| 0 <= i < n && #[trigger] in_gen(gs[i].term, vkey(v));
            if i < n - 1 { assert(exists|i: int| 0 <= i < n - 1 && #[trigger] in_gen(gs[i].term, vkey(v))); }
        }
        if exists|i: int| 0 <= i < n - 1 && #[trigger] in_gen(gs[i].term, vkey(v)) {
            let i = choose|i: int| 0 <= i < n - 1 && #[trigger] in_gen(gs[i].term, vkey(v));
            assert(0 <= i < n && in_gen(gs[i].term, vkey(v)));
        }
        if in_gen(gs[n - 1].term, vkey(v)) { assert(0 <= n - 1 < n && in_gen(gs[n - 1].term, vkey(v))); }
    }
}

pub proof fn lemma_vars_atomic(a: AtomicFormula, v: Variable)
    ensures spec_vars_atomic(a).contains(v) == in_atomic(a, vkey(v)),
{
    match a {
        AtomicFormula::Atom(at) => {
            lemma_vars_terms(Seq::empty(), at.terms@, at.terms@.len() as int, v);
        }
        AtomicFormula::Comparison(c) => {
            lemma_vars_gen(c.term, v);
            lemma_vars_guards(spec_vars_gen(c.term), c.guards@, c.guards@.len() as int, v);
        }
        _ => {}
    }
}

pub proof fn lemma_remove_all_contains(acc: Seq<Variable>, vs: Seq<Variable>, n: int, v: Variable)
    requires 0 <= n <= vs.len(),
    ensures spec_remove_all(acc, vs, n).contains(v) == (acc.contains(v) && !(exists|i: int| 0 <= i < n && vs[i] == v)),
    decreases n,
{
    if n > 0 {
        lemma_remove_all_contains(acc, vs, n - 1, v);
        lemma_seq_remove_contains(spec_remove_all(acc, vs, n - 1), vs[n - 1], v);
        if exists|i: int| 0 <= i < n && vs[i] == v {
            let i = choose|i: int| 0 <= i < n && vs[i] == v;
            if i < n - 1 { assert(exists|i: int| 0 <= i < n - 1 && vs[i] == v); }
        }
        if exists|i: int| 0 <= i < n - 1 && vs[i] == v {
            let i = choose|i: int| 0 <= i < n - 1 && vs[i] == v;
            assert(0 <= i < n && vs[i] == v);
        }
    }
}

/// Formula::free_variables() contains v  iff  v occurs free
pub proof fn lemma_spec_fv(f: Formula, v: Variable)
    ensures spec_fv(f).contains(v) == fv(f, vkey(v)),
    decreases f,
{
    match f {
        Formula::AtomicFormula(a) => { lemma_vars_atomic(a, v); }
        Formula::UnaryFormula { connective, formula } => { lemma_spec_fv(*formula, v); }
        Formula::BinaryFormula { connective, lhs, rhs } => {
            lemma_spec_fv(*lhs, v);
            lemma_spec_fv(*rhs, v);
            lemma_seq_extend_contains(spec_fv(*lhs), spec_fv(*rhs), v);
        }
        Formula::QuantifiedFormula { quantification, formula } => {
            lemma_spec_fv(*formula, v);
            let vs = quantification.variables@;
            lemma_remove_all_contains(spec_fv(*formula), vs, vs.len() as int, v);
            if exists|i: int| 0 <= i < vs.len() && vs[i] == v {
                let i = choose|i: int| 0 <= i < vs.len() && vs[i] == v;
                assert(vkey(vs[i]) == vkey(v));
            }
            if bound_by(vs, vkey(v)) {
                let i = choose|i: int| 0 <= i < vs.len() && #[trigger] vkey(vs[i]) == vkey(v);
                assert(vs[i] == v);
            }
        }
    }
}

/// term.variables() contains v iff v occurs in the term
pub proof fn lemma_spec_vars_gen(t: GeneralTerm, v: Variable)
    ensures spec_vars_gen(t).contains(v) == in_gen(t, vkey(v)),
{
    lemma_vars_gen(t, v);
}

/// deduplication keeps the length only if there was nothing to remove
pub proof fn lemma_extend_len<T>(s: Seq<T>, t: Seq<T>)
    ensures
        seq_extend(s, t).len() <= s.len() + t.len(),
        seq_extend(s, t).len() == s.len() + t.len() ==> (forall|i: int, j: int| 0 <= i < j < t.len() ==> t[i] != t[j]) && (forall|i: int| 0 <= i < t.len() ==> !s.contains(t[i])),
    decreases t.len(),
{
    if t.len() > 0 {
        let s1 = seq_insert(s, t[0]);
        let rest = t.drop_first();
        lemma_extend_len(s1, rest);
        if seq_extend(s, t).len() == s.len() + t.len() {
            assert(s1.len() == s.len() + 1);
            assert(!s.contains(t[0]));
            assert forall|i: int| 0 <= i < t.len() implies !s.contains(t[i]) by {
                if i > 0 {
                    assert(!s1.contains(rest[i - 1]));
                    if s.contains(t[i]) { let q = choose|q: int| 0 <= q < s.len() && s[q] == t[i]; assert(s1[q] == t[i]); }
                }
            }
            assert forall|i: int, j: int| 0 <= i < j < t.len() implies t[i] != t[j] by {
                if i == 0 { assert(!s1.contains(rest[j - 1])); assert(s1[s.len() as int] == t[0]); } else { assert(rest[i - 1] != rest[j - 1]); }
            }
        }
    }
}

