// ucl_lemmas.rs — universal closure (Formula::universal_closure = quantify over the free variables), classically and in HT.

/// an assignment that respects sorts
pub open spec fn wf_asg(s: Asg) -> bool { forall|k: VKey| in_sort(#[trigger] s[k], k.1) }

pub open spec fn spec_ucl(g: Formula) -> Formula { spec_quantify(g, Quantifier::Forall, spec_fv(g)) }

/// s with the keys bound by vars taken from s2
pub open spec fn override_on(s: Asg, s2: Asg, vars: Seq<Variable>) -> Asg
    decreases vars.len(),
{
    if vars.len() == 0 { s } else { override_on(s, s2, vars.drop_last()).insert(vkey(vars.last()), s2[vkey(vars.last())]) }
}

pub proof fn lemma_override_on(s: Asg, s2: Asg, vars: Seq<Variable>, k: VKey)
    ensures override_on(s, s2, vars)[k] == (if bound_by(vars, k) { s2[k] } else { s[k] }),
    decreases vars.len(),
{
    if vars.len() > 0 {
        let pre = vars.drop_last();
        lemma_override_on(s, s2, pre, k);
        assert(vars =~= pre.push(vars.last()));
        lemma_bound_by_push(pre, vars.last(), k);
    } else {
        assert(!bound_by(vars, k));
    }
}

pub proof fn lemma_fv_bound(g: Formula, k: VKey)
    ensures bound_by(spec_fv(g), k) == fv(g, k),
{
    let xs = spec_fv(g);
    if bound_by(xs, k) {
        let i = choose|i: int| 0 <= i < xs.len() && #[trigger] vkey(xs[i]) == k;
        assert(xs.contains(xs[i]));
        lemma_spec_fv(g, xs[i]);
    }
    if fv(g, k) {
        let v = Variable { name: str_of(k.0), sort: k.1 };
        broadcast use axiom_str_of;
        assert(vkey(v) == k);
        lemma_spec_fv(g, v);
        lemma_contains_bound(xs, v);
    }
}

/// a universal closure that is true (under a sort-respecting assignment) makes its body true under
/// every sort-respecting assignment
pub proof fn lemma_ucl_valid(g: Formula, m: Interp, s: Asg, s2: Asg)
    requires cl_sat(spec_ucl(g), m, s), wf_asg(s2),
    ensures cl_sat(g, m, s2),
{
    let xs = spec_fv(g);
    lemma_quantify_cl(g, Quantifier::Forall, xs, m, s);
    lemma_cl_block(Quantifier::Forall, xs, g, m, s);
    let s3 = override_on(s, s2, xs);
    assert forall|k: VKey| !bound_by(xs, k) implies #[trigger] s3[k] == s[k] by { lemma_override_on(s, s2, xs, k); }
    assert forall|k: VKey| bound_by(xs, k) implies in_sort(#[trigger] s3[k], k.1) by { lemma_override_on(s, s2, xs, k); }
    assert(variant(s3, s, xs));
    let p = |s9: Asg| cl_sat(g, m, s9);
    assert(p(s3));
    assert forall|k: VKey| fv(g, k) implies s3[k] == s2[k] by { lemma_fv_bound(g, k); lemma_override_on(s, s2, xs, k); }
    lemma_coin_cl(g, m, s3, s2);
}


/// HT: a true universal closure makes its body true under every assignment that respects the sorts of the free variables
pub proof fn lemma_ucl_inst_ht(g: Formula, w: World, m: HT, s: Asg, s2: Asg)
    requires ht_sat(spec_ucl(g), w, m, s), forall|k: VKey| fv(g, k) ==> in_sort(#[trigger] s2[k], k.1),
    ensures ht_sat(g, w, m, s2),
{
    let xs = spec_fv(g);
    lemma_quantify_ht(g, Quantifier::Forall, xs, w, m, s);
    lemma_ht_block(Quantifier::Forall, xs, g, w, m, s);
    let s3 = override_on(s, s2, xs);
    assert forall|k: VKey| !bound_by(xs, k) implies #[trigger] s3[k] == s[k] by { lemma_override_on(s, s2, xs, k); }
    assert forall|k: VKey| bound_by(xs, k) implies in_sort(#[trigger] s3[k], k.1) by { lemma_override_on(s, s2, xs, k); lemma_fv_bound(g, k); }
    assert(variant(s3, s, xs));
    let p = |s9: Asg| ht_sat(g, w, m, s9);
    assert(p(s3));
    assert forall|k: VKey| fv(g, k) implies s3[k] == s2[k] by { lemma_fv_bound(g, k); lemma_override_on(s, s2, xs, k); }
    lemma_coin_ht(g, w, m, s3, s2);
}

/// HT: if the body is true under every assignment, so is the universal closure
pub proof fn lemma_ucl_intro_ht(g: Formula, w: World, m: HT, s: Asg)
    requires forall|s2: Asg| #[trigger] ht_sat(g, w, m, s2),
    ensures ht_sat(spec_ucl(g), w, m, s),
{
    let xs = spec_fv(g);
    lemma_quantify_ht(g, Quantifier::Forall, xs, w, m, s);
    lemma_ht_block(Quantifier::Forall, xs, g, w, m, s);
    let p = |s9: Asg| ht_sat(g, w, m, s9);
    assert forall|s2: Asg| variant(s2, s, xs) implies #[trigger] p(s2) by { assert(ht_sat(g, w, m, s2)); }
}

/// a universal closure has no free variables
pub proof fn lemma_ucl_closed(g: Formula, k: VKey)
    ensures !fv(spec_ucl(g), k),
{
    broadcast use axiom_vec_of;
    lemma_fv_bound(g, k);
    let xs = spec_fv(g);
    if xs.len() == 0 { assert(!bound_by(xs, k)); }
}
