// simp_spec.rs — C07: what "preserves meaning" means, and the assumed contract of conjoin/disjoin.

/// same truth value in every HT interpretation (H included in T), in both worlds, under every assignment
pub open spec fn equiv_ht(a: Formula, b: Formula) -> bool {
    forall|w: World, m: HT, s: Asg| ht_wf(m) ==> #[trigger] ht_sat(a, w, m, s) == ht_sat(b, w, m, s)
}
/// same truth value in every classical interpretation under every assignment
pub open spec fn equiv_cl(a: Formula, b: Formula) -> bool {
    forall|m: Interp, s: Asg| #[trigger] cl_sat(a, m, s) == cl_sat(b, m, s)
}
/// no free variables that the input did not have
pub open spec fn fv_sub(a: Formula, b: Formula) -> bool {
    forall|k: VKey| #[trigger] fv(a, k) ==> fv(b, k)
}
/// the contract of every rewrite of the intuitionistic portfolio
pub open spec fn preserves_ht(r: Formula, f: Formula) -> bool {
    equiv_ht(r, f) && equiv_cl(r, f) && fv_sub(r, f)
}
/// the contract of every rewrite that is only classically valid
pub open spec fn preserves_cl(r: Formula, f: Formula) -> bool {
    equiv_cl(r, f) && fv_sub(r, f)
}

// ---- Formula::conjoin / disjoin: left-nested, #true / #false for the empty list ---------------
pub open spec fn spec_conjoin(fs: Seq<Formula>) -> Formula
    decreases fs.len(),
{
    if fs.len() == 0 { Formula::AtomicFormula(AtomicFormula::Truth) }
    else if fs.len() == 1 { fs[0] }
    else { Formula::BinaryFormula { connective: BinaryConnective::Conjunction, lhs: Box::new(spec_conjoin(fs.drop_last())), rhs: Box::new(fs.last()) } }
}
pub open spec fn spec_disjoin(fs: Seq<Formula>) -> Formula
    decreases fs.len(),
{
    if fs.len() == 0 { Formula::AtomicFormula(AtomicFormula::Falsity) }
    else if fs.len() == 1 { fs[0] }
    else { Formula::BinaryFormula { connective: BinaryConnective::Disjunction, lhs: Box::new(spec_disjoin(fs.drop_last())), rhs: Box::new(fs.last()) } }
}

pub trait FormulaList { spec fn items(&self) -> Seq<Formula>; }
impl FormulaList for Vec<Formula> { open spec fn items(&self) -> Seq<Formula> { self@ } }
impl<const N: usize> FormulaList for [Formula; N] { open spec fn items(&self) -> Seq<Formula> { self@ } }

impl Formula {
    // ASSUMED CONTRACT (body uses Iterator::reduce, outside Verus' subset; checked on the real code by the bounded harness)
    #[verifier::external_body]
    pub fn conjoin<I: FormulaList>(formulas: I) -> (r: Formula)
        ensures r == spec_conjoin(formulas.items()),
    { unimplemented!() }
    #[verifier::external_body]
    pub fn disjoin<I: FormulaList>(formulas: I) -> (r: Formula)
        ensures r == spec_disjoin(formulas.items()),
    { unimplemented!() }
}

pub proof fn lemma_conjoin_ht(fs: Seq<Formula>, w: World, m: HT, s: Asg)
    ensures ht_sat(spec_conjoin(fs), w, m, s) == (forall|i: int| 0 <= i < fs.len() ==> #[trigger] ht_sat(fs[i], w, m, s)),
    decreases fs.len(),
{
    if fs.len() >= 2 {
        let pre = fs.drop_last();
        lemma_conjoin_ht(pre, w, m, s);
        if ht_sat(spec_conjoin(fs), w, m, s) {
            assert forall|i: int| 0 <= i < fs.len() implies #[trigger] ht_sat(fs[i], w, m, s) by {
                if i < pre.len() { assert(ht_sat(pre[i], w, m, s)); }
            }
        }
        if forall|i: int| 0 <= i < fs.len() ==> #[trigger] ht_sat(fs[i], w, m, s) {
            assert forall|i: int| 0 <= i < pre.len() implies #[trigger] ht_sat(pre[i], w, m, s) by { assert(ht_sat(fs[i], w, m, s)); }
            assert(ht_sat(fs[fs.len() - 1], w, m, s));
        }
    } else if fs.len() == 1 {
        if ht_sat(fs[0], w, m, s) { assert forall|i: int| 0 <= i < fs.len() implies #[trigger] ht_sat(fs[i], w, m, s) by {} }
    }
}

pub proof fn lemma_conjoin_cl(fs: Seq<Formula>, m: Interp, s: Asg)
    ensures cl_sat(spec_conjoin(fs), m, s) == (forall|i: int| 0 <= i < fs.len() ==> #[trigger] cl_sat(fs[i], m, s)),
    decreases fs.len(),
{
    if fs.len() >= 2 {
        let pre = fs.drop_last();
        lemma_conjoin_cl(pre, m, s);
        if cl_sat(spec_conjoin(fs), m, s) {
            assert forall|i: int| 0 <= i < fs.len() implies #[trigger] cl_sat(fs[i], m, s) by {
                if i < pre.len() { assert(cl_sat(pre[i], m, s)); }
            }
        }
        if forall|i: int| 0 <= i < fs.len() ==> #[trigger] cl_sat(fs[i], m, s) {
            assert forall|i: int| 0 <= i < pre.len() implies #[trigger] cl_sat(pre[i], m, s) by { assert(cl_sat(fs[i], m, s)); }
            assert(cl_sat(fs[fs.len() - 1], m, s));
        }
    } else if fs.len() == 1 {
        if cl_sat(fs[0], m, s) { assert forall|i: int| 0 <= i < fs.len() implies #[trigger] cl_sat(fs[i], m, s) by {} }
    }
}

pub proof fn lemma_conjoin_fv(fs: Seq<Formula>, k: VKey)
    ensures fv(spec_conjoin(fs), k) == (exists|i: int| 0 <= i < fs.len() && #[trigger] fv(fs[i], k)),
    decreases fs.len(),
{
    if fs.len() >= 2 {
        let pre = fs.drop_last();
        lemma_conjoin_fv(pre, k);
        if fv(spec_conjoin(fs), k) {
            if fv(spec_conjoin(pre), k) {
                let i = choose|i: int| 0 <= i < pre.len() && #[trigger] fv(pre[i], k);
                assert(fv(fs[i], k));
            } else {
                assert(fv(fs[fs.len() - 1], k));
            }
        }
        if exists|i: int| 0 <= i < fs.len() && #[trigger] fv(fs[i], k) {
            let i = choose|i: int| 0 <= i < fs.len() && #[trigger] fv(fs[i], k);
            if i < pre.len() { assert(fv(pre[i], k)); }
        }
    } else if fs.len() == 1 {
        if fv(fs[0], k) { assert(exists|i: int| 0 <= i < fs.len() && #[trigger] fv(fs[i], k)); }
    }
}
