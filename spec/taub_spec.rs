// taub_spec.rs — C01: the oracle for rule bodies (ground-instance semantics of mini-gringo body literals and
// comparisons, after Lifschitz, Lühne, Schaub 2019, Sec. 3: tau of p(t) is the disjunction of p(r) over the values r of t,
// a comparison is true iff some pair of values stands in the relation) and the lemmas that connect it to tau^B.
// Hand-written SPEC code only.

// ---- oracle ----------------------------------------------------------------------------------------------------
pub open spec fn tv_at(ts: Seq<asp::Term>, s: Asg, vs: Seq<Val>, i: int) -> bool { in_vals(ts[i], s, vs[i]) }

/// vs is a tuple of values of the tuple of terms ts
pub open spec fn tuple_vals(ts: Seq<asp::Term>, s: Asg, vs: Seq<Val>) -> bool {
    vs.len() == ts.len() && forall|i: int| 0 <= i < ts.len() ==> #[trigger] tv_at(ts, s, vs, i)
}

pub open spec fn holds(w: World, m: HT, p: Seq<char>, vs: Seq<Val>) -> bool {
    if w == World::Here { (m.h)(p, vs) } else { (m.t)(p, vs) }
}

/// a ground literal in <H,T> at world w: `not A` holds iff A is not in T, `not not A` iff A is in T
pub open spec fn signed_holds(sign: asp::Sign, w: World, m: HT, p: Seq<char>, vs: Seq<Val>) -> bool {
    match sign {
        asp::Sign::NoSign => holds(w, m, p, vs),
        asp::Sign::Negation => !holds(World::There, m, p, vs),
        asp::Sign::DoubleNegation => holds(World::There, m, p, vs),
    }
}

pub open spec fn lit_sat(l: asp::Literal, w: World, m: HT, s: Asg) -> bool {
    exists|vs: Seq<Val>| #[trigger] tuple_vals(l.atom.terms@, s, vs) && signed_holds(l.sign, w, m, l.atom.predicate_symbol@, vs)
}

pub open spec fn asp_rel(r: asp::Relation, a: Val, b: Val) -> bool {
    match r {
        asp::Relation::Equal => a == b,
        asp::Relation::NotEqual => a != b,
        asp::Relation::Less => val_lt(a, b),
        asp::Relation::Greater => val_lt(b, a),
        asp::Relation::LessEqual => val_lt(a, b) || a == b,
        asp::Relation::GreaterEqual => val_lt(b, a) || a == b,
    }
}

pub open spec fn trv2(a: Val, b: Val) -> bool { true }

pub open spec fn cmp_sat(c: asp::Comparison, s: Asg) -> bool {
    exists|a: Val, b: Val| #[trigger] trv2(a, b) && in_vals(c.lhs, s, a) && in_vals(c.rhs, s, b) && asp_rel(c.relation, a, b)
}

pub open spec fn af_sat(f: asp::AtomicFormula, w: World, m: HT, s: Asg) -> bool {
    match f {
        asp::AtomicFormula::Literal(l) => lit_sat(l, w, m, s),
        asp::AtomicFormula::Comparison(c) => cmp_sat(c, s),
    }
}

pub open spec fn terms_in(ts: Seq<asp::Term>, k: VKey) -> bool { exists|i: int| 0 <= i < ts.len() && #[trigger] asp_in_term(ts[i], k) }

pub open spec fn af_in(f: asp::AtomicFormula, k: VKey) -> bool {
    match f {
        asp::AtomicFormula::Literal(l) => terms_in(l.atom.terms@, k),
        asp::AtomicFormula::Comparison(c) => asp_in_term(c.lhs, k) || asp_in_term(c.rhs, k),
    }
}

/// tau^B(f): same truth value as the body element f in every HT interpretation, at both worlds, under every assignment;
/// no free variables besides the variables of f
pub open spec fn taub_ok(r: Formula, f: asp::AtomicFormula) -> bool {
    &&& forall|w: World, m: HT, s: Asg| ht_wf(m) ==> #[trigger] ht_sat(r, w, m, s) == af_sat(f, w, m, s)
    &&& forall|k: VKey| #[trigger] fv(r, k) ==> af_in(f, k)
}

// ---- blocks of fresh general variables Z1 ... Zn ---------------------------------------------------------------------
pub open spec fn zkey(n: String) -> VKey { (n@, Sort::General) }
pub open spec fn zvar(n: String) -> Variable { Variable { name: n, sort: Sort::General } }
pub open spec fn zvars(names: Seq<String>) -> Seq<Variable> { Seq::new(names.len(), |i: int| zvar(names[i])) }
pub open spec fn zterms(names: Seq<String>) -> Seq<GeneralTerm> { Seq::new(names.len(), |i: int| GeneralTerm::Variable(names[i])) }
pub open spec fn zs(names: Seq<String>, s2: Asg) -> Seq<Val> { Seq::new(names.len(), |i: int| s2[zkey(names[i])]) }

pub open spec fn distinct_names(names: Seq<String>) -> bool {
    forall|i: int, j: int| 0 <= i < j < names.len() ==> #[trigger] names[i]@ != #[trigger] names[j]@
}

pub open spec fn with_vals(s: Asg, names: Seq<String>, vs: Seq<Val>) -> Asg
    decreases names.len(),
{
    if names.len() == 0 || vs.len() != names.len() { s }
    else { with_vals(s, names.drop_last(), vs.drop_last()).insert(zkey(names.last()), vs.last()) }
}

pub proof fn lemma_with_vals(s: Asg, names: Seq<String>, vs: Seq<Val>)
    requires distinct_names(names), vs.len() == names.len(),
    ensures
        forall|i: int| 0 <= i < names.len() ==> with_vals(s, names, vs)[#[trigger] zkey(names[i])] == vs[i],
        forall|k: VKey| (forall|i: int| 0 <= i < names.len() ==> k != #[trigger] zkey(names[i])) ==> #[trigger] with_vals(s, names, vs)[k] == s[k],
    decreases names.len(),
{
    if names.len() > 0 {
        let n1 = names.drop_last();
        let v1 = vs.drop_last();
        assert(distinct_names(n1)) by {
            assert forall|i: int, j: int| 0 <= i < j < n1.len() implies #[trigger] n1[i]@ != #[trigger] n1[j]@ by { assert(names[i]@ != names[j]@); }
        }
        lemma_with_vals(s, n1, v1);
        let last = names.len() - 1;
        assert forall|i: int| 0 <= i < names.len() implies with_vals(s, names, vs)[#[trigger] zkey(names[i])] == vs[i] by {
            if i < last {
                assert(names[i]@ != names[last]@);
                assert(zkey(n1[i]) == zkey(names[i]));
                assert(v1[i] == vs[i]);
            }
        }
        assert forall|k: VKey| (forall|i: int| 0 <= i < names.len() ==> k != #[trigger] zkey(names[i])) implies #[trigger] with_vals(s, names, vs)[k] == s[k] by {
            assert(k != zkey(names[last]));
            assert forall|i: int| 0 <= i < n1.len() implies k != #[trigger] zkey(n1[i]) by { assert(zkey(n1[i]) == zkey(names[i])); }
            assert(with_vals(s, n1, v1)[k] == s[k]);
        }
    }
}

pub proof fn lemma_zvars_bound(names: Seq<String>, k: VKey)
    ensures bound_by(zvars(names), k) == (exists|i: int| 0 <= i < names.len() && k == #[trigger] zkey(names[i])),
{
    let v = zvars(names);
    if bound_by(v, k) {
        let i = choose|i: int| 0 <= i < v.len() && #[trigger] vkey(v[i]) == k;
        assert(k == zkey(names[i]));
    }
    if exists|i: int| 0 <= i < names.len() && k == #[trigger] zkey(names[i]) {
        let i = choose|i: int| 0 <= i < names.len() && k == #[trigger] zkey(names[i]);
        assert(vkey(v[i]) == k);
    }
}

/// the variant of s that gives the Z's the values vs
pub proof fn lemma_with_vals_variant(s: Asg, names: Seq<String>, vs: Seq<Val>)
    requires distinct_names(names), vs.len() == names.len(),
    ensures variant(with_vals(s, names, vs), s, zvars(names)), zs(names, with_vals(s, names, vs)) =~= vs,
{
    lemma_with_vals(s, names, vs);
    let s2 = with_vals(s, names, vs);
    assert forall|k: VKey| !bound_by(zvars(names), k) implies #[trigger] s2[k] == s[k] by {
        lemma_zvars_bound(names, k);
    }
    assert forall|k: VKey| bound_by(zvars(names), k) implies in_sort(#[trigger] s2[k], k.1) by {
        lemma_zvars_bound(names, k);
    }
}

/// what the translator establishes about val_t1(Z1), ..., val_tn(Zn): the names are pairwise distinct and none
/// is a variable of one of the terms
pub open spec fn parts_ok(terms: Seq<asp::Term>, names: Seq<String>, vals: Seq<Formula>) -> bool {
    &&& names.len() == terms.len() && vals.len() == terms.len()
    &&& distinct_names(names)
    &&& forall|i: int| 0 <= i < terms.len() ==> #[trigger] val_ok(vals[i], terms[i], zvar(names[i]))
    &&& forall|i: int, j: int, k: VKey| 0 <= i < names.len() && 0 <= j < terms.len() && #[trigger] asp_in_term(terms[j], k) ==> k != #[trigger] zkey(names[i])
}

/// val_t1(Z1) & ... & val_tn(Zn) under a variant of s on the Z's: the Z's hold a tuple of values of the terms
pub proof fn lemma_valtz_at(terms: Seq<asp::Term>, names: Seq<String>, vals: Seq<Formula>, w: World, m: HT, s: Asg, s2: Asg)
    requires parts_ok(terms, names, vals), variant(s2, s, zvars(names)),
    ensures ht_sat(spec_conjoin(vals), w, m, s2) == tuple_vals(terms, s, zs(names, s2)),
{
    lemma_conjoin_ht(vals, w, m, s2);
    let vs = zs(names, s2);
    assert forall|i: int| 0 <= i < terms.len() implies #[trigger] ht_sat(vals[i], w, m, s2) == tv_at(terms, s, vs, i) by {
        assert(val_ok(vals[i], terms[i], zvar(names[i])));
        assert(zval(zvar(names[i]), s2) == vs[i]);
        assert forall|k: VKey| asp_in_term(terms[i], k) implies s2[k] == s[k] by {
            lemma_zvars_bound(names, k);
            if bound_by(zvars(names), k) {
                let j = choose|j: int| 0 <= j < names.len() && k == #[trigger] zkey(names[j]);
                assert(k != zkey(names[j]));
            }
        }
        lemma_in_vals_coin(terms[i], s2, s, vs[i]);
    }
    if ht_sat(spec_conjoin(vals), w, m, s2) {
        assert forall|i: int| 0 <= i < terms.len() implies #[trigger] tv_at(terms, s, vs, i) by { assert(ht_sat(vals[i], w, m, s2)); }
    }
    if tuple_vals(terms, s, vs) {
        assert forall|i: int| 0 <= i < vals.len() implies #[trigger] ht_sat(vals[i], w, m, s2) by { assert(tv_at(terms, s, vs, i)); }
    }
}

pub proof fn lemma_valtz_fv(terms: Seq<asp::Term>, names: Seq<String>, vals: Seq<Formula>, k: VKey)
    requires parts_ok(terms, names, vals), fv(spec_conjoin(vals), k),
    ensures bound_by(zvars(names), k) || terms_in(terms, k),
{
    lemma_conjoin_fv(vals, k);
    let i = choose|i: int| 0 <= i < vals.len() && #[trigger] fv(vals[i], k);
    assert(val_ok(vals[i], terms[i], zvar(names[i])));
    if k == vkey(zvar(names[i])) {
        assert(k == zkey(names[i]));
        lemma_zvars_bound(names, k);
    } else {
        assert(asp_in_term(terms[i], k));
    }
}

// ---- signed atoms p(Z), not p(Z), not not p(Z) ---------------------------------------------------------------------
pub open spec fn is_atom(f: Formula, p: Seq<char>, ts: Seq<GeneralTerm>) -> bool {
    f is AtomicFormula && f->AtomicFormula_0 is Atom && f->AtomicFormula_0->Atom_0.predicate_symbol@ == p && f->AtomicFormula_0->Atom_0.terms@ == ts
}
pub open spec fn is_neg(f: Formula) -> bool { f is UnaryFormula }
pub open spec fn neg_arg(f: Formula) -> Formula { *f->UnaryFormula_formula }

pub open spec fn is_signed_atom(f: Formula, sign: asp::Sign, p: Seq<char>, ts: Seq<GeneralTerm>) -> bool {
    match sign {
        asp::Sign::NoSign => is_atom(f, p, ts),
        asp::Sign::Negation => is_neg(f) && is_atom(neg_arg(f), p, ts),
        asp::Sign::DoubleNegation => is_neg(f) && is_neg(neg_arg(f)) && is_atom(neg_arg(neg_arg(f)), p, ts),
    }
}

pub proof fn lemma_signed_atom(f: Formula, sign: asp::Sign, p: Seq<char>, ts: Seq<GeneralTerm>, w: World, m: HT, s: Asg)
    requires is_signed_atom(f, sign, p, ts), ht_wf(m),
    ensures ht_sat(f, w, m, s) == signed_holds(sign, w, m, p, eval_terms(ts, m.fc, s)),
{
    reveal_with_fuel(ht_sat, 3);
    let a = eval_terms(ts, m.fc, s);
    if (m.h)(p, a) { assert((m.t)(p, a)); }
}

pub proof fn lemma_signed_atom_fv(f: Formula, sign: asp::Sign, p: Seq<char>, ts: Seq<GeneralTerm>, k: VKey)
    requires is_signed_atom(f, sign, p, ts),
    ensures fv(f, k) == in_terms(ts, k),
{
    reveal_with_fuel(fv, 3);
}

pub proof fn lemma_zterms(names: Seq<String>, fc: spec_fn(Seq<char>, Sort) -> Val, s2: Asg)
    ensures eval_terms(zterms(names), fc, s2) =~= zs(names, s2),
{
}

pub proof fn lemma_zterms_in(names: Seq<String>, k: VKey)
    ensures in_terms(zterms(names), k) == bound_by(zvars(names), k),
{
    lemma_zvars_bound(names, k);
    let ts = zterms(names);
    if in_terms(ts, k) {
        let i = choose|i: int| 0 <= i < ts.len() && #[trigger] in_gen(ts[i], k);
        assert(k == zkey(names[i]));
    }
    if bound_by(zvars(names), k) {
        let i = choose|i: int| 0 <= i < names.len() && k == #[trigger] zkey(names[i]);
        assert(in_gen(ts[i], k));
    }
}

// ---- exists Z1 ... Zn (val_t1(Z1) & ... & val_tn(Zn) & B) -----------------------------------------------------------
pub open spec fn is_exists(r: Formula, vars: Seq<Variable>) -> bool {
    r is QuantifiedFormula && r->QuantifiedFormula_quantification.quantifier == Quantifier::Exists && r->QuantifiedFormula_quantification.variables@ == vars
}
pub open spec fn is_conj(f: Formula) -> bool { f is BinaryFormula && f->BinaryFormula_connective == BinaryConnective::Conjunction }

/// r is  exists zvars(names) (spec_conjoin(vals) & rhs)
pub open spec fn taub_shape(r: Formula, names: Seq<String>, vals: Seq<Formula>, rhs: Formula) -> bool {
    is_exists(r, zvars(names)) && is_conj(*r->QuantifiedFormula_formula)
        && *(*r->QuantifiedFormula_formula)->BinaryFormula_lhs == spec_conjoin(vals)
        && *(*r->QuantifiedFormula_formula)->BinaryFormula_rhs == rhs
}

pub open spec fn taub_rhs(r: Formula) -> Formula { *(*r->QuantifiedFormula_formula)->BinaryFormula_rhs }

/// r is  exists Z (val_t(Z) & [not [not]] p(Z))
pub open spec fn fo_shape(r: Formula, names: Seq<String>, vals: Seq<Formula>, sign: asp::Sign, p: Seq<char>) -> bool {
    taub_shape(r, names, vals, taub_rhs(r)) && is_signed_atom(taub_rhs(r), sign, p, zterms(names))
}
/// r is  exists Z1 Z2 (val_t1(Z1) & val_t2(Z2) & Z1 rel Z2)
pub open spec fn cmp_shape(r: Formula, names: Seq<String>, vals: Seq<Formula>, rel: Relation) -> bool {
    taub_shape(r, names, vals, taub_rhs(r)) && cmp1(GeneralTerm::Variable(names[0]), rel, GeneralTerm::Variable(names[1]), taub_rhs(r))
}

/// semantics of the block: some tuple of values of the terms, given to the Z's, makes rhs true
pub proof fn lemma_taub_block(r: Formula, terms: Seq<asp::Term>, names: Seq<String>, vals: Seq<Formula>, rhs: Formula, w: World, m: HT, s: Asg)
    requires parts_ok(terms, names, vals), taub_shape(r, names, vals, rhs),
    ensures ht_sat(r, w, m, s) == (exists|vs: Seq<Val>| #[trigger] tuple_vals(terms, s, vs) && ht_sat(rhs, w, m, with_vals(s, names, vs))),
{
    let body = *r->QuantifiedFormula_formula;
    let vars = zvars(names);
    lemma_ht_block(Quantifier::Exists, vars, body, w, m, s);
    let p = |s2: Asg| ht_sat(body, w, m, s2);
    assert(ht_sat(r, w, m, s) == quant_set(Quantifier::Exists, vars, p, s));
    if quant_set(Quantifier::Exists, vars, p, s) {
        let s2 = choose|s2: Asg| variant(s2, s, vars) && #[trigger] p(s2);
        assert(ht_sat(body, w, m, s2));
        lemma_valtz_at(terms, names, vals, w, m, s, s2);
        let vs = zs(names, s2);
        lemma_with_vals_variant(s, names, vs);
        let s3 = with_vals(s, names, vs);
        // s3 and s2 agree everywhere
        assert forall|k: VKey| s3[k] == s2[k] by {
            lemma_with_vals(s, names, vs);
            lemma_zvars_bound(names, k);
            if bound_by(vars, k) {
                let i = choose|i: int| 0 <= i < names.len() && k == #[trigger] zkey(names[i]);
                assert(s3[zkey(names[i])] == vs[i]);
            }
        }
        lemma_ht_pred_ext(rhs, w, m);
        let q = |sx: Asg| ht_sat(rhs, w, m, sx);
        assert(q(s3) == q(s2));
        assert(tuple_vals(terms, s, vs) && ht_sat(rhs, w, m, with_vals(s, names, vs)));
    }
    if exists|vs: Seq<Val>| #[trigger] tuple_vals(terms, s, vs) && ht_sat(rhs, w, m, with_vals(s, names, vs)) {
        let vs = choose|vs: Seq<Val>| #[trigger] tuple_vals(terms, s, vs) && ht_sat(rhs, w, m, with_vals(s, names, vs));
        lemma_with_vals_variant(s, names, vs);
        let s2 = with_vals(s, names, vs);
        lemma_valtz_at(terms, names, vals, w, m, s, s2);
        assert(p(s2));
    }
}

pub proof fn lemma_taub_block_fv(r: Formula, terms: Seq<asp::Term>, names: Seq<String>, vals: Seq<Formula>, rhs: Formula, k: VKey)
    requires parts_ok(terms, names, vals), taub_shape(r, names, vals, rhs), fv(r, k),
        forall|k2: VKey| #[trigger] fv(rhs, k2) ==> bound_by(zvars(names), k2),
    ensures terms_in(terms, k),
{
    let body = *r->QuantifiedFormula_formula;
    reveal_with_fuel(fv, 3);
    assert(fv(body, k) && !bound_by(zvars(names), k));
    assert(fv(spec_conjoin(vals), k) || fv(rhs, k));
    if fv(spec_conjoin(vals), k) { lemma_valtz_fv(terms, names, vals, k); }
}

// ---- first-order body literals -------------------------------------------------------------------------------------
pub proof fn lemma_fo_literal(l: asp::Literal, names: Seq<String>, vals: Seq<Formula>, rhs: Formula, r: Formula)
    requires
        parts_ok(l.atom.terms@, names, vals),
        is_signed_atom(rhs, l.sign, l.atom.predicate_symbol@, zterms(names)),
        taub_shape(r, names, vals, rhs),
    ensures taub_ok(r, asp::AtomicFormula::Literal(l)),
{
    let terms = l.atom.terms@;
    let p = l.atom.predicate_symbol@;
    assert forall|w: World, m: HT, s: Asg| ht_wf(m) implies #[trigger] ht_sat(r, w, m, s) == lit_sat(l, w, m, s) by {
        lemma_taub_block(r, terms, names, vals, rhs, w, m, s);
        assert forall|vs: Seq<Val>| #[trigger] tuple_vals(terms, s, vs) implies
            ht_sat(rhs, w, m, with_vals(s, names, vs)) == signed_holds(l.sign, w, m, p, vs) by {
            let s2 = with_vals(s, names, vs);
            lemma_with_vals_variant(s, names, vs);
            lemma_signed_atom(rhs, l.sign, p, zterms(names), w, m, s2);
            lemma_zterms(names, m.fc, s2);
        }
    }
    assert forall|k: VKey| #[trigger] fv(r, k) implies terms_in(terms, k) by {
        assert forall|k2: VKey| #[trigger] fv(rhs, k2) implies bound_by(zvars(names), k2) by {
            lemma_signed_atom_fv(rhs, l.sign, p, zterms(names), k2);
            lemma_zterms_in(names, k2);
        }
        lemma_taub_block_fv(r, terms, names, vals, rhs, k);
    }
}

// ---- propositional body literals -------------------------------------------------------------------------------------
pub proof fn lemma_prop_literal(l: asp::Literal, r: Formula)
    requires l.atom.terms@.len() == 0, is_signed_atom(r, l.sign, l.atom.predicate_symbol@, Seq::<GeneralTerm>::empty()),
    ensures taub_ok(r, asp::AtomicFormula::Literal(l)),
{
    let terms = l.atom.terms@;
    let p = l.atom.predicate_symbol@;
    let e = Seq::<GeneralTerm>::empty();
    assert forall|w: World, m: HT, s: Asg| ht_wf(m) implies #[trigger] ht_sat(r, w, m, s) == lit_sat(l, w, m, s) by {
        lemma_signed_atom(r, l.sign, p, e, w, m, s);
        let a = eval_terms(e, m.fc, s);
        assert(a =~= Seq::<Val>::empty());
        if signed_holds(l.sign, w, m, p, a) { assert(tuple_vals(terms, s, a)); }
        if lit_sat(l, w, m, s) {
            let vs = choose|vs: Seq<Val>| #[trigger] tuple_vals(terms, s, vs) && signed_holds(l.sign, w, m, p, vs);
            assert(vs =~= a);
        }
    }
    assert forall|k: VKey| #[trigger] fv(r, k) implies terms_in(terms, k) by {
        lemma_signed_atom_fv(r, l.sign, p, e, k);
    }
}

// ---- body comparisons ----------------------------------------------------------------------------------------------
pub open spec fn rel_of(r: asp::Relation) -> Relation {
    match r {
        asp::Relation::Equal => Relation::Equal,
        asp::Relation::NotEqual => Relation::NotEqual,
        asp::Relation::Greater => Relation::Greater,
        asp::Relation::Less => Relation::Less,
        asp::Relation::GreaterEqual => Relation::GreaterEqual,
        asp::Relation::LessEqual => Relation::LessEqual,
    }
}

pub proof fn lemma_cmp_literal(c: asp::Comparison, names: Seq<String>, vals: Seq<Formula>, rhs: Formula, r: Formula)
    requires
        parts_ok(seq![c.lhs, c.rhs], names, vals),
        cmp1(GeneralTerm::Variable(names[0]), rel_of(c.relation), GeneralTerm::Variable(names[1]), rhs),
        taub_shape(r, names, vals, rhs),
    ensures taub_ok(r, asp::AtomicFormula::Comparison(c)),
{
    let terms = seq![c.lhs, c.rhs];
    let z1 = GeneralTerm::Variable(names[0]);
    let z2 = GeneralTerm::Variable(names[1]);
    assert forall|w: World, m: HT, s: Asg| ht_wf(m) implies #[trigger] ht_sat(r, w, m, s) == cmp_sat(c, s) by {
        lemma_taub_block(r, terms, names, vals, rhs, w, m, s);
        assert forall|vs: Seq<Val>| #[trigger] tuple_vals(terms, s, vs) implies
            ht_sat(rhs, w, m, with_vals(s, names, vs)) == asp_rel(c.relation, vs[0], vs[1]) by {
            let s2 = with_vals(s, names, vs);
            lemma_with_vals(s, names, vs);
            lemma_cmp1(z1, rel_of(c.relation), z2, rhs, w, m, s2);
            assert(s2[zkey(names[0])] == vs[0]);
            assert(s2[zkey(names[1])] == vs[1]);
        }
        if ht_sat(r, w, m, s) {
            let vs = choose|vs: Seq<Val>| #[trigger] tuple_vals(terms, s, vs) && ht_sat(rhs, w, m, with_vals(s, names, vs));
            assert(tv_at(terms, s, vs, 0) && tv_at(terms, s, vs, 1));
            assert(trv2(vs[0], vs[1]));
        }
        if cmp_sat(c, s) {
            let (a, b) = choose|a: Val, b: Val| #[trigger] trv2(a, b) && in_vals(c.lhs, s, a) && in_vals(c.rhs, s, b) && asp_rel(c.relation, a, b);
            let vs = seq![a, b];
            assert forall|i: int| 0 <= i < terms.len() implies #[trigger] tv_at(terms, s, vs, i) by {}
            assert(tuple_vals(terms, s, vs));
        }
    }
    assert forall|k: VKey| #[trigger] fv(r, k) implies asp_in_term(c.lhs, k) || asp_in_term(c.rhs, k) by {
        assert forall|k2: VKey| #[trigger] fv(rhs, k2) implies bound_by(zvars(names), k2) by {
            lemma_cmp1_fv(z1, rel_of(c.relation), z2, rhs, k2);
            lemma_zvars_bound(names, k2);
            if in_gen(z1, k2) { assert(k2 == zkey(names[0])); }
            if in_gen(z2, k2) { assert(k2 == zkey(names[1])); }
        }
        lemma_taub_block_fv(r, terms, names, vals, rhs, k);
        let i = choose|i: int| 0 <= i < terms.len() && #[trigger] asp_in_term(terms[i], k);
        assert(i == 0 || i == 1);
    }
}

// ---- the variables() queries of mini-gringo terms cover the occurrence predicate ------------------------------------
pub open spec fn has_key(r: Seq<asp::Variable>, k: VKey) -> bool { exists|j: int| 0 <= j < r.len() && #[trigger] asp_var_key(r[j]) == k }

pub proof fn lemma_has_key_contains(r: Seq<asp::Variable>, x: asp::Variable)
    requires r.contains(x),
    ensures has_key(r, asp_var_key(x)),
{
    let j = choose|j: int| 0 <= j < r.len() && r[j] == x;
    assert(asp_var_key(r[j]) == asp_var_key(x));
}

pub proof fn lemma_has_key_extend(a: Seq<asp::Variable>, b: Seq<asp::Variable>, k: VKey)
    ensures has_key(seq_extend(a, b), k) == (has_key(a, k) || has_key(b, k)),
{
    let e = seq_extend(a, b);
    if has_key(e, k) {
        let j = choose|j: int| 0 <= j < e.len() && #[trigger] asp_var_key(e[j]) == k;
        lemma_seq_extend_contains(a, b, e[j]);
        assert(e.contains(e[j]));
        if a.contains(e[j]) { lemma_has_key_contains(a, e[j]); } else { lemma_has_key_contains(b, e[j]); }
    }
    if has_key(a, k) {
        let j = choose|j: int| 0 <= j < a.len() && #[trigger] asp_var_key(a[j]) == k;
        lemma_seq_extend_contains(a, b, a[j]);
        assert(a.contains(a[j]));
        lemma_has_key_contains(e, a[j]);
    }
    if has_key(b, k) {
        let j = choose|j: int| 0 <= j < b.len() && #[trigger] asp_var_key(b[j]) == k;
        lemma_seq_extend_contains(a, b, b[j]);
        assert(b.contains(b[j]));
        lemma_has_key_contains(e, b[j]);
    }
}

/// some element of `taken` is named n
pub open spec fn has_name(taken: Seq<Variable>, n: Seq<char>) -> bool { exists|i: int| 0 <= i < taken.len() && (#[trigger] taken[i]).name@ == n }

pub proof fn lemma_has_name_insert(taken: Seq<Variable>, x: Variable, n: Seq<char>)
    ensures has_name(seq_insert(taken, x), n) == (has_name(taken, n) || x.name@ == n),
{
    let e = seq_insert(taken, x);
    if has_name(e, n) {
        let i = choose|i: int| 0 <= i < e.len() && (#[trigger] e[i]).name@ == n;
        lemma_seq_insert_contains(taken, x, e[i]);
        assert(e.contains(e[i]));
        if taken.contains(e[i]) { let j = choose|j: int| 0 <= j < taken.len() && taken[j] == e[i]; assert(taken[j].name@ == n); }
    }
    if has_name(taken, n) {
        let i = choose|i: int| 0 <= i < taken.len() && (#[trigger] taken[i]).name@ == n;
        lemma_seq_insert_contains(taken, x, taken[i]);
        assert(taken.contains(taken[i]));
        let j = choose|j: int| 0 <= j < e.len() && e[j] == taken[i];
        assert(e[j].name@ == n);
    }
    if x.name@ == n {
        lemma_seq_insert_contains(taken, x, x);
        let j = choose|j: int| 0 <= j < e.len() && e[j] == x;
        assert(e[j].name@ == n);
    }
}

/// number of variable occurrences (an upper bound on the size of the variables() sets)
pub open spec fn var_occ(t: asp::Term) -> nat
    decreases t,
{
    match t {
        asp::Term::PrecomputedTerm(_) => 0,
        asp::Term::Variable(_) => 1,
        asp::Term::UnaryOperation { op, arg } => var_occ(*arg),
        asp::Term::BinaryOperation { op, lhs, rhs } => var_occ(*lhs) + var_occ(*rhs),
    }
}
pub open spec fn terms_var_occ(ts: Seq<asp::Term>, n: int) -> nat
    decreases n,
{
    if n <= 0 { 0 } else { terms_var_occ(ts, n - 1) + var_occ(ts[n - 1]) }
}
