// quant_lemmas.rs — quantifier blocks as predicates on assignments; distribution lemmas.

pub type APred = spec_fn(Asg) -> bool;

pub open spec fn quant_pred(q: Quantifier, vars: Seq<Variable>, p: APred, s: Asg) -> bool
    decreases vars.len(),
{
    if vars.len() == 0 { p(s) }
    else {
        let v = vars[0];
        match q {
            Quantifier::Forall => forall|x: Val| in_sort(x, v.sort) ==>
                quant_pred(q, vars.drop_first(), p, #[trigger] s.insert(vkey(v), x)),
            Quantifier::Exists => exists|x: Val| in_sort(x, v.sort) &&
                quant_pred(q, vars.drop_first(), p, #[trigger] s.insert(vkey(v), x)),
        }
    }
}

pub proof fn lemma_quant_pred_ext(q: Quantifier, vars: Seq<Variable>, p1: APred, p2: APred, s: Asg)
    requires forall|s2: Asg| #[trigger] p1(s2) == p2(s2),
    ensures quant_pred(q, vars, p1, s) == quant_pred(q, vars, p2, s),
    decreases vars.len(),
{
    if vars.len() > 0 {
        let v = vars[0];
        assert forall|x: Val| quant_pred(q, vars.drop_first(), p1, #[trigger] s.insert(vkey(v), x))
            == quant_pred(q, vars.drop_first(), p2, s.insert(vkey(v), x)) by {
            lemma_quant_pred_ext(q, vars.drop_first(), p1, p2, s.insert(vkey(v), x));
        }
    }
}

pub proof fn lemma_cl_quant_pred(q: Quantifier, vars: Seq<Variable>, body: Formula, m: Interp, s: Asg)
    ensures cl_quant(q, vars, body, m, s) == quant_pred(q, vars, |s2: Asg| cl_sat(body, m, s2), s),
    decreases vars.len(),
{
    let p = |s2: Asg| cl_sat(body, m, s2);
    if vars.len() > 0 {
        let v = vars[0];
        assert forall|x: Val| cl_quant(q, vars.drop_first(), body, m, #[trigger] s.insert(vkey(v), x))
            == quant_pred(q, vars.drop_first(), p, s.insert(vkey(v), x)) by {
            lemma_cl_quant_pred(q, vars.drop_first(), body, m, s.insert(vkey(v), x));
        }
    }
}

pub proof fn lemma_ht_quant_pred(q: Quantifier, vars: Seq<Variable>, body: Formula, w: World, m: HT, s: Asg)
    ensures ht_quant(q, vars, body, w, m, s) == quant_pred(q, vars, |s2: Asg| ht_sat(body, w, m, s2), s),
    decreases vars.len(),
{
    let p = |s2: Asg| ht_sat(body, w, m, s2);
    if vars.len() > 0 {
        let v = vars[0];
        assert forall|x: Val| ht_quant(q, vars.drop_first(), body, w, m, #[trigger] s.insert(vkey(v), x))
            == quant_pred(q, vars.drop_first(), p, s.insert(vkey(v), x)) by {
            lemma_ht_quant_pred(q, vars.drop_first(), body, w, m, s.insert(vkey(v), x));
        }
    }
}

pub open spec fn slice_pred(p: spec_fn(int, Asg) -> bool, i: int) -> APred { |s2: Asg| p(i, s2) }
pub open spec fn all_pred(p: spec_fn(int, Asg) -> bool, n: int) -> APred { |s2: Asg| forall|i: int| 0 <= i < n ==> #[trigger] p(i, s2) }

/// a universal block distributes over an indexed conjunction
pub proof fn lemma_forall_distrib(vars: Seq<Variable>, n: int, p: spec_fn(int, Asg) -> bool, s: Asg)
    ensures
        quant_pred(Quantifier::Forall, vars, all_pred(p, n), s)
        == (forall|i: int| 0 <= i < n ==> #[trigger] quant_pred(Quantifier::Forall, vars, slice_pred(p, i), s)),
    decreases vars.len(),
{
    let all = all_pred(p, n);
    if vars.len() == 0 {
        assert forall|i: int| #![trigger p(i, s)] #![trigger quant_pred(Quantifier::Forall, vars, slice_pred(p, i), s)] 0 <= i < n implies
            quant_pred(Quantifier::Forall, vars, slice_pred(p, i), s) == p(i, s) by {}
    } else {
        let v = vars[0];
        let rest = vars.drop_first();
        assert forall|x: Val| quant_pred(Quantifier::Forall, rest, all, #[trigger] s.insert(vkey(v), x))
            == (forall|i: int| 0 <= i < n ==> #[trigger] quant_pred(Quantifier::Forall, rest, slice_pred(p, i), s.insert(vkey(v), x))) by {
            lemma_forall_distrib(rest, n, p, s.insert(vkey(v), x));
        }
        if quant_pred(Quantifier::Forall, vars, all, s) {
            assert forall|i: int| 0 <= i < n implies #[trigger] quant_pred(Quantifier::Forall, vars, slice_pred(p, i), s) by {
                assert forall|x: Val| in_sort(x, v.sort) implies
                    quant_pred(Quantifier::Forall, rest, slice_pred(p, i), #[trigger] s.insert(vkey(v), x)) by {
                    assert(quant_pred(Quantifier::Forall, rest, all, s.insert(vkey(v), x)));
                }
            }
        }
        if forall|i: int| 0 <= i < n ==> #[trigger] quant_pred(Quantifier::Forall, vars, slice_pred(p, i), s) {
            assert forall|x: Val| in_sort(x, v.sort) implies
                quant_pred(Quantifier::Forall, rest, all, #[trigger] s.insert(vkey(v), x)) by {
                assert forall|i: int| 0 <= i < n implies
                    #[trigger] quant_pred(Quantifier::Forall, rest, slice_pred(p, i), s.insert(vkey(v), x)) by {
                    assert(quant_pred(Quantifier::Forall, vars, slice_pred(p, i), s));
                }
            }
        }
    }
}

// ---- Formula::quantify ---------------------------------------------------------------------
pub open spec fn spec_quantify(f: Formula, q: Quantifier, vars: Seq<Variable>) -> Formula {
    if vars.len() == 0 { f }
    else {
        Formula::QuantifiedFormula {
            quantification: Quantification { quantifier: q, variables: vec_of(vars) },
            formula: Box::new(f),
        }
    }
}

pub proof fn lemma_quantify_cl(f: Formula, q: Quantifier, vars: Seq<Variable>, m: Interp, s: Asg)
    ensures cl_sat(spec_quantify(f, q, vars), m, s) == cl_quant(q, vars, f, m, s),
{
    broadcast use axiom_vec_of;
}

pub proof fn lemma_quantify_ht(f: Formula, q: Quantifier, vars: Seq<Variable>, w: World, m: HT, s: Asg)
    ensures ht_sat(spec_quantify(f, q, vars), w, m, s) == ht_quant(q, vars, f, w, m, s),
{
    broadcast use axiom_vec_of;
}
