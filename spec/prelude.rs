// prelude.rs — trusted base shared by every unit (DESIGN §3.4). Bare verus text: included
// inside the unit's `verus! { }` block by tools/extract.py.
//
// Everything here is an ASSUMPTION about Rust's standard library or about crates that
// cannot be linked into a single-file Verus run; each item is listed in the evidence files.

pub mod tb {
use vstd::prelude::*;
// T1. Strings are determined by their character content.
pub broadcast axiom fn axiom_string_ext(a: String, b: String)
    requires #[trigger] a@ == #[trigger] b@,
    ensures a == b;

pub broadcast axiom fn axiom_str_ext(a: &str, b: &str)
    requires #[trigger] a@ == #[trigger] b@,
    ensures a == b;

// T2. `x.into()` / `Box::from(x)` boxes x.
pub assume_specification<T>[ <Box<T> as core::convert::From<T>>::from ](x: T) -> (r: Box<T>)
    ensures *r == x;

// T3. String::insert_str at index 0 prepends (std docs: "Inserts a string slice into this String at a byte position").
pub assume_specification[ String::insert_str ](s: &mut String, idx: usize, string: &str)
    requires idx == 0,
    ensures final(s)@ == string@ + old(s)@;

// Closures: `implements(f, g)` — every result the closure can return on x is g(x).
pub open spec fn implements<A, B, F: FnMut(A) -> B>(f: F, g: spec_fn(A) -> B) -> bool {
    forall|x: A, y: B| #[trigger] f.ensures((x,), y) ==> y == g(x)
}

// T4. Every character sequence is the content of some String (String ≅ Seq<char> with T1).
pub uninterp spec fn str_of(s: Seq<char>) -> String;
pub broadcast axiom fn axiom_str_of(s: Seq<char>)
    ensures (#[trigger] str_of(s))@ == s;

// T5. Vectors are determined by their element sequence, and every sequence is the content of some Vec.
pub broadcast axiom fn axiom_vec_ext<T>(a: Vec<T>, b: Vec<T>)
    requires #[trigger] a@ == #[trigger] b@,
    ensures a == b;
pub uninterp spec fn vec_of<T>(s: Seq<T>) -> Vec<T>;
pub broadcast axiom fn axiom_vec_of<T>(s: Seq<T>)
    ensures (#[trigger] vec_of(s))@ == s;

// T6. Display of a String / &str is its content (`x.to_string()`).
pub broadcast axiom fn axiom_display_string(s: &String, r: String)
    requires #[trigger] vstd::string::to_string_from_display_ensures::<String>(s, r),
    ensures r@ == s@;
pub broadcast axiom fn axiom_display_str(s: &str, r: String)
    requires #[trigger] vstd::string::to_string_from_display_ensures::<str>(s, r),
    ensures r@ == s@;

// T8 (rule D6). format!("lit{a}lit{b}") with bare placeholders is the concatenation of the Display renderings;
// Display of usize is its decimal numeral: digits only, injective.
pub open spec fn concat_all(parts: Seq<String>) -> Seq<char>
    decreases parts.len(),
{
    if parts.len() == 0 { Seq::empty() } else { concat_all(parts.drop_last()) + parts.last()@ }
}
#[verifier::external_body]
pub fn fmt_concat(parts: Vec<String>) -> (r: String)
    ensures
        r@ == concat_all(parts@),
        // unfolded for short lists (consequences of the first clause: lemma_concat_unfold)
        parts@.len() == 2 ==> r@ == parts@[0]@ + parts@[1]@,
        parts@.len() == 3 ==> r@ == parts@[0]@ + parts@[1]@ + parts@[2]@,
        parts@.len() == 4 ==> r@ == parts@[0]@ + parts@[1]@ + parts@[2]@ + parts@[3]@,
        parts@.len() == 5 ==> r@ == parts@[0]@ + parts@[1]@ + parts@[2]@ + parts@[3]@ + parts@[4]@,
{ unimplemented!() }
pub proof fn lemma_concat_unfold(p: Seq<String>)
    ensures
        p.len() == 2 ==> concat_all(p) == p[0]@ + p[1]@,
        p.len() == 3 ==> concat_all(p) == p[0]@ + p[1]@ + p[2]@,
        p.len() == 4 ==> concat_all(p) == p[0]@ + p[1]@ + p[2]@ + p[3]@,
        p.len() == 5 ==> concat_all(p) == p[0]@ + p[1]@ + p[2]@ + p[3]@ + p[4]@,
{
    reveal_with_fuel(concat_all, 6);
    if p.len() >= 1 {
        assert(concat_all(p.take(1)) =~= p[0]@) by { assert(p.take(1).drop_last() =~= Seq::<String>::empty()); }
    }
    if p.len() >= 2 { assert(p.take(2).drop_last() =~= p.take(1)); assert(p.take(2).last() == p[1]); }
    if p.len() >= 3 { assert(p.take(3).drop_last() =~= p.take(2)); assert(p.take(3).last() == p[2]); }
    if p.len() >= 4 { assert(p.take(4).drop_last() =~= p.take(3)); assert(p.take(4).last() == p[3]); }
    if p.len() >= 5 { assert(p.take(5).drop_last() =~= p.take(4)); assert(p.take(5).last() == p[4]); }
    assert(p.take(p.len() as int) =~= p);
}
pub uninterp spec fn decimal(n: nat) -> Seq<char>;
pub open spec fn is_digit(c: char) -> bool { '0' <= c && c <= '9' }
pub broadcast axiom fn axiom_display_usize(n: &usize, r: String)
    requires #[trigger] vstd::string::to_string_from_display_ensures::<usize>(n, r),
    ensures r@ == decimal(*n as nat);
pub broadcast axiom fn axiom_display_u128(n: &u128, r: String)
    requires #[trigger] vstd::string::to_string_from_display_ensures::<u128>(n, r),
    ensures r@ == decimal(*n as nat);
pub broadcast axiom fn axiom_display_i32(n: &i32, r: String)
    requires #[trigger] vstd::string::to_string_from_display_ensures::<i32>(n, r), *n >= 0,
    ensures r@ == decimal(*n as nat);
pub broadcast axiom fn axiom_decimal_digits(n: nat, i: int)
    requires 0 <= i < decimal(n).len(),
    ensures is_digit(#[trigger] decimal(n)[i]);
pub axiom fn axiom_decimal_nonempty(n: nat)
    ensures decimal(n).len() > 0;
pub broadcast axiom fn axiom_decimal_injective(a: nat, b: nat)
    requires #[trigger] decimal(a) == #[trigger] decimal(b),
    ensures a == b;

} // mod tb
pub use tb::*;
