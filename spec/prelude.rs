// prelude.rs — trusted base shared by every unit (DESIGN §3.4). Bare verus text: included
// inside the unit's `verus! { }` block by tools/extract.py.
//
// Everything here is an ASSUMPTION about Rust's standard library or about crates that
// cannot be linked into a single-file Verus run; each item is listed in the evidence files.

pub mod tb {
use vstd::prelude::*;
// T1. Strings are determined by their character content.
pub broadcast axiom fn axiom_string_ext(a: String, b: String)
    requires #[trigger] a@ == #[trigger] b@,
    ensures a == b;

pub broadcast axiom fn axiom_str_ext(a: &str, b: &str)
    requires #[trigger] a@ == #[trigger] b@,
    ensures a == b;

// T2. `x.into()` / `Box::from(x)` boxes x.
pub assume_specification<T>[ <Box<T> as core::convert::From<T>>::from ](x: T) -> (r: Box<T>)
    ensures *r == x;

// T3. String::insert_str at index 0 prepends (std docs: "Inserts a string slice into this String at a byte position").
pub assume_specification[ String::insert_str ](s: &mut String, idx: usize, string: &str)
    requires idx == 0,
    ensures final(s)@ == string@ + old(s)@;

// Closures: `implements(f, g)` — every result the closure can return on x is g(x).
pub open spec fn implements<A, B, F: FnMut(A) -> B>(f: F, g: spec_fn(A) -> B) -> bool {
    forall|x: A, y: B| #[trigger] f.ensures((x,), y) ==> y == g(x)
}

// T4. Every character sequence is the content of some String (String ≅ Seq<char> with T1).
pub uninterp spec fn str_of(s: Seq<char>) -> String;
pub broadcast axiom fn axiom_str_of(s: Seq<char>)
    ensures (#[trigger] str_of(s))@ == s;

// T5. Vectors are determined by their element sequence, and every sequence is the content of some Vec.
pub broadcast axiom fn axiom_vec_ext<T>(a: Vec<T>, b: Vec<T>)
    requires #[trigger] a@ == #[trigger] b@,
    ensures a == b;
pub uninterp spec fn vec_of<T>(s: Seq<T>) -> Vec<T>;
pub broadcast axiom fn axiom_vec_of<T>(s: Seq<T>)
    ensures (#[trigger] vec_of(s))@ == s;

// T6. Display of a String / &str is its content (`x.to_string()`).
pub broadcast axiom fn axiom_display_string(s: &String, r: String)
    requires #[trigger] vstd::string::to_string_from_display_ensures::<String>(s, r),
    ensures r@ == s@;
pub broadcast axiom fn axiom_display_str(s: &str, r: String)
    requires #[trigger] vstd::string::to_string_from_display_ensures::<str>(s, r),
    ensures r@ == s@;

} // mod tb
pub use tb::*;
