// subst_formula_lemmas.rs — C17 at the level of formulas.

pub open spec fn fsize(f: Formula) -> nat
    decreases f,
{
    match f {
        Formula::AtomicFormula(a) => 1,
        Formula::UnaryFormula { connective, formula } => 1 + fsize(*formula),
        Formula::BinaryFormula { connective, lhs, rhs } => 1 + fsize(*lhs) + fsize(*rhs),
        Formula::QuantifiedFormula { quantification, formula } => 1 + fsize(*formula),
    }
}

/// the value the variable receives: the value of the term under the same assignment
pub open spec fn sub_asg(s: Asg, var: Variable, term: GeneralTerm, fc: spec_fn(Seq<char>, Sort) -> Val) -> Asg {
    s.insert(vkey(var), eval_gen(term, fc, s))
}

/// C17, as a relation between the result r and the original f (here-and-there form; the classical form
/// follows by lemma_subst_cl): same truth value as f with var := value of term; free variables are those of
/// f minus var plus those of term (when var is free in f at all); not larger than f.
pub open spec fn subst_ht(r: Formula, f: Formula, var: Variable, term: GeneralTerm) -> bool {
    &&& forall|w: World, m: HT, s: Asg| #[trigger] ht_sat(r, w, m, s) == ht_sat(f, w, m, sub_asg(s, var, term, m.fc))
    &&& forall|k: VKey| #[trigger] fv(r, k) == (if fv(f, vkey(var)) { (fv(f, k) && k != vkey(var)) || in_gen(term, k) } else { fv(f, k) })
    &&& fsize(r) <= fsize(f)
}

pub open spec fn subst_cl(r: Formula, f: Formula, var: Variable, term: GeneralTerm) -> bool {
    forall|m: Interp, s: Asg| #[trigger] cl_sat(r, m, s) == cl_sat(f, m, sub_asg(s, var, term, m.fc))
}

/// classical satisfaction is here-and-there satisfaction in the total interpretation (T,T)
pub proof fn lemma_subst_cl(r: Formula, f: Formula, var: Variable, term: GeneralTerm)
    requires subst_ht(r, f, var, term),
    ensures subst_cl(r, f, var, term),
{
    assert forall|m: Interp, s: Asg| #[trigger] cl_sat(r, m, s) == cl_sat(f, m, sub_asg(s, var, term, m.fc)) by {
        let tt = HT { h: m.pred, t: m.pred, fc: m.fc };
        assert(there_interp(tt) == m);
        lemma_there_classical(r, tt, s);
        lemma_there_classical(f, tt, sub_asg(s, var, term, m.fc));
        assert(ht_sat(r, World::There, tt, s) == ht_sat(f, World::There, tt, sub_asg(s, var, term, tt.fc)));
    }
}

// ---- atomic, unary, binary -------------------------------------------------------------------
pub proof fn lemma_subst_atomic(a: AtomicFormula, var: Variable, term: GeneralTerm)
    requires sort_ok(var, term),
    ensures subst_ht(Formula::AtomicFormula(ssub_atomic(a, var, term)), Formula::AtomicFormula(a), var, term),
{
    let r = Formula::AtomicFormula(ssub_atomic(a, var, term));
    let f = Formula::AtomicFormula(a);
    assert forall|w: World, m: HT, s: Asg| #[trigger] ht_sat(r, w, m, s) == ht_sat(f, w, m, sub_asg(s, var, term, m.fc)) by {
        lemma_ssub_atomic_parts(a, var, term, m.fc, s);
    }
    assert forall|k: VKey| #[trigger] fv(r, k) == (if fv(f, vkey(var)) { (fv(f, k) && k != vkey(var)) || in_gen(term, k) } else { fv(f, k) }) by {
        lemma_ssub_atomic_occ(a, var, term, k);
    }
}

pub proof fn lemma_subst_unary(c: UnaryConnective, g: Formula, r1: Formula, var: Variable, term: GeneralTerm)
    requires subst_ht(r1, g, var, term),
    ensures subst_ht(Formula::UnaryFormula { connective: c, formula: Box::new(r1) }, Formula::UnaryFormula { connective: c, formula: Box::new(g) }, var, term),
{
    let r = Formula::UnaryFormula { connective: c, formula: Box::new(r1) };
    let f = Formula::UnaryFormula { connective: c, formula: Box::new(g) };
    assert forall|w: World, m: HT, s: Asg| #[trigger] ht_sat(r, w, m, s) == ht_sat(f, w, m, sub_asg(s, var, term, m.fc)) by {
        assert(ht_sat(r1, w, m, s) == ht_sat(g, w, m, sub_asg(s, var, term, m.fc)));
        assert(ht_sat(r1, World::There, m, s) == ht_sat(g, World::There, m, sub_asg(s, var, term, m.fc)));
    }
    assert forall|k: VKey| #[trigger] fv(r, k) == (if fv(f, vkey(var)) { (fv(f, k) && k != vkey(var)) || in_gen(term, k) } else { fv(f, k) }) by {
        assert(fv(r, k) == fv(r1, k));
    }
}

pub proof fn lemma_subst_binary(c: BinaryConnective, g1: Formula, g2: Formula, r1: Formula, r2: Formula, var: Variable, term: GeneralTerm)
    requires subst_ht(r1, g1, var, term), subst_ht(r2, g2, var, term),
    ensures subst_ht(
        Formula::BinaryFormula { connective: c, lhs: Box::new(r1), rhs: Box::new(r2) },
        Formula::BinaryFormula { connective: c, lhs: Box::new(g1), rhs: Box::new(g2) }, var, term),
{
    let r = Formula::BinaryFormula { connective: c, lhs: Box::new(r1), rhs: Box::new(r2) };
    let f = Formula::BinaryFormula { connective: c, lhs: Box::new(g1), rhs: Box::new(g2) };
    assert forall|w: World, m: HT, s: Asg| #[trigger] ht_sat(r, w, m, s) == ht_sat(f, w, m, sub_asg(s, var, term, m.fc)) by {
        let s2 = sub_asg(s, var, term, m.fc);
        assert(ht_sat(r1, w, m, s) == ht_sat(g1, w, m, s2));
        assert(ht_sat(r1, World::There, m, s) == ht_sat(g1, World::There, m, s2));
        assert(ht_sat(r2, w, m, s) == ht_sat(g2, w, m, s2));
        assert(ht_sat(r2, World::There, m, s) == ht_sat(g2, World::There, m, s2));
    }
    assert forall|k: VKey| #[trigger] fv(r, k) == (if fv(f, vkey(var)) { (fv(f, k) && k != vkey(var)) || in_gen(term, k) } else { fv(f, k) }) by {
        assert(fv(r, k) == (fv(r1, k) || fv(r2, k)));
    }
}

// ---- a quantifier that rebinds the variable blocks the substitution --------------------------
pub proof fn lemma_subst_blocked(f: Formula, var: Variable, term: GeneralTerm)
    requires f matches Formula::QuantifiedFormula { quantification, formula } && bound_by(quantification.variables@, vkey(var)),
    ensures subst_ht(f, f, var, term),
{
    let q = f->QuantifiedFormula_quantification;
    let g = *f->QuantifiedFormula_formula;
    let kv = vkey(var);
    assert forall|w: World, m: HT, s: Asg| #[trigger] ht_sat(f, w, m, s) == ht_sat(f, w, m, sub_asg(s, var, term, m.fc)) by {
        let s2 = sub_asg(s, var, term, m.fc);
        assert forall|k: VKey| fv(g, k) && !bound_by(q.variables@, k) implies s[k] == s2[k] by {}
        lemma_coin_ht_quant(q.quantifier, q.variables@, g, w, m, s, s2);
    }
}

// ---- the value of a variable used as a term ----------------------------------------------------
pub proof fn lemma_var_term(v: Variable, fc: spec_fn(Seq<char>, Sort) -> Val, s: Asg)
    requires in_sort(s[vkey(v)], v.sort),
    ensures eval_gen(var_term(v), fc, s) == s[vkey(v)], sort_ok(v, var_term(v)),
{
}

pub proof fn lemma_var_term_occ(v: Variable, k: VKey)
    ensures in_gen(var_term(v), k) == (k == vkey(v)),
{
}

// ---- alpha-renaming of one binder of a block ----------------------------------------------------
/// Q (D x R) F  ==  Q (D y R) F[x:=y]   when y has x's sort, y != x and y is not free in F.
/// (y may occur in R or D: within one block all binders have the same quantifier.)
pub proof fn lemma_rename_step(q: Quantifier, d: Seq<Variable>, x: Variable, y: Variable, rr: Seq<Variable>,
                               f: Formula, f2: Formula, w: World, m: HT, s: Asg)
    requires
        y.sort == x.sort, vkey(y) != vkey(x), !fv(f, vkey(y)),
        subst_ht(f2, f, x, var_term(y)),
    ensures
        quant_set(q, d + seq![x] + rr, |s2: Asg| ht_sat(f, w, m, s2), s)
        == quant_set(q, d + seq![y] + rr, |s2: Asg| ht_sat(f2, w, m, s2), s),
{
    let kx = vkey(x);
    let ky = vkey(y);
    let b1 = d + seq![x] + rr;
    let b2 = d + seq![y] + rr;
    let p1 = |s2: Asg| ht_sat(f, w, m, s2);
    let p2 = |s2: Asg| ht_sat(f2, w, m, s2);
    assert forall|k: VKey| bound_by(b1, k) == (bound_by(d, k) || k == kx || bound_by(rr, k)) by {
        lemma_bound_by_concat(d + seq![x], rr, k);
        lemma_bound_by_concat(d, seq![x], k);
        lemma_bound_by_single(x, k);
    }
    assert forall|k: VKey| bound_by(b2, k) == (bound_by(d, k) || k == ky || bound_by(rr, k)) by {
        lemma_bound_by_concat(d + seq![y], rr, k);
        lemma_bound_by_concat(d, seq![y], k);
        lemma_bound_by_single(y, k);
    }
    // from a variant over b1 satisfying p1 to a variant over b2 satisfying p2 with the same truth value
    assert forall|s2: Asg| variant(s2, s, b1) implies
        exists|s3: Asg| variant(s3, s, b2) && #[trigger] p2(s3) == p1(s2) by {
        let s3 = if bound_by(b2, kx) { s2.insert(ky, s2[kx]) } else { s2.insert(ky, s2[kx]).insert(kx, s[kx]) };
        assert(bound_by(b1, kx));
        assert(in_sort(s2[kx], x.sort));
        assert forall|k: VKey| !bound_by(b2, k) implies #[trigger] s3[k] == s[k] by {
            if k == kx { } else { assert(!bound_by(b1, k)); }
        }
        assert forall|k: VKey| bound_by(b2, k) implies in_sort(#[trigger] s3[k], k.1) by {
            if k == ky { } else { assert(bound_by(b1, k)); }
        }
        assert(variant(s3, s, b2));
        // p2(s3) = ht_sat(f, s3[x := s3(y)]) and s3[x := s3(y)] agrees with s2 except at y, which is not free in f
        lemma_var_term(y, m.fc, s3);
        let s4 = sub_asg(s3, x, var_term(y), m.fc);
        assert(ht_sat(f2, w, m, s3) == ht_sat(f, w, m, s4));
        assert forall|k: VKey| fv(f, k) implies s4[k] == s2[k] by { }
        lemma_coin_ht(f, w, m, s4, s2);
        assert(p2(s3) == p1(s2));
    }
    // and back
    assert forall|s3: Asg| variant(s3, s, b2) implies
        exists|s2: Asg| variant(s2, s, b1) && #[trigger] p1(s2) == p2(s3) by {
        assert(bound_by(b2, ky));
        assert(in_sort(s3[ky], y.sort));
        let s2 = if bound_by(b1, ky) { s3.insert(kx, s3[ky]) } else { s3.insert(kx, s3[ky]).insert(ky, s[ky]) };
        assert forall|k: VKey| !bound_by(b1, k) implies #[trigger] s2[k] == s[k] by {
            if k == ky { } else { assert(!bound_by(b2, k)); }
        }
        assert forall|k: VKey| bound_by(b1, k) implies in_sort(#[trigger] s2[k], k.1) by {
            if k == kx { } else { assert(bound_by(b2, k)); }
        }
        assert(variant(s2, s, b1));
        lemma_var_term(y, m.fc, s3);
        let s4 = sub_asg(s3, x, var_term(y), m.fc);
        assert(ht_sat(f2, w, m, s3) == ht_sat(f, w, m, s4));
        assert forall|k: VKey| fv(f, k) implies s4[k] == s2[k] by { }
        lemma_coin_ht(f, w, m, s4, s2);
        assert(p1(s2) == p2(s3));
    }
    match q {
        Quantifier::Forall => {
            if quant_set(q, b1, p1, s) {
                assert forall|s3: Asg| variant(s3, s, b2) implies #[trigger] p2(s3) by {
                    let s2 = choose|s2: Asg| variant(s2, s, b1) && #[trigger] p1(s2) == p2(s3);
                    assert(p1(s2));
                }
            }
            if quant_set(q, b2, p2, s) {
                assert forall|s2: Asg| variant(s2, s, b1) implies #[trigger] p1(s2) by {
                    let s3 = choose|s3: Asg| variant(s3, s, b2) && #[trigger] p2(s3) == p1(s2);
                    assert(p2(s3));
                }
            }
        }
        Quantifier::Exists => {
            if quant_set(q, b1, p1, s) {
                let s2 = choose|s2: Asg| variant(s2, s, b1) && #[trigger] p1(s2);
                let s3 = choose|s3: Asg| variant(s3, s, b2) && #[trigger] p2(s3) == p1(s2);
                assert(p2(s3));
            }
            if quant_set(q, b2, p2, s) {
                let s3 = choose|s3: Asg| variant(s3, s, b2) && #[trigger] p2(s3);
                let s2 = choose|s2: Asg| variant(s2, s, b1) && #[trigger] p1(s2) == p2(s3);
                assert(p1(s2));
            }
        }
    }
}

// ---- substituting under a block none of whose binders occurs in the term or is the variable -----
pub proof fn lemma_subst_under_block(q: Quantifier, done: Seq<Variable>, f: Formula, f2: Formula, var: Variable, term: GeneralTerm,
                                     w: World, m: HT, s: Asg)
    requires
        subst_ht(f2, f, var, term),
        !bound_by(done, vkey(var)),
        forall|k: VKey| in_gen(term, k) ==> !bound_by(done, k),
    ensures
        quant_set(q, done, |s2: Asg| ht_sat(f2, w, m, s2), s)
        == quant_set(q, done, |s2: Asg| ht_sat(f, w, m, s2), sub_asg(s, var, term, m.fc)),
{
    let kv = vkey(var);
    let v = eval_gen(term, m.fc, s);
    let sv = sub_asg(s, var, term, m.fc);
    let p2 = |s2: Asg| ht_sat(f2, w, m, s2);
    let p1 = |s2: Asg| ht_sat(f, w, m, s2);
    assert forall|s2: Asg| variant(s2, s, done) implies
        exists|s3: Asg| variant(s3, sv, done) && #[trigger] p1(s3) == p2(s2) by {
        assert forall|k: VKey| in_gen(term, k) implies s2[k] == s[k] by {}
        lemma_coin_gen(term, m.fc, s2, s);
        let s3 = s2.insert(kv, v);
        assert(s3 == sub_asg(s2, var, term, m.fc));
        assert forall|k: VKey| !bound_by(done, k) implies #[trigger] s3[k] == sv[k] by {}
        assert forall|k: VKey| bound_by(done, k) implies in_sort(#[trigger] s3[k], k.1) by {}
        assert(variant(s3, sv, done));
        assert(p1(s3) == p2(s2));
    }
    assert forall|s3: Asg| variant(s3, sv, done) implies
        exists|s2: Asg| variant(s2, s, done) && #[trigger] p2(s2) == p1(s3) by {
        let s2 = s3.insert(kv, s[kv]);
        assert forall|k: VKey| !bound_by(done, k) implies #[trigger] s2[k] == s[k] by {}
        assert forall|k: VKey| bound_by(done, k) implies in_sort(#[trigger] s2[k], k.1) by {}
        assert(variant(s2, s, done));
        assert forall|k: VKey| in_gen(term, k) implies s2[k] == s[k] by {}
        lemma_coin_gen(term, m.fc, s2, s);
        let s4 = sub_asg(s2, var, term, m.fc);
        assert(ht_sat(f2, w, m, s2) == ht_sat(f, w, m, s4));
        assert(s3[kv] == v);
        assert forall|k: VKey| s4[k] == s3[k] by {}
        lemma_coin_ht(f, w, m, s4, s3);
        assert(p2(s2) == p1(s3));
    }
    match q {
        Quantifier::Forall => {
            if quant_set(q, done, p2, s) {
                assert forall|s3: Asg| variant(s3, sv, done) implies #[trigger] p1(s3) by {
                    let s2 = choose|s2: Asg| variant(s2, s, done) && #[trigger] p2(s2) == p1(s3);
                    assert(p2(s2));
                }
            }
            if quant_set(q, done, p1, sv) {
                assert forall|s2: Asg| variant(s2, s, done) implies #[trigger] p2(s2) by {
                    let s3 = choose|s3: Asg| variant(s3, sv, done) && #[trigger] p1(s3) == p2(s2);
                    assert(p1(s3));
                }
            }
        }
        Quantifier::Exists => {
            if quant_set(q, done, p2, s) {
                let s2 = choose|s2: Asg| variant(s2, s, done) && #[trigger] p2(s2);
                let s3 = choose|s3: Asg| variant(s3, sv, done) && #[trigger] p1(s3) == p2(s2);
                assert(p1(s3));
            }
            if quant_set(q, done, p1, sv) {
                let s3 = choose|s3: Asg| variant(s3, sv, done) && #[trigger] p1(s3);
                let s2 = choose|s2: Asg| variant(s2, s, done) && #[trigger] p2(s2) == p1(s3);
                assert(p2(s2));
            }
        }
    }
}
