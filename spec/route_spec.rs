// route_spec.rs — C02: which formula goes where (premises / conclusions per direction), as a fold over the
// formulas in order.  Written from the property statement: left-hand specs are forward premises and backward
// conclusions, right-hand specs the converse; universal assumptions are premises of both directions,
// directed assumptions only of their own direction (and are dropped, with a warning, in the other).

pub open spec fn as_problem(f: AnnotatedFormula, role: problem::Role) -> problem::AnnotatedFormula {
    problem::AnnotatedFormula { name: f.name, role, formula: f.formula }
}

pub open spec fn roles_ok(fs: Seq<AnnotatedFormula>) -> bool {
    forall|i: int| 0 <= i < fs.len() ==> ((#[trigger] fs[i]).role == Role::Assumption || fs[i].role == Role::Spec)
}

/// the conjectures a spec formula turns into: itself, or (eq-break) a formula family with the same meaning
pub open spec fn conj_of(f: AnnotatedFormula, brk: bool) -> Seq<problem::AnnotatedFormula> {
    if brk { spec_broken(f).map_values(|g: AnnotatedFormula| as_problem(g, problem::Role::Conjecture)) }
    else { seq![as_problem(f, problem::Role::Conjecture)] }
}

/// assumed contract of break_equivalences_annotated_formula (enumerate + format! inside an iterator chain)
pub uninterp spec fn spec_broken(f: AnnotatedFormula) -> Seq<AnnotatedFormula>;

// side = true: the formulas of the LEFT (specification) side; side = false: the RIGHT (program) side
pub open spec fn own_dir(side: bool) -> Direction { if side { Direction::Forward } else { Direction::Backward } }
pub open spec fn other_dir(side: bool) -> Direction { if side { Direction::Backward } else { Direction::Forward } }

/// stable premises contributed by the first n formulas of one side
pub open spec fn route_stable(fs: Seq<AnnotatedFormula>, n: int) -> Seq<problem::AnnotatedFormula>
    decreases n,
{
    if n <= 0 { Seq::empty() } else {
        let f = fs[n - 1];
        let pre = route_stable(fs, n - 1);
        if f.role == Role::Assumption && f.direction == Direction::Universal { pre.push(as_problem(f, problem::Role::Axiom)) } else { pre }
    }
}
/// premises of the side's own direction: its directed assumptions and its specs (universal or own direction)
pub open spec fn route_premises(fs: Seq<AnnotatedFormula>, n: int, side: bool) -> Seq<problem::AnnotatedFormula>
    decreases n,
{
    if n <= 0 { Seq::empty() } else {
        let f = fs[n - 1];
        let pre = route_premises(fs, n - 1, side);
        if (f.role == Role::Assumption && f.direction == own_dir(side))
            || (f.role == Role::Spec && (f.direction == Direction::Universal || f.direction == own_dir(side))) {
            pre.push(as_problem(f, problem::Role::Axiom))
        } else { pre }
    }
}
/// conclusions of the OTHER direction: the side's specs (universal or other direction)
pub open spec fn route_conclusions(fs: Seq<AnnotatedFormula>, n: int, side: bool, brk: bool) -> Seq<problem::AnnotatedFormula>
    decreases n,
{
    if n <= 0 { Seq::empty() } else {
        let f = fs[n - 1];
        let pre = route_conclusions(fs, n - 1, side, brk);
        if f.role == Role::Spec && (f.direction == Direction::Universal || f.direction == other_dir(side)) { pre + conj_of(f, brk) } else { pre }
    }
}
