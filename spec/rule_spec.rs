// rule_spec.rs — C01: the oracle for rules (every ground instance of a basic rule, choice rule or constraint is satisfied in
// <H,T>, after Lifschitz, Lühne, Schaub 2019: tau(H :- B) = tau(B) -> tau(H), tau of a basic head p(t) is the conjunction of
// p(r) over the values r of t, of a choice head {p(t)} the conjunction of p(r) v not p(r), of an empty head falsity)
// and the lemmas that connect it to the formulas produced by tau*.   Hand-written SPEC code only.

// ---- oracle ----------------------------------------------------------------------------------------------------
pub open spec fn body_sat(fs: Seq<asp::AtomicFormula>, w: World, m: HT, s: Asg) -> bool {
    forall|i: int| 0 <= i < fs.len() ==> #[trigger] af_sat(fs[i], w, m, s)
}

pub open spec fn head_sat(h: asp::Head, w: World, m: HT, s: Asg) -> bool {
    match h {
        asp::Head::Basic(a) => forall|vs: Seq<Val>| #[trigger] tuple_vals(a.terms@, s, vs) ==> holds(w, m, a.predicate_symbol@, vs),
        asp::Head::Choice(a) => forall|vs: Seq<Val>| #[trigger] tuple_vals(a.terms@, s, vs) ==>
            (holds(w, m, a.predicate_symbol@, vs) || !holds(World::There, m, a.predicate_symbol@, vs)),
        asp::Head::Falsity => false,
    }
}

/// the ground instance of rule r under the assignment s of values to its variables, as an HT implication at world w
pub open spec fn inst_sat(r: asp::Rule, w: World, m: HT, s: Asg) -> bool {
    &&& body_sat(r.body.formulas@, w, m, s) ==> head_sat(r.head, w, m, s)
    &&& body_sat(r.body.formulas@, World::There, m, s) ==> head_sat(r.head, World::There, m, s)
}

/// every ground instance of r is satisfied
pub open spec fn rule_sat(r: asp::Rule, w: World, m: HT) -> bool { forall|s: Asg| #[trigger] inst_sat(r, w, m, s) }

pub open spec fn body_in(fs: Seq<asp::AtomicFormula>, k: VKey) -> bool { exists|i: int| 0 <= i < fs.len() && #[trigger] af_in(fs[i], k) }
pub open spec fn head_in(h: asp::Head, k: VKey) -> bool {
    match h {
        asp::Head::Basic(a) => terms_in(a.terms@, k),
        asp::Head::Choice(a) => terms_in(a.terms@, k),
        asp::Head::Falsity => false,
    }
}
pub open spec fn rule_in(r: asp::Rule, k: VKey) -> bool { head_in(r.head, k) || body_in(r.body.formulas@, k) }

/// tau^B(Body)
pub open spec fn body_ok(f: Formula, b: asp::Body) -> bool {
    &&& forall|w: World, m: HT, s: Asg| ht_wf(m) ==> #[trigger] ht_sat(f, w, m, s) == body_sat(b.formulas@, w, m, s)
    &&& forall|k: VKey| #[trigger] fv(f, k) ==> body_in(b.formulas@, k)
}

/// the sentence tau*(r): true in <H,T> (at either world, under any assignment: it is closed) exactly when every ground
/// instance of r is satisfied
pub open spec fn rule_ok(f: Formula, r: asp::Rule) -> bool {
    &&& forall|w: World, m: HT, s: Asg| ht_wf(m) ==> #[trigger] ht_sat(f, w, m, s) == rule_sat(r, w, m)
    &&& forall|k: VKey| !#[trigger] fv(f, k)
}

// ---- the body ------------------------------------------------------------------------------------------------------
pub proof fn lemma_body(fs: Seq<Formula>, b: asp::Body, r: Formula)
    requires r == spec_conjoin(fs), fs.len() == b.formulas@.len(), forall|j: int| 0 <= j < fs.len() ==> #[trigger] taub_ok(fs[j], b.formulas@[j]),
    ensures body_ok(r, b),
{
    let afs = b.formulas@;
    assert forall|w: World, m: HT, s: Asg| ht_wf(m) implies #[trigger] ht_sat(r, w, m, s) == body_sat(afs, w, m, s) by {
        lemma_conjoin_ht(fs, w, m, s);
        assert forall|j: int| 0 <= j < fs.len() implies #[trigger] ht_sat(fs[j], w, m, s) == af_sat(afs[j], w, m, s) by { assert(taub_ok(fs[j], afs[j])); }
        if ht_sat(r, w, m, s) { assert forall|i: int| 0 <= i < afs.len() implies #[trigger] af_sat(afs[i], w, m, s) by { assert(ht_sat(fs[i], w, m, s)); } }
        if body_sat(afs, w, m, s) { assert forall|i: int| 0 <= i < fs.len() implies #[trigger] ht_sat(fs[i], w, m, s) by { assert(af_sat(afs[i], w, m, s)); } }
    }
    assert forall|k: VKey| #[trigger] fv(r, k) implies body_in(afs, k) by {
        lemma_conjoin_fv(fs, k);
        let i = choose|i: int| 0 <= i < fs.len() && #[trigger] fv(fs[i], k);
        assert(taub_ok(fs[i], afs[i]));
        assert(af_in(afs[i], k));
    }
}

// ---- coincidence: the oracle depends only on the values of the rule's variables ----------------------------------------
pub proof fn lemma_tuple_vals_coin(ts: Seq<asp::Term>, s1: Asg, s2: Asg, vs: Seq<Val>)
    requires forall|k: VKey| terms_in(ts, k) ==> s1[k] == s2[k],
    ensures tuple_vals(ts, s1, vs) == tuple_vals(ts, s2, vs),
{
    if vs.len() == ts.len() {
        assert forall|i: int| 0 <= i < ts.len() implies #[trigger] tv_at(ts, s1, vs, i) == tv_at(ts, s2, vs, i) by {
            assert forall|k: VKey| asp_in_term(ts[i], k) implies s1[k] == s2[k] by { assert(terms_in(ts, k)); }
            lemma_in_vals_coin(ts[i], s1, s2, vs[i]);
        }
        if tuple_vals(ts, s1, vs) { assert forall|i: int| 0 <= i < ts.len() implies #[trigger] tv_at(ts, s2, vs, i) by { assert(tv_at(ts, s1, vs, i)); } }
        if tuple_vals(ts, s2, vs) { assert forall|i: int| 0 <= i < ts.len() implies #[trigger] tv_at(ts, s1, vs, i) by { assert(tv_at(ts, s2, vs, i)); } }
    }
}

pub proof fn lemma_af_coin(f: asp::AtomicFormula, w: World, m: HT, s1: Asg, s2: Asg)
    requires forall|k: VKey| af_in(f, k) ==> s1[k] == s2[k],
    ensures af_sat(f, w, m, s1) == af_sat(f, w, m, s2),
{
    match f {
        asp::AtomicFormula::Literal(l) => {
            assert forall|vs: Seq<Val>| #[trigger] tuple_vals(l.atom.terms@, s1, vs) == tuple_vals(l.atom.terms@, s2, vs) by {
                lemma_tuple_vals_coin(l.atom.terms@, s1, s2, vs);
            }
            if lit_sat(l, w, m, s1) {
                let vs = choose|vs: Seq<Val>| #[trigger] tuple_vals(l.atom.terms@, s1, vs) && signed_holds(l.sign, w, m, l.atom.predicate_symbol@, vs);
                assert(tuple_vals(l.atom.terms@, s2, vs));
            }
            if lit_sat(l, w, m, s2) {
                let vs = choose|vs: Seq<Val>| #[trigger] tuple_vals(l.atom.terms@, s2, vs) && signed_holds(l.sign, w, m, l.atom.predicate_symbol@, vs);
                assert(tuple_vals(l.atom.terms@, s1, vs));
            }
        }
        asp::AtomicFormula::Comparison(c) => {
            assert forall|a: Val, b: Val| #[trigger] trv2(a, b) implies in_vals(c.lhs, s1, a) == in_vals(c.lhs, s2, a) && in_vals(c.rhs, s1, b) == in_vals(c.rhs, s2, b) by {
                lemma_in_vals_coin(c.lhs, s1, s2, a);
                lemma_in_vals_coin(c.rhs, s1, s2, b);
            }
        }
    }
}

pub proof fn lemma_body_coin(fs: Seq<asp::AtomicFormula>, w: World, m: HT, s1: Asg, s2: Asg)
    requires forall|k: VKey| body_in(fs, k) ==> s1[k] == s2[k],
    ensures body_sat(fs, w, m, s1) == body_sat(fs, w, m, s2),
{
    assert forall|i: int| 0 <= i < fs.len() implies #[trigger] af_sat(fs[i], w, m, s1) == af_sat(fs[i], w, m, s2) by {
        assert forall|k: VKey| af_in(fs[i], k) implies s1[k] == s2[k] by { assert(body_in(fs, k)); }
        lemma_af_coin(fs[i], w, m, s1, s2);
    }
    if body_sat(fs, w, m, s1) { assert forall|i: int| 0 <= i < fs.len() implies #[trigger] af_sat(fs[i], w, m, s2) by { assert(af_sat(fs[i], w, m, s1)); } }
    if body_sat(fs, w, m, s2) { assert forall|i: int| 0 <= i < fs.len() implies #[trigger] af_sat(fs[i], w, m, s1) by { assert(af_sat(fs[i], w, m, s2)); } }
}

// ---- forall G V (val_t(V) & tau^B(Body) [& not not p(V)] -> p(V)) ----------------------------------------------------
pub open spec fn head_args(h: asp::Head) -> Seq<asp::Term> {
    match h { asp::Head::Basic(a) => a.terms@, asp::Head::Choice(a) => a.terms@, asp::Head::Falsity => Seq::empty() }
}
pub open spec fn head_pred(h: asp::Head) -> Seq<char> {
    match h { asp::Head::Basic(a) => a.predicate_symbol@, asp::Head::Choice(a) => a.predicate_symbol@, asp::Head::Falsity => Seq::empty() }
}

/// what the antecedent of the implication says besides the body, with the head variables V named vnames
pub open spec fn head_lhs(h: asp::Head, vnames: Seq<String>, m: HT, s: Asg) -> bool {
    match h {
        asp::Head::Basic(a) => tuple_vals(a.terms@, s, zs(vnames, s)),
        asp::Head::Choice(a) => tuple_vals(a.terms@, s, zs(vnames, s)) && holds(World::There, m, a.predicate_symbol@, zs(vnames, s)),
        asp::Head::Falsity => true,
    }
}
pub open spec fn head_rhs(h: asp::Head, vnames: Seq<String>, w: World, m: HT, s: Asg) -> bool {
    match h {
        asp::Head::Falsity => false,
        _ => holds(w, m, head_pred(h), zs(vnames, s)),
    }
}

pub open spec fn is_imp(f: Formula) -> bool { f is BinaryFormula && f->BinaryFormula_connective == BinaryConnective::Implication }
pub open spec fn imp_lhs(f: Formula) -> Formula { *f->BinaryFormula_lhs }
pub open spec fn imp_rhs(f: Formula) -> Formula { *f->BinaryFormula_rhs }

/// the matrix of tau*(r), read semantically
pub open spec fn imp_sem(imp: Formula, r: asp::Rule, vnames: Seq<String>) -> bool {
    &&& is_imp(imp)
    &&& forall|w: World, m: HT, s: Asg| ht_wf(m) ==> #[trigger] ht_sat(imp_lhs(imp), w, m, s) == (head_lhs(r.head, vnames, m, s) && body_sat(r.body.formulas@, w, m, s))
    &&& forall|w: World, m: HT, s: Asg| ht_wf(m) ==> #[trigger] ht_sat(imp_rhs(imp), w, m, s) == head_rhs(r.head, vnames, w, m, s)
    &&& forall|k: VKey| #[trigger] fv(imp, k) ==> rule_in(r, k) || bound_by(zvars(vnames), k)
}

pub open spec fn is_forall(f: Formula, vars: Seq<Variable>) -> bool {
    f is QuantifiedFormula && f->QuantifiedFormula_quantification.quantifier == Quantifier::Forall && f->QuantifiedFormula_quantification.variables@ == vars
}

/// f is `forall gv imp`, or imp itself when there is nothing to quantify
pub open spec fn closure_shape(f: Formula, gv: Seq<Variable>, imp: Formula) -> bool {
    (is_forall(f, gv) && *f->QuantifiedFormula_formula == imp) || (gv.len() == 0 && f == imp)
}

pub open spec fn rule_side(r: asp::Rule, gv: Seq<Variable>, vnames: Seq<String>) -> bool {
    &&& distinct_names(vnames)
    &&& vnames.len() == head_args(r.head).len()
    &&& forall|i: int, k: VKey| 0 <= i < vnames.len() && #[trigger] rule_in(r, k) ==> k != #[trigger] zkey(vnames[i])
    &&& forall|k: VKey| rule_in(r, k) || bound_by(zvars(vnames), k) ==> #[trigger] bound_by(gv, k)
    &&& forall|i: int| 0 <= i < gv.len() ==> (#[trigger] gv[i]).sort == Sort::General
}

/// the variant of s examined for the ground instance g and the head values vs
pub open spec fn inst_asg(s: Asg, gv: Seq<Variable>, g: Asg, vnames: Seq<String>, vs: Seq<Val>) -> Asg {
    with_vals(overwrite(s, gv, g), vnames, vs)
}

pub proof fn lemma_rule_fwd_at(r: asp::Rule, gv: Seq<Variable>, vnames: Seq<String>, imp: Formula, w: World, m: HT, s: Asg, g: Asg, vs: Seq<Val>, w2: World)
    requires
        imp_sem(imp, r, vnames), rule_side(r, gv, vnames), ht_wf(m),
        forall|s2: Asg| variant(s2, s, gv) ==> #[trigger] ht_sat(imp, w, m, s2),
        vs.len() == vnames.len(), w2 == w || w2 == World::There, body_sat(r.body.formulas@, w2, m, g),
    ensures
        tuple_vals(head_args(r.head), inst_asg(s, gv, g, vnames, vs), vs) == tuple_vals(head_args(r.head), g, vs),
        zs(vnames, inst_asg(s, gv, g, vnames, vs)) =~= vs,
        head_lhs(r.head, vnames, m, inst_asg(s, gv, g, vnames, vs)) ==> head_rhs(r.head, vnames, w2, m, inst_asg(s, gv, g, vnames, vs)),
{
    let base = overwrite(s, gv, g);
    lemma_overwrite(s, gv, g);
    let b = r.body.formulas@;
    let ts = head_args(r.head);
    let s2 = with_vals(base, vnames, vs);
    lemma_with_vals(base, vnames, vs);
    lemma_with_vals_variant(base, vnames, vs);
    // s2 agrees with g on the variables of r
    assert forall|k: VKey| rule_in(r, k) implies s2[k] == g[k] by {
        assert forall|i: int| 0 <= i < vnames.len() implies k != #[trigger] zkey(vnames[i]) by {}
        assert(s2[k] == base[k]);
        assert(bound_by(gv, k));
    }
    // s2 is a variant of s on gv
    assert(variant(s2, s, gv)) by {
        assert forall|k: VKey| !bound_by(gv, k) implies #[trigger] s2[k] == s[k] by {
            assert(!rule_in(r, k) && !bound_by(zvars(vnames), k));
            lemma_zvars_bound(vnames, k);
            assert forall|i: int| 0 <= i < vnames.len() implies k != #[trigger] zkey(vnames[i]) by {}
            assert(s2[k] == base[k]);
        }
        assert forall|k: VKey| bound_by(gv, k) implies in_sort(#[trigger] s2[k], k.1) by {
            let i = choose|i: int| 0 <= i < gv.len() && #[trigger] vkey(gv[i]) == k;
            assert(gv[i].sort == Sort::General);
        }
    }
    assert(ht_sat(imp, w, m, s2));
    assert forall|k: VKey| terms_in(ts, k) implies s2[k] == g[k] by { assert(head_in(r.head, k)); assert(rule_in(r, k)); }
    lemma_tuple_vals_coin(ts, s2, g, vs);
    assert forall|k: VKey| body_in(b, k) implies s2[k] == g[k] by { assert(rule_in(r, k)); }
    lemma_body_coin(b, w2, m, s2, g);
    assert(ht_sat(imp_lhs(imp), w2, m, s2) == (head_lhs(r.head, vnames, m, s2) && body_sat(b, w2, m, s2)));
    assert(ht_sat(imp_rhs(imp), w2, m, s2) == head_rhs(r.head, vnames, w2, m, s2));
}

pub proof fn lemma_rule_fwd(r: asp::Rule, gv: Seq<Variable>, vnames: Seq<String>, imp: Formula, w: World, m: HT, s: Asg, g: Asg)
    requires
        imp_sem(imp, r, vnames), rule_side(r, gv, vnames), ht_wf(m),
        forall|s2: Asg| variant(s2, s, gv) ==> #[trigger] ht_sat(imp, w, m, s2),
    ensures inst_sat(r, w, m, g),
{
    let b = r.body.formulas@;
    let ts = head_args(r.head);
    let p = head_pred(r.head);
    assert forall|w2: World| (w2 == w || w2 == World::There) && body_sat(b, w2, m, g) implies #[trigger] head_sat(r.head, w2, m, g) by {
        match r.head {
            asp::Head::Falsity => {
                lemma_rule_fwd_at(r, gv, vnames, imp, w, m, s, g, Seq::<Val>::empty(), w2);
            }
            _ => {
                assert forall|vs: Seq<Val>| #[trigger] tuple_vals(ts, g, vs) implies
                    (holds(w2, m, p, vs) || (r.head is Choice && !holds(World::There, m, p, vs))) by {
                    lemma_rule_fwd_at(r, gv, vnames, imp, w, m, s, g, vs, w2);
                }
            }
        }
    }
}

pub proof fn lemma_rule_bwd(r: asp::Rule, vnames: Seq<String>, imp: Formula, w: World, m: HT, s2: Asg)
    requires imp_sem(imp, r, vnames), ht_wf(m), inst_sat(r, w, m, s2), vnames.len() == head_args(r.head).len(),
    ensures ht_sat(imp, w, m, s2),
{
    let b = r.body.formulas@;
    let vs = zs(vnames, s2);
    assert forall|w2: World| (w2 == w || w2 == World::There) && #[trigger] ht_sat(imp_lhs(imp), w2, m, s2) implies ht_sat(imp_rhs(imp), w2, m, s2) by {
        assert(head_lhs(r.head, vnames, m, s2) && body_sat(b, w2, m, s2));
        assert(head_sat(r.head, w2, m, s2));
        assert(ht_sat(imp_rhs(imp), w2, m, s2) == head_rhs(r.head, vnames, w2, m, s2));
        match r.head {
            asp::Head::Basic(a) => { assert(tuple_vals(a.terms@, s2, vs)); }
            asp::Head::Choice(a) => { assert(tuple_vals(a.terms@, s2, vs)); }
            asp::Head::Falsity => {}
        }
    }
    assert(ht_sat(imp_lhs(imp), w, m, s2) ==> ht_sat(imp_rhs(imp), w, m, s2));
    assert(ht_sat(imp_lhs(imp), World::There, m, s2) ==> ht_sat(imp_rhs(imp), World::There, m, s2));
}

pub proof fn lemma_rule_closed(r: asp::Rule, f: Formula, gv: Seq<Variable>, vnames: Seq<String>, imp: Formula)
    requires imp_sem(imp, r, vnames), rule_side(r, gv, vnames), closure_shape(f, gv, imp),
    ensures rule_ok(f, r),
{
    assert forall|w: World, m: HT, s: Asg| ht_wf(m) implies #[trigger] ht_sat(f, w, m, s) == rule_sat(r, w, m) by {
        let p = |s2: Asg| ht_sat(imp, w, m, s2);
        lemma_ht_block(Quantifier::Forall, gv, imp, w, m, s);
        assert(ht_sat(f, w, m, s) == quant_set(Quantifier::Forall, gv, p, s)) by {
            if !(is_forall(f, gv) && *f->QuantifiedFormula_formula == imp) { assert(ht_quant(Quantifier::Forall, gv, imp, w, m, s) == ht_sat(imp, w, m, s)); }
        }
        if ht_sat(f, w, m, s) {
            assert forall|s2: Asg| variant(s2, s, gv) implies #[trigger] ht_sat(imp, w, m, s2) by { assert(p(s2)); }
            assert forall|g: Asg| #[trigger] inst_sat(r, w, m, g) by { lemma_rule_fwd(r, gv, vnames, imp, w, m, s, g); }
        }
        if rule_sat(r, w, m) {
            assert forall|s2: Asg| variant(s2, s, gv) implies #[trigger] p(s2) by {
                assert(inst_sat(r, w, m, s2));
                lemma_rule_bwd(r, vnames, imp, w, m, s2);
            }
        }
    }
    assert forall|k: VKey| !#[trigger] fv(f, k) by {
        if fv(f, k) {
            if is_forall(f, gv) && *f->QuantifiedFormula_formula == imp {
                assert(fv(imp, k) && !bound_by(gv, k));
            } else {
                assert(fv(imp, k));
                assert(rule_in(r, k) || bound_by(zvars(vnames), k));
                assert(bound_by(gv, k));
                let i = choose|i: int| 0 <= i < gv.len() && #[trigger] vkey(gv[i]) == k;
            }
        }
    }
}

// ---- establishing imp_sem for the three rule shapes ---------------------------------------------------------------
/// val_t1(V1) & ... & val_tn(Vn) under any assignment: the V's hold a tuple of values of the terms
pub proof fn lemma_valtz_plain(terms: Seq<asp::Term>, vnames: Seq<String>, vals: Seq<Formula>, w: World, m: HT, s: Asg)
    requires vnames.len() == terms.len(), vals.len() == terms.len(), forall|i: int| 0 <= i < terms.len() ==> #[trigger] val_ok(vals[i], terms[i], zvar(vnames[i])),
    ensures ht_sat(spec_conjoin(vals), w, m, s) == tuple_vals(terms, s, zs(vnames, s)),
{
    lemma_conjoin_ht(vals, w, m, s);
    let vs = zs(vnames, s);
    assert forall|i: int| 0 <= i < terms.len() implies #[trigger] ht_sat(vals[i], w, m, s) == tv_at(terms, s, vs, i) by {
        assert(val_ok(vals[i], terms[i], zvar(vnames[i])));
        assert(zval(zvar(vnames[i]), s) == vs[i]);
    }
    if ht_sat(spec_conjoin(vals), w, m, s) { assert forall|i: int| 0 <= i < terms.len() implies #[trigger] tv_at(terms, s, vs, i) by { assert(ht_sat(vals[i], w, m, s)); } }
    if tuple_vals(terms, s, vs) { assert forall|i: int| 0 <= i < vals.len() implies #[trigger] ht_sat(vals[i], w, m, s) by { assert(tv_at(terms, s, vs, i)); } }
}

/// `core` is  val_t(V) & tau^B(Body)  (or just tau^B(Body) when the head has no arguments), read semantically
pub open spec fn core_sem(core: Formula, r: asp::Rule, vnames: Seq<String>) -> bool {
    &&& forall|w: World, m: HT, s: Asg| ht_wf(m) ==> #[trigger] ht_sat(core, w, m, s)
            == (tuple_vals(head_args(r.head), s, zs(vnames, s)) && body_sat(r.body.formulas@, w, m, s))
    &&& forall|k: VKey| #[trigger] fv(core, k) ==> rule_in(r, k) || bound_by(zvars(vnames), k)
}

pub proof fn lemma_core_fo(r: asp::Rule, vnames: Seq<String>, vals: Seq<Formula>, bodyf: Formula, core: Formula)
    requires
        !(r.head is Falsity), body_ok(bodyf, r.body),
        vnames.len() == head_args(r.head).len(), vals.len() == vnames.len(),
        forall|i: int| 0 <= i < vals.len() ==> #[trigger] val_ok(vals[i], head_args(r.head)[i], zvar(vnames[i])),
        is_conj(core), *core->BinaryFormula_lhs == spec_conjoin(vals), *core->BinaryFormula_rhs == bodyf,
    ensures core_sem(core, r, vnames),
{
    let ts = head_args(r.head);
    assert forall|w: World, m: HT, s: Asg| ht_wf(m) implies #[trigger] ht_sat(core, w, m, s) == (tuple_vals(ts, s, zs(vnames, s)) && body_sat(r.body.formulas@, w, m, s)) by {
        lemma_valtz_plain(ts, vnames, vals, w, m, s);
        assert(ht_sat(core, w, m, s) == (ht_sat(*core->BinaryFormula_lhs, w, m, s) && ht_sat(*core->BinaryFormula_rhs, w, m, s)));
        assert(ht_sat(bodyf, w, m, s) == body_sat(r.body.formulas@, w, m, s));
    }
    assert forall|k: VKey| #[trigger] fv(core, k) implies rule_in(r, k) || bound_by(zvars(vnames), k) by {
        assert(fv(core, k) == (fv(*core->BinaryFormula_lhs, k) || fv(*core->BinaryFormula_rhs, k)));
        if fv(bodyf, k) { assert(body_in(r.body.formulas@, k)); }
        if fv(spec_conjoin(vals), k) {
            lemma_conjoin_fv(vals, k);
            let i = choose|i: int| 0 <= i < vals.len() && #[trigger] fv(vals[i], k);
            assert(val_ok(vals[i], ts[i], zvar(vnames[i])));
            lemma_zvars_bound(vnames, k);
            if k == vkey(zvar(vnames[i])) { assert(k == zkey(vnames[i])); } else { assert(asp_in_term(ts[i], k)); assert(terms_in(ts, k)); assert(head_in(r.head, k)); }
        }
    }
}

pub proof fn lemma_core_prop(r: asp::Rule, bodyf: Formula)
    requires body_ok(bodyf, r.body), head_args(r.head).len() == 0,
    ensures core_sem(bodyf, r, Seq::<String>::empty()),
{
    let e = Seq::<String>::empty();
    assert forall|w: World, m: HT, s: Asg| ht_wf(m) implies #[trigger] ht_sat(bodyf, w, m, s) == (tuple_vals(head_args(r.head), s, zs(e, s)) && body_sat(r.body.formulas@, w, m, s)) by {
        assert(tuple_vals(head_args(r.head), s, zs(e, s)));
    }
}

pub open spec fn is_falsity(f: Formula) -> bool { f is AtomicFormula && f->AtomicFormula_0 is Falsity }

/// the shape of the matrix for each kind of head
pub open spec fn imp_shape(imp: Formula, core: Formula, h: asp::Head, vnames: Seq<String>) -> bool {
    is_imp(imp) && match h {
        asp::Head::Basic(a) => imp_lhs(imp) == core && is_atom(imp_rhs(imp), a.predicate_symbol@, zterms(vnames)),
        asp::Head::Choice(a) => is_conj(imp_lhs(imp)) && *imp_lhs(imp)->BinaryFormula_lhs == core
            && is_signed_atom(*imp_lhs(imp)->BinaryFormula_rhs, asp::Sign::DoubleNegation, a.predicate_symbol@, zterms(vnames))
            && is_atom(imp_rhs(imp), a.predicate_symbol@, zterms(vnames)),
        asp::Head::Falsity => imp_lhs(imp) == core && is_falsity(imp_rhs(imp)),
    }
}

pub proof fn lemma_imp_sem(r: asp::Rule, vnames: Seq<String>, core: Formula, imp: Formula)
    requires core_sem(core, r, vnames), imp_shape(imp, core, r.head, vnames), vnames.len() == head_args(r.head).len(),
    ensures imp_sem(imp, r, vnames),
{
    let p = head_pred(r.head);
    let ts = zterms(vnames);
    let lhs = imp_lhs(imp);
    let rhs = imp_rhs(imp);
    assert forall|w: World, m: HT, s: Asg| ht_wf(m) implies
        #[trigger] ht_sat(imp_lhs(imp), w, m, s) == (head_lhs(r.head, vnames, m, s) && body_sat(r.body.formulas@, w, m, s)) by {
        lemma_zterms(vnames, m.fc, s);
        assert(ht_sat(core, w, m, s) == (tuple_vals(head_args(r.head), s, zs(vnames, s)) && body_sat(r.body.formulas@, w, m, s)));
        match r.head {
            asp::Head::Choice(a) => {
                let nn = *lhs->BinaryFormula_rhs;
                lemma_signed_atom(nn, asp::Sign::DoubleNegation, p, ts, w, m, s);
                assert(ht_sat(lhs, w, m, s) == (ht_sat(core, w, m, s) && ht_sat(nn, w, m, s)));
            }
            asp::Head::Basic(a) => {}
            asp::Head::Falsity => { assert(tuple_vals(head_args(r.head), s, zs(vnames, s))); }
        }
    }
    assert forall|w: World, m: HT, s: Asg| ht_wf(m) implies #[trigger] ht_sat(imp_rhs(imp), w, m, s) == head_rhs(r.head, vnames, w, m, s) by {
        lemma_zterms(vnames, m.fc, s);
        if !(r.head is Falsity) { lemma_signed_atom(rhs, asp::Sign::NoSign, p, ts, w, m, s); }
    }
    assert forall|k: VKey| #[trigger] fv(imp, k) implies rule_in(r, k) || bound_by(zvars(vnames), k) by {
        lemma_zterms_in(vnames, k);
        assert(fv(imp, k) == (fv(lhs, k) || fv(rhs, k)));
        if !(r.head is Falsity) { lemma_signed_atom_fv(rhs, asp::Sign::NoSign, p, ts, k); }
        if fv(core, k) { assert(rule_in(r, k) || bound_by(zvars(vnames), k)); }
        if r.head is Choice {
            let nn = *lhs->BinaryFormula_rhs;
            lemma_signed_atom_fv(nn, asp::Sign::DoubleNegation, p, ts, k);
            assert(fv(lhs, k) == (fv(core, k) || fv(nn, k)));
        }
    }
}

// ---- the quantifier prefix ---------------------------------------------------------------------------------------------
pub open spec fn all_general(gv: Seq<Variable>) -> bool { forall|i: int| 0 <= i < gv.len() ==> (#[trigger] gv[i]).sort == Sort::General }

/// sorting the prefix changes neither the set of bound keys nor the sorts
pub proof fn lemma_perm_prefix(a: Seq<Variable>, b: Seq<Variable>)
    requires a.to_multiset() == b.to_multiset(),
    ensures forall|k: VKey| bound_by(a, k) == bound_by(b, k), all_general(a) == all_general(b),
{
    a.to_multiset_ensures();
    b.to_multiset_ensures();
    assert forall|x: Variable| a.contains(x) == b.contains(x) by {
        assert(a.contains(x) == (a.to_multiset().count(x) > 0));
        assert(b.contains(x) == (b.to_multiset().count(x) > 0));
    }
    assert forall|k: VKey| bound_by(a, k) == bound_by(b, k) by {
        if bound_by(a, k) {
            let i = choose|i: int| 0 <= i < a.len() && #[trigger] vkey(a[i]) == k;
            assert(a.contains(a[i]));
            let j = choose|j: int| 0 <= j < b.len() && b[j] == a[i];
            assert(vkey(b[j]) == k);
        }
        if bound_by(b, k) {
            let i = choose|i: int| 0 <= i < b.len() && #[trigger] vkey(b[i]) == k;
            assert(b.contains(b[i]));
            let j = choose|j: int| 0 <= j < a.len() && a[j] == b[i];
            assert(vkey(a[j]) == k);
        }
    }
    if all_general(a) {
        assert forall|i: int| 0 <= i < b.len() implies (#[trigger] b[i]).sort == Sort::General by {
            assert(b.contains(b[i]));
            let j = choose|j: int| 0 <= j < a.len() && a[j] == b[i];
            assert(a[j].sort == Sort::General);
        }
    }
    if all_general(b) {
        assert forall|i: int| 0 <= i < a.len() implies (#[trigger] a[i]).sort == Sort::General by {
            assert(a.contains(a[i]));
            let j = choose|j: int| 0 <= j < b.len() && b[j] == a[i];
            assert(b[j].sort == Sort::General);
        }
    }
}

/// the prefix built from the rule's variables covers them
pub open spec fn gv_covers(gv: Seq<Variable>, r: asp::Rule) -> bool { forall|k: VKey| rule_in(r, k) ==> #[trigger] bound_by(gv, k) }

// ---- contracts of the translators at the level of rules and programs ---------------------------------------------------------
/// the head variables V taken from the list of fresh global names
pub open spec fn globals_ok(globals: Seq<String>, r: asp::Rule) -> bool {
    &&& head_args(r.head).len() <= globals.len()
    &&& distinct_names(globals)
    &&& forall|i: int, k: VKey| 0 <= i < globals.len() && #[trigger] rule_in(r, k) ==> k != #[trigger] zkey(globals[i])
}

/// the list of head variables serves every rule of the program
pub open spec fn program_globals_ok(globals: Seq<String>, p: asp::Program) -> bool {
    forall|i: int| 0 <= i < p.rules@.len() ==> #[trigger] globals_ok(globals, p.rules@[i])
}

/// tau*(P): one sentence per rule, each true exactly when every ground instance of its rule is satisfied
pub open spec fn theory_ok(t: Theory, p: asp::Program) -> bool {
    t.formulas@.len() == p.rules@.len() && forall|i: int| 0 <= i < p.rules@.len() ==> #[trigger] rule_ok(t.formulas@[i], p.rules@[i])
}
