// subst_loop_lemmas.rs — C17: the invariant of the binder-renaming loop of Formula::substitute and its steps.

pub open spec fn ht_pred(f: Formula, w: World, m: HT) -> APred { |s2: Asg| ht_sat(f, w, m, s2) }

/// the meaning of the block `q vars f` in world w (set-level form)
pub open spec fn block_sat(q: Quantifier, vars: Seq<Variable>, f: Formula, w: World, m: HT, s: Asg) -> bool {
    quant_set(q, vars, ht_pred(f, w, m), s)
}

pub open spec fn free_in_block(f: Formula, vars: Seq<Variable>, k: VKey) -> bool { fv(f, k) && !bound_by(vars, k) }

pub proof fn lemma_block_sat(q: Quantifier, vars: Seq<Variable>, body: Formula, w: World, m: HT, s: Asg)
    ensures ht_quant(q, vars, body, w, m, s) == block_sat(q, vars, body, w, m, s),
{
    lemma_ht_block(q, vars, body, w, m, s);
    assert(ht_pred(body, w, m) == (|s2: Asg| ht_sat(body, w, m, s2)));
}


/// after i binders: vs are the (possibly renamed) binders so far, f the (possibly renamed) body
pub open spec fn loop_inv(q: Quantifier, xs: Seq<Variable>, f0: Formula, var: Variable, term: GeneralTerm,
                          i: int, vs: Seq<Variable>, f: Formula) -> bool {
    let rest = xs.subrange(i, xs.len() as int);
    &&& 0 <= i <= xs.len()
    &&& vs.len() == i
    &&& fsize(f) <= fsize(f0)
    &&& forall|w: World, m: HT, s1: Asg| #[trigger] block_sat(q, vs + rest, f, w, m, s1) == block_sat(q, xs, f0, w, m, s1)
    &&& forall|k: VKey| #[trigger] fv(f, k) ==> fv(f0, k) || bound_by(vs, k)
    &&& forall|k: VKey| #[trigger] in_gen(term, k) ==> !bound_by(vs, k)
    &&& !bound_by(vs, vkey(var))
    &&& forall|k: VKey| #[trigger] free_in_block(f, vs + rest, k) == free_in_block(f0, xs, k)
}

pub proof fn lemma_loop_init(q: Quantifier, xs: Seq<Variable>, f0: Formula, var: Variable, term: GeneralTerm)
    ensures loop_inv(q, xs, f0, var, term, 0, Seq::<Variable>::empty(), f0),
{
    let vs = Seq::<Variable>::empty();
    assert(vs + xs.subrange(0, xs.len() as int) =~= xs);
    assert forall|k: VKey| !bound_by(vs, k) by {}
}

pub proof fn lemma_loop_keep(q: Quantifier, xs: Seq<Variable>, f0: Formula, var: Variable, term: GeneralTerm,
                             i: int, vs: Seq<Variable>, f: Formula)
    requires
        loop_inv(q, xs, f0, var, term, i, vs, f), i < xs.len(),
        !in_gen(term, vkey(xs[i])), vkey(xs[i]) != vkey(var),
    ensures loop_inv(q, xs, f0, var, term, i + 1, vs.push(xs[i]), f),
{
    let n = xs.len() as int;
    assert(vs.push(xs[i]) + xs.subrange(i + 1, n) =~= vs + xs.subrange(i, n));
    assert forall|k: VKey| bound_by(vs.push(xs[i]), k) == (bound_by(vs, k) || vkey(xs[i]) == k) by { lemma_bound_by_push(vs, xs[i], k); }
    assert forall|k: VKey| #[trigger] fv(f, k) implies fv(f0, k) || bound_by(vs.push(xs[i]), k) by {}
}

pub proof fn lemma_loop_rename(q: Quantifier, xs: Seq<Variable>, f0: Formula, var: Variable, term: GeneralTerm,
                               i: int, vs: Seq<Variable>, f: Formula, y: Variable, f2: Formula)
    requires
        loop_inv(q, xs, f0, var, term, i, vs, f), i < xs.len(),
        y.sort == xs[i].sort,
        in_gen(term, vkey(xs[i])), !in_gen(term, vkey(y)),
        !fv(f0, vkey(y)), !bound_by(vs, vkey(y)), vkey(y) != vkey(var),
        subst_ht(f2, f, xs[i], var_term(y)),
    ensures loop_inv(q, xs, f0, var, term, i + 1, vs.push(y), f2),
{
    let n = xs.len() as int;
    let x = xs[i];
    let kx = vkey(x);
    let ky = vkey(y);
    let rr = xs.subrange(i + 1, n);
    let old_vars = vs + xs.subrange(i, n);
    let new_vars = vs.push(y) + rr;
    assert(old_vars =~= vs + seq![x] + rr);
    assert(new_vars =~= vs + seq![y] + rr);
    assert(ky != kx);
    assert(!fv(f, ky)) by { if fv(f, ky) { assert(fv(f0, ky) || bound_by(vs, ky)); } }
    assert forall|k: VKey| bound_by(vs.push(y), k) == (bound_by(vs, k) || ky == k) by { lemma_bound_by_push(vs, y, k); }
    assert forall|w: World, m: HT, s1: Asg| #[trigger] block_sat(q, new_vars, f2, w, m, s1) == block_sat(q, xs, f0, w, m, s1) by {
        lemma_rename_step(q, vs, x, y, rr, f, f2, w, m, s1);
        assert(block_sat(q, old_vars, f, w, m, s1) == block_sat(q, xs, f0, w, m, s1));
    }
    assert forall|k: VKey| #[trigger] fv(f2, k) implies fv(f0, k) || bound_by(vs.push(y), k) by {
        lemma_var_term_occ(y, k);
        if fv(f, kx) { if k != ky { assert(fv(f, k)); } } else { assert(fv(f, k)); }
    }
    assert forall|k: VKey| #[trigger] free_in_block(f2, new_vars, k) == free_in_block(f0, xs, k) by {
        lemma_var_term_occ(y, k);
        lemma_bound_by_concat(vs + seq![x], rr, k);
        lemma_bound_by_concat(vs, seq![x], k);
        lemma_bound_by_single(x, k);
        lemma_bound_by_concat(vs + seq![y], rr, k);
        lemma_bound_by_concat(vs, seq![y], k);
        lemma_bound_by_single(y, k);
        assert(free_in_block(f, old_vars, k) == free_in_block(f0, xs, k));
    }
}

pub proof fn lemma_loop_final(q: Quantifier, xs: Seq<Variable>, f0: Formula, var: Variable, term: GeneralTerm,
                              vs: Seq<Variable>, f: Formula, f2: Formula, orig: Formula)
    requires
        loop_inv(q, xs, f0, var, term, xs.len() as int, vs, f),
        subst_ht(f2, f, var, term),
        !bound_by(xs, vkey(var)),
        orig matches Formula::QuantifiedFormula { quantification, formula }
            && quantification.quantifier == q && quantification.variables@ == xs && *formula == f0,
    ensures subst_ht(spec_quantify(f2, q, vs), orig, var, term),
{
    broadcast use axiom_vec_of;
    let r = spec_quantify(f2, q, vs);
    let n = xs.len() as int;
    let kv = vkey(var);
    assert(vs + xs.subrange(n, n) =~= vs);
    assert forall|w: World, m: HT, s: Asg| #[trigger] ht_sat(r, w, m, s) == ht_sat(orig, w, m, sub_asg(s, var, term, m.fc)) by {
        let sv = sub_asg(s, var, term, m.fc);
        lemma_quantify_ht(f2, q, vs, w, m, s);
        lemma_block_sat(q, vs, f2, w, m, s);
        lemma_subst_under_block(q, vs, f, f2, var, term, w, m, s);
        assert(block_sat(q, vs, f2, w, m, s) == block_sat(q, vs, f, w, m, sv));
        assert(block_sat(q, vs, f, w, m, sv) == block_sat(q, xs, f0, w, m, sv));
        lemma_block_sat(q, xs, f0, w, m, sv);
    }
    assert forall|k: VKey| #[trigger] fv(r, k) == (if fv(orig, kv) { (fv(orig, k) && k != kv) || in_gen(term, k) } else { fv(orig, k) }) by {
        assert(fv(r, k) == (fv(f2, k) && !bound_by(vs, k))) by {
            if vs.len() == 0 { assert(!bound_by(vs, k)); }
        }
        assert(free_in_block(f, vs, k) == free_in_block(f0, xs, k));
        assert(free_in_block(f, vs, kv) == free_in_block(f0, xs, kv));
        assert(fv(orig, k) == free_in_block(f0, xs, k));
        assert(fv(orig, kv) == free_in_block(f0, xs, kv));
        if in_gen(term, k) { assert(!bound_by(vs, k)); }
    }
    assert(fsize(r) <= fsize(orig));
}
