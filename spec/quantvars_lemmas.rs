// quantvars_lemmas.rs — C07: rewrites that change only the variable list of a quantifier block
// (remove_orphaned_variables, join_nested_quantifiers).  Needs block_lemmas.rs (quant_set, overwrite) and scope_lemmas.rs (default_asg).

/// p depends only on the keys in `rel` (the free variables of the body)
pub open spec fn depends_on(p: APred, rel: spec_fn(VKey) -> bool) -> bool {
    forall|s1: Asg, s2: Asg| (forall|k: VKey| rel(k) ==> s1[k] == s2[k]) ==> #[trigger] p(s1) == #[trigger] p(s2)
}

/// Q X Y F(X)  ==  Q X F(X): variables that do not occur free in the body may be dropped from (or added to) a block, because sorts are inhabited
pub proof fn lemma_drop_unused(q: Quantifier, vars: Seq<Variable>, kept: Seq<Variable>, p: APred, rel: spec_fn(VKey) -> bool, s: Asg)
    requires
        depends_on(p, rel),
        forall|k: VKey| bound_by(kept, k) ==> bound_by(vars, k),
        forall|k: VKey| bound_by(vars, k) && !bound_by(kept, k) ==> !rel(k),
    ensures quant_set(q, vars, p, s) == quant_set(q, kept, p, s),
{
    // from a variant on kept to a variant on vars with the same truth value
    assert forall|s2: Asg| variant(s2, s, kept) implies exists|s3: Asg| variant(s3, s, vars) && #[trigger] p(s3) == p(s2) by {
        // default values on all of vars, then s2's values back on kept
        let d = default_asg(s, vars);
        lemma_default_variant(s, vars);
        let s3 = overwrite(d, kept, s2);
        lemma_overwrite(d, kept, s2);
        assert(variant(s3, s, vars)) by {
            assert forall|k: VKey| !bound_by(vars, k) implies #[trigger] s3[k] == s[k] by { assert(!bound_by(kept, k)); }
            assert forall|k: VKey| bound_by(vars, k) implies in_sort(#[trigger] s3[k], k.1) by {}
        }
        assert forall|k: VKey| rel(k) implies s3[k] == s2[k] by {
            if !bound_by(kept, k) { assert(!bound_by(vars, k)); assert(s2[k] == s[k]); assert(d[k] == s[k]); }
        }
        assert(p(s3) == p(s2));
    }
    // from a variant on vars to a variant on kept with the same truth value
    assert forall|s2: Asg| variant(s2, s, vars) implies exists|s3: Asg| variant(s3, s, kept) && #[trigger] p(s3) == p(s2) by {
        let s3 = overwrite(s, kept, s2);
        lemma_overwrite(s, kept, s2);
        assert(variant(s3, s, kept)) by {
            assert forall|k: VKey| bound_by(kept, k) implies in_sort(#[trigger] s3[k], k.1) by { assert(bound_by(vars, k)); }
        }
        assert forall|k: VKey| rel(k) implies s3[k] == s2[k] by {
            if !bound_by(kept, k) { assert(!bound_by(vars, k)); }
        }
        assert(p(s3) == p(s2));
    }
    match q {
        Quantifier::Forall => {
            if quant_set(q, vars, p, s) {
                assert forall|s2: Asg| variant(s2, s, kept) implies #[trigger] p(s2) by {
                    let s3 = choose|s3: Asg| variant(s3, s, vars) && #[trigger] p(s3) == p(s2);
                    assert(p(s3));
                }
            }
            if quant_set(q, kept, p, s) {
                assert forall|s2: Asg| variant(s2, s, vars) implies #[trigger] p(s2) by {
                    let s3 = choose|s3: Asg| variant(s3, s, kept) && #[trigger] p(s3) == p(s2);
                    assert(p(s3));
                }
            }
        }
        Quantifier::Exists => {
            if quant_set(q, vars, p, s) {
                let s2 = choose|s2: Asg| variant(s2, s, vars) && #[trigger] p(s2);
                let s3 = choose|s3: Asg| variant(s3, s, kept) && #[trigger] p(s3) == p(s2);
                assert(variant(s3, s, kept) && p(s3));
            }
            if quant_set(q, kept, p, s) {
                let s2 = choose|s2: Asg| variant(s2, s, kept) && #[trigger] p(s2);
                let s3 = choose|s3: Asg| variant(s3, s, vars) && #[trigger] p(s3) == p(s2);
                assert(variant(s3, s, vars) && p(s3));
            }
        }
    }
}

/// Q X (Q Y F)  ==  Q XY F
pub proof fn lemma_nested_blocks(q: Quantifier, xs: Seq<Variable>, ys: Seq<Variable>, p: APred, s: Asg)
    ensures quant_set(q, xs, |s2: Asg| quant_set(q, ys, p, s2), s) == quant_set(q, xs + ys, p, s),
{
    let inner = |s2: Asg| quant_set(q, ys, p, s2);
    let xy = xs + ys;
    // two-step variants are one-step variants and vice versa
    assert forall|s2: Asg, s3: Asg| variant(s2, s, xs) && variant(s3, s2, ys) && #[trigger] trig2(s2, s3) implies variant(s3, s, xy) by {
        assert forall|k: VKey| !bound_by(xy, k) implies #[trigger] s3[k] == s[k] by { lemma_bound_by_concat(xs, ys, k); assert(s3[k] == s2[k]); }
        assert forall|k: VKey| bound_by(xy, k) implies in_sort(#[trigger] s3[k], k.1) by { lemma_bound_by_concat(xs, ys, k); if !bound_by(ys, k) { assert(s3[k] == s2[k]); } }
    }
    assert forall|s3: Asg| variant(s3, s, xy) implies variant(overwrite(s, xs, s3), s, xs) && #[trigger] variant(s3, overwrite(s, xs, s3), ys) by {
        let s2 = overwrite(s, xs, s3);
        lemma_overwrite(s, xs, s3);
        assert forall|k: VKey| bound_by(xs, k) implies in_sort(#[trigger] s2[k], k.1) by { lemma_bound_by_concat(xs, ys, k); }
        assert forall|k: VKey| !bound_by(ys, k) implies #[trigger] s3[k] == s2[k] by { lemma_bound_by_concat(xs, ys, k); if !bound_by(xs, k) { assert(s3[k] == s[k]); } }
        assert forall|k: VKey| bound_by(ys, k) implies in_sort(#[trigger] s3[k], k.1) by { lemma_bound_by_concat(xs, ys, k); }
    }
    match q {
        Quantifier::Forall => {
            if quant_set(q, xs, inner, s) {
                assert forall|s3: Asg| variant(s3, s, xy) implies #[trigger] p(s3) by {
                    let s2 = overwrite(s, xs, s3);
                    assert(variant(s3, s2, ys));
                    assert(inner(s2));
                }
            }
            if quant_set(q, xy, p, s) {
                assert forall|s2: Asg| variant(s2, s, xs) implies #[trigger] inner(s2) by {
                    assert forall|s3: Asg| variant(s3, s2, ys) implies #[trigger] p(s3) by { assert(trig2(s2, s3)); assert(variant(s3, s, xy)); }
                }
            }
        }
        Quantifier::Exists => {
            if quant_set(q, xs, inner, s) {
                let s2 = choose|s2: Asg| variant(s2, s, xs) && #[trigger] inner(s2);
                let s3 = choose|s3: Asg| variant(s3, s2, ys) && #[trigger] p(s3);
                assert(trig2(s2, s3));
                assert(variant(s3, s, xy) && p(s3));
            }
            if quant_set(q, xy, p, s) {
                let s3 = choose|s3: Asg| variant(s3, s, xy) && #[trigger] p(s3);
                let s2 = overwrite(s, xs, s3);
                assert(variant(s3, s2, ys));
                assert(variant(s3, s2, ys) && p(s3));
                assert(inner(s2));
                assert(variant(s2, s, xs) && inner(s2));
            }
        }
    }
}
pub open spec fn trig2(a: Asg, b: Asg) -> bool { true }

// ---- the two rewrites ------------------------------------------------------------------------------------------------------
pub open spec fn is_block(f: Formula, q: Quantifier, vars: Seq<Variable>, body: Formula) -> bool {
    f is QuantifiedFormula && f->QuantifiedFormula_quantification.quantifier == q && f->QuantifiedFormula_quantification.variables@ == vars && *f->QuantifiedFormula_formula == body
}

/// remove_orphaned_variables: q X Y F(X)  =>  q X F(X)
pub proof fn lemma_orphans(f: Formula, r: Formula, q: Quantifier, vars: Seq<Variable>, kept: Seq<Variable>, body: Formula)
    requires
        is_block(f, q, vars, body), is_block(r, q, kept, body),
        forall|k: VKey| bound_by(kept, k) ==> bound_by(vars, k),
        forall|k: VKey| bound_by(vars, k) && !bound_by(kept, k) ==> !fv(body, k),
    ensures preserves_ht(r, f),
{
    let rel = |k: VKey| fv(body, k);
    assert forall|w: World, m: HT, s: Asg| ht_wf(m) implies #[trigger] ht_sat(r, w, m, s) == ht_sat(f, w, m, s) by {
        let p = |s2: Asg| ht_sat(body, w, m, s2);
        assert(depends_on(p, rel)) by {
            assert forall|s1: Asg, s2: Asg| (forall|k: VKey| rel(k) ==> s1[k] == s2[k]) implies #[trigger] p(s1) == #[trigger] p(s2) by { lemma_coin_ht(body, w, m, s1, s2); }
        }
        lemma_ht_block(q, vars, body, w, m, s);
        lemma_ht_block(q, kept, body, w, m, s);
        lemma_drop_unused(q, vars, kept, p, rel, s);
    }
    assert forall|m: Interp, s: Asg| #[trigger] cl_sat(r, m, s) == cl_sat(f, m, s) by {
        let p = |s2: Asg| cl_sat(body, m, s2);
        assert(depends_on(p, rel)) by {
            assert forall|s1: Asg, s2: Asg| (forall|k: VKey| rel(k) ==> s1[k] == s2[k]) implies #[trigger] p(s1) == #[trigger] p(s2) by { lemma_coin_cl(body, m, s1, s2); }
        }
        lemma_cl_block(q, vars, body, m, s);
        lemma_cl_block(q, kept, body, m, s);
        lemma_drop_unused(q, vars, kept, p, rel, s);
    }
}

/// join_nested_quantifiers: q X (q Y F)  =>  q Z F  where Z has the same members as X followed by Y (spec_quantify: no block when Z is empty)
pub proof fn lemma_join(f: Formula, q: Quantifier, xs: Seq<Variable>, ys: Seq<Variable>, zs: Seq<Variable>, body: Formula, inner: Formula)
    requires
        is_block(f, q, xs, inner), is_block(inner, q, ys, body),
        forall|k: VKey| bound_by(zs, k) == (bound_by(xs, k) || bound_by(ys, k)),
    ensures preserves_ht(spec_quantify(body, q, zs), f),
{
    let r = spec_quantify(body, q, zs);
    let xy = xs + ys;
    assert forall|k: VKey| bound_by(zs, k) == bound_by(xy, k) by { lemma_bound_by_concat(xs, ys, k); }
    assert forall|w: World, m: HT, s: Asg| ht_wf(m) implies #[trigger] ht_sat(r, w, m, s) == ht_sat(f, w, m, s) by {
        let p = |s2: Asg| ht_sat(body, w, m, s2);
        let pin = |s2: Asg| ht_sat(inner, w, m, s2);
        lemma_quantify_ht(body, q, zs, w, m, s);
        lemma_ht_block(q, zs, body, w, m, s);
        lemma_ht_block(q, xs, inner, w, m, s);
        assert forall|s2: Asg| #[trigger] pin(s2) == quant_set(q, ys, p, s2) by { lemma_ht_block(q, ys, body, w, m, s2); }
        lemma_nested_blocks(q, xs, ys, p, s);
        lemma_quant_set_same_keys(q, zs, xy, p, s);
        lemma_quant_set_pointwise(q, xs, pin, |s2: Asg| quant_set(q, ys, p, s2), s);
    }
    assert forall|m: Interp, s: Asg| #[trigger] cl_sat(r, m, s) == cl_sat(f, m, s) by {
        let p = |s2: Asg| cl_sat(body, m, s2);
        let pin = |s2: Asg| cl_sat(inner, m, s2);
        lemma_quantify_cl(body, q, zs, m, s);
        lemma_cl_block(q, zs, body, m, s);
        lemma_cl_block(q, xs, inner, m, s);
        assert forall|s2: Asg| #[trigger] pin(s2) == quant_set(q, ys, p, s2) by { lemma_cl_block(q, ys, body, m, s2); }
        lemma_nested_blocks(q, xs, ys, p, s);
        lemma_quant_set_same_keys(q, zs, xy, p, s);
        lemma_quant_set_pointwise(q, xs, pin, |s2: Asg| quant_set(q, ys, p, s2), s);
    }
    assert forall|k: VKey| #[trigger] fv(r, k) implies fv(f, k) by {
        broadcast use axiom_vec_of;
        reveal_with_fuel(fv, 3);
        if zs.len() == 0 { assert(!bound_by(zs, k)); }
    }
}

/// blocks over pointwise equal predicates are equal
pub proof fn lemma_quant_set_pointwise(q: Quantifier, vars: Seq<Variable>, p1: APred, p2: APred, s: Asg)
    requires forall|s2: Asg| #[trigger] p1(s2) == p2(s2),
    ensures quant_set(q, vars, p1, s) == quant_set(q, vars, p2, s),
{
    match q {
        Quantifier::Forall => {
            if quant_set(q, vars, p1, s) { assert forall|s2: Asg| variant(s2, s, vars) implies #[trigger] p2(s2) by { assert(p1(s2)); } }
            if quant_set(q, vars, p2, s) { assert forall|s2: Asg| variant(s2, s, vars) implies #[trigger] p1(s2) by { assert(p2(s2)); } }
        }
        Quantifier::Exists => {
            if quant_set(q, vars, p1, s) { let s2 = choose|s2: Asg| variant(s2, s, vars) && #[trigger] p1(s2); assert(p2(s2)); }
            if quant_set(q, vars, p2, s) { let s2 = choose|s2: Asg| variant(s2, s, vars) && #[trigger] p2(s2); assert(p1(s2)); }
        }
    }
}
