// nathead2_spec.rs — C08: heads of the natural translation:  forall N (t2' <= N <= t3' & ... -> p(.., N, ..))  resp. with  p v not p.

pub open spec fn ivars(names: Seq<String>) -> Seq<Variable> { Seq::new(names.len(), |i: int| ivar(names[i])) }

pub proof fn lemma_ivars_bound(names: Seq<String>, k: VKey)
    ensures bound_by(ivars(names), k) == (exists|i: int| 0 <= i < names.len() && k == #[trigger] int_key(names[i])),
{
    let v = ivars(names);
    if bound_by(v, k) { let i = choose|i: int| 0 <= i < v.len() && #[trigger] vkey(v[i]) == k; assert(k == int_key(names[i])); }
    if exists|i: int| 0 <= i < names.len() && k == #[trigger] int_key(names[i]) { let i = choose|i: int| 0 <= i < names.len() && k == #[trigger] int_key(names[i]); assert(vkey(v[i]) == k); }
}

/// s with the integer variables `names` set to the integers ks
pub open spec fn with_ints(s: Asg, names: Seq<String>, ks: Seq<int>) -> Asg
    decreases names.len(),
{
    if names.len() == 0 || ks.len() != names.len() { s }
    else { with_ints(s, names.drop_last(), ks.drop_last()).insert(int_key(names.last()), Val::Int(ks.last())) }
}

pub proof fn lemma_with_ints(s: Asg, names: Seq<String>, ks: Seq<int>)
    requires distinct_names(names), ks.len() == names.len(),
    ensures
        forall|i: int| 0 <= i < names.len() ==> with_ints(s, names, ks)[#[trigger] int_key(names[i])] == Val::Int(ks[i]),
        forall|k: VKey| !bound_by(ivars(names), k) ==> #[trigger] with_ints(s, names, ks)[k] == s[k],
        variant(with_ints(s, names, ks), s, ivars(names)),
    decreases names.len(),
{
    if names.len() > 0 {
        let n1 = names.drop_last();
        let k1 = ks.drop_last();
        assert(distinct_names(n1)) by { assert forall|i: int, j: int| 0 <= i < j < n1.len() implies #[trigger] n1[i]@ != #[trigger] n1[j]@ by { assert(names[i]@ != names[j]@); } }
        lemma_with_ints(s, n1, k1);
        let last = names.len() - 1;
        let r = with_ints(s, names, ks);
        assert forall|i: int| 0 <= i < names.len() implies r[#[trigger] int_key(names[i])] == Val::Int(ks[i]) by {
            if i < last { assert(names[i]@ != names[last]@); assert(int_key(n1[i]) == int_key(names[i])); assert(k1[i] == ks[i]); }
        }
        assert forall|k: VKey| !bound_by(ivars(names), k) implies #[trigger] r[k] == s[k] by {
            lemma_ivars_bound(names, k);
            lemma_ivars_bound(n1, k);
            assert(k != int_key(names[last]));
            if bound_by(ivars(n1), k) { let i = choose|i: int| 0 <= i < n1.len() && k == #[trigger] int_key(n1[i]); assert(int_key(n1[i]) == int_key(names[i])); }
        }
        assert forall|k: VKey| bound_by(ivars(names), k) implies in_sort(#[trigger] r[k], k.1) by {
            lemma_ivars_bound(names, k);
            let i = choose|i: int| 0 <= i < names.len() && k == #[trigger] int_key(names[i]);
            assert(r[int_key(names[i])] == Val::Int(ks[i]));
        }
    } else {
        assert forall|k: VKey| !bound_by(ivars(names), k) by {}
    }
}

// ---- the pieces of a head -----------------------------------------------------------------------------------------------------
pub open spec fn nrank(terms: Seq<asp::Term>, i: int) -> int { nonreg_positions(terms, i).len() as int }

pub open spec fn nvar_term(n: String) -> GeneralTerm { GeneralTerm::IntegerTerm(IntegerTerm::Variable(n)) }

/// the i-th argument of the translated head atom
pub open spec fn head_arg(terms: Seq<asp::Term>, iv: Seq<String>, names: Seq<String>, i: int) -> GeneralTerm {
    if spec_reg1(terms[i]) { spec_p2f(terms[i], iv)->Some_0 } else { nvar_term(names[nrank(terms, i)]) }
}
pub open spec fn head_args_seq(terms: Seq<asp::Term>, iv: Seq<String>, names: Seq<String>) -> Seq<GeneralTerm> { Seq::new(terms.len(), |i: int| head_arg(terms, iv, names, i)) }

/// every argument is regular (of the first or of the second kind) and the kept parts translate
pub open spec fn head_regular(terms: Seq<asp::Term>, iv: Seq<String>) -> bool {
    forall|i: int| 0 <= i < terms.len() ==> (#[trigger] spec_reg1(terms[i]) && spec_p2f(terms[i], iv) is Some)
        || (spec_reg2(terms[i]) && spec_p2f(*terms[i]->BinaryOperation_lhs, iv) is Some && spec_p2f(*terms[i]->BinaryOperation_rhs, iv) is Some)
}

pub open spec fn lo_of(terms: Seq<asp::Term>, iv: Seq<String>, i: int) -> GeneralTerm { spec_p2f(*terms[i]->BinaryOperation_lhs, iv)->Some_0 }
pub open spec fn hi_of(terms: Seq<asp::Term>, iv: Seq<String>, i: int) -> GeneralTerm { spec_p2f(*terms[i]->BinaryOperation_rhs, iv)->Some_0 }

/// the k-th condition  lo <= N_k <= hi  belongs to the k-th argument that is an interval
pub open spec fn head_conds_ok(fs: Seq<Formula>, terms: Seq<asp::Term>, iv: Seq<String>, names: Seq<String>) -> bool {
    let pos = nonreg_positions(terms, terms.len() as int);
    fs.len() == pos.len() && forall|k: int| 0 <= k < fs.len() ==> #[trigger] cmp2(lo_of(terms, iv, pos[k]), Relation::LessEqual, nvar_term(names[k]), Relation::LessEqual, hi_of(terms, iv, pos[k]), fs[k])
}

pub open spec fn head_closed(terms: Seq<asp::Term>, iv: Seq<String>) -> bool { forall|i: int| 0 <= i < terms.len() ==> #[trigger] arith_closed(terms[i], iv) }

/// p(args)  /  p(args) v not p(args)
pub open spec fn is_disj(f: Formula) -> bool { f is BinaryFormula && f->BinaryFormula_connective == BinaryConnective::Disjunction }
pub open spec fn concl_shape(c: Formula, choice: bool, p: Seq<char>, args: Seq<GeneralTerm>) -> bool {
    if choice { is_disj(c) && is_atom(*c->BinaryFormula_lhs, p, args) && is_neg(*c->BinaryFormula_rhs) && is_atom(neg_arg(*c->BinaryFormula_rhs), p, args) }
    else { is_atom(c, p, args) }
}
/// what the head says of one tuple of values at world w
pub open spec fn head_lit(choice: bool, w: World, m: HT, p: Seq<char>, vs: Seq<Val>) -> bool {
    if choice { holds(w, m, p, vs) || !holds(World::There, m, p, vs) } else { holds(w, m, p, vs) }
}

pub proof fn lemma_concl(c: Formula, choice: bool, p: Seq<char>, args: Seq<GeneralTerm>, w: World, m: HT, s: Asg)
    requires concl_shape(c, choice, p, args),
    ensures ht_sat(c, w, m, s) == head_lit(choice, w, m, p, eval_terms(args, m.fc, s)), forall|k: VKey| fv(c, k) == in_terms(args, k),
{
    reveal_with_fuel(ht_sat, 3);
    reveal_with_fuel(fv, 3);
}

/// head_sat in terms of head_lit
pub open spec fn head_sat_lit(terms: Seq<asp::Term>, choice: bool, p: Seq<char>, w: World, m: HT, g: Asg) -> bool {
    forall|vs: Seq<Val>| #[trigger] tuple_vals(terms, g, vs) ==> head_lit(choice, w, m, p, vs)
}

/// the head formula: the conclusion, or  forall N (conditions -> conclusion)
pub open spec fn head_shape(hf: Formula, names: Seq<String>, conds: Formula, concl: Formula) -> bool {
    if names.len() == 0 { hf == concl }
    else { is_forall(hf, ivars(names)) && is_imp(*hf->QuantifiedFormula_formula) && imp_lhs(*hf->QuantifiedFormula_formula) == conds && imp_rhs(*hf->QuantifiedFormula_formula) == concl }
}

/// values of the arguments under a variant s2 of s on the N's, in terms of s and the integers the N's hold
pub proof fn lemma_head_args_eval(terms: Seq<asp::Term>, iv: Seq<String>, names: Seq<String>, fc: spec_fn(Seq<char>, Sort) -> Val, s: Asg, s2: Asg, i: int)
    requires
        0 <= i < terms.len(), head_regular(terms, iv), head_closed(terms, iv), head_names_ok(names, terms, terms.len() as int),
        variant(s2, s, ivars(names)),
    ensures
        spec_reg1(terms[i]) ==> eval_gen(head_arg(terms, iv, names, i), fc, s2) == eval_gen(spec_p2f(terms[i], iv)->Some_0, fc, s),
        !spec_reg1(terms[i]) ==> 0 <= nrank(terms, i) < names.len() && nonreg_positions(terms, terms.len() as int)[nrank(terms, i)] == i
            && eval_gen(head_arg(terms, iv, names, i), fc, s2) == Val::Int(as_int(s2[int_key(names[nrank(terms, i)])]))
            && eval_gen(lo_of(terms, iv, i), fc, s2) == eval_gen(lo_of(terms, iv, i), fc, s) && eval_gen(hi_of(terms, iv, i), fc, s2) == eval_gen(hi_of(terms, iv, i), fc, s),
{
    lemma_nonreg_positions(terms, terms.len() as int);
    lemma_rank(terms, i);
    if spec_reg1(terms[i]) {
        let t = terms[i];
        assert forall|k: VKey| asp_in_term(t, k) implies terms_in(terms, k) by {}
        lemma_kept_eval(terms, iv, names, t, spec_p2f(t, iv)->Some_0, fc, s, s2);
    } else {
        let t = terms[i];
        let t2 = *t->BinaryOperation_lhs;
        let t3 = *t->BinaryOperation_rhs;
        assert(arith_closed(t, iv) && is_op(t));
        assert forall|k: VKey| asp_in_term(t2, k) || asp_in_term(t3, k) implies asp_in_term(t, k) by {}
        assert forall|k: VKey| asp_in_term(t2, k) implies terms_in(terms, k) by { assert(asp_in_term(t, k)); }
        assert forall|k: VKey| asp_in_term(t3, k) implies terms_in(terms, k) by { assert(asp_in_term(t, k)); }
        assert(arith_closed(t2, iv)) by { assert forall|k: VKey| #[trigger] asp_in_term(t2, k) implies is_int_var(iv, k.0) by { assert(asp_in_term(t, k)); } }
        assert(arith_closed(t3, iv)) by { assert forall|k: VKey| #[trigger] asp_in_term(t3, k) implies is_int_var(iv, k.0) by { assert(asp_in_term(t, k)); } }
        lemma_kept_eval(terms, iv, names, t2, lo_of(terms, iv, i), fc, s, s2);
        lemma_kept_eval(terms, iv, names, t3, hi_of(terms, iv, i), fc, s, s2);
        reveal_with_fuel(eval_int, 2);
    }
}
/// a kept term does not mention an N: its value is the same under every variant on the N's
pub proof fn lemma_kept_eval(terms: Seq<asp::Term>, iv: Seq<String>, names: Seq<String>, t: asp::Term, gt: GeneralTerm, fc: spec_fn(Seq<char>, Sort) -> Val, s: Asg, s2: Asg)
    requires
        spec_p2f(t, iv) == Some(gt), arith_closed(t, iv), forall|k: VKey| asp_in_term(t, k) ==> terms_in(terms, k),
        head_names_ok(names, terms, terms.len() as int), variant(s2, s, ivars(names)),
    ensures eval_gen(gt, fc, s2) == eval_gen(gt, fc, s),
{
    assert forall|k: VKey| in_gen(gt, k) implies s2[k] == s[k] by {
        lemma_p2f_fv(t, iv, gt, k);
        lemma_ivars_bound(names, k);
        if bound_by(ivars(names), k) {
            let q = choose|q: int| 0 <= q < names.len() && k == #[trigger] int_key(names[q]);
            assert(terms_in(terms, (k.0, Sort::General)));
            assert((k.0, Sort::General).0 != names[q]@);
        }
    }
    lemma_coin_gen(gt, fc, s2, s);
}

pub proof fn lemma_rank(terms: Seq<asp::Term>, i: int)
    requires 0 <= i < terms.len(),
    ensures
        nrank(terms, i) <= nrank(terms, terms.len() as int),
        !spec_reg1(terms[i]) ==> nrank(terms, i) < nrank(terms, terms.len() as int) && nonreg_positions(terms, terms.len() as int)[nrank(terms, i)] == i,
        forall|j: int| 0 <= j <= i ==> nrank(terms, j) <= nrank(terms, i),
{
    lemma_positions_prefix(terms, i, terms.len() as int);
    if !spec_reg1(terms[i]) {
        lemma_positions_prefix(terms, i + 1, terms.len() as int);
        assert(nonreg_positions(terms, i + 1) == nonreg_positions(terms, i).push(i));
        assert(nonreg_positions(terms, i + 1)[nrank(terms, i)] == i);
        assert(nonreg_positions(terms, terms.len() as int)[nrank(terms, i)] == nonreg_positions(terms, i + 1)[nrank(terms, i)]);
    }
    assert forall|j: int| 0 <= j <= i implies nrank(terms, j) <= nrank(terms, i) by { lemma_positions_prefix(terms, j, i); }
}

/// the positions below a are a prefix of the positions below b
pub proof fn lemma_positions_prefix(terms: Seq<asp::Term>, a: int, b: int)
    requires 0 <= a <= b <= terms.len(),
    ensures nonreg_positions(terms, a).len() <= nonreg_positions(terms, b).len(),
        forall|k: int| 0 <= k < nonreg_positions(terms, a).len() ==> nonreg_positions(terms, b)[k] == #[trigger] nonreg_positions(terms, a)[k],
    decreases b - a,
{
    if a < b { lemma_positions_prefix(terms, a, b - 1); }
}

// ---- meaning of a head --------------------------------------------------------------------------------------------------------
pub open spec fn ks_of(names: Seq<String>, s2: Asg) -> Seq<int> { Seq::new(names.len(), |k: int| as_int(s2[int_key(names[k])])) }
pub open spec fn vs_of(terms: Seq<asp::Term>, iv: Seq<String>, names: Seq<String>, fc: spec_fn(Seq<char>, Sort) -> Val, s2: Asg) -> Seq<Val> {
    eval_terms(head_args_seq(terms, iv, names), fc, s2)
}
/// the k-th integer lies within the k-th interval (bounds evaluated under s)
pub open spec fn bound_at(terms: Seq<asp::Term>, iv: Seq<String>, fc: spec_fn(Seq<char>, Sort) -> Val, s: Asg, ks: Seq<int>, k: int) -> bool {
    let i = nonreg_positions(terms, terms.len() as int)[k];
    rel_holds(Relation::LessEqual, eval_gen(lo_of(terms, iv, i), fc, s), Val::Int(ks[k])) && rel_holds(Relation::LessEqual, Val::Int(ks[k]), eval_gen(hi_of(terms, iv, i), fc, s))
}
pub open spec fn in_bounds(terms: Seq<asp::Term>, iv: Seq<String>, fc: spec_fn(Seq<char>, Sort) -> Val, s: Asg, ks: Seq<int>) -> bool {
    forall|k: int| 0 <= k < nonreg_positions(terms, terms.len() as int).len() ==> #[trigger] bound_at(terms, iv, fc, s, ks, k)
}

pub open spec fn head_ctx(terms: Seq<asp::Term>, iv: Seq<String>, names: Seq<String>) -> bool {
    head_regular(terms, iv) && head_closed(terms, iv) && head_names_ok(names, terms, terms.len() as int)
}

/// H1: the conditions say exactly that the N's lie within their intervals
pub proof fn lemma_head_conds(fs: Seq<Formula>, terms: Seq<asp::Term>, iv: Seq<String>, names: Seq<String>, w: World, m: HT, s: Asg, s2: Asg)
    requires head_ctx(terms, iv, names), head_conds_ok(fs, terms, iv, names), variant(s2, s, ivars(names)),
    ensures ht_sat(spec_conjoin(fs), w, m, s2) == in_bounds(terms, iv, m.fc, s, ks_of(names, s2)),
{
    let pos = nonreg_positions(terms, terms.len() as int);
    let ks = ks_of(names, s2);
    lemma_nonreg_positions(terms, terms.len() as int);
    lemma_conjoin_ht(fs, w, m, s2);
    assert forall|k: int| 0 <= k < fs.len() implies #[trigger] ht_sat(fs[k], w, m, s2) == bound_at(terms, iv, m.fc, s, ks, k) by {
        let i = pos[k];
        assert(cmp2(lo_of(terms, iv, i), Relation::LessEqual, nvar_term(names[k]), Relation::LessEqual, hi_of(terms, iv, i), fs[k]));
        lemma_cmp2(lo_of(terms, iv, i), Relation::LessEqual, nvar_term(names[k]), Relation::LessEqual, hi_of(terms, iv, i), fs[k], w, m, s2);
        lemma_head_args_eval(terms, iv, names, m.fc, s, s2, i);
        lemma_rank(terms, i);
        assert(nrank(terms, i) == k) by {
            // positions are strictly increasing, so the index of position i is unique
            let r = nrank(terms, i);
            assert(pos[r] == i);
            if r < k { assert(pos[r] < pos[k]); }
            if k < r { assert(pos[k] < pos[r]); }
        }
        reveal_with_fuel(eval_int, 2);
    }
    if ht_sat(spec_conjoin(fs), w, m, s2) { assert forall|k: int| 0 <= k < pos.len() implies #[trigger] bound_at(terms, iv, m.fc, s, ks, k) by { assert(ht_sat(fs[k], w, m, s2)); } }
    if in_bounds(terms, iv, m.fc, s, ks) { assert forall|k: int| 0 <= k < fs.len() implies #[trigger] ht_sat(fs[k], w, m, s2) by { assert(bound_at(terms, iv, m.fc, s, ks, k)); } }
}

/// the values of one argument, in terms of the translation
pub proof fn lemma_head_arg_vals(terms: Seq<asp::Term>, iv: Seq<String>, names: Seq<String>, fc: spec_fn(Seq<char>, Sort) -> Val, g: Asg, s: Asg, i: int, v: Val)
    requires 0 <= i < terms.len(), head_ctx(terms, iv, names), corr(g, s, iv, |k: VKey| terms_in(terms, k)),
    ensures
        spec_reg1(terms[i]) ==> in_vals(terms[i], g, v) == (v == eval_gen(spec_p2f(terms[i], iv)->Some_0, fc, s)),
        !spec_reg1(terms[i]) ==> in_vals(terms[i], g, v) == (v is Int
            && rel_holds(Relation::LessEqual, eval_gen(lo_of(terms, iv, i), fc, s), v) && rel_holds(Relation::LessEqual, v, eval_gen(hi_of(terms, iv, i), fc, s))),
{
    let t = terms[i];
    assert(arith_closed(t, iv));
    if spec_reg1(t) {
        assert(corr(g, s, iv, |k: VKey| asp_in_term(t, k))) by {
            assert forall|k: VKey| asp_in_term(t, k) implies #[trigger] g[k] == nval(s, iv, k.0) by { assert(terms_in(terms, k)); }
        }
        lemma_p2f_value(t, iv, spec_p2f(t, iv)->Some_0, fc, g, s, v);
    } else {
        let t2 = *t->BinaryOperation_lhs;
        let t3 = *t->BinaryOperation_rhs;
        let lo = lo_of(terms, iv, i);
        let hi = hi_of(terms, iv, i);
        assert(is_op(t));
        assert forall|k: VKey| #[trigger] asp_in_term(t2, k) implies is_int_var(iv, k.0) && terms_in(terms, k) by { assert(asp_in_term(t, k)); }
        assert forall|k: VKey| #[trigger] asp_in_term(t3, k) implies is_int_var(iv, k.0) && terms_in(terms, k) by { assert(asp_in_term(t, k)); }
        assert(arith_closed(t2, iv) && arith_closed(t3, iv));
        assert(corr(g, s, iv, |k: VKey| asp_in_term(t2, k))) by {
            assert forall|k: VKey| asp_in_term(t2, k) implies #[trigger] g[k] == nval(s, iv, k.0) by { assert(terms_in(terms, k)); }
        }
        assert(corr(g, s, iv, |k: VKey| asp_in_term(t3, k))) by {
            assert forall|k: VKey| asp_in_term(t3, k) implies #[trigger] g[k] == nval(s, iv, k.0) by { assert(terms_in(terms, k)); }
        }
        let v2 = eval_gen(lo, fc, s);
        let v3 = eval_gen(hi, fc, s);
        assert forall|x: Val| in_vals(t2, g, x) == (x == v2) by { lemma_p2f_value(t2, iv, lo, fc, g, s, x); }
        assert forall|x: Val| in_vals(t3, g, x) == (x == v3) by { lemma_p2f_value(t3, iv, hi, fc, g, s, x); }
        lemma_reg1_int(t2, iv, lo, fc, g, s);
        lemma_reg1_int(t3, iv, hi, fc, g, s);
        let a = v2->Int_0;
        let b = v3->Int_0;
        lemma_between(a, v, b);
        if in_vals(t, g, v) {
            let (x, y, z) = choose|x: int, y: int, z: int| #[trigger] tr3(x, y, z) && in_vals(t2, g, Val::Int(x)) && in_vals(t3, g, Val::Int(y)) && x <= z <= y && v == Val::Int(z);
            assert(Val::Int(x) == v2 && Val::Int(y) == v3);
        }
        assert(v2 == Val::Int(a) && v3 == Val::Int(b));
        if v is Int && a <= v->Int_0 <= b {
            let z = v->Int_0;
            assert(tr3(a, b, z) && in_vals(t2, g, Val::Int(a)) && in_vals(t3, g, Val::Int(b)) && a <= z <= b && v == Val::Int(z));
            assert(t->BinaryOperation_op is Interval);
            assert(in_vals(t, g, v));
        }
        assert(in_vals(t, g, v) == (v is Int && a <= v->Int_0 <= b));
    }
}

/// H2: the tuple of argument values under a variant on the N's is a tuple of values of the head arguments iff the N's are within bounds
pub proof fn lemma_head_tuple(terms: Seq<asp::Term>, iv: Seq<String>, names: Seq<String>, fc: spec_fn(Seq<char>, Sort) -> Val, g: Asg, s: Asg, s2: Asg)
    requires head_ctx(terms, iv, names), corr(g, s, iv, |k: VKey| terms_in(terms, k)), variant(s2, s, ivars(names)),
    ensures tuple_vals(terms, g, vs_of(terms, iv, names, fc, s2)) == in_bounds(terms, iv, fc, s, ks_of(names, s2)),
{
    let pos = nonreg_positions(terms, terms.len() as int);
    let vs = vs_of(terms, iv, names, fc, s2);
    let ks = ks_of(names, s2);
    lemma_nonreg_positions(terms, terms.len() as int);
    assert forall|i: int| 0 <= i < terms.len() implies #[trigger] tv_at(terms, g, vs, i) == (spec_reg1(terms[i]) || bound_at(terms, iv, fc, s, ks, nrank(terms, i))) by {
        lemma_head_args_eval(terms, iv, names, fc, s, s2, i);
        lemma_head_arg_vals(terms, iv, names, fc, g, s, i, vs[i]);
        lemma_rank(terms, i);
    }
    if tuple_vals(terms, g, vs) {
        assert forall|k: int| 0 <= k < pos.len() implies #[trigger] bound_at(terms, iv, fc, s, ks, k) by {
            let i = pos[k];
            assert(tv_at(terms, g, vs, i));
            lemma_rank(terms, i);
            let r = nrank(terms, i);
            assert(pos[r] == i);
            if r < k { assert(pos[r] < pos[k]); }
            if k < r { assert(pos[k] < pos[r]); }
        }
    }
    if in_bounds(terms, iv, fc, s, ks) {
        assert forall|i: int| 0 <= i < terms.len() implies #[trigger] tv_at(terms, g, vs, i) by {
            lemma_rank(terms, i);
            if !spec_reg1(terms[i]) { assert(bound_at(terms, iv, fc, s, ks, nrank(terms, i))); }
        }
    }
}

/// H3: every tuple of values of the head arguments arises from some choice of integers for the N's
pub proof fn lemma_head_onto(terms: Seq<asp::Term>, iv: Seq<String>, names: Seq<String>, fc: spec_fn(Seq<char>, Sort) -> Val, g: Asg, s: Asg, vs: Seq<Val>)
    requires head_ctx(terms, iv, names), corr(g, s, iv, |k: VKey| terms_in(terms, k)), tuple_vals(terms, g, vs),
    ensures ({
        let pos = nonreg_positions(terms, terms.len() as int);
        let ks = Seq::new(names.len(), |k: int| as_int(vs[pos[k]]));
        vs_of(terms, iv, names, fc, with_ints(s, names, ks)) =~= vs
    }),
{
    let pos = nonreg_positions(terms, terms.len() as int);
    let ks = Seq::new(names.len(), |k: int| as_int(vs[pos[k]]));
    lemma_nonreg_positions(terms, terms.len() as int);
    lemma_head_names_distinct_all(names, terms);
    assert(distinct_names(names));
    lemma_with_ints(s, names, ks);
    let s2 = with_ints(s, names, ks);
    let vs2 = vs_of(terms, iv, names, fc, s2);
    assert forall|i: int| 0 <= i < terms.len() implies vs2[i] == vs[i] by {
        lemma_head_args_eval(terms, iv, names, fc, s, s2, i);
        assert(tv_at(terms, g, vs, i));
        lemma_head_arg_vals(terms, iv, names, fc, g, s, i, vs[i]);
        lemma_rank(terms, i);
        if !spec_reg1(terms[i]) {
            let r = nrank(terms, i);
            assert(s2[int_key(names[r])] == Val::Int(ks[r]));
            assert(pos[r] == i);
        }
    }
}

/// C08, heads: under corresponding assignments the translated head has the truth value of the head (in <H,T> with H included in T)
pub proof fn lemma_nat_head(hf: Formula, terms: Seq<asp::Term>, choice: bool, p: Seq<char>, iv: Seq<String>, names: Seq<String>,
                            fs: Seq<Formula>, concl: Formula, w: World, m: HT, g: Asg, s: Asg)
    requires
        head_ctx(terms, iv, names), head_conds_ok(fs, terms, iv, names),
        concl_shape(concl, choice, p, head_args_seq(terms, iv, names)), head_shape(hf, names, spec_conjoin(fs), concl),
        corr(g, s, iv, |k: VKey| terms_in(terms, k)), ht_wf(m),
    ensures ht_sat(hf, w, m, s) == head_sat_lit(terms, choice, p, w, m, g),
{
    let vars = ivars(names);
    let args = head_args_seq(terms, iv, names);
    let conds = spec_conjoin(fs);
    lemma_head_names_distinct_all(names, terms);
    // what the matrix says under a variant on the N's
    assert forall|s2: Asg| variant(s2, s, vars) implies
        #[trigger] matrix_val(names, conds, concl, w, m, s2) == (in_bounds(terms, iv, m.fc, s, ks_of(names, s2)) ==> head_lit(choice, w, m, p, vs_of(terms, iv, names, m.fc, s2))) by {
        lemma_head_conds(fs, terms, iv, names, w, m, s, s2);
        lemma_head_conds(fs, terms, iv, names, World::There, m, s, s2);
        lemma_concl(concl, choice, p, args, w, m, s2);
        lemma_concl(concl, choice, p, args, World::There, m, s2);
        let vs = vs_of(terms, iv, names, m.fc, s2);
        if holds(w, m, p, vs) { assert(holds(World::There, m, p, vs)); }
    }
    // ht_sat(hf) is the matrix under every variant
    assert(ht_sat(hf, w, m, s) == (forall|s2: Asg| variant(s2, s, vars) ==> #[trigger] matrix_val(names, conds, concl, w, m, s2))) by {
        if names.len() == 0 {
            assert forall|k: VKey| !bound_by(vars, k) by {}
            assert(variant(s, s, vars));
            assert forall|s2: Asg| variant(s2, s, vars) implies #[trigger] matrix_val(names, conds, concl, w, m, s2) == ht_sat(concl, w, m, s) by {
                lemma_ht_pred_ext(concl, w, m);
                let q = |sx: Asg| ht_sat(concl, w, m, sx);
                assert forall|k: VKey| s2[k] == s[k] by { assert(!bound_by(vars, k)); }
                assert(q(s2) == q(s));
            }
            assert(matrix_val(names, conds, concl, w, m, s) == ht_sat(concl, w, m, s));
        } else {
            let imp = *hf->QuantifiedFormula_formula;
            lemma_ht_block(Quantifier::Forall, vars, imp, w, m, s);
            let pb = |s2: Asg| ht_sat(imp, w, m, s2);
            assert forall|s2: Asg| #[trigger] pb(s2) == matrix_val(names, conds, concl, w, m, s2) by {}
            if quant_set(Quantifier::Forall, vars, pb, s) { assert forall|s2: Asg| variant(s2, s, vars) implies #[trigger] matrix_val(names, conds, concl, w, m, s2) by { assert(pb(s2)); } }
            if forall|s2: Asg| variant(s2, s, vars) ==> #[trigger] matrix_val(names, conds, concl, w, m, s2) { assert forall|s2: Asg| variant(s2, s, vars) implies #[trigger] pb(s2) by { assert(matrix_val(names, conds, concl, w, m, s2)); } }
        }
    }
    if ht_sat(hf, w, m, s) {
        assert forall|vs: Seq<Val>| #[trigger] tuple_vals(terms, g, vs) implies head_lit(choice, w, m, p, vs) by {
            let pos = nonreg_positions(terms, terms.len() as int);
            let ks = Seq::new(names.len(), |k: int| as_int(vs[pos[k]]));
            lemma_head_onto(terms, iv, names, m.fc, g, s, vs);
            lemma_with_ints(s, names, ks);
            let s2 = with_ints(s, names, ks);
            lemma_head_tuple(terms, iv, names, m.fc, g, s, s2);
            assert(matrix_val(names, conds, concl, w, m, s2));
        }
    }
    if head_sat_lit(terms, choice, p, w, m, g) {
        assert forall|s2: Asg| variant(s2, s, vars) implies #[trigger] matrix_val(names, conds, concl, w, m, s2) by {
            lemma_head_tuple(terms, iv, names, m.fc, g, s, s2);
            if in_bounds(terms, iv, m.fc, s, ks_of(names, s2)) { assert(tuple_vals(terms, g, vs_of(terms, iv, names, m.fc, s2))); }
        }
    }
}

/// the truth value of the matrix of the head under s2: the conclusion itself, or conditions -> conclusion (an HT implication at w)
pub open spec fn matrix_val(names: Seq<String>, conds: Formula, concl: Formula, w: World, m: HT, s2: Asg) -> bool {
    if names.len() == 0 { ht_sat(concl, w, m, s2) }
    else { (ht_sat(conds, w, m, s2) ==> ht_sat(concl, w, m, s2)) && (ht_sat(conds, World::There, m, s2) ==> ht_sat(concl, World::There, m, s2)) }
}

// ---- regular terms translate -------------------------------------------------------------------------------------------------
pub proof fn lemma_reg1_p2f_int_some(t: asp::Term)
    requires spec_reg1(t), !spec_sis(t),
    ensures spec_p2f_int(t) is Some,
    decreases t,
{
    match t {
        asp::Term::UnaryOperation { op, arg } => { lemma_reg1_p2f_int_some(*arg); }
        asp::Term::BinaryOperation { op, lhs, rhs } => { lemma_reg1_p2f_int_some(*lhs); lemma_reg1_p2f_int_some(*rhs); }
        _ => {}
    }
}
pub proof fn lemma_reg1_p2f_some(t: asp::Term, iv: Seq<String>)
    requires spec_reg1(t),
    ensures spec_p2f(t, iv) is Some,
{
    match t {
        asp::Term::UnaryOperation { op, arg } => { lemma_reg1_p2f_int_some(*arg); }
        asp::Term::BinaryOperation { op, lhs, rhs } => { lemma_reg1_p2f_int_some(*lhs); lemma_reg1_p2f_int_some(*rhs); }
        _ => {}
    }
}
/// all arguments regular of the first or second kind  ==>  head_regular
pub proof fn lemma_head_regular(terms: Seq<asp::Term>, iv: Seq<String>)
    requires forall|i: int| 0 <= i < terms.len() ==> #[trigger] spec_reg1(terms[i]) || spec_reg2(terms[i]),
    ensures head_regular(terms, iv),
{
    assert forall|i: int| 0 <= i < terms.len() implies (#[trigger] spec_reg1(terms[i]) && spec_p2f(terms[i], iv) is Some)
        || (spec_reg2(terms[i]) && spec_p2f(*terms[i]->BinaryOperation_lhs, iv) is Some && spec_p2f(*terms[i]->BinaryOperation_rhs, iv) is Some) by {
        if spec_reg1(terms[i]) { lemma_reg1_p2f_some(terms[i], iv); }
        else { lemma_reg1_p2f_some(*terms[i]->BinaryOperation_lhs, iv); lemma_reg1_p2f_some(*terms[i]->BinaryOperation_rhs, iv); }
    }
}

/// the shape of a translated head (basic or choice)
pub open spec fn nat_head_wit(hf: Formula, terms: Seq<asp::Term>, choice: bool, p: Seq<char>, iv: Seq<String>, names: Seq<String>, fs: Seq<Formula>, concl: Formula) -> bool {
    head_regular(terms, iv) && head_names_ok(names, terms, terms.len() as int) && head_conds_ok(fs, terms, iv, names)
        && concl_shape(concl, choice, p, head_args_seq(terms, iv, names)) && head_shape(hf, names, spec_conjoin(fs), concl)
}
pub open spec fn nat_head_shape(hf: Formula, terms: Seq<asp::Term>, choice: bool, p: Seq<char>, iv: Seq<String>) -> bool {
    exists|names: Seq<String>, fs: Seq<Formula>, concl: Formula| #[trigger] nat_head_wit(hf, terms, choice, p, iv, names, fs, concl)
}
