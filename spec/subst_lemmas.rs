// subst_lemmas.rs — C17: substitution of a term for a variable.
// Terms and atomic formulas: spec mirrors + lemmas.  Formulas: the semantic contract itself
// (subst_ok) is the postcondition of the real Formula::substitute; the lemmas below are the
// steps of its proof (blocks as sets, alpha-renaming of one binder, commuting with a block).

pub trait VarSeq { spec fn vseq(&self) -> Seq<Variable>; }
impl VarSeq for IndexSet<Variable> { open spec fn vseq(&self) -> Seq<Variable> { self@ } }
impl VarSeq for Vec<Variable> { open spec fn vseq(&self) -> Seq<Variable> { self@ } }

/// an integer variable takes integer terms, a symbol variable symbolic terms (otherwise the code panics)
pub open spec fn sort_ok(var: Variable, term: GeneralTerm) -> bool {
    &&& var.sort == Sort::Integer ==> term is IntegerTerm
    &&& var.sort == Sort::Symbol ==> term is SymbolicTerm
}

pub open spec fn var_term(v: Variable) -> GeneralTerm {
    match v.sort {
        Sort::General => GeneralTerm::Variable(v.name),
        Sort::Integer => GeneralTerm::IntegerTerm(IntegerTerm::Variable(v.name)),
        Sort::Symbol => GeneralTerm::SymbolicTerm(SymbolicTerm::Variable(v.name)),
    }
}

// ---- mirrors (terms, atoms) ------------------------------------------------------------------
pub open spec fn ssub_int(t: IntegerTerm, var: Variable, term: IntegerTerm) -> IntegerTerm
    decreases t,
{
    match t {
        IntegerTerm::Variable(s) => if var.name == s && var.sort == Sort::Integer { term } else { t },
        IntegerTerm::Numeral(_) | IntegerTerm::FunctionConstant(_) => t,
        IntegerTerm::UnaryOperation { op, arg } => IntegerTerm::UnaryOperation { op, arg: Box::new(ssub_int(*arg, var, term)) },
        IntegerTerm::BinaryOperation { op, lhs, rhs } => IntegerTerm::BinaryOperation {
            op, lhs: Box::new(ssub_int(*lhs, var, term)), rhs: Box::new(ssub_int(*rhs, var, term)) },
    }
}

pub open spec fn ssub_sym(t: SymbolicTerm, var: Variable, term: SymbolicTerm) -> SymbolicTerm {
    match t {
        SymbolicTerm::Variable(s) => if var.name == s && var.sort == Sort::Symbol { term } else { t },
        _ => t,
    }
}

pub open spec fn ssub_gen(t: GeneralTerm, var: Variable, term: GeneralTerm) -> GeneralTerm {
    match t {
        GeneralTerm::Variable(s) => if var.name == s && var.sort == Sort::General { term } else { t },
        GeneralTerm::IntegerTerm(it) => if var.sort == Sort::Integer {
            match term { GeneralTerm::IntegerTerm(tt) => GeneralTerm::IntegerTerm(ssub_int(it, var, tt)), _ => t }
        } else { t },
        GeneralTerm::SymbolicTerm(st) => if var.sort == Sort::Symbol {
            match term { GeneralTerm::SymbolicTerm(tt) => GeneralTerm::SymbolicTerm(ssub_sym(st, var, tt)), _ => t }
        } else { t },
        _ => t,
    }
}

pub open spec fn ssub_terms(ts: Seq<GeneralTerm>, var: Variable, term: GeneralTerm) -> Seq<GeneralTerm> {
    Seq::new(ts.len(), |i: int| ssub_gen(ts[i], var, term))
}

pub open spec fn ssub_guards(gs: Seq<Guard>, var: Variable, term: GeneralTerm) -> Seq<Guard> {
    Seq::new(gs.len(), |i: int| Guard { relation: gs[i].relation, term: ssub_gen(gs[i].term, var, term) })
}

pub open spec fn ssub_atomic(a: AtomicFormula, var: Variable, term: GeneralTerm) -> AtomicFormula {
    match a {
        AtomicFormula::Atom(at) => AtomicFormula::Atom(Atom { predicate_symbol: at.predicate_symbol, terms: vec_of(ssub_terms(at.terms@, var, term)) }),
        AtomicFormula::Comparison(c) => AtomicFormula::Comparison(Comparison {
            term: ssub_gen(c.term, var, term), guards: vec_of(ssub_guards(c.guards@, var, term)) }),
        f => f,
    }
}

// ---- terms: value and occurrences ------------------------------------------------------------
pub proof fn lemma_ssub_int(t: IntegerTerm, var: Variable, term: IntegerTerm, fc: spec_fn(Seq<char>, Sort) -> Val, s: Asg)
    requires var.sort == Sort::Integer,
    ensures eval_int(ssub_int(t, var, term), fc, s) == eval_int(t, fc, s.insert(vkey(var), Val::Int(eval_int(term, fc, s)))),
    decreases t,
{
    match t {
        IntegerTerm::UnaryOperation { op, arg } => { lemma_ssub_int(*arg, var, term, fc, s); }
        IntegerTerm::BinaryOperation { op, lhs, rhs } => { lemma_ssub_int(*lhs, var, term, fc, s); lemma_ssub_int(*rhs, var, term, fc, s); }
        _ => {}
    }
}

pub proof fn lemma_ssub_int_occ(t: IntegerTerm, var: Variable, term: IntegerTerm, k: VKey)
    requires var.sort == Sort::Integer,
    ensures in_int(ssub_int(t, var, term), k) == ((in_int(t, k) && k != vkey(var)) || (in_int(t, vkey(var)) && in_int(term, k))),
    decreases t,
{
    match t {
        IntegerTerm::UnaryOperation { op, arg } => { lemma_ssub_int_occ(*arg, var, term, k); }
        IntegerTerm::BinaryOperation { op, lhs, rhs } => { lemma_ssub_int_occ(*lhs, var, term, k); lemma_ssub_int_occ(*rhs, var, term, k); }
        _ => {}
    }
}

pub proof fn lemma_int_other_key(t: IntegerTerm, fc: spec_fn(Seq<char>, Sort) -> Val, s: Asg, k: VKey, v: Val)
    requires !in_int(t, k),
    ensures eval_int(t, fc, s.insert(k, v)) == eval_int(t, fc, s),
{
    assert forall|k2: VKey| in_int(t, k2) implies s.insert(k, v)[k2] == s[k2] by {}
    lemma_coin_int(t, fc, s.insert(k, v), s);
}

pub proof fn lemma_gen_other_key(t: GeneralTerm, fc: spec_fn(Seq<char>, Sort) -> Val, s: Asg, k: VKey, v: Val)
    requires !in_gen(t, k),
    ensures eval_gen(t, fc, s.insert(k, v)) == eval_gen(t, fc, s),
{
    assert forall|k2: VKey| in_gen(t, k2) implies s.insert(k, v)[k2] == s[k2] by {}
    lemma_coin_gen(t, fc, s.insert(k, v), s);
}

/// integer terms only read Integer keys, symbolic terms only Symbol keys
pub proof fn lemma_int_key_sort(t: IntegerTerm, k: VKey)
    ensures in_int(t, k) ==> k.1 == Sort::Integer,
    decreases t,
{
    match t {
        IntegerTerm::UnaryOperation { op, arg } => { lemma_int_key_sort(*arg, k); }
        IntegerTerm::BinaryOperation { op, lhs, rhs } => { lemma_int_key_sort(*lhs, k); lemma_int_key_sort(*rhs, k); }
        _ => {}
    }
}

pub proof fn lemma_ssub_gen(t: GeneralTerm, var: Variable, term: GeneralTerm, fc: spec_fn(Seq<char>, Sort) -> Val, s: Asg)
    requires sort_ok(var, term),
    ensures eval_gen(ssub_gen(t, var, term), fc, s) == eval_gen(t, fc, s.insert(vkey(var), eval_gen(term, fc, s))),
{
    let v = eval_gen(term, fc, s);
    match t {
        GeneralTerm::IntegerTerm(it) => {
            if var.sort == Sort::Integer {
                let tt = term->IntegerTerm_0;
                lemma_ssub_int(it, var, tt, fc, s);
            } else {
                lemma_int_key_sort(it, vkey(var));
                lemma_int_other_key(it, fc, s, vkey(var), v);
            }
        }
        GeneralTerm::SymbolicTerm(st) => {}
        _ => {}
    }
}

pub proof fn lemma_ssub_gen_occ(t: GeneralTerm, var: Variable, term: GeneralTerm, k: VKey)
    requires sort_ok(var, term),
    ensures in_gen(ssub_gen(t, var, term), k) == ((in_gen(t, k) && k != vkey(var)) || (in_gen(t, vkey(var)) && in_gen(term, k))),
{
    match t {
        GeneralTerm::IntegerTerm(it) => {
            lemma_int_key_sort(it, vkey(var));
            lemma_int_key_sort(it, k);
            if var.sort == Sort::Integer {
                let tt = term->IntegerTerm_0;
                lemma_ssub_int_occ(it, var, tt, k);
            }
        }
        _ => {}
    }
}

// ---- atomic formulas ---------------------------------------------------------------------------
pub proof fn lemma_ssub_guards(prev_t: GeneralTerm, gs: Seq<Guard>, i: int, var: Variable, term: GeneralTerm, fc: spec_fn(Seq<char>, Sort) -> Val, s: Asg)
    requires sort_ok(var, term), 0 <= i <= gs.len(),
    ensures
        sat_guards(eval_gen(ssub_gen(prev_t, var, term), fc, s), ssub_guards(gs, var, term), i, fc, s)
        == sat_guards(eval_gen(prev_t, fc, s.insert(vkey(var), eval_gen(term, fc, s))), gs, i, fc, s.insert(vkey(var), eval_gen(term, fc, s))),
    decreases gs.len() - i,
{
    lemma_ssub_gen(prev_t, var, term, fc, s);
    if i < gs.len() {
        lemma_ssub_gen(gs[i].term, var, term, fc, s);
        lemma_ssub_guards(gs[i].term, gs, i + 1, var, term, fc, s);
    }
}

pub proof fn lemma_ssub_atomic_parts(a: AtomicFormula, var: Variable, term: GeneralTerm, fc: spec_fn(Seq<char>, Sort) -> Val, s: Asg)
    requires sort_ok(var, term),
    ensures
        a matches AtomicFormula::Atom(at) ==> ssub_atomic(a, var, term) matches AtomicFormula::Atom(bt)
            && bt.predicate_symbol == at.predicate_symbol
            && eval_terms(bt.terms@, fc, s) == eval_terms(at.terms@, fc, s.insert(vkey(var), eval_gen(term, fc, s))),
        a matches AtomicFormula::Comparison(c) ==> ssub_atomic(a, var, term) matches AtomicFormula::Comparison(d)
            && sat_comparison(d, fc, s) == sat_comparison(c, fc, s.insert(vkey(var), eval_gen(term, fc, s))),
        a is Truth ==> ssub_atomic(a, var, term) is Truth,
        a is Falsity ==> ssub_atomic(a, var, term) is Falsity,
{
    broadcast use axiom_vec_of;
    let s2 = s.insert(vkey(var), eval_gen(term, fc, s));
    match a {
        AtomicFormula::Atom(at) => {
            let bt = ssub_atomic(a, var, term)->Atom_0;
            assert(bt.terms@ == ssub_terms(at.terms@, var, term));
            assert forall|i: int| 0 <= i < at.terms@.len() implies
                eval_gen(bt.terms@[i], fc, s) == eval_gen(at.terms@[i], fc, s2) by {
                lemma_ssub_gen(at.terms@[i], var, term, fc, s);
            }
            assert(eval_terms(bt.terms@, fc, s) =~= eval_terms(at.terms@, fc, s2));
        }
        AtomicFormula::Comparison(c) => {
            let d = ssub_atomic(a, var, term)->Comparison_0;
            assert(d.guards@ == ssub_guards(c.guards@, var, term));
            lemma_ssub_guards(c.term, c.guards@, 0, var, term, fc, s);
        }
        _ => {}
    }
}

pub proof fn lemma_ssub_atomic_occ(a: AtomicFormula, var: Variable, term: GeneralTerm, k: VKey)
    requires sort_ok(var, term),
    ensures in_atomic(ssub_atomic(a, var, term), k)
        == ((in_atomic(a, k) && k != vkey(var)) || (in_atomic(a, vkey(var)) && in_gen(term, k))),
{
    broadcast use axiom_vec_of;
    let kv = vkey(var);
    match a {
        AtomicFormula::Atom(at) => {
            let ts = at.terms@;
            let us = ssub_terms(ts, var, term);
            assert forall|i: int| 0 <= i < ts.len() implies
                in_gen(us[i], k) == ((in_gen(ts[i], k) && k != kv) || (in_gen(ts[i], kv) && in_gen(term, k))) by {
                lemma_ssub_gen_occ(ts[i], var, term, k);
            }
            if in_terms(us, k) {
                let i = choose|i: int| 0 <= i < us.len() && #[trigger] in_gen(us[i], k);
                if in_gen(ts[i], k) && k != kv { assert(in_terms(ts, k)); } else { assert(in_gen(ts[i], kv)); assert(in_terms(ts, kv)); }
            }
            if in_terms(ts, k) && k != kv {
                let i = choose|i: int| 0 <= i < ts.len() && #[trigger] in_gen(ts[i], k);
                assert(in_gen(us[i], k));
            }
            if in_terms(ts, kv) && in_gen(term, k) {
                let i = choose|i: int| 0 <= i < ts.len() && #[trigger] in_gen(ts[i], kv);
                assert(in_gen(us[i], k));
            }
        }
        AtomicFormula::Comparison(c) => {
            let gs = c.guards@;
            let hs = ssub_guards(gs, var, term);
            lemma_ssub_gen_occ(c.term, var, term, k);
            assert forall|i: int| 0 <= i < gs.len() implies
                in_gen(hs[i].term, k) == ((in_gen(gs[i].term, k) && k != kv) || (in_gen(gs[i].term, kv) && in_gen(term, k))) by {
                lemma_ssub_gen_occ(gs[i].term, var, term, k);
            }
            if in_guards(hs, k) {
                let i = choose|i: int| 0 <= i < hs.len() && #[trigger] in_gen(hs[i].term, k);
                if in_gen(gs[i].term, k) && k != kv { assert(in_guards(gs, k)); } else { assert(in_gen(gs[i].term, kv)); assert(in_guards(gs, kv)); }
            }
            if in_guards(gs, k) && k != kv {
                let i = choose|i: int| 0 <= i < gs.len() && #[trigger] in_gen(gs[i].term, k);
                assert(in_gen(hs[i].term, k));
            }
            if in_guards(gs, kv) && in_gen(term, k) {
                let i = choose|i: int| 0 <= i < gs.len() && #[trigger] in_gen(gs[i].term, kv);
                assert(in_gen(hs[i].term, k));
            }
        }
        _ => {}
    }
}
