// fol_spec.rs — spec mirrors of the basic queries on the target-language syntax tree
// (variables, free variables, predicates), at the level of insertion-ordered sequences (the view
// of IndexSet) and lemmas lifting them to sets.

pub open spec fn spec_vars_int(t: IntegerTerm) -> Seq<Variable>
    decreases t,
{
    match t {
        IntegerTerm::Numeral(_) | IntegerTerm::FunctionConstant(_) => Seq::empty(),
        IntegerTerm::Variable(v) => seq![Variable { name: v, sort: Sort::Integer }],
        IntegerTerm::UnaryOperation { op, arg } => spec_vars_int(*arg),
        IntegerTerm::BinaryOperation { op, lhs, rhs } => seq_extend(spec_vars_int(*lhs), spec_vars_int(*rhs)),
    }
}

pub open spec fn spec_vars_sym(t: SymbolicTerm) -> Seq<Variable> {
    match t {
        SymbolicTerm::Symbol(_) | SymbolicTerm::FunctionConstant(_) => Seq::empty(),
        SymbolicTerm::Variable(v) => seq![Variable { name: v, sort: Sort::Symbol }],
    }
}

pub open spec fn spec_vars_gen(t: GeneralTerm) -> Seq<Variable> {
    match t {
        GeneralTerm::Infimum | GeneralTerm::Supremum | GeneralTerm::FunctionConstant(_) => Seq::empty(),
        GeneralTerm::Variable(v) => seq![Variable { name: v, sort: Sort::General }],
        GeneralTerm::IntegerTerm(t) => spec_vars_int(t),
        GeneralTerm::SymbolicTerm(t) => spec_vars_sym(t),
    }
}

/// fold over terms[0..n)
pub open spec fn spec_vars_terms(acc: Seq<Variable>, ts: Seq<GeneralTerm>, n: int) -> Seq<Variable>
    decreases n,
{
    if n <= 0 { acc } else { seq_extend(spec_vars_terms(acc, ts, n - 1), spec_vars_gen(ts[n - 1])) }
}

pub open spec fn spec_vars_guards(acc: Seq<Variable>, gs: Seq<Guard>, n: int) -> Seq<Variable>
    decreases n,
{
    if n <= 0 { acc } else { seq_extend(spec_vars_guards(acc, gs, n - 1), spec_vars_gen(gs[n - 1].term)) }
}

pub open spec fn spec_vars_atomic(a: AtomicFormula) -> Seq<Variable> {
    match a {
        AtomicFormula::Falsity | AtomicFormula::Truth => Seq::empty(),
        AtomicFormula::Atom(at) => spec_vars_terms(Seq::empty(), at.terms@, at.terms@.len() as int),
        AtomicFormula::Comparison(c) => spec_vars_guards(spec_vars_gen(c.term), c.guards@, c.guards@.len() as int),
    }
}

pub open spec fn spec_vars(f: Formula) -> Seq<Variable>
    decreases f,
{
    match f {
        Formula::AtomicFormula(a) => spec_vars_atomic(a),
        Formula::UnaryFormula { connective, formula } => spec_vars(*formula),
        Formula::BinaryFormula { connective, lhs, rhs } => seq_extend(spec_vars(*lhs), spec_vars(*rhs)),
        Formula::QuantifiedFormula { quantification, formula } => spec_vars(*formula),
    }
}

pub open spec fn spec_remove_all(acc: Seq<Variable>, vs: Seq<Variable>, n: int) -> Seq<Variable>
    decreases n,
{
    if n <= 0 { acc } else { seq_remove(spec_remove_all(acc, vs, n - 1), vs[n - 1]) }
}

pub open spec fn spec_fv(f: Formula) -> Seq<Variable>
    decreases f,
{
    match f {
        Formula::AtomicFormula(a) => spec_vars_atomic(a),
        Formula::UnaryFormula { connective, formula } => spec_fv(*formula),
        Formula::BinaryFormula { connective, lhs, rhs } => seq_extend(spec_fv(*lhs), spec_fv(*rhs)),
        Formula::QuantifiedFormula { quantification, formula } =>
            spec_remove_all(spec_fv(*formula), quantification.variables@, quantification.variables@.len() as int),
    }
}

pub open spec fn spec_preds_atomic(a: AtomicFormula) -> Seq<Predicate> {
    match a {
        AtomicFormula::Atom(at) => seq![Predicate { symbol: at.predicate_symbol, arity: at.terms@.len() as usize }],
        _ => Seq::empty(),
    }
}

pub open spec fn spec_preds(f: Formula) -> Seq<Predicate>
    decreases f,
{
    match f {
        Formula::AtomicFormula(a) => spec_preds_atomic(a),
        Formula::UnaryFormula { connective, formula } => spec_preds(*formula),
        Formula::BinaryFormula { connective, lhs, rhs } => seq_extend(spec_preds(*lhs), spec_preds(*rhs)),
        Formula::QuantifiedFormula { quantification, formula } => spec_preds(*formula),
    }
}

pub proof fn lemma_seq_extend_single<T>(x: T)
    ensures seq_extend(Seq::<T>::empty(), seq![x]) == seq![x],
{
    let t = seq![x];
    assert(t.drop_first() =~= Seq::<T>::empty());
    assert(seq_insert(Seq::<T>::empty(), x) =~= seq![x]);
    reveal_with_fuel(seq_extend, 3);
}
