// natrule_spec.rs — C08: the natural translation at the level of body elements, heads and rules, against the oracle of C01
// (af_sat / body_sat / head_sat / rule_sat).  Hand-written SPEC code only.

// ---- integer variables of a rule ------------------------------------------------------------------------------------------
pub open spec fn is_int_var(iv: Seq<String>, n: Seq<char>) -> bool { exists|i: int| 0 <= i < iv.len() && (#[trigger] iv[i])@ == n }

pub open spec fn is_op(t: asp::Term) -> bool { t is UnaryOperation || t is BinaryOperation }

/// t is an argument of the head atom, of a body atom, or a side of a body comparison
pub open spec fn af_top(f: asp::AtomicFormula, t: asp::Term) -> bool {
    match f {
        asp::AtomicFormula::Literal(l) => l.atom.terms@.contains(t),
        asp::AtomicFormula::Comparison(c) => t == c.lhs || t == c.rhs,
    }
}
pub open spec fn top_term(r: asp::Rule, t: asp::Term) -> bool {
    head_args(r.head).contains(t) || exists|i: int| 0 <= i < r.body.formulas@.len() && #[trigger] af_top(r.body.formulas@[i], t)
}

/// `t1 = t2..t3` in the body
pub open spec fn is_interval_eq(f: asp::AtomicFormula) -> bool {
    f is Comparison && f->Comparison_0.relation == asp::Relation::Equal && spec_reg2(f->Comparison_0.rhs)
}

/// Lifschitz 2021: the variable named n is an integer variable of the rule — it occurs in an argument or comparison side built with an
/// arithmetic operation or an interval, or on the left of `t1 = t2..t3`
pub open spec fn iv_just(r: asp::Rule, n: Seq<char>) -> bool {
    (exists|t: asp::Term| #[trigger] top_term(r, t) && is_op(t) && asp_in_term(t, (n, Sort::General)))
    || (exists|i: int| 0 <= i < r.body.formulas@.len() && #[trigger] is_interval_eq(r.body.formulas@[i]) && asp_in_term(r.body.formulas@[i]->Comparison_0.lhs, (n, Sort::General)))
}

pub open spec fn int_vars_ok(iv: Seq<String>, r: asp::Rule) -> bool { forall|n: Seq<char>| is_int_var(iv, n) == #[trigger] iv_just(r, n) }

/// names of a sequence of variables
pub open spec fn has_var_name(vs: Seq<asp::Variable>, n: Seq<char>) -> bool { exists|i: int| 0 <= i < vs.len() && (#[trigger] vs[i]).0@ == n }

pub open spec fn just_terms(tset: Seq<asp::Term>, ti: int, n: Seq<char>) -> bool {
    exists|j: int| 0 <= j < ti && is_op(#[trigger] tset[j]) && asp_in_term(tset[j], (n, Sort::General))
}
pub open spec fn just_cmps(body: Seq<asp::AtomicFormula>, fi: int, n: Seq<char>) -> bool {
    exists|i: int| 0 <= i < fi && #[trigger] is_interval_eq(body[i]) && asp_in_term(body[i]->Comparison_0.lhs, (n, Sort::General))
}

pub proof fn lemma_member_insert(vars: Seq<String>, x: String, n: Seq<char>)
    ensures is_int_var(seq_insert(vars, x), n) == (is_int_var(vars, n) || x@ == n),
{
    let e = seq_insert(vars, x);
    if is_int_var(e, n) {
        let i = choose|i: int| 0 <= i < e.len() && (#[trigger] e[i])@ == n;
        if i < vars.len() && vars.contains(x) { } else if i < vars.len() { assert(vars[i]@ == n); }
    }
    if is_int_var(vars, n) {
        let i = choose|i: int| 0 <= i < vars.len() && (#[trigger] vars[i])@ == n;
        assert(e[i]@ == n);
    }
    if x@ == n {
        if vars.contains(x) { let i = choose|i: int| 0 <= i < vars.len() && vars[i] == x; assert(e[i]@ == n); } else { assert(e[vars.len() as int]@ == n); }
    }
}

pub proof fn lemma_has_var_name_take(vs: Seq<asp::Variable>, k: int, n: Seq<char>)
    requires 0 <= k < vs.len(),
    ensures has_var_name(vs.take(k + 1), n) == (has_var_name(vs.take(k), n) || vs[k].0@ == n),
{
    let a = vs.take(k);
    let b = vs.take(k + 1);
    if has_var_name(b, n) { let i = choose|i: int| 0 <= i < b.len() && (#[trigger] b[i]).0@ == n; if i < k { assert(a[i].0@ == n); } }
    if has_var_name(a, n) { let i = choose|i: int| 0 <= i < a.len() && (#[trigger] a[i]).0@ == n; assert(b[i].0@ == n); }
    if vs[k].0@ == n { assert(b[k].0@ == n); }
}

/// the names in the set returned by t.variables() are exactly the names of the variables of t
pub proof fn lemma_var_names_of_term(vs: Seq<asp::Variable>, t: asp::Term, n: Seq<char>)
    requires forall|k: VKey| asp_in_term(t, k) ==> has_key(vs, k), forall|x: asp::Variable| vs.contains(x) ==> asp_in_term(t, #[trigger] asp_var_key(x)),
    ensures has_var_name(vs, n) == asp_in_term(t, (n, Sort::General)),
{
    if has_var_name(vs, n) {
        let i = choose|i: int| 0 <= i < vs.len() && (#[trigger] vs[i]).0@ == n;
        assert(vs.contains(vs[i]));
        assert(asp_var_key(vs[i]) == (n, Sort::General));
    }
    if asp_in_term(t, (n, Sort::General)) {
        let i = choose|i: int| 0 <= i < vs.len() && #[trigger] asp_var_key(vs[i]) == (n, Sort::General);
        assert(vs[i].0@ == n);
    }
}

pub proof fn lemma_just_terms_step(tset: Seq<asp::Term>, j: int, n: Seq<char>)
    requires 0 <= j < tset.len(),
    ensures just_terms(tset, j + 1, n) == (just_terms(tset, j, n) || (is_op(tset[j]) && asp_in_term(tset[j], (n, Sort::General)))),
{
    if just_terms(tset, j + 1, n) { let q = choose|q: int| 0 <= q < j + 1 && is_op(#[trigger] tset[q]) && asp_in_term(tset[q], (n, Sort::General)); if q < j { assert(just_terms(tset, j, n)); } }
    if just_terms(tset, j, n) { let q = choose|q: int| 0 <= q < j && is_op(#[trigger] tset[q]) && asp_in_term(tset[q], (n, Sort::General)); assert(0 <= q < j + 1); }
}
pub proof fn lemma_just_cmps_step(body: Seq<asp::AtomicFormula>, i: int, n: Seq<char>)
    requires 0 <= i < body.len(),
    ensures just_cmps(body, i + 1, n) == (just_cmps(body, i, n) || (is_interval_eq(body[i]) && asp_in_term(body[i]->Comparison_0.lhs, (n, Sort::General)))),
{
    if just_cmps(body, i + 1, n) { let q = choose|q: int| 0 <= q < i + 1 && #[trigger] is_interval_eq(body[q]) && asp_in_term(body[q]->Comparison_0.lhs, (n, Sort::General)); if q < i { assert(just_cmps(body, i, n)); } }
    if just_cmps(body, i, n) { let q = choose|q: int| 0 <= q < i && #[trigger] is_interval_eq(body[q]) && asp_in_term(body[q]->Comparison_0.lhs, (n, Sort::General)); assert(0 <= q < i + 1); }
}

/// the two phases of int_variables together give the definition
pub proof fn lemma_int_vars_final(iv: Seq<String>, r: asp::Rule, tset: Seq<asp::Term>)
    requires
        forall|t: asp::Term| tset.contains(t) == #[trigger] top_term(r, t),
        forall|n: Seq<char>| is_int_var(iv, n) == (#[trigger] just_terms(tset, tset.len() as int, n) || just_cmps(r.body.formulas@, r.body.formulas@.len() as int, n)),
    ensures int_vars_ok(iv, r),
{
    assert forall|n: Seq<char>| is_int_var(iv, n) == #[trigger] iv_just(r, n) by {
        let jt = just_terms(tset, tset.len() as int, n);
        let jc = just_cmps(r.body.formulas@, r.body.formulas@.len() as int, n);
        assert(is_int_var(iv, n) == (jt || jc));
        if jt {
            let j = choose|j: int| 0 <= j < tset.len() && is_op(#[trigger] tset[j]) && asp_in_term(tset[j], (n, Sort::General));
            assert(tset.contains(tset[j]));
            assert(top_term(r, tset[j]));
        }
        if exists|t: asp::Term| #[trigger] top_term(r, t) && is_op(t) && asp_in_term(t, (n, Sort::General)) {
            let t = choose|t: asp::Term| #[trigger] top_term(r, t) && is_op(t) && asp_in_term(t, (n, Sort::General));
            assert(tset.contains(t));
            let j = choose|j: int| 0 <= j < tset.len() && tset[j] == t;
            assert(is_op(tset[j]));
        }
    }
}

pub open spec fn just_top(r: asp::Rule, n: Seq<char>) -> bool {
    exists|t: asp::Term| #[trigger] top_term(r, t) && is_op(t) && asp_in_term(t, (n, Sort::General))
}
pub proof fn lemma_just_top(r: asp::Rule, tset: Seq<asp::Term>, n: Seq<char>)
    requires forall|t: asp::Term| tset.contains(t) == #[trigger] top_term(r, t),
    ensures just_terms(tset, tset.len() as int, n) == just_top(r, n),
{
    if just_terms(tset, tset.len() as int, n) {
        let j = choose|j: int| 0 <= j < tset.len() && is_op(#[trigger] tset[j]) && asp_in_term(tset[j], (n, Sort::General));
        assert(tset.contains(tset[j]));
        assert(top_term(r, tset[j]));
    }
    if just_top(r, n) {
        let t = choose|t: asp::Term| #[trigger] top_term(r, t) && is_op(t) && asp_in_term(t, (n, Sort::General));
        assert(tset.contains(t));
        let j = choose|j: int| 0 <= j < tset.len() && tset[j] == t;
        assert(is_op(tset[j]));
    }
}
pub proof fn lemma_int_vars_final2(iv: Seq<String>, r: asp::Rule)
    requires forall|n: Seq<char>| #[trigger] is_int_var(iv, n) == (just_top(r, n) || just_cmps(r.body.formulas@, r.body.formulas@.len() as int, n)),
    ensures int_vars_ok(iv, r),
{
    assert forall|n: Seq<char>| is_int_var(iv, n) == #[trigger] iv_just(r, n) by {
        assert(is_int_var(iv, n) == (just_top(r, n) || just_cmps(r.body.formulas@, r.body.formulas@.len() as int, n)));
    }
}
