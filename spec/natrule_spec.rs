// natrule_spec.rs — C08: the natural translation at the level of body elements, heads and rules, against the oracle of C01
// (af_sat / body_sat / head_sat / rule_sat).  Hand-written SPEC code only.

// ---- integer variables of a rule ------------------------------------------------------------------------------------------
pub open spec fn is_int_var(iv: Seq<String>, n: Seq<char>) -> bool { exists|i: int| 0 <= i < iv.len() && (#[trigger] iv[i])@ == n }

pub open spec fn is_op(t: asp::Term) -> bool { t is UnaryOperation || t is BinaryOperation }

/// t is an argument of the head atom, of a body atom, or a side of a body comparison
pub open spec fn af_top(f: asp::AtomicFormula, t: asp::Term) -> bool {
    match f {
        asp::AtomicFormula::Literal(l) => l.atom.terms@.contains(t),
        asp::AtomicFormula::Comparison(c) => t == c.lhs || t == c.rhs,
    }
}
pub open spec fn top_term(r: asp::Rule, t: asp::Term) -> bool {
    head_args(r.head).contains(t) || exists|i: int| 0 <= i < r.body.formulas@.len() && #[trigger] af_top(r.body.formulas@[i], t)
}

/// `t1 = t2..t3` in the body
pub open spec fn is_interval_eq(f: asp::AtomicFormula) -> bool {
    f is Comparison && f->Comparison_0.relation == asp::Relation::Equal && spec_reg2(f->Comparison_0.rhs)
}

/// Lifschitz 2021: the variable named n is an integer variable of the rule — it occurs in an argument or comparison side built with an
/// arithmetic operation or an interval, or on the left of `t1 = t2..t3`
pub open spec fn iv_just(r: asp::Rule, n: Seq<char>) -> bool {
    (exists|t: asp::Term| #[trigger] top_term(r, t) && is_op(t) && asp_in_term(t, (n, Sort::General)))
    || (exists|i: int| 0 <= i < r.body.formulas@.len() && #[trigger] is_interval_eq(r.body.formulas@[i]) && asp_in_term(r.body.formulas@[i]->Comparison_0.lhs, (n, Sort::General)))
}

pub open spec fn int_vars_ok(iv: Seq<String>, r: asp::Rule) -> bool { forall|n: Seq<char>| is_int_var(iv, n) == #[trigger] iv_just(r, n) }

/// names of a sequence of variables
pub open spec fn has_var_name(vs: Seq<asp::Variable>, n: Seq<char>) -> bool { exists|i: int| 0 <= i < vs.len() && (#[trigger] vs[i]).0@ == n }

pub open spec fn just_terms(tset: Seq<asp::Term>, ti: int, n: Seq<char>) -> bool {
    exists|j: int| 0 <= j < ti && is_op(#[trigger] tset[j]) && asp_in_term(tset[j], (n, Sort::General))
}
pub open spec fn just_cmps(body: Seq<asp::AtomicFormula>, fi: int, n: Seq<char>) -> bool {
    exists|i: int| 0 <= i < fi && #[trigger] is_interval_eq(body[i]) && asp_in_term(body[i]->Comparison_0.lhs, (n, Sort::General))
}

pub proof fn lemma_member_insert(vars: Seq<String>, x: String, n: Seq<char>)
    ensures is_int_var(seq_insert(vars, x), n) == (is_int_var(vars, n) || x@ == n),
{
    let e = seq_insert(vars, x);
    if is_int_var(e, n) {
        let i = choose|i: int| 0 <= i < e.len() && (#[trigger] e[i])@ == n;
        if i < vars.len() && vars.contains(x) { } else if i < vars.len() { assert(vars[i]@ == n); }
    }
    if is_int_var(vars, n) {
        let i = choose|i: int| 0 <= i < vars.len() && (#[trigger] vars[i])@ == n;
        assert(e[i]@ == n);
    }
    if x@ == n {
        if vars.contains(x) { let i = choose|i: int| 0 <= i < vars.len() && vars[i] == x; assert(e[i]@ == n); } else { assert(e[vars.len() as int]@ == n); }
    }
}

pub proof fn lemma_has_var_name_take(vs: Seq<asp::Variable>, k: int, n: Seq<char>)
    requires 0 <= k < vs.len(),
    ensures has_var_name(vs.take(k + 1), n) == (has_var_name(vs.take(k), n) || vs[k].0@ == n),
{
    let a = vs.take(k);
    let b = vs.take(k + 1);
    if has_var_name(b, n) { let i = choose|i: int| 0 <= i < b.len() && (#[trigger] b[i]).0@ == n; if i < k { assert(a[i].0@ == n); } }
    if has_var_name(a, n) { let i = choose|i: int| 0 <= i < a.len() && (#[trigger] a[i]).0@ == n; assert(b[i].0@ == n); }
    if vs[k].0@ == n { assert(b[k].0@ == n); }
}

/// the names in the set returned by t.variables() are exactly the names of the variables of t
pub proof fn lemma_var_names_of_term(vs: Seq<asp::Variable>, t: asp::Term, n: Seq<char>)
    requires forall|k: VKey| asp_in_term(t, k) ==> has_key(vs, k), forall|x: asp::Variable| vs.contains(x) ==> asp_in_term(t, #[trigger] asp_var_key(x)),
    ensures has_var_name(vs, n) == asp_in_term(t, (n, Sort::General)),
{
    if has_var_name(vs, n) {
        let i = choose|i: int| 0 <= i < vs.len() && (#[trigger] vs[i]).0@ == n;
        assert(vs.contains(vs[i]));
        assert(asp_var_key(vs[i]) == (n, Sort::General));
    }
    if asp_in_term(t, (n, Sort::General)) {
        let i = choose|i: int| 0 <= i < vs.len() && #[trigger] asp_var_key(vs[i]) == (n, Sort::General);
        assert(vs[i].0@ == n);
    }
}

pub proof fn lemma_just_terms_step(tset: Seq<asp::Term>, j: int, n: Seq<char>)
    requires 0 <= j < tset.len(),
    ensures just_terms(tset, j + 1, n) == (just_terms(tset, j, n) || (is_op(tset[j]) && asp_in_term(tset[j], (n, Sort::General)))),
{
    if just_terms(tset, j + 1, n) { let q = choose|q: int| 0 <= q < j + 1 && is_op(#[trigger] tset[q]) && asp_in_term(tset[q], (n, Sort::General)); if q < j { assert(just_terms(tset, j, n)); } }
    if just_terms(tset, j, n) { let q = choose|q: int| 0 <= q < j && is_op(#[trigger] tset[q]) && asp_in_term(tset[q], (n, Sort::General)); assert(0 <= q < j + 1); }
}
pub proof fn lemma_just_cmps_step(body: Seq<asp::AtomicFormula>, i: int, n: Seq<char>)
    requires 0 <= i < body.len(),
    ensures just_cmps(body, i + 1, n) == (just_cmps(body, i, n) || (is_interval_eq(body[i]) && asp_in_term(body[i]->Comparison_0.lhs, (n, Sort::General)))),
{
    if just_cmps(body, i + 1, n) { let q = choose|q: int| 0 <= q < i + 1 && #[trigger] is_interval_eq(body[q]) && asp_in_term(body[q]->Comparison_0.lhs, (n, Sort::General)); if q < i { assert(just_cmps(body, i, n)); } }
    if just_cmps(body, i, n) { let q = choose|q: int| 0 <= q < i && #[trigger] is_interval_eq(body[q]) && asp_in_term(body[q]->Comparison_0.lhs, (n, Sort::General)); assert(0 <= q < i + 1); }
}

/// the two phases of int_variables together give the definition
pub proof fn lemma_int_vars_final(iv: Seq<String>, r: asp::Rule, tset: Seq<asp::Term>)
    requires
        forall|t: asp::Term| tset.contains(t) == #[trigger] top_term(r, t),
        forall|n: Seq<char>| is_int_var(iv, n) == (#[trigger] just_terms(tset, tset.len() as int, n) || just_cmps(r.body.formulas@, r.body.formulas@.len() as int, n)),
    ensures int_vars_ok(iv, r),
{
    assert forall|n: Seq<char>| is_int_var(iv, n) == #[trigger] iv_just(r, n) by {
        let jt = just_terms(tset, tset.len() as int, n);
        let jc = just_cmps(r.body.formulas@, r.body.formulas@.len() as int, n);
        assert(is_int_var(iv, n) == (jt || jc));
        if jt {
            let j = choose|j: int| 0 <= j < tset.len() && is_op(#[trigger] tset[j]) && asp_in_term(tset[j], (n, Sort::General));
            assert(tset.contains(tset[j]));
            assert(top_term(r, tset[j]));
        }
        if exists|t: asp::Term| #[trigger] top_term(r, t) && is_op(t) && asp_in_term(t, (n, Sort::General)) {
            let t = choose|t: asp::Term| #[trigger] top_term(r, t) && is_op(t) && asp_in_term(t, (n, Sort::General));
            assert(tset.contains(t));
            let j = choose|j: int| 0 <= j < tset.len() && tset[j] == t;
            assert(is_op(tset[j]));
        }
    }
}

pub open spec fn just_top(r: asp::Rule, n: Seq<char>) -> bool {
    exists|t: asp::Term| #[trigger] top_term(r, t) && is_op(t) && asp_in_term(t, (n, Sort::General))
}
pub proof fn lemma_just_top(r: asp::Rule, tset: Seq<asp::Term>, n: Seq<char>)
    requires forall|t: asp::Term| tset.contains(t) == #[trigger] top_term(r, t),
    ensures just_terms(tset, tset.len() as int, n) == just_top(r, n),
{
    if just_terms(tset, tset.len() as int, n) {
        let j = choose|j: int| 0 <= j < tset.len() && is_op(#[trigger] tset[j]) && asp_in_term(tset[j], (n, Sort::General));
        assert(tset.contains(tset[j]));
        assert(top_term(r, tset[j]));
    }
    if just_top(r, n) {
        let t = choose|t: asp::Term| #[trigger] top_term(r, t) && is_op(t) && asp_in_term(t, (n, Sort::General));
        assert(tset.contains(t));
        let j = choose|j: int| 0 <= j < tset.len() && tset[j] == t;
        assert(is_op(tset[j]));
    }
}
pub proof fn lemma_int_vars_final2(iv: Seq<String>, r: asp::Rule)
    requires forall|n: Seq<char>| #[trigger] is_int_var(iv, n) == (just_top(r, n) || just_cmps(r.body.formulas@, r.body.formulas@.len() as int, n)),
    ensures int_vars_ok(iv, r),
{
    assert forall|n: Seq<char>| is_int_var(iv, n) == #[trigger] iv_just(r, n) by {
        assert(is_int_var(iv, n) == (just_top(r, n) || just_cmps(r.body.formulas@, r.body.formulas@.len() as int, n)));
    }
}

// ---- correspondence of assignments -------------------------------------------------------------------------------------------
/// the key under which the natural translation refers to the program variable named n
pub open spec fn nkey(iv: Seq<String>, n: Seq<char>) -> VKey { if is_int_var(iv, n) { (n, Sort::Integer) } else { (n, Sort::General) } }

/// the value the natural translation reads for the program variable named n: integer variables are read as integers
pub open spec fn nval(s: Asg, iv: Seq<String>, n: Seq<char>) -> Val { if is_int_var(iv, n) { Val::Int(as_int(s[(n, Sort::Integer)])) } else { s[(n, Sort::General)] } }

/// g (values of the program variables) and s (assignment of the natural formula) agree on the program variables in `rel`
pub open spec fn corr(g: Asg, s: Asg, iv: Seq<String>, rel: spec_fn(VKey) -> bool) -> bool {
    forall|k: VKey| rel(k) ==> #[trigger] g[k] == nval(s, iv, k.0)
}

/// every variable of an argument built with an operation is an integer variable (true for the integer variables of the rule)
pub open spec fn arith_closed(t: asp::Term, iv: Seq<String>) -> bool { is_op(t) ==> forall|k: VKey| #[trigger] asp_in_term(t, k) ==> is_int_var(iv, k.0) }

pub proof fn lemma_op_vals_int(t: asp::Term, g: Asg, v: Val)
    requires is_op(t), in_vals(t, g, v),
    ensures v is Int,
{
}

pub proof fn lemma_in_int_p2f(t: asp::Term, it: IntegerTerm, k: VKey)
    requires spec_p2f_int(t) == Some(it), in_int(it, k),
    ensures k.1 == Sort::Integer && asp_in_term(t, (k.0, Sort::General)),
    decreases t,
{
    match t {
        asp::Term::Variable(v) => {}
        asp::Term::PrecomputedTerm(p) => {}
        asp::Term::UnaryOperation { op, arg } => { lemma_in_int_p2f(*arg, spec_p2f_int(*arg)->Some_0, k); }
        asp::Term::BinaryOperation { op, lhs, rhs } => {
            let a = spec_p2f_int(*lhs)->Some_0;
            let b = spec_p2f_int(*rhs)->Some_0;
            if in_int(a, k) { lemma_in_int_p2f(*lhs, a, k); } else { lemma_in_int_p2f(*rhs, b, k); }
        }
    }
}

/// C08, term level: a term the natural translation keeps has exactly one value — the value of its translation
pub proof fn lemma_p2f_value(t: asp::Term, iv: Seq<String>, gt: GeneralTerm, fc: spec_fn(Seq<char>, Sort) -> Val, g: Asg, s: Asg, v: Val)
    requires spec_p2f(t, iv) == Some(gt), arith_closed(t, iv), corr(g, s, iv, |k: VKey| asp_in_term(t, k)),
    ensures in_vals(t, g, v) == (v == eval_gen(gt, fc, s)),
{
    let rel = |k: VKey| asp_in_term(t, k);
    match t {
        asp::Term::Variable(x) => {
            let k = asp_var_key(x);
            assert(rel(k));
            assert(g[k] == nval(s, iv, k.0));
        }
        asp::Term::PrecomputedTerm(p) => {}
        _ => {
            let it = spec_p2f_int(t)->Some_0;
            assert forall|k: VKey| #[trigger] asp_in_term(t, k) implies as_int(s[(k.0, Sort::Integer)]) == as_int(g[k]) && g[k] is Int by {
                assert(rel(k));
                assert(is_int_var(iv, k.0));
                assert(g[k] == nval(s, iv, k.0));
            }
            assert(int_view_on(t, s, g));
            assert(ints_ok(t, g));
            if in_vals(t, g, v) { lemma_op_vals_int(t, g, v); }
            if v is Int { lemma_p2f_int_value(t, it, fc, g, s, v->Int_0); }
        }
    }
}

pub proof fn lemma_p2f_fv(t: asp::Term, iv: Seq<String>, gt: GeneralTerm, k: VKey)
    requires spec_p2f(t, iv) == Some(gt), arith_closed(t, iv), in_gen(gt, k),
    ensures asp_in_term(t, (k.0, Sort::General)) && k == nkey(iv, k.0),
{
    match t {
        asp::Term::Variable(x) => {}
        asp::Term::PrecomputedTerm(p) => {}
        _ => {
            let it = spec_p2f_int(t)->Some_0;
            lemma_in_int_p2f(t, it, k);
            assert(is_int_var(iv, k.0));
        }
    }
}

/// tuples of kept terms: exactly one tuple of values
pub open spec fn p2f_all(terms: Seq<asp::Term>, iv: Seq<String>, gts: Seq<GeneralTerm>) -> bool {
    gts.len() == terms.len() && forall|i: int| 0 <= i < terms.len() ==> #[trigger] spec_p2f(terms[i], iv) == Some(gts[i]) && arith_closed(terms[i], iv)
}

pub proof fn lemma_p2f_tuple(terms: Seq<asp::Term>, iv: Seq<String>, gts: Seq<GeneralTerm>, fc: spec_fn(Seq<char>, Sort) -> Val, g: Asg, s: Asg, vs: Seq<Val>)
    requires p2f_all(terms, iv, gts), corr(g, s, iv, |k: VKey| terms_in(terms, k)),
    ensures tuple_vals(terms, g, vs) == (vs =~= eval_terms(gts, fc, s)),
{
    let ev = eval_terms(gts, fc, s);
    assert forall|i: int, v: Val| 0 <= i < terms.len() implies #[trigger] in_vals(terms[i], g, v) == (v == ev[i]) by {
        assert(spec_p2f(terms[i], iv) == Some(gts[i]));
        assert(corr(g, s, iv, |k: VKey| asp_in_term(terms[i], k))) by {
            assert forall|k: VKey| #[trigger] asp_in_term(terms[i], k) implies g[k] == nval(s, iv, k.0) by { assert(terms_in(terms, k)); }
        }
        lemma_p2f_value(terms[i], iv, gts[i], fc, g, s, v);
    }
    if tuple_vals(terms, g, vs) {
        assert forall|i: int| 0 <= i < vs.len() implies vs[i] == ev[i] by { assert(tv_at(terms, g, vs, i)); }
    }
    if vs =~= ev {
        assert forall|i: int| 0 <= i < terms.len() implies #[trigger] tv_at(terms, g, vs, i) by { assert(in_vals(terms[i], g, ev[i]) == (ev[i] == ev[i])); }
    }
}

/// C08, literals: [not [not]] p(t1', ..., tk')
pub proof fn lemma_nat_literal(l: asp::Literal, iv: Seq<String>, gts: Seq<GeneralTerm>, f: Formula, w: World, m: HT, g: Asg, s: Asg)
    requires
        p2f_all(l.atom.terms@, iv, gts), is_signed_atom(f, l.sign, l.atom.predicate_symbol@, gts),
        corr(g, s, iv, |k: VKey| terms_in(l.atom.terms@, k)), ht_wf(m),
    ensures ht_sat(f, w, m, s) == lit_sat(l, w, m, g),
{
    let terms = l.atom.terms@;
    let p = l.atom.predicate_symbol@;
    let ev = eval_terms(gts, m.fc, s);
    lemma_signed_atom(f, l.sign, p, gts, w, m, s);
    assert forall|vs: Seq<Val>| #[trigger] tuple_vals(terms, g, vs) == (vs =~= ev) by { lemma_p2f_tuple(terms, iv, gts, m.fc, g, s, vs); }
    if signed_holds(l.sign, w, m, p, ev) { assert(tuple_vals(terms, g, ev)); }
    if lit_sat(l, w, m, g) {
        let vs = choose|vs: Seq<Val>| #[trigger] tuple_vals(terms, g, vs) && signed_holds(l.sign, w, m, p, vs);
        assert(vs =~= ev);
    }
}

pub proof fn lemma_nat_literal_fv(l: asp::Literal, iv: Seq<String>, gts: Seq<GeneralTerm>, f: Formula, k: VKey)
    requires p2f_all(l.atom.terms@, iv, gts), is_signed_atom(f, l.sign, l.atom.predicate_symbol@, gts), fv(f, k),
    ensures terms_in(l.atom.terms@, (k.0, Sort::General)) && k == nkey(iv, k.0),
{
    lemma_signed_atom_fv(f, l.sign, l.atom.predicate_symbol@, gts, k);
    let i = choose|i: int| 0 <= i < gts.len() && #[trigger] in_gen(gts[i], k);
    assert(spec_p2f(l.atom.terms@[i], iv) == Some(gts[i]));
    lemma_p2f_fv(l.atom.terms@[i], iv, gts[i], k);
}

// ---- comparisons -------------------------------------------------------------------------------------------------------------
/// a chain with two guards  t0 r1 t1 r2 t2
pub open spec fn cmp2(t0: GeneralTerm, r1: Relation, t1: GeneralTerm, r2: Relation, t2: GeneralTerm, f: Formula) -> bool {
    f is AtomicFormula && f->AtomicFormula_0 is Comparison && f->AtomicFormula_0->Comparison_0.term == t0 && f->AtomicFormula_0->Comparison_0.guards@.len() == 2
        && f->AtomicFormula_0->Comparison_0.guards@[0] == (Guard { relation: r1, term: t1 }) && f->AtomicFormula_0->Comparison_0.guards@[1] == (Guard { relation: r2, term: t2 })
}

pub proof fn lemma_cmp2(t0: GeneralTerm, r1: Relation, t1: GeneralTerm, r2: Relation, t2: GeneralTerm, f: Formula, w: World, m: HT, s: Asg)
    requires cmp2(t0, r1, t1, r2, t2, f),
    ensures ht_sat(f, w, m, s) == (rel_holds(r1, eval_gen(t0, m.fc, s), eval_gen(t1, m.fc, s)) && rel_holds(r2, eval_gen(t1, m.fc, s), eval_gen(t2, m.fc, s))),
{
    reveal_with_fuel(sat_guards, 4);
}

pub proof fn lemma_cmp2_fv(t0: GeneralTerm, r1: Relation, t1: GeneralTerm, r2: Relation, t2: GeneralTerm, f: Formula, k: VKey)
    requires cmp2(t0, r1, t1, r2, t2, f),
    ensures fv(f, k) == (in_gen(t0, k) || in_gen(t1, k) || in_gen(t2, k)),
{
    let c = f->AtomicFormula_0->Comparison_0;
    if in_guards(c.guards@, k) {
        let i = choose|i: int| 0 <= i < c.guards@.len() && #[trigger] in_gen(c.guards@[i].term, k);
        assert(i == 0 || i == 1);
    }
    if in_gen(t1, k) { assert(in_gen(c.guards@[0].term, k)); }
    if in_gen(t2, k) { assert(in_gen(c.guards@[1].term, k)); }
}

/// an integer lies between two integers in the total order of values exactly when it does as an integer; nothing else does
pub proof fn lemma_between(i: int, a: Val, j: int)
    ensures (rel_holds(Relation::LessEqual, Val::Int(i), a) && rel_holds(Relation::LessEqual, a, Val::Int(j))) == (a is Int && i <= a->Int_0 <= j),
{
}

pub open spec fn cmp_in(c: asp::Comparison, k: VKey) -> bool { asp_in_term(c.lhs, k) || asp_in_term(c.rhs, k) }

/// C08, comparisons that are not `t1 = t2..t3`
pub proof fn lemma_nat_cmp_plain(c: asp::Comparison, iv: Seq<String>, lhs: GeneralTerm, rhs: GeneralTerm, f: Formula, w: World, m: HT, g: Asg, s: Asg)
    requires
        spec_p2f(c.lhs, iv) == Some(lhs), spec_p2f(c.rhs, iv) == Some(rhs), arith_closed(c.lhs, iv), arith_closed(c.rhs, iv),
        cmp1(lhs, rel_of(c.relation), rhs, f), corr(g, s, iv, |k: VKey| cmp_in(c, k)),
    ensures ht_sat(f, w, m, s) == cmp_sat(c, g),
{
    lemma_cmp1(lhs, rel_of(c.relation), rhs, f, w, m, s);
    let a0 = eval_gen(lhs, m.fc, s);
    let b0 = eval_gen(rhs, m.fc, s);
    assert(corr(g, s, iv, |k: VKey| asp_in_term(c.lhs, k))) by {
        assert forall|k: VKey| #[trigger] asp_in_term(c.lhs, k) implies g[k] == nval(s, iv, k.0) by { assert(cmp_in(c, k)); }
    }
    assert(corr(g, s, iv, |k: VKey| asp_in_term(c.rhs, k))) by {
        assert forall|k: VKey| #[trigger] asp_in_term(c.rhs, k) implies g[k] == nval(s, iv, k.0) by { assert(cmp_in(c, k)); }
    }
    assert forall|a: Val, b: Val| #[trigger] trv2(a, b) implies in_vals(c.lhs, g, a) == (a == a0) && in_vals(c.rhs, g, b) == (b == b0) by {
        lemma_p2f_value(c.lhs, iv, lhs, m.fc, g, s, a);
        lemma_p2f_value(c.rhs, iv, rhs, m.fc, g, s, b);
    }
    if rel_holds(rel_of(c.relation), a0, b0) { assert(trv2(a0, b0)); }
}

/// C08, `t1 = t2..t3`:  t2' <= t1' <= t3'
pub proof fn lemma_nat_cmp_interval(c: asp::Comparison, iv: Seq<String>, lhs: GeneralTerm, lo: GeneralTerm, hi: GeneralTerm, f: Formula, w: World, m: HT, g: Asg, s: Asg)
    requires
        c.relation == asp::Relation::Equal, spec_reg2(c.rhs),
        spec_p2f(c.lhs, iv) == Some(lhs), arith_closed(c.lhs, iv), arith_closed(c.rhs, iv),
        spec_p2f(*c.rhs->BinaryOperation_lhs, iv) == Some(lo), spec_p2f(*c.rhs->BinaryOperation_rhs, iv) == Some(hi),
        cmp2(lo, Relation::LessEqual, lhs, Relation::LessEqual, hi, f), corr(g, s, iv, |k: VKey| cmp_in(c, k)),
    ensures ht_sat(f, w, m, s) == cmp_sat(c, g),
{
    let t2 = *c.rhs->BinaryOperation_lhs;
    let t3 = *c.rhs->BinaryOperation_rhs;
    lemma_cmp2(lo, Relation::LessEqual, lhs, Relation::LessEqual, hi, f, w, m, s);
    let a0 = eval_gen(lhs, m.fc, s);
    let v2 = eval_gen(lo, m.fc, s);
    let v3 = eval_gen(hi, m.fc, s);
    // the bounds are variables of an operation term: integer variables of the rule
    assert forall|k: VKey| #[trigger] asp_in_term(t2, k) implies is_int_var(iv, k.0) by { assert(asp_in_term(c.rhs, k) == (asp_in_term(t2, k) || asp_in_term(t3, k))); }
    assert forall|k: VKey| #[trigger] asp_in_term(t3, k) implies is_int_var(iv, k.0) by { assert(asp_in_term(c.rhs, k) == (asp_in_term(t2, k) || asp_in_term(t3, k))); }
    assert(arith_closed(t2, iv) && arith_closed(t3, iv));
    assert(corr(g, s, iv, |k: VKey| asp_in_term(c.lhs, k))) by {
        assert forall|k: VKey| #[trigger] asp_in_term(c.lhs, k) implies g[k] == nval(s, iv, k.0) by { assert(cmp_in(c, k)); }
    }
    assert(corr(g, s, iv, |k: VKey| asp_in_term(t2, k))) by {
        assert forall|k: VKey| #[trigger] asp_in_term(t2, k) implies g[k] == nval(s, iv, k.0) by { assert(cmp_in(c, k)); }
    }
    assert(corr(g, s, iv, |k: VKey| asp_in_term(t3, k))) by {
        assert forall|k: VKey| #[trigger] asp_in_term(t3, k) implies g[k] == nval(s, iv, k.0) by { assert(cmp_in(c, k)); }
    }
    assert forall|v: Val| in_vals(c.lhs, g, v) == (v == a0) by { lemma_p2f_value(c.lhs, iv, lhs, m.fc, g, s, v); }
    assert forall|v: Val| in_vals(t2, g, v) == (v == v2) by { lemma_p2f_value(t2, iv, lo, m.fc, g, s, v); }
    assert forall|v: Val| in_vals(t3, g, v) == (v == v3) by { lemma_p2f_value(t3, iv, hi, m.fc, g, s, v); }
    // symbol-free terms regular of the first kind that are integer-closed have integer values
    lemma_reg1_int(t2, iv, lo, m.fc, g, s);
    lemma_reg1_int(t3, iv, hi, m.fc, g, s);
    let i = v2->Int_0;
    let j = v3->Int_0;
    lemma_between(i, a0, j);
    if ht_sat(f, w, m, s) {
        let k = a0->Int_0;
        assert(tr3(i, j, k) && in_vals(t2, g, Val::Int(i)) && in_vals(t3, g, Val::Int(j)) && i <= k <= j);
        assert(in_vals(c.rhs, g, a0));
        assert(trv2(a0, a0));
    }
    if cmp_sat(c, g) {
        let (a, b) = choose|a: Val, b: Val| #[trigger] trv2(a, b) && in_vals(c.lhs, g, a) && in_vals(c.rhs, g, b) && asp_rel(c.relation, a, b);
        assert(a == a0 && a == b);
        let (i2, j2, k2) = choose|i2: int, j2: int, k2: int| #[trigger] tr3(i2, j2, k2) && in_vals(t2, g, Val::Int(i2)) && in_vals(t3, g, Val::Int(j2)) && i2 <= k2 <= j2 && b == Val::Int(k2);
        assert(Val::Int(i2) == v2 && Val::Int(j2) == v3);
    }
}

/// a symbol-free term regular of the first kind whose variables all hold integers has an integer value
pub proof fn lemma_reg1_int(t: asp::Term, iv: Seq<String>, gt: GeneralTerm, fc: spec_fn(Seq<char>, Sort) -> Val, g: Asg, s: Asg)
    requires spec_p2f(t, iv) == Some(gt), !spec_sis(t), forall|k: VKey| asp_in_term(t, k) ==> is_int_var(iv, k.0),
    ensures eval_gen(gt, fc, s) is Int,
{
    match t {
        asp::Term::Variable(x) => { assert(asp_in_term(t, asp_var_key(x))); assert(is_int_var(iv, x.0@)); }
        _ => {}
    }
}

// ---- shapes produced by the body translators (syntactic; the lemmas above give their meaning) ---------------------------------
pub open spec fn p2f_seq(terms: Seq<asp::Term>, iv: Seq<String>) -> Seq<GeneralTerm> { Seq::new(terms.len(), |i: int| spec_p2f(terms[i], iv)->Some_0) }
pub open spec fn p2f_all_some(terms: Seq<asp::Term>, iv: Seq<String>) -> bool { forall|i: int| 0 <= i < terms.len() ==> (#[trigger] spec_p2f(terms[i], iv)) is Some }

pub open spec fn nat_lit_shape(f: Formula, l: asp::Literal, iv: Seq<String>) -> bool {
    p2f_all_some(l.atom.terms@, iv) && is_signed_atom(f, l.sign, l.atom.predicate_symbol@, p2f_seq(l.atom.terms@, iv))
}
pub open spec fn nat_cmp_shape(f: Formula, c: asp::Comparison, iv: Seq<String>) -> bool {
    spec_p2f(c.lhs, iv) is Some && (
        if c.relation == asp::Relation::Equal && spec_reg2(c.rhs) {
            spec_p2f(*c.rhs->BinaryOperation_lhs, iv) is Some && spec_p2f(*c.rhs->BinaryOperation_rhs, iv) is Some
            && cmp2(spec_p2f(*c.rhs->BinaryOperation_lhs, iv)->Some_0, Relation::LessEqual, spec_p2f(c.lhs, iv)->Some_0, Relation::LessEqual, spec_p2f(*c.rhs->BinaryOperation_rhs, iv)->Some_0, f)
        } else {
            spec_p2f(c.rhs, iv) is Some && cmp1(spec_p2f(c.lhs, iv)->Some_0, rel_of(c.relation), spec_p2f(c.rhs, iv)->Some_0, f)
        })
}
pub open spec fn nat_af_shape(f: Formula, af: asp::AtomicFormula, iv: Seq<String>) -> bool {
    match af {
        asp::AtomicFormula::Literal(l) => nat_lit_shape(f, l, iv),
        asp::AtomicFormula::Comparison(c) => nat_cmp_shape(f, c, iv),
    }
}

/// every argument / comparison side of the body element that is built with an operation has only integer variables
pub open spec fn af_closed(af: asp::AtomicFormula, iv: Seq<String>) -> bool { forall|t: asp::Term| #[trigger] af_top(af, t) ==> arith_closed(t, iv) }

/// C08, body elements: under corresponding assignments the translation of a body element has the truth value of the element
pub proof fn lemma_nat_af(f: Formula, af: asp::AtomicFormula, iv: Seq<String>, w: World, m: HT, g: Asg, s: Asg)
    requires nat_af_shape(f, af, iv), af_closed(af, iv), corr(g, s, iv, |k: VKey| af_in(af, k)), ht_wf(m),
    ensures ht_sat(f, w, m, s) == af_sat(af, w, m, g),
{
    match af {
        asp::AtomicFormula::Literal(l) => {
            let terms = l.atom.terms@;
            let gts = p2f_seq(terms, iv);
            assert(p2f_all(terms, iv, gts)) by {
                assert forall|i: int| 0 <= i < terms.len() implies #[trigger] spec_p2f(terms[i], iv) == Some(gts[i]) && arith_closed(terms[i], iv) by {
                    assert(terms.contains(terms[i]));
                    assert(af_top(af, terms[i]));
                }
            }
            assert(corr(g, s, iv, |k: VKey| terms_in(terms, k)));
            lemma_nat_literal(l, iv, gts, f, w, m, g, s);
        }
        asp::AtomicFormula::Comparison(c) => {
            assert(af_top(af, c.lhs) && af_top(af, c.rhs));
            assert(corr(g, s, iv, |k: VKey| cmp_in(c, k)));
            if c.relation == asp::Relation::Equal && spec_reg2(c.rhs) {
                lemma_nat_cmp_interval(c, iv, spec_p2f(c.lhs, iv)->Some_0, spec_p2f(*c.rhs->BinaryOperation_lhs, iv)->Some_0, spec_p2f(*c.rhs->BinaryOperation_rhs, iv)->Some_0, f, w, m, g, s);
            } else {
                lemma_nat_cmp_plain(c, iv, spec_p2f(c.lhs, iv)->Some_0, spec_p2f(c.rhs, iv)->Some_0, f, w, m, g, s);
            }
        }
    }
}

pub proof fn lemma_nat_af_fv(f: Formula, af: asp::AtomicFormula, iv: Seq<String>, k: VKey)
    requires nat_af_shape(f, af, iv), af_closed(af, iv), fv(f, k),
    ensures af_in(af, (k.0, Sort::General)) && k == nkey(iv, k.0),
{
    match af {
        asp::AtomicFormula::Literal(l) => {
            let terms = l.atom.terms@;
            let gts = p2f_seq(terms, iv);
            assert(p2f_all(terms, iv, gts)) by {
                assert forall|i: int| 0 <= i < terms.len() implies #[trigger] spec_p2f(terms[i], iv) == Some(gts[i]) && arith_closed(terms[i], iv) by {
                    assert(terms.contains(terms[i]));
                    assert(af_top(af, terms[i]));
                }
            }
            lemma_nat_literal_fv(l, iv, gts, f, k);
        }
        asp::AtomicFormula::Comparison(c) => {
            assert(af_top(af, c.lhs) && af_top(af, c.rhs));
            let lhs = spec_p2f(c.lhs, iv)->Some_0;
            if c.relation == asp::Relation::Equal && spec_reg2(c.rhs) {
                let t2 = *c.rhs->BinaryOperation_lhs;
                let t3 = *c.rhs->BinaryOperation_rhs;
                let lo = spec_p2f(t2, iv)->Some_0;
                let hi = spec_p2f(t3, iv)->Some_0;
                lemma_cmp2_fv(lo, Relation::LessEqual, lhs, Relation::LessEqual, hi, f, k);
                assert forall|kk: VKey| #[trigger] asp_in_term(t2, kk) implies is_int_var(iv, kk.0) by { assert(asp_in_term(c.rhs, kk) == (asp_in_term(t2, kk) || asp_in_term(t3, kk))); }
                assert forall|kk: VKey| #[trigger] asp_in_term(t3, kk) implies is_int_var(iv, kk.0) by { assert(asp_in_term(c.rhs, kk) == (asp_in_term(t2, kk) || asp_in_term(t3, kk))); }
                if in_gen(lhs, k) { lemma_p2f_fv(c.lhs, iv, lhs, k); }
                if in_gen(lo, k) { lemma_p2f_fv(t2, iv, lo, k); assert(asp_in_term(c.rhs, (k.0, Sort::General)) == (asp_in_term(t2, (k.0, Sort::General)) || asp_in_term(t3, (k.0, Sort::General)))); }
                if in_gen(hi, k) { lemma_p2f_fv(t3, iv, hi, k); assert(asp_in_term(c.rhs, (k.0, Sort::General)) == (asp_in_term(t2, (k.0, Sort::General)) || asp_in_term(t3, (k.0, Sort::General)))); }
            } else {
                let rhs = spec_p2f(c.rhs, iv)->Some_0;
                lemma_cmp1_fv(lhs, rel_of(c.relation), rhs, f, k);
                if in_gen(lhs, k) { lemma_p2f_fv(c.lhs, iv, lhs, k); }
                if in_gen(rhs, k) { lemma_p2f_fv(c.rhs, iv, rhs, k); }
            }
        }
    }
}

/// the translation of a body: conjunction of the translations of its elements, in order
pub open spec fn nat_body_shape(f: Formula, body: Seq<asp::AtomicFormula>, iv: Seq<String>) -> bool {
    exists|fs: Seq<Formula>| f == #[trigger] spec_conjoin(fs) && fs.len() == body.len() && forall|i: int| 0 <= i < fs.len() ==> #[trigger] nat_af_shape(fs[i], body[i], iv)
}
pub open spec fn body_closed(body: Seq<asp::AtomicFormula>, iv: Seq<String>) -> bool { forall|i: int| 0 <= i < body.len() ==> #[trigger] af_closed(body[i], iv) }

pub proof fn lemma_nat_body(f: Formula, body: Seq<asp::AtomicFormula>, iv: Seq<String>, w: World, m: HT, g: Asg, s: Asg)
    requires nat_body_shape(f, body, iv), body_closed(body, iv), corr(g, s, iv, |k: VKey| body_in(body, k)), ht_wf(m),
    ensures ht_sat(f, w, m, s) == body_sat(body, w, m, g),
{
    let fs = choose|fs: Seq<Formula>| f == #[trigger] spec_conjoin(fs) && fs.len() == body.len() && forall|i: int| 0 <= i < fs.len() ==> #[trigger] nat_af_shape(fs[i], body[i], iv);
    lemma_conjoin_ht(fs, w, m, s);
    assert forall|i: int| 0 <= i < fs.len() implies #[trigger] ht_sat(fs[i], w, m, s) == af_sat(body[i], w, m, g) by {
        assert(nat_af_shape(fs[i], body[i], iv));
        assert(af_closed(body[i], iv));
        assert(corr(g, s, iv, |k: VKey| af_in(body[i], k))) by {
            assert forall|k: VKey| af_in(body[i], k) implies #[trigger] g[k] == nval(s, iv, k.0) by { assert(body_in(body, k)); }
        }
        lemma_nat_af(fs[i], body[i], iv, w, m, g, s);
    }
    if ht_sat(f, w, m, s) { assert forall|i: int| 0 <= i < body.len() implies #[trigger] af_sat(body[i], w, m, g) by { assert(ht_sat(fs[i], w, m, s)); } }
    if body_sat(body, w, m, g) { assert forall|i: int| 0 <= i < fs.len() implies #[trigger] ht_sat(fs[i], w, m, s) by { assert(af_sat(body[i], w, m, g)); } }
}

pub proof fn lemma_nat_body_fv(f: Formula, body: Seq<asp::AtomicFormula>, iv: Seq<String>, k: VKey)
    requires nat_body_shape(f, body, iv), body_closed(body, iv), fv(f, k),
    ensures body_in(body, (k.0, Sort::General)) && k == nkey(iv, k.0),
{
    let fs = choose|fs: Seq<Formula>| f == #[trigger] spec_conjoin(fs) && fs.len() == body.len() && forall|i: int| 0 <= i < fs.len() ==> #[trigger] nat_af_shape(fs[i], body[i], iv);
    lemma_conjoin_fv(fs, k);
    let i = choose|i: int| 0 <= i < fs.len() && #[trigger] fv(fs[i], k);
    assert(nat_af_shape(fs[i], body[i], iv));
    assert(af_closed(body[i], iv));
    lemma_nat_af_fv(fs[i], body[i], iv, k);
    assert(af_in(body[i], (k.0, Sort::General)));
}
