// tau_spec.rs — C01: semantics of mini-gringo terms (the oracle) and the semantic contracts of the val_t(Z) constructors.
// Program variables are general variables of the target language: key (name, General).
//
// ASSUMPTION OF THE SPEC (stated in every C01 evidence file): integer division and modulo are taken as in the
// comment of construct_partial_function_formula (after the corrected arXiv version of the tau* paper): i/j and i\j are defined
// for a POSITIVE divisor j only, with i = j*q + r, 0 <= r < j (floor division); undefined otherwise.

pub open spec fn asp_var_key(v: asp::Variable) -> VKey { (v.0@, Sort::General) }

pub open spec fn pre_val(p: asp::PrecomputedTerm) -> Val {
    match p {
        asp::PrecomputedTerm::Infimum => Val::Inf,
        asp::PrecomputedTerm::Numeral(n) => Val::Int(n as int),
        asp::PrecomputedTerm::Symbol(a) => Val::Sym(a@),
        asp::PrecomputedTerm::Supremum => Val::Sup,
    }
}

/// trigger helpers for the existential clauses below (always true)
pub open spec fn tr1(j: int) -> bool { true }
pub open spec fn tr2(i: int, j: int) -> bool { true }
pub open spec fn tr3(i: int, j: int, k: int) -> bool { true }
pub open spec fn tr4(i: int, j: int, q: int, r: int) -> bool { true }

/// v is one of the values of term t under assignment s (terms are multi-valued and partial)
pub open spec fn in_vals(t: asp::Term, s: Asg, v: Val) -> bool
    decreases t,
{
    match t {
        asp::Term::PrecomputedTerm(p) => v == pre_val(p),
        asp::Term::Variable(x) => v == s[asp_var_key(x)],
        asp::Term::UnaryOperation { op, arg } =>
            // -t stands for 0 - t
            exists|j: int| #[trigger] tr1(j) && in_vals(*arg, s, Val::Int(j)) && v == Val::Int(0 - j),
        asp::Term::BinaryOperation { op, lhs, rhs } => match op {
            asp::BinaryOperator::Add => exists|i: int, j: int| #[trigger] tr2(i, j)
                && in_vals(*lhs, s, Val::Int(i)) && in_vals(*rhs, s, Val::Int(j)) && v == Val::Int(i + j),
            asp::BinaryOperator::Subtract => exists|i: int, j: int| #[trigger] tr2(i, j)
                && in_vals(*lhs, s, Val::Int(i)) && in_vals(*rhs, s, Val::Int(j)) && v == Val::Int(i - j),
            asp::BinaryOperator::Multiply => exists|i: int, j: int| #[trigger] tr2(i, j)
                && in_vals(*lhs, s, Val::Int(i)) && in_vals(*rhs, s, Val::Int(j)) && v == Val::Int(i * j),
            asp::BinaryOperator::Divide => exists|i: int, j: int, q: int, r: int| #[trigger] tr4(i, j, q, r)
                && in_vals(*lhs, s, Val::Int(i)) && in_vals(*rhs, s, Val::Int(j))
                && i == j * q + r && j != 0 && 0 <= r < j && v == Val::Int(q),
            asp::BinaryOperator::Modulo => exists|i: int, j: int, q: int, r: int| #[trigger] tr4(i, j, q, r)
                && in_vals(*lhs, s, Val::Int(i)) && in_vals(*rhs, s, Val::Int(j))
                && i == j * q + r && j != 0 && 0 <= r < j && v == Val::Int(r),
            asp::BinaryOperator::Interval => exists|i: int, j: int, k: int| #[trigger] tr3(i, j, k)
                && in_vals(*lhs, s, Val::Int(i)) && in_vals(*rhs, s, Val::Int(j)) && i <= k <= j && v == Val::Int(k),
        },
    }
}

/// key k belongs to a variable of t
pub open spec fn asp_in_term(t: asp::Term, k: VKey) -> bool
    decreases t,
{
    match t {
        asp::Term::PrecomputedTerm(_) => false,
        asp::Term::Variable(x) => k == asp_var_key(x),
        asp::Term::UnaryOperation { op, arg } => asp_in_term(*arg, k),
        asp::Term::BinaryOperation { op, lhs, rhs } => asp_in_term(*lhs, k) || asp_in_term(*rhs, k),
    }
}

/// the values of a term depend only on its own variables
pub proof fn lemma_in_vals_coin(t: asp::Term, s1: Asg, s2: Asg, v: Val)
    requires forall|k: VKey| asp_in_term(t, k) ==> s1[k] == s2[k],
    ensures in_vals(t, s1, v) == in_vals(t, s2, v),
    decreases t,
{
    match t {
        asp::Term::PrecomputedTerm(_) => {}
        asp::Term::Variable(x) => { assert(asp_in_term(t, asp_var_key(x))); }
        asp::Term::UnaryOperation { op, arg } => {
            assert forall|k: VKey| asp_in_term(*arg, k) implies s1[k] == s2[k] by { assert(asp_in_term(t, k)); }
            assert forall|j: int| #[trigger] tr1(j) implies in_vals(*arg, s1, Val::Int(j)) == in_vals(*arg, s2, Val::Int(j)) by {
                lemma_in_vals_coin(*arg, s1, s2, Val::Int(j));
            }
        }
        asp::Term::BinaryOperation { op, lhs, rhs } => {
            assert forall|k: VKey| asp_in_term(*lhs, k) implies s1[k] == s2[k] by { assert(asp_in_term(t, k)); }
            assert forall|k: VKey| asp_in_term(*rhs, k) implies s1[k] == s2[k] by { assert(asp_in_term(t, k)); }
            assert forall|i: int, j: int| #[trigger] tr2(i, j) implies
                in_vals(*lhs, s1, Val::Int(i)) == in_vals(*lhs, s2, Val::Int(i)) && in_vals(*rhs, s1, Val::Int(j)) == in_vals(*rhs, s2, Val::Int(j)) by {
                lemma_in_vals_coin(*lhs, s1, s2, Val::Int(i));
                lemma_in_vals_coin(*rhs, s1, s2, Val::Int(j));
            }
            assert forall|i: int, j: int, k: int| #[trigger] tr3(i, j, k) implies
                in_vals(*lhs, s1, Val::Int(i)) == in_vals(*lhs, s2, Val::Int(i)) && in_vals(*rhs, s1, Val::Int(j)) == in_vals(*rhs, s2, Val::Int(j)) by {
                lemma_in_vals_coin(*lhs, s1, s2, Val::Int(i));
                lemma_in_vals_coin(*rhs, s1, s2, Val::Int(j));
            }
            assert forall|i: int, j: int, q: int, r: int| #[trigger] tr4(i, j, q, r) implies
                in_vals(*lhs, s1, Val::Int(i)) == in_vals(*lhs, s2, Val::Int(i)) && in_vals(*rhs, s1, Val::Int(j)) == in_vals(*rhs, s2, Val::Int(j)) by {
                lemma_in_vals_coin(*lhs, s1, s2, Val::Int(i));
                lemma_in_vals_coin(*rhs, s1, s2, Val::Int(j));
            }
        }
    }
}

/// the value an assignment gives to the "output" variable z of val_t(z)
pub open spec fn zval(z: Variable, s: Asg) -> Val {
    match z.sort {
        Sort::Integer => Val::Int(as_int(s[vkey(z)])),
        _ => s[vkey(z)],
    }
}

/// val_t(z): true exactly when the value of z is a value of t — in both worlds of every HT interpretation
/// (no predicates occur) — and with no free variables besides z and the variables of t
pub open spec fn val_ok(r: Formula, t: asp::Term, z: Variable) -> bool {
    &&& forall|w: World, m: HT, s: Asg| #[trigger] ht_sat(r, w, m, s) == in_vals(t, s, zval(z, s))
    &&& forall|k: VKey| #[trigger] fv(r, k) ==> k == vkey(z) || asp_in_term(t, k)
}

pub open spec fn int_key(name: String) -> VKey { (name@, Sort::Integer) }

// ---- existential blocks over fresh integer variables -------------------------------------------
pub open spec fn ivar(name: String) -> Variable { Variable { name, sort: Sort::Integer } }

pub proof fn lemma_ex1(a: String, body: Formula, w: World, m: HT, s: Asg)
    ensures ht_quant(Quantifier::Exists, seq![ivar(a)], body, w, m, s)
        == (exists|i: int| #[trigger] tr1(i) && ht_sat(body, w, m, s.insert(int_key(a), Val::Int(i)))),
{
    let vars = seq![ivar(a)];
    assert(vars.drop_first() =~= Seq::<Variable>::empty());
    reveal_with_fuel(ht_quant, 2);
    if ht_quant(Quantifier::Exists, vars, body, w, m, s) {
        let x = choose|x: Val| in_sort(x, Sort::Integer) && ht_quant(Quantifier::Exists, vars.drop_first(), body, w, m, #[trigger] s.insert(vkey(vars[0]), x));
        let i = x->Int_0;
        assert(tr1(i) && ht_sat(body, w, m, s.insert(int_key(a), Val::Int(i))));
    }
    if exists|i: int| #[trigger] tr1(i) && ht_sat(body, w, m, s.insert(int_key(a), Val::Int(i))) {
        let i = choose|i: int| #[trigger] tr1(i) && ht_sat(body, w, m, s.insert(int_key(a), Val::Int(i)));
        let x = Val::Int(i);
        assert(in_sort(x, Sort::Integer) && ht_quant(Quantifier::Exists, vars.drop_first(), body, w, m, s.insert(vkey(vars[0]), x)));
    }
}

pub proof fn lemma_ex2(a: String, b: String, body: Formula, w: World, m: HT, s: Asg)
    ensures ht_quant(Quantifier::Exists, seq![ivar(a), ivar(b)], body, w, m, s)
        == (exists|i: int, j: int| #[trigger] tr2(i, j) && ht_sat(body, w, m, s.insert(int_key(a), Val::Int(i)).insert(int_key(b), Val::Int(j)))),
{
    let vars = seq![ivar(a), ivar(b)];
    assert(vars.drop_first() =~= seq![ivar(b)]);
    reveal_with_fuel(ht_quant, 1);
    assert forall|x: Val| ht_quant(Quantifier::Exists, seq![ivar(b)], body, w, m, #[trigger] s.insert(int_key(a), x))
        == (exists|j: int| #[trigger] tr1(j) && ht_sat(body, w, m, s.insert(int_key(a), x).insert(int_key(b), Val::Int(j)))) by {
        lemma_ex1(b, body, w, m, s.insert(int_key(a), x));
    }
    if ht_quant(Quantifier::Exists, vars, body, w, m, s) {
        let x = choose|x: Val| in_sort(x, Sort::Integer) && ht_quant(Quantifier::Exists, vars.drop_first(), body, w, m, #[trigger] s.insert(vkey(vars[0]), x));
        let i = x->Int_0;
        let j = choose|j: int| #[trigger] tr1(j) && ht_sat(body, w, m, s.insert(int_key(a), x).insert(int_key(b), Val::Int(j)));
        assert(tr2(i, j) && ht_sat(body, w, m, s.insert(int_key(a), Val::Int(i)).insert(int_key(b), Val::Int(j))));
    }
    if exists|i: int, j: int| #[trigger] tr2(i, j) && ht_sat(body, w, m, s.insert(int_key(a), Val::Int(i)).insert(int_key(b), Val::Int(j))) {
        let (i, j) = choose|i: int, j: int| #[trigger] tr2(i, j) && ht_sat(body, w, m, s.insert(int_key(a), Val::Int(i)).insert(int_key(b), Val::Int(j)));
        let x = Val::Int(i);
        assert(tr1(j) && ht_sat(body, w, m, s.insert(int_key(a), x).insert(int_key(b), Val::Int(j))));
        assert(in_sort(x, Sort::Integer) && ht_quant(Quantifier::Exists, vars.drop_first(), body, w, m, s.insert(vkey(vars[0]), x)));
    }
}

pub proof fn lemma_ex3(a: String, b: String, c: String, body: Formula, w: World, m: HT, s: Asg)
    ensures ht_quant(Quantifier::Exists, seq![ivar(a), ivar(b), ivar(c)], body, w, m, s)
        == (exists|i: int, j: int, k: int| #[trigger] tr3(i, j, k)
            && ht_sat(body, w, m, s.insert(int_key(a), Val::Int(i)).insert(int_key(b), Val::Int(j)).insert(int_key(c), Val::Int(k)))),
{
    let vars = seq![ivar(a), ivar(b), ivar(c)];
    assert(vars.drop_first() =~= seq![ivar(b), ivar(c)]);
    reveal_with_fuel(ht_quant, 1);
    assert forall|x: Val| ht_quant(Quantifier::Exists, seq![ivar(b), ivar(c)], body, w, m, #[trigger] s.insert(int_key(a), x))
        == (exists|j: int, k: int| #[trigger] tr2(j, k) && ht_sat(body, w, m, s.insert(int_key(a), x).insert(int_key(b), Val::Int(j)).insert(int_key(c), Val::Int(k)))) by {
        lemma_ex2(b, c, body, w, m, s.insert(int_key(a), x));
    }
    if ht_quant(Quantifier::Exists, vars, body, w, m, s) {
        let x = choose|x: Val| in_sort(x, Sort::Integer) && ht_quant(Quantifier::Exists, vars.drop_first(), body, w, m, #[trigger] s.insert(vkey(vars[0]), x));
        let i = x->Int_0;
        let (j, k) = choose|j: int, k: int| #[trigger] tr2(j, k) && ht_sat(body, w, m, s.insert(int_key(a), x).insert(int_key(b), Val::Int(j)).insert(int_key(c), Val::Int(k)));
        assert(tr3(i, j, k) && ht_sat(body, w, m, s.insert(int_key(a), Val::Int(i)).insert(int_key(b), Val::Int(j)).insert(int_key(c), Val::Int(k))));
    }
    if exists|i: int, j: int, k: int| #[trigger] tr3(i, j, k)
        && ht_sat(body, w, m, s.insert(int_key(a), Val::Int(i)).insert(int_key(b), Val::Int(j)).insert(int_key(c), Val::Int(k))) {
        let (i, j, k) = choose|i: int, j: int, k: int| #[trigger] tr3(i, j, k)
            && ht_sat(body, w, m, s.insert(int_key(a), Val::Int(i)).insert(int_key(b), Val::Int(j)).insert(int_key(c), Val::Int(k)));
        let x = Val::Int(i);
        assert(tr2(j, k) && ht_sat(body, w, m, s.insert(int_key(a), x).insert(int_key(b), Val::Int(j)).insert(int_key(c), Val::Int(k))));
        assert(in_sort(x, Sort::Integer) && ht_quant(Quantifier::Exists, vars.drop_first(), body, w, m, s.insert(vkey(vars[0]), x)));
    }
}

pub proof fn lemma_ex4(a: String, b: String, c: String, d: String, body: Formula, w: World, m: HT, s: Asg)
    ensures ht_quant(Quantifier::Exists, seq![ivar(a), ivar(b), ivar(c), ivar(d)], body, w, m, s)
        == (exists|i: int, j: int, q: int, r: int| #[trigger] tr4(i, j, q, r)
            && ht_sat(body, w, m, s.insert(int_key(a), Val::Int(i)).insert(int_key(b), Val::Int(j)).insert(int_key(c), Val::Int(q)).insert(int_key(d), Val::Int(r)))),
{
    let vars = seq![ivar(a), ivar(b), ivar(c), ivar(d)];
    assert(vars.drop_first() =~= seq![ivar(b), ivar(c), ivar(d)]);
    reveal_with_fuel(ht_quant, 1);
    assert forall|x: Val| ht_quant(Quantifier::Exists, seq![ivar(b), ivar(c), ivar(d)], body, w, m, #[trigger] s.insert(int_key(a), x))
        == (exists|j: int, q: int, r: int| #[trigger] tr3(j, q, r)
            && ht_sat(body, w, m, s.insert(int_key(a), x).insert(int_key(b), Val::Int(j)).insert(int_key(c), Val::Int(q)).insert(int_key(d), Val::Int(r)))) by {
        lemma_ex3(b, c, d, body, w, m, s.insert(int_key(a), x));
    }
    if ht_quant(Quantifier::Exists, vars, body, w, m, s) {
        let x = choose|x: Val| in_sort(x, Sort::Integer) && ht_quant(Quantifier::Exists, vars.drop_first(), body, w, m, #[trigger] s.insert(vkey(vars[0]), x));
        let i = x->Int_0;
        let (j, q, r) = choose|j: int, q: int, r: int| #[trigger] tr3(j, q, r)
            && ht_sat(body, w, m, s.insert(int_key(a), x).insert(int_key(b), Val::Int(j)).insert(int_key(c), Val::Int(q)).insert(int_key(d), Val::Int(r)));
        assert(tr4(i, j, q, r)
            && ht_sat(body, w, m, s.insert(int_key(a), Val::Int(i)).insert(int_key(b), Val::Int(j)).insert(int_key(c), Val::Int(q)).insert(int_key(d), Val::Int(r))));
    }
    if exists|i: int, j: int, q: int, r: int| #[trigger] tr4(i, j, q, r)
        && ht_sat(body, w, m, s.insert(int_key(a), Val::Int(i)).insert(int_key(b), Val::Int(j)).insert(int_key(c), Val::Int(q)).insert(int_key(d), Val::Int(r))) {
        let (i, j, q, r) = choose|i: int, j: int, q: int, r: int| #[trigger] tr4(i, j, q, r)
            && ht_sat(body, w, m, s.insert(int_key(a), Val::Int(i)).insert(int_key(b), Val::Int(j)).insert(int_key(c), Val::Int(q)).insert(int_key(d), Val::Int(r)));
        let x = Val::Int(i);
        assert(tr3(j, q, r)
            && ht_sat(body, w, m, s.insert(int_key(a), x).insert(int_key(b), Val::Int(j)).insert(int_key(c), Val::Int(q)).insert(int_key(d), Val::Int(r))));
        assert(in_sort(x, Sort::Integer) && ht_quant(Quantifier::Exists, vars.drop_first(), body, w, m, s.insert(vkey(vars[0]), x)));
    }
}

// ---- semantic contracts of the constructors -------------------------------------------------------
pub open spec fn total_op(op: asp::BinaryOperator, i: int, j: int) -> int {
    match op {
        asp::BinaryOperator::Add => i + j,
        asp::BinaryOperator::Subtract => i - j,
        _ => i * j,
    }
}

/// exists I J (Z = I op J & valti & valtj), read semantically
pub open spec fn total_sem(r: Formula, valti: Formula, valtj: Formula, op: asp::BinaryOperator, ni: String, nj: String, z: Variable) -> bool {
    &&& forall|w: World, m: HT, s: Asg| #[trigger] ht_sat(r, w, m, s) == (exists|i: int, j: int| #[trigger] tr2(i, j) && {
            let s2 = s.insert(int_key(ni), Val::Int(i)).insert(int_key(nj), Val::Int(j));
            zval(z, s2) == Val::Int(total_op(op, i, j)) && ht_sat(valti, w, m, s2) && ht_sat(valtj, w, m, s2)
        })
    &&& forall|k: VKey| #[trigger] fv(r, k) ==> (k == vkey(z) || fv(valti, k) || fv(valtj, k)) && k != int_key(ni) && k != int_key(nj)
}

pub open spec fn z_term(z: Variable) -> GeneralTerm {
    match z.sort {
        Sort::Integer => GeneralTerm::IntegerTerm(IntegerTerm::Variable(z.name)),
        _ => GeneralTerm::Variable(z.name),
    }
}

pub proof fn lemma_z_term(z: Variable, fc: spec_fn(Seq<char>, Sort) -> Val, s: Asg)
    requires z.sort != Sort::Symbol,
    ensures eval_gen(z_term(z), fc, s) == zval(z, s), forall|k: VKey| in_gen(z_term(z), k) == (k == vkey(z)),
{
}

/// a comparison with a single guard
pub open spec fn cmp1(lhs: GeneralTerm, rel: Relation, rhs: GeneralTerm, f: Formula) -> bool {
    f matches Formula::AtomicFormula(AtomicFormula::Comparison(c)) && c.term == lhs && c.guards@.len() == 1
        && c.guards@[0] == (Guard { relation: rel, term: rhs })
}

pub proof fn lemma_cmp1(lhs: GeneralTerm, rel: Relation, rhs: GeneralTerm, f: Formula, w: World, m: HT, s: Asg)
    requires cmp1(lhs, rel, rhs, f),
    ensures ht_sat(f, w, m, s) == rel_holds(rel, eval_gen(lhs, m.fc, s), eval_gen(rhs, m.fc, s)),
{
    reveal_with_fuel(sat_guards, 3);
}

pub proof fn lemma_cmp1_fv(lhs: GeneralTerm, rel: Relation, rhs: GeneralTerm, f: Formula, k: VKey)
    requires cmp1(lhs, rel, rhs, f),
    ensures fv(f, k) == (in_gen(lhs, k) || in_gen(rhs, k)),
{
    let c = f->AtomicFormula_0->Comparison_0;
    if in_guards(c.guards@, k) {
        let i = choose|i: int| 0 <= i < c.guards@.len() && #[trigger] in_gen(c.guards@[i].term, k);
        assert(i == 0);
    }
    if in_gen(rhs, k) { assert(in_gen(c.guards@[0].term, k)); }
}

// ---- division / modulo -----------------------------------------------------------------------------
pub open spec fn is_family(name: Seq<char>, variant: Seq<char>) -> bool { name == variant || exists|n: nat| name == cand(variant, n) }

/// exists I J Q R (I = J*Q + R & valti & valtj & J != 0 & R >= 0 & R < J & Z = Q|R), read semantically;
/// the names chosen for Q and R are some members of the Q- and R-family
pub open spec fn partial_sem(r: Formula, valti: Formula, valtj: Formula, op: asp::BinaryOperator, ni: String, nj: String, z: Variable) -> bool {
    exists|nq: String, nr: String| #[trigger] partial_sem_with(r, valti, valtj, op, ni, nj, nq, nr, z)
}
pub open spec fn partial_sem_with(r: Formula, valti: Formula, valtj: Formula, op: asp::BinaryOperator, ni: String, nj: String, nq: String, nr: String, z: Variable) -> bool {
    &&& is_family(nq@, "Q"@) && is_family(nr@, "R"@)
    &&& forall|w: World, m: HT, s: Asg| #[trigger] ht_sat(r, w, m, s) == (exists|i: int, j: int, q: int, rr: int| #[trigger] tr4(i, j, q, rr) && {
            let s2 = s.insert(int_key(ni), Val::Int(i)).insert(int_key(nj), Val::Int(j)).insert(int_key(nq), Val::Int(q)).insert(int_key(nr), Val::Int(rr));
            i == j * q + rr && j != 0 && 0 <= rr < j
            && zval(z, s2) == Val::Int(if op is Divide { q } else { rr }) && ht_sat(valti, w, m, s2) && ht_sat(valtj, w, m, s2)
        })
    &&& forall|k: VKey| #[trigger] fv(r, k) ==> (k == vkey(z) || fv(valti, k) || fv(valtj, k))
            && k != int_key(ni) && k != int_key(nj) && k != int_key(nq) && k != int_key(nr)
}

/// exists I J K (valti & valtj & Z = K & I <= K <= J), read semantically
pub open spec fn interval_sem(r: Formula, valti: Formula, valtj: Formula, ni: String, nj: String, nk: String, z: Variable) -> bool {
    &&& forall|w: World, m: HT, s: Asg| #[trigger] ht_sat(r, w, m, s) == (exists|i: int, j: int, k: int| #[trigger] tr3(i, j, k) && {
            let s2 = s.insert(int_key(ni), Val::Int(i)).insert(int_key(nj), Val::Int(j)).insert(int_key(nk), Val::Int(k));
            i <= k <= j && zval(z, s2) == Val::Int(k) && ht_sat(valti, w, m, s2) && ht_sat(valtj, w, m, s2)
        })
    &&& forall|k: VKey| #[trigger] fv(r, k) ==> (k == vkey(z) || fv(valti, k) || fv(valtj, k))
            && k != int_key(ni) && k != int_key(nj) && k != int_key(nk)
}

pub proof fn lemma_family_first(name: Seq<char>, variant: Seq<char>)
    requires is_family(name, variant), variant.len() == 1,
    ensures name.len() >= 1, name[0] == variant[0],
{
    if name != variant {
        let n = choose|n: nat| name == cand(variant, n);
        assert(cand(variant, n)[0] == variant[0]);
    }
}

pub proof fn lemma_bound3(a: Variable, b: Variable, c: Variable, k: VKey)
    ensures bound_by(seq![a, b, c], k) == (vkey(a) == k || vkey(b) == k || vkey(c) == k),
{
    let v = seq![a, b, c];
    if bound_by(v, k) { let i = choose|i: int| 0 <= i < v.len() && #[trigger] vkey(v[i]) == k; }
    if vkey(a) == k { assert(vkey(v[0]) == k); }
    if vkey(b) == k { assert(vkey(v[1]) == k); }
    if vkey(c) == k { assert(vkey(v[2]) == k); }
}
pub proof fn lemma_bound4(a: Variable, b: Variable, c: Variable, d: Variable, k: VKey)
    ensures bound_by(seq![a, b, c, d], k) == (vkey(a) == k || vkey(b) == k || vkey(c) == k || vkey(d) == k),
{
    let v = seq![a, b, c, d];
    if bound_by(v, k) { let i = choose|i: int| 0 <= i < v.len() && #[trigger] vkey(v[i]) == k; }
    if vkey(a) == k { assert(vkey(v[0]) == k); }
    if vkey(b) == k { assert(vkey(v[1]) == k); }
    if vkey(c) == k { assert(vkey(v[2]) == k); }
    if vkey(d) == k { assert(vkey(v[3]) == k); }
}

// ---- val_t(Z): composing the constructors ---------------------------------------------------------------
pub open spec fn term_size(t: asp::Term) -> nat
    decreases t,
{
    match t {
        asp::Term::PrecomputedTerm(_) | asp::Term::Variable(_) => 1,
        asp::Term::UnaryOperation { op, arg } => 2 + term_size(*arg),
        asp::Term::BinaryOperation { op, lhs, rhs } => 1 + term_size(*lhs) + term_size(*rhs),
    }
}

pub proof fn lemma_asp_keys_general(t: asp::Term, k: VKey)
    ensures asp_in_term(t, k) ==> k.1 == Sort::General,
    decreases t,
{
    match t {
        asp::Term::UnaryOperation { op, arg } => { lemma_asp_keys_general(*arg, k); }
        asp::Term::BinaryOperation { op, lhs, rhs } => { lemma_asp_keys_general(*lhs, k); lemma_asp_keys_general(*rhs, k); }
        _ => {}
    }
}

/// inserting integer-sorted keys does not change the values of a program term
pub proof fn lemma_in_vals_int_keys(t: asp::Term, s: Asg, s2: Asg, v: Val)
    requires forall|k: VKey| k.1 == Sort::General ==> s2[k] == s[k],
    ensures in_vals(t, s2, v) == in_vals(t, s, v),
{
    assert forall|k: VKey| asp_in_term(t, k) implies s2[k] == s[k] by { lemma_asp_keys_general(t, k); }
    lemma_in_vals_coin(t, s2, s, v);
}

pub proof fn lemma_val_total(t: asp::Term, ni: String, nj: String, z: Variable, vi: Formula, vj: Formula, r: Formula)
    requires
        t matches asp::Term::BinaryOperation { op, lhs, rhs } && (op is Add || op is Subtract || op is Multiply)
            && val_ok(vi, *lhs, ivar(ni)) && val_ok(vj, *rhs, ivar(nj)) && total_sem(r, vi, vj, op, ni, nj, z),
        ni@ != nj@, z.name@ != ni@, z.name@ != nj@, z.sort != Sort::Symbol,
    ensures val_ok(r, t, z),
{
    let op = t->BinaryOperation_op;
    let t1 = *t->BinaryOperation_lhs;
    let t2 = *t->BinaryOperation_rhs;
    assert forall|w: World, m: HT, s: Asg| #[trigger] ht_sat(r, w, m, s) == in_vals(t, s, zval(z, s)) by {
        assert forall|i: int, j: int| #[trigger] tr2(i, j) implies ({
            let s2 = s.insert(int_key(ni), Val::Int(i)).insert(int_key(nj), Val::Int(j));
            (zval(z, s2) == Val::Int(total_op(op, i, j)) && ht_sat(vi, w, m, s2) && ht_sat(vj, w, m, s2))
            == (in_vals(t1, s, Val::Int(i)) && in_vals(t2, s, Val::Int(j)) && zval(z, s) == Val::Int(total_op(op, i, j))) }) by {
            let s2 = s.insert(int_key(ni), Val::Int(i)).insert(int_key(nj), Val::Int(j));
            assert(ht_sat(vi, w, m, s2) == in_vals(t1, s2, zval(ivar(ni), s2)));
            assert(ht_sat(vj, w, m, s2) == in_vals(t2, s2, zval(ivar(nj), s2)));
            lemma_in_vals_int_keys(t1, s, s2, Val::Int(i));
            lemma_in_vals_int_keys(t2, s, s2, Val::Int(j));
        }
    }
    assert forall|k: VKey| #[trigger] fv(r, k) implies k == vkey(z) || asp_in_term(t, k) by {
        if fv(vi, k) { assert(k == vkey(ivar(ni)) || asp_in_term(t1, k)); }
        if fv(vj, k) { assert(k == vkey(ivar(nj)) || asp_in_term(t2, k)); }
    }
}

pub proof fn lemma_val_unary(t: asp::Term, ni: String, nj: String, z: Variable, vi: Formula, vj: Formula, r: Formula)
    requires
        t matches asp::Term::UnaryOperation { op, arg }
            && val_ok(vi, asp::Term::PrecomputedTerm(asp::PrecomputedTerm::Numeral(0)), ivar(ni)) && val_ok(vj, *arg, ivar(nj))
            && total_sem(r, vi, vj, asp::BinaryOperator::Subtract, ni, nj, z),
        ni@ != nj@, z.name@ != ni@, z.name@ != nj@, z.sort != Sort::Symbol,
    ensures val_ok(r, t, z),
{
    let t2 = *t->UnaryOperation_arg;
    let zero = asp::Term::PrecomputedTerm(asp::PrecomputedTerm::Numeral(0));
    assert forall|w: World, m: HT, s: Asg| #[trigger] ht_sat(r, w, m, s) == in_vals(t, s, zval(z, s)) by {
        assert forall|i: int, j: int| #[trigger] tr2(i, j) implies ({
            let s2 = s.insert(int_key(ni), Val::Int(i)).insert(int_key(nj), Val::Int(j));
            (zval(z, s2) == Val::Int(i - j) && ht_sat(vi, w, m, s2) && ht_sat(vj, w, m, s2))
            == (i == 0 && in_vals(t2, s, Val::Int(j)) && zval(z, s) == Val::Int(0 - j)) }) by {
            let s2 = s.insert(int_key(ni), Val::Int(i)).insert(int_key(nj), Val::Int(j));
            assert(ht_sat(vi, w, m, s2) == in_vals(zero, s2, zval(ivar(ni), s2)));
            assert(ht_sat(vj, w, m, s2) == in_vals(t2, s2, zval(ivar(nj), s2)));
            lemma_in_vals_int_keys(t2, s, s2, Val::Int(j));
        }
        if ht_sat(r, w, m, s) {
            let (i, j) = choose|i: int, j: int| #[trigger] tr2(i, j) && {
                let s2 = s.insert(int_key(ni), Val::Int(i)).insert(int_key(nj), Val::Int(j));
                zval(z, s2) == Val::Int(total_op(asp::BinaryOperator::Subtract, i, j)) && ht_sat(vi, w, m, s2) && ht_sat(vj, w, m, s2) };
            assert(tr1(j) && in_vals(t2, s, Val::Int(j)) && zval(z, s) == Val::Int(0 - j));
        }
        if in_vals(t, s, zval(z, s)) {
            let j = choose|j: int| #[trigger] tr1(j) && in_vals(t2, s, Val::Int(j)) && zval(z, s) == Val::Int(0 - j);
            assert(tr2(0, j));
        }
    }
    assert forall|k: VKey| #[trigger] fv(r, k) implies k == vkey(z) || asp_in_term(t, k) by {
        if fv(vi, k) { assert(k == vkey(ivar(ni)) || asp_in_term(zero, k)); }
        if fv(vj, k) { assert(k == vkey(ivar(nj)) || asp_in_term(t2, k)); }
    }
}

pub proof fn lemma_val_partial(t: asp::Term, ni: String, nj: String, z: Variable, vi: Formula, vj: Formula, r: Formula)
    requires
        t matches asp::Term::BinaryOperation { op, lhs, rhs } && (op is Divide || op is Modulo)
            && val_ok(vi, *lhs, ivar(ni)) && val_ok(vj, *rhs, ivar(nj)) && partial_sem(r, vi, vj, op, ni, nj, z),
        ni@ != nj@, z.name@ != ni@, z.name@ != nj@, z.sort != Sort::Symbol,
        qr_free(ni@), qr_free(nj@), z.sort == Sort::Integer ==> qr_free(z.name@),
    ensures val_ok(r, t, z),
{
    let op = t->BinaryOperation_op;
    let t1 = *t->BinaryOperation_lhs;
    let t2 = *t->BinaryOperation_rhs;
    let (nq, nr) = choose|nq: String, nr: String| #[trigger] partial_sem_with(r, vi, vj, op, ni, nj, nq, nr, z);
    assert forall|w: World, m: HT, s: Asg| #[trigger] ht_sat(r, w, m, s) == in_vals(t, s, zval(z, s)) by {
        assert forall|i: int, j: int, q: int, rr: int| #[trigger] tr4(i, j, q, rr) implies ({
            let s2 = s.insert(int_key(ni), Val::Int(i)).insert(int_key(nj), Val::Int(j)).insert(int_key(nq), Val::Int(q)).insert(int_key(nr), Val::Int(rr));
            (zval(z, s2) == Val::Int(if op is Divide { q } else { rr }) && ht_sat(vi, w, m, s2) && ht_sat(vj, w, m, s2))
            == (in_vals(t1, s, Val::Int(i)) && in_vals(t2, s, Val::Int(j)) && zval(z, s) == Val::Int(if op is Divide { q } else { rr })) }) by {
            let s2 = s.insert(int_key(ni), Val::Int(i)).insert(int_key(nj), Val::Int(j)).insert(int_key(nq), Val::Int(q)).insert(int_key(nr), Val::Int(rr));
            assert(ht_sat(vi, w, m, s2) == in_vals(t1, s2, zval(ivar(ni), s2)));
            assert(ht_sat(vj, w, m, s2) == in_vals(t2, s2, zval(ivar(nj), s2)));
            lemma_in_vals_int_keys(t1, s, s2, Val::Int(i));
            lemma_in_vals_int_keys(t2, s, s2, Val::Int(j));
        }
    }
    assert forall|k: VKey| #[trigger] fv(r, k) implies k == vkey(z) || asp_in_term(t, k) by {
        if fv(vi, k) { assert(k == vkey(ivar(ni)) || asp_in_term(t1, k)); }
        if fv(vj, k) { assert(k == vkey(ivar(nj)) || asp_in_term(t2, k)); }
    }
}

pub open spec fn qr_free(n: Seq<char>) -> bool { !is_family(n, "Q"@) && !is_family(n, "R"@) }

pub proof fn lemma_val_interval(t: asp::Term, ni: String, nj: String, nk: String, z: Variable, vi: Formula, vj: Formula, r: Formula)
    requires
        t matches asp::Term::BinaryOperation { op, lhs, rhs } && op is Interval
            && val_ok(vi, *lhs, ivar(ni)) && val_ok(vj, *rhs, ivar(nj)) && interval_sem(r, vi, vj, ni, nj, nk, z),
        ni@ != nj@, ni@ != nk@, nj@ != nk@, z.name@ != ni@, z.name@ != nj@, z.name@ != nk@, z.sort != Sort::Symbol,
    ensures val_ok(r, t, z),
{
    let t1 = *t->BinaryOperation_lhs;
    let t2 = *t->BinaryOperation_rhs;
    assert forall|w: World, m: HT, s: Asg| #[trigger] ht_sat(r, w, m, s) == in_vals(t, s, zval(z, s)) by {
        assert forall|i: int, j: int, k: int| #[trigger] tr3(i, j, k) implies ({
            let s2 = s.insert(int_key(ni), Val::Int(i)).insert(int_key(nj), Val::Int(j)).insert(int_key(nk), Val::Int(k));
            (zval(z, s2) == Val::Int(k) && ht_sat(vi, w, m, s2) && ht_sat(vj, w, m, s2))
            == (in_vals(t1, s, Val::Int(i)) && in_vals(t2, s, Val::Int(j)) && zval(z, s) == Val::Int(k)) }) by {
            let s2 = s.insert(int_key(ni), Val::Int(i)).insert(int_key(nj), Val::Int(j)).insert(int_key(nk), Val::Int(k));
            assert(ht_sat(vi, w, m, s2) == in_vals(t1, s2, zval(ivar(ni), s2)));
            assert(ht_sat(vj, w, m, s2) == in_vals(t2, s2, zval(ivar(nj), s2)));
            lemma_in_vals_int_keys(t1, s, s2, Val::Int(i));
            lemma_in_vals_int_keys(t2, s, s2, Val::Int(j));
        }
    }
    assert forall|k: VKey| #[trigger] fv(r, k) implies k == vkey(z) || asp_in_term(t, k) by {
        if fv(vi, k) { assert(k == vkey(ivar(ni)) || asp_in_term(t1, k)); }
        if fv(vj, k) { assert(k == vkey(ivar(nj)) || asp_in_term(t2, k)); }
    }
}

/// names of the I-, J-, K-families never clash with each other or with the Q-/R-families
pub proof fn lemma_families(a: Seq<char>, b: Seq<char>, c: Seq<char>)
    requires is_family(a, "I"@), is_family(b, "J"@), is_family(c, "K"@),
    ensures a != b, a != c, b != c, qr_free(a), qr_free(b), qr_free(c),
{
    reveal_strlit("I"); reveal_strlit("J"); reveal_strlit("K"); reveal_strlit("Q"); reveal_strlit("R");
    lemma_family_first(a, "I"@);
    lemma_family_first(b, "J"@);
    lemma_family_first(c, "K"@);
    if is_family(a, "Q"@) { lemma_family_first(a, "Q"@); }
    if is_family(a, "R"@) { lemma_family_first(a, "R"@); }
    if is_family(b, "Q"@) { lemma_family_first(b, "Q"@); }
    if is_family(b, "R"@) { lemma_family_first(b, "R"@); }
    if is_family(c, "Q"@) { lemma_family_first(c, "Q"@); }
    if is_family(c, "R"@) { lemma_family_first(c, "R"@); }
}
