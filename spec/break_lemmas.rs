// break_lemmas.rs — C19: splitting equivalences under a universal prefix preserves meaning.

pub open spec fn spec_break(f: Formula) -> Seq<Formula>
    decreases f,
{
    match f {
        Formula::BinaryFormula { connective: BinaryConnective::Equivalence, lhs, rhs } => seq![
            Formula::BinaryFormula { connective: BinaryConnective::Implication, lhs, rhs },
            Formula::BinaryFormula { connective: BinaryConnective::ReverseImplication, lhs, rhs },
        ],
        Formula::QuantifiedFormula { quantification: Quantification { quantifier: Quantifier::Forall, variables }, formula } =>
            spec_break(*formula).map_values(|g: Formula| spec_quantify(g, Quantifier::Forall, variables@)),
        x => seq![x],
    }
}

pub open spec fn th_cl(fs: Seq<Formula>, m: Interp, s: Asg) -> bool {
    forall|i: int| 0 <= i < fs.len() ==> #[trigger] cl_sat(fs[i], m, s)
}
pub open spec fn th_ht(fs: Seq<Formula>, w: World, m: HT, s: Asg) -> bool {
    forall|i: int| 0 <= i < fs.len() ==> #[trigger] ht_sat(fs[i], w, m, s)
}

pub proof fn lemma_break_len(f: Formula)
    ensures 1 <= spec_break(f).len() <= 2,
    decreases f,
{
    match f {
        Formula::QuantifiedFormula { quantification: Quantification { quantifier: Quantifier::Forall, variables }, formula } => {
            lemma_break_len(*formula);
        }
        _ => {}
    }
}

/// C19 (eq-break): the broken family is satisfied by exactly the interpretations/assignments
/// that satisfy the original formula — classically ...
pub proof fn lemma_break_cl(f: Formula, m: Interp, s: Asg)
    ensures th_cl(spec_break(f), m, s) == cl_sat(f, m, s),
    decreases f,
{
    match f {
        Formula::BinaryFormula { connective: BinaryConnective::Equivalence, lhs, rhs } => {
            let a = Formula::BinaryFormula { connective: BinaryConnective::Implication, lhs, rhs };
            let b = Formula::BinaryFormula { connective: BinaryConnective::ReverseImplication, lhs, rhs };
            assert(spec_break(f)[0] == a);
            assert(spec_break(f)[1] == b);
            if th_cl(spec_break(f), m, s) {
                assert(cl_sat(spec_break(f)[0], m, s));
                assert(cl_sat(spec_break(f)[1], m, s));
            }
        }
        Formula::QuantifiedFormula { quantification: Quantification { quantifier: Quantifier::Forall, variables }, formula } => {
            let bs = spec_break(*formula);
            let vars = variables@;
            let out = spec_break(f);
            let n = bs.len() as int;
            let p = |i: int, s2: Asg| cl_sat(bs[i], m, s2);
            let all = all_pred(p, n);
            assert forall|i: int| 0 <= i < n implies
                #[trigger] cl_sat(out[i], m, s) == quant_pred(Quantifier::Forall, vars, slice_pred(p, i), s) by {
                lemma_quantify_cl(bs[i], Quantifier::Forall, vars, m, s);
                lemma_cl_quant_pred(Quantifier::Forall, vars, bs[i], m, s);
                lemma_quant_pred_ext(Quantifier::Forall, vars, |s2: Asg| cl_sat(bs[i], m, s2), slice_pred(p, i), s);
            }
            lemma_forall_distrib(vars, n, p, s);
            assert forall|s2: Asg| #[trigger] all(s2) == cl_sat(*formula, m, s2) by {
                lemma_break_cl(*formula, m, s2);
                if th_cl(bs, m, s2) {
                    assert forall|i: int| 0 <= i < n implies #[trigger] p(i, s2) by { assert(cl_sat(bs[i], m, s2)); }
                }
                if all(s2) {
                    assert forall|i: int| 0 <= i < n implies #[trigger] cl_sat(bs[i], m, s2) by { assert(p(i, s2)); }
                }
            }
            lemma_quant_pred_ext(Quantifier::Forall, vars, all, |s2: Asg| cl_sat(*formula, m, s2), s);
            lemma_cl_quant_pred(Quantifier::Forall, vars, *formula, m, s);
            let rhs = forall|i: int| 0 <= i < n ==> #[trigger] quant_pred(Quantifier::Forall, vars, slice_pred(p, i), s);
            assert(out.len() == n);
            if th_cl(out, m, s) {
                assert forall|i: int| 0 <= i < n implies #[trigger] quant_pred(Quantifier::Forall, vars, slice_pred(p, i), s) by { assert(cl_sat(out[i], m, s)); }
            }
            if rhs {
                assert forall|i: int| 0 <= i < n implies #[trigger] cl_sat(out[i], m, s) by { assert(quant_pred(Quantifier::Forall, vars, slice_pred(p, i), s)); }
            }
        }
        x => {
            assert(spec_break(f) == seq![f]);
            assert(spec_break(f)[0] == f);
        }
    }
}

/// ... and in the logic of here-and-there, in both worlds.
pub proof fn lemma_break_ht(f: Formula, w: World, m: HT, s: Asg)
    ensures th_ht(spec_break(f), w, m, s) == ht_sat(f, w, m, s),
    decreases f,
{
    match f {
        Formula::BinaryFormula { connective: BinaryConnective::Equivalence, lhs, rhs } => {
            let a = Formula::BinaryFormula { connective: BinaryConnective::Implication, lhs, rhs };
            let b = Formula::BinaryFormula { connective: BinaryConnective::ReverseImplication, lhs, rhs };
            assert(spec_break(f)[0] == a);
            assert(spec_break(f)[1] == b);
            if th_ht(spec_break(f), w, m, s) {
                assert(ht_sat(spec_break(f)[0], w, m, s));
                assert(ht_sat(spec_break(f)[1], w, m, s));
            }
        }
        Formula::QuantifiedFormula { quantification: Quantification { quantifier: Quantifier::Forall, variables }, formula } => {
            let bs = spec_break(*formula);
            let vars = variables@;
            let out = spec_break(f);
            let n = bs.len() as int;
            let p = |i: int, s2: Asg| ht_sat(bs[i], w, m, s2);
            let all = all_pred(p, n);
            assert forall|i: int| 0 <= i < n implies
                #[trigger] ht_sat(out[i], w, m, s) == quant_pred(Quantifier::Forall, vars, slice_pred(p, i), s) by {
                lemma_quantify_ht(bs[i], Quantifier::Forall, vars, w, m, s);
                lemma_ht_quant_pred(Quantifier::Forall, vars, bs[i], w, m, s);
                lemma_quant_pred_ext(Quantifier::Forall, vars, |s2: Asg| ht_sat(bs[i], w, m, s2), slice_pred(p, i), s);
            }
            lemma_forall_distrib(vars, n, p, s);
            assert forall|s2: Asg| #[trigger] all(s2) == ht_sat(*formula, w, m, s2) by {
                lemma_break_ht(*formula, w, m, s2);
                if th_ht(bs, w, m, s2) {
                    assert forall|i: int| 0 <= i < n implies #[trigger] p(i, s2) by { assert(ht_sat(bs[i], w, m, s2)); }
                }
                if all(s2) {
                    assert forall|i: int| 0 <= i < n implies #[trigger] ht_sat(bs[i], w, m, s2) by { assert(p(i, s2)); }
                }
            }
            lemma_quant_pred_ext(Quantifier::Forall, vars, all, |s2: Asg| ht_sat(*formula, w, m, s2), s);
            lemma_ht_quant_pred(Quantifier::Forall, vars, *formula, w, m, s);
            let rhs = forall|i: int| 0 <= i < n ==> #[trigger] quant_pred(Quantifier::Forall, vars, slice_pred(p, i), s);
            assert(out.len() == n);
            if th_ht(out, w, m, s) {
                assert forall|i: int| 0 <= i < n implies #[trigger] quant_pred(Quantifier::Forall, vars, slice_pred(p, i), s) by { assert(ht_sat(out[i], w, m, s)); }
            }
            if rhs {
                assert forall|i: int| 0 <= i < n implies #[trigger] ht_sat(out[i], w, m, s) by { assert(quant_pred(Quantifier::Forall, vars, slice_pred(p, i), s)); }
            }
        }
        x => {
            assert(spec_break(f) == seq![f]);
            assert(spec_break(f)[0] == f);
        }
    }
}
