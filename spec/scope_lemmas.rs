// scope_lemmas.rs — C07 (classic portfolio): extending the scope of a quantifier over a conjunct/disjunct
// in which the bound variables are not free.

pub open spec fn default_asg(s: Asg, vars: Seq<Variable>) -> Asg
    decreases vars.len(),
{
    if vars.len() == 0 { s } else { default_asg(s, vars.drop_last()).insert(vkey(vars.last()), default_val(vars.last().sort)) }
}

/// every block has at least one variant (sorts are inhabited)
pub proof fn lemma_default_variant(s: Asg, vars: Seq<Variable>)
    ensures variant(default_asg(s, vars), s, vars),
    decreases vars.len(),
{
    if vars.len() > 0 {
        let pre = vars.drop_last();
        let x = vars.last();
        lemma_default_variant(s, pre);
        let d = default_asg(s, vars);
        assert(vars =~= pre.push(x));
        assert forall|k: VKey| !bound_by(vars, k) implies #[trigger] d[k] == s[k] by { lemma_bound_by_push(pre, x, k); }
        assert forall|k: VKey| bound_by(vars, k) implies in_sort(#[trigger] d[k], k.1) by { lemma_bound_by_push(pre, x, k); }
    } else {
        assert forall|k: VKey| !bound_by(vars, k) by {}
    }
}

pub open spec fn is_and_or(c: BinaryConnective) -> bool { c == BinaryConnective::Conjunction || c == BinaryConnective::Disjunction }

pub open spec fn scope_inner(c: BinaryConnective, f: Formula, g: Formula, left: bool) -> Formula {
    if left { Formula::BinaryFormula { connective: c, lhs: Box::new(f), rhs: Box::new(g) } }
    else { Formula::BinaryFormula { connective: c, lhs: Box::new(g), rhs: Box::new(f) } }
}
pub open spec fn scope_outer(c: BinaryConnective, qf: bool, gs: bool) -> bool { if c == BinaryConnective::Conjunction { qf && gs } else { qf || gs } }

pub open spec fn no_collision(vars: Seq<Variable>, g: Formula) -> bool { forall|i: int| 0 <= i < vars.len() ==> !fv(g, #[trigger] vkey(vars[i])) }

/// (Q X F) op G  ==  Q X (F op G)   for op in {and, or}, when no variable of X is free in G   — classically
pub proof fn lemma_scope_cl(q: Quantifier, vars: Seq<Variable>, f: Formula, g: Formula, c: BinaryConnective, left: bool, m: Interp, s: Asg)
    requires is_and_or(c), no_collision(vars, g),
    ensures cl_quant(q, vars, scope_inner(c, f, g, left), m, s) == scope_outer(c, cl_quant(q, vars, f, m, s), cl_sat(g, m, s)),
{
    let inner = scope_inner(c, f, g, left);
    lemma_cl_block(q, vars, inner, m, s);
    lemma_cl_block(q, vars, f, m, s);
    let pi = |s2: Asg| cl_sat(inner, m, s2);
    let pf = |s2: Asg| cl_sat(f, m, s2);
    let gs = cl_sat(g, m, s);
    // g has the same value in every variant
    assert forall|s2: Asg| variant(s2, s, vars) implies #[trigger] cl_sat(g, m, s2) == gs by {
        assert forall|k: VKey| fv(g, k) implies s2[k] == s[k] by {
            if bound_by(vars, k) { let i = choose|i: int| 0 <= i < vars.len() && #[trigger] vkey(vars[i]) == k; assert(!fv(g, vkey(vars[i]))); }
        }
        lemma_coin_cl(g, m, s2, s);
    }
    assert forall|s2: Asg| variant(s2, s, vars) implies
        #[trigger] pi(s2) == (if c == BinaryConnective::Conjunction { pf(s2) && gs } else { pf(s2) || gs }) by {
        assert(cl_sat(g, m, s2) == gs);
    }
    let d = default_asg(s, vars);
    lemma_default_variant(s, vars);
    match q {
        Quantifier::Forall => {
            if quant_set(q, vars, pi, s) {
                assert forall|s2: Asg| variant(s2, s, vars) && c == BinaryConnective::Conjunction implies #[trigger] pf(s2) by { assert(pi(s2)); }
                if c == BinaryConnective::Conjunction { assert(pi(d)); }
                if c == BinaryConnective::Disjunction && !gs {
                    assert forall|s2: Asg| variant(s2, s, vars) implies #[trigger] pf(s2) by { assert(pi(s2)); }
                }
            }
            if (if c == BinaryConnective::Conjunction { quant_set(q, vars, pf, s) && gs } else { quant_set(q, vars, pf, s) || gs }) {
                assert forall|s2: Asg| variant(s2, s, vars) implies #[trigger] pi(s2) by {
                    if quant_set(q, vars, pf, s) { assert(pf(s2)); }
                }
            }
        }
        Quantifier::Exists => {
            if quant_set(q, vars, pi, s) {
                let s2 = choose|s2: Asg| variant(s2, s, vars) && #[trigger] pi(s2);
                if c == BinaryConnective::Conjunction { assert(pf(s2)); } else if !gs { assert(pf(s2)); }
            }
            if (if c == BinaryConnective::Conjunction { quant_set(q, vars, pf, s) && gs } else { quant_set(q, vars, pf, s) || gs }) {
                if quant_set(q, vars, pf, s) {
                    let s2 = choose|s2: Asg| variant(s2, s, vars) && #[trigger] pf(s2);
                    assert(pi(s2));
                } else {
                    assert(pi(d));
                }
            }
        }
    }
}

pub proof fn lemma_contains_fv(g: Formula, v: Variable)
    ensures spec_fv(g).contains(v) == fv(g, vkey(v)),
{
    lemma_spec_fv(g, v);
}

pub open spec fn quantified(q: Quantifier, v: Vec<Variable>, body: Formula) -> Formula {
    Formula::QuantifiedFormula { quantification: Quantification { quantifier: q, variables: v }, formula: Box::new(body) }
}
pub open spec fn binary(c: BinaryConnective, a: Formula, b: Formula) -> Formula {
    Formula::BinaryFormula { connective: c, lhs: Box::new(a), rhs: Box::new(b) }
}

/// (Q X F) op G  =>  Q X (F op G)
pub proof fn lemma_scope_left(q: Quantifier, v: Vec<Variable>, f: Formula, g: Formula, c: BinaryConnective)
    requires is_and_or(c), no_collision(v@, g),
    ensures preserves_cl(quantified(q, v, binary(c, f, g)), binary(c, quantified(q, v, f), g)),
{
    reveal_with_fuel(cl_sat, 3); reveal_with_fuel(fv, 3);
    let r = quantified(q, v, binary(c, f, g));
    let o = binary(c, quantified(q, v, f), g);
    assert forall|m: Interp, s: Asg| #[trigger] cl_sat(r, m, s) == cl_sat(o, m, s) by {
        lemma_scope_cl(q, v@, f, g, c, true, m, s);
        assert(cl_sat(r, m, s) == cl_quant(q, v@, binary(c, f, g), m, s));
        assert(cl_sat(o, m, s) == scope_outer(c, cl_quant(q, v@, f, m, s), cl_sat(g, m, s)));
    }
    assert forall|k: VKey| #[trigger] fv(r, k) implies fv(o, k) by {
        if fv(g, k) && bound_by(v@, k) { let i = choose|i: int| 0 <= i < v@.len() && #[trigger] vkey(v@[i]) == k; assert(!fv(g, vkey(v@[i]))); }
    }
}

/// G op (Q X F)  =>  Q X (G op F)
pub proof fn lemma_scope_right(q: Quantifier, v: Vec<Variable>, f: Formula, g: Formula, c: BinaryConnective)
    requires is_and_or(c), no_collision(v@, g),
    ensures preserves_cl(quantified(q, v, binary(c, g, f)), binary(c, g, quantified(q, v, f))),
{
    reveal_with_fuel(cl_sat, 3); reveal_with_fuel(fv, 3);
    let r = quantified(q, v, binary(c, g, f));
    let o = binary(c, g, quantified(q, v, f));
    assert forall|m: Interp, s: Asg| #[trigger] cl_sat(r, m, s) == cl_sat(o, m, s) by {
        lemma_scope_cl(q, v@, f, g, c, false, m, s);
        assert(cl_sat(r, m, s) == cl_quant(q, v@, binary(c, g, f), m, s));
        assert(cl_sat(o, m, s) == scope_outer(c, cl_quant(q, v@, f, m, s), cl_sat(g, m, s)));
    }
    assert forall|k: VKey| #[trigger] fv(r, k) implies fv(o, k) by {
        if fv(g, k) && bound_by(v@, k) { let i = choose|i: int| 0 <= i < v@.len() && #[trigger] vkey(v@[i]) == k; assert(!fv(g, vkey(v@[i]))); }
    }
}
