// gamma_lemmas.rs — C05: the spec mirror of gamma and the proof that it reduces
// here-and-there satisfaction to classical satisfaction.

pub open spec fn spec_prefix_atom(c: Seq<char>, f: Formula) -> Formula {
    match f {
        Formula::AtomicFormula(AtomicFormula::Atom(a)) => Formula::AtomicFormula(AtomicFormula::Atom(Atom {
            predicate_symbol: str_of(c + a.predicate_symbol@),
            terms: a.terms,
        })),
        x => x,
    }
}

/// every atom's predicate symbol gets the prefix c
pub open spec fn spec_prefix(c: Seq<char>, f: Formula) -> Formula
    decreases f,
{
    match f {
        Formula::AtomicFormula(a) => spec_prefix_atom(c, f),
        Formula::UnaryFormula { connective, formula } =>
            Formula::UnaryFormula { connective, formula: Box::new(spec_prefix(c, *formula)) },
        Formula::BinaryFormula { connective, lhs, rhs } =>
            Formula::BinaryFormula { connective, lhs: Box::new(spec_prefix(c, *lhs)), rhs: Box::new(spec_prefix(c, *rhs)) },
        Formula::QuantifiedFormula { quantification, formula } =>
            Formula::QuantifiedFormula { quantification, formula: Box::new(spec_prefix(c, *formula)) },
    }
}

pub open spec fn pre_h() -> Seq<char> { "h"@ }
pub open spec fn pre_t() -> Seq<char> { "t"@ }

/// gamma as defined for the logic of here-and-there (Pearce; Lin): atoms are read in H,
/// negated formulas in T, implications in both worlds.
pub open spec fn spec_gamma(f: Formula) -> Formula
    decreases f,
{
    match f {
        Formula::AtomicFormula(a) => spec_prefix(pre_h(), f),
        Formula::UnaryFormula { connective, formula } =>
            Formula::UnaryFormula { connective, formula: Box::new(spec_prefix(pre_t(), *formula)) },
        Formula::BinaryFormula { connective, lhs, rhs } => match connective {
            BinaryConnective::Conjunction | BinaryConnective::Disjunction =>
                Formula::BinaryFormula { connective, lhs: Box::new(spec_gamma(*lhs)), rhs: Box::new(spec_gamma(*rhs)) },
            _ => Formula::BinaryFormula {
                connective: BinaryConnective::Conjunction,
                lhs: Box::new(Formula::BinaryFormula { connective, lhs: Box::new(spec_gamma(*lhs)), rhs: Box::new(spec_gamma(*rhs)) }),
                rhs: Box::new(Formula::BinaryFormula { connective, lhs: Box::new(spec_prefix(pre_t(), *lhs)), rhs: Box::new(spec_prefix(pre_t(), *rhs)) }),
            },
        },
        Formula::QuantifiedFormula { quantification, formula } =>
            Formula::QuantifiedFormula { quantification, formula: Box::new(spec_gamma(*formula)) },
    }
}

// ---- carrier link: prepend_predicate's post-order map is spec_prefix -------------------
pub proof fn lemma_sapply_prefix(c: Seq<char>, f: Formula)
    ensures sapply(f, |x: Formula| spec_prefix_atom(c, x)) == spec_prefix(c, f),
    decreases f,
{
    let g = |x: Formula| spec_prefix_atom(c, x);
    match f {
        Formula::AtomicFormula(a) => {}
        Formula::UnaryFormula { connective, formula } => { lemma_sapply_prefix(c, *formula); }
        Formula::BinaryFormula { connective, lhs, rhs } => { lemma_sapply_prefix(c, *lhs); lemma_sapply_prefix(c, *rhs); }
        Formula::QuantifiedFormula { quantification, formula } => { lemma_sapply_prefix(c, *formula); }
    }
}

// ---- the classical interpretation associated with (H,T) --------------------------------
/// I gives the h-copy of p the extent p has in H and the t-copy the extent p has in T.
pub open spec fn coupled(i: Interp, m: HT) -> bool {
    &&& i.fc == m.fc
    &&& forall|p: Seq<char>, a: Seq<Val>| #[trigger] (i.pred)(pre_h() + p, a) == (m.h)(p, a)
    &&& forall|p: Seq<char>, a: Seq<Val>| #[trigger] (i.pred)(pre_t() + p, a) == (m.t)(p, a)
}

pub open spec fn merged(m: HT) -> Interp {
    Interp {
        pred: |p: Seq<char>, a: Seq<Val>|
            if p.len() > 0 && p[0] == 'h' { (m.h)(p.drop_first(), a) }
            else if p.len() > 0 && p[0] == 't' { (m.t)(p.drop_first(), a) }
            else { false },
        fc: m.fc,
    }
}

/// Distinct predicates receive distinct h- and t-copies (arity is kept, names are injective).
pub proof fn lemma_prefix_injective(p: Seq<char>, q: Seq<char>)
    ensures
        pre_h() + p == pre_h() + q ==> p == q,
        pre_t() + p == pre_t() + q ==> p == q,
        pre_h() + p != pre_t() + q,
{
    reveal_strlit("h"); reveal_strlit("t");
    assert((pre_h() + p).drop_first() =~= p);
    assert((pre_h() + q).drop_first() =~= q);
    assert((pre_t() + p).drop_first() =~= p);
    assert((pre_t() + q).drop_first() =~= q);
    assert((pre_h() + p)[0] == 'h');
    assert((pre_t() + q)[0] == 't');
}

/// Because of injectivity the associated classical interpretation exists for every (H,T).
pub proof fn lemma_merged_coupled(m: HT)
    ensures coupled(merged(m), m),
{
    let i = merged(m);
    reveal_strlit("h"); reveal_strlit("t");
    assert forall|p: Seq<char>, a: Seq<Val>| #[trigger] (i.pred)(pre_h() + p, a) == (m.h)(p, a) by {
        assert((pre_h() + p).drop_first() =~= p);
        assert((pre_h() + p)[0] == 'h');
    }
    assert forall|p: Seq<char>, a: Seq<Val>| #[trigger] (i.pred)(pre_t() + p, a) == (m.t)(p, a) by {
        assert((pre_t() + p).drop_first() =~= p);
        assert((pre_t() + p)[0] == 't');
    }
}

pub open spec fn world_interp(m: HT, w: World) -> Interp {
    Interp { pred: if w == World::Here { m.h } else { m.t }, fc: m.fc }
}
pub open spec fn world_prefix(w: World) -> Seq<char> { if w == World::Here { pre_h() } else { pre_t() } }

// ---- prefixing = reading the formula classically in that world ------------------------
pub proof fn lemma_prefix_sat(f: Formula, w: World, i: Interp, m: HT, s: Asg)
    requires coupled(i, m),
    ensures cl_sat(spec_prefix(world_prefix(w), f), i, s) == cl_sat(f, world_interp(m, w), s),
    decreases f, 0nat,
{
    broadcast use axiom_str_of;
    match f {
        Formula::AtomicFormula(a) => {
            match a {
                AtomicFormula::Atom(at) => {
                    let c = world_prefix(w);
                    assert(str_of(c + at.predicate_symbol@)@ == c + at.predicate_symbol@);
                }
                _ => {}
            }
        }
        Formula::UnaryFormula { connective, formula } => { lemma_prefix_sat(*formula, w, i, m, s); }
        Formula::BinaryFormula { connective, lhs, rhs } => {
            lemma_prefix_sat(*lhs, w, i, m, s);
            lemma_prefix_sat(*rhs, w, i, m, s);
        }
        Formula::QuantifiedFormula { quantification, formula } => {
            lemma_prefix_quant(quantification.quantifier, quantification.variables@, *formula, w, i, m, s);
        }
    }
}

pub proof fn lemma_prefix_quant(q: Quantifier, vars: Seq<Variable>, body: Formula, w: World, i: Interp, m: HT, s: Asg)
    requires coupled(i, m),
    ensures cl_quant(q, vars, spec_prefix(world_prefix(w), body), i, s) == cl_quant(q, vars, body, world_interp(m, w), s),
    decreases body, vars.len() + 1,
{
    let pb = spec_prefix(world_prefix(w), body);
    let wi = world_interp(m, w);
    if vars.len() == 0 {
        lemma_prefix_sat(body, w, i, m, s);
    } else {
        let v = vars[0];
        assert forall|x: Val| cl_quant(q, vars.drop_first(), pb, i, #[trigger] s.insert(vkey(v), x))
            == cl_quant(q, vars.drop_first(), body, wi, s.insert(vkey(v), x)) by {
            lemma_prefix_quant(q, vars.drop_first(), body, w, i, m, s.insert(vkey(v), x));
        }
    }
}

// ---- C05: gamma reduces HT satisfaction to classical satisfaction ----------------------
pub proof fn lemma_gamma(f: Formula, i: Interp, m: HT, s: Asg)
    requires coupled(i, m), ht_wf(m),
    ensures cl_sat(spec_gamma(f), i, s) == ht_sat(f, World::Here, m, s),
    decreases f, 0nat,
{
    match f {
        Formula::AtomicFormula(a) => {
            lemma_prefix_sat(f, World::Here, i, m, s);
            assert(cl_sat(spec_gamma(f), i, s) == ht_sat(f, World::Here, m, s));
        }
        Formula::UnaryFormula { connective, formula } => {
            lemma_prefix_sat(*formula, World::There, i, m, s);
            lemma_there_classical(*formula, m, s);
            lemma_persistence(*formula, m, s);
            assert(cl_sat(spec_gamma(f), i, s) == ht_sat(f, World::Here, m, s));
        }
        Formula::BinaryFormula { connective, lhs, rhs } => {
            lemma_gamma(*lhs, i, m, s);
            lemma_gamma(*rhs, i, m, s);
            lemma_prefix_sat(*lhs, World::There, i, m, s);
            lemma_prefix_sat(*rhs, World::There, i, m, s);
            lemma_there_classical(*lhs, m, s);
            lemma_there_classical(*rhs, m, s);
            reveal_with_fuel(cl_sat, 2);
            assert(cl_sat(spec_gamma(f), i, s) == ht_sat(f, World::Here, m, s));
        }
        Formula::QuantifiedFormula { quantification, formula } => {
            lemma_gamma_quant(quantification.quantifier, quantification.variables@, *formula, i, m, s);
            assert(cl_sat(spec_gamma(f), i, s) == ht_sat(f, World::Here, m, s));
        }
    }
}

pub proof fn lemma_gamma_quant(q: Quantifier, vars: Seq<Variable>, body: Formula, i: Interp, m: HT, s: Asg)
    requires coupled(i, m), ht_wf(m),
    ensures cl_quant(q, vars, spec_gamma(body), i, s) == ht_quant(q, vars, body, World::Here, m, s),
    decreases body, vars.len() + 1,
{
    if vars.len() == 0 {
        lemma_gamma(body, i, m, s);
    } else {
        let v = vars[0];
        assert forall|x: Val| cl_quant(q, vars.drop_first(), spec_gamma(body), i, #[trigger] s.insert(vkey(v), x))
            == ht_quant(q, vars.drop_first(), body, World::Here, m, s.insert(vkey(v), x)) by {
            lemma_gamma_quant(q, vars.drop_first(), body, i, m, s.insert(vkey(v), x));
        }
    }
}

/// C05 as stated: for every F, every H ⊆ T and every assignment, (H,T) satisfies F iff the
/// classical interpretation with hp := p^H, tp := p^T satisfies gamma(F).
pub proof fn theorem_c05(f: Formula, m: HT, s: Asg)
    requires ht_wf(m),
    ensures
        coupled(merged(m), m),
        cl_sat(spec_gamma(f), merged(m), s) == ht_sat(f, World::Here, m, s),
{
    lemma_merged_coupled(m);
    lemma_gamma(f, merged(m), m, s);
}
