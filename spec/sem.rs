// sem.rs — the oracle: semantics of the target language (many-sorted first-order formulas
// over the standard domain) in classical logic and in the logic of here-and-there.
// Hand-written SPEC code only; written from the property statements and the cited papers
// (Lifschitz, Lühne, Schaub 2019; Fandinno, Lifschitz, Lühne, Schaub 2020; Pearce), never
// from anthem's functions.  Requires the extracted `fol` syntax-tree types in scope.

pub enum Val {
    Inf,
    Int(int),
    Sym(Seq<char>),
    Sup,
}

pub type VKey = (Seq<char>, Sort);
pub type Asg = Map<VKey, Val>;
pub type Extent = spec_fn(Seq<char>, Seq<Val>) -> bool;

/// A classical structure over the standard domain: predicate extents keyed by
/// (name, argument tuple) — arity is the tuple length — and values of function constants.
pub struct Interp {
    pub pred: Extent,
    pub fc: spec_fn(Seq<char>, Sort) -> Val,
}

/// A here-and-there interpretation (H, T).
pub struct HT {
    pub h: Extent,
    pub t: Extent,
    pub fc: spec_fn(Seq<char>, Sort) -> Val,
}

#[derive(PartialEq, Eq, Structural, Clone, Copy)]
pub enum World { Here, There }

pub open spec fn in_sort(v: Val, s: Sort) -> bool {
    match s {
        Sort::General => true,
        Sort::Integer => v is Int,
        Sort::Symbol => v is Sym,
    }
}

pub open spec fn as_int(v: Val) -> int { match v { Val::Int(i) => i, _ => 0 } }
pub open spec fn as_sym(v: Val) -> Seq<char> { match v { Val::Sym(s) => s, _ => Seq::empty() } }

pub open spec fn vkey(v: Variable) -> VKey { (v.name@, v.sort) }

// ----- order on values: #inf < integers < symbols < #sup ----------------------------
pub open spec fn rank(v: Val) -> int {
    match v { Val::Inf => 0, Val::Int(_) => 1, Val::Sym(_) => 2, Val::Sup => 3 }
}

/// strict lexicographic order on symbol names
pub open spec fn sym_lt(a: Seq<char>, b: Seq<char>) -> bool
    decreases a.len(),
{
    if b.len() == 0 { false }
    else if a.len() == 0 { true }
    else if (a[0] as int) < (b[0] as int) { true }
    else if (a[0] as int) > (b[0] as int) { false }
    else { sym_lt(a.drop_first(), b.drop_first()) }
}

pub open spec fn val_lt(a: Val, b: Val) -> bool {
    rank(a) < rank(b) || match (a, b) {
        (Val::Int(i), Val::Int(j)) => i < j,
        (Val::Sym(x), Val::Sym(y)) => sym_lt(x, y),
        _ => false,
    }
}

pub open spec fn rel_holds(r: Relation, a: Val, b: Val) -> bool {
    match r {
        Relation::Equal => a == b,
        Relation::NotEqual => a != b,
        Relation::Less => val_lt(a, b),
        Relation::Greater => val_lt(b, a),
        Relation::LessEqual => val_lt(a, b) || a == b,
        Relation::GreaterEqual => val_lt(b, a) || a == b,
    }
}

// ----- terms ---------------------------------------------------------------------------
pub open spec fn eval_int(t: IntegerTerm, fc: spec_fn(Seq<char>, Sort) -> Val, s: Asg) -> int
    decreases t,
{
    match t {
        IntegerTerm::Numeral(n) => n as int,
        IntegerTerm::FunctionConstant(c) => as_int(fc(c@, Sort::Integer)),
        IntegerTerm::Variable(v) => as_int(s[(v@, Sort::Integer)]),
        IntegerTerm::UnaryOperation { op, arg } => -eval_int(*arg, fc, s),
        IntegerTerm::BinaryOperation { op, lhs, rhs } => match op {
            BinaryOperator::Add => eval_int(*lhs, fc, s) + eval_int(*rhs, fc, s),
            BinaryOperator::Subtract => eval_int(*lhs, fc, s) - eval_int(*rhs, fc, s),
            BinaryOperator::Multiply => eval_int(*lhs, fc, s) * eval_int(*rhs, fc, s),
        },
    }
}

pub open spec fn eval_sym(t: SymbolicTerm, fc: spec_fn(Seq<char>, Sort) -> Val, s: Asg) -> Seq<char> {
    match t {
        SymbolicTerm::Symbol(c) => c@,
        SymbolicTerm::FunctionConstant(c) => as_sym(fc(c@, Sort::Symbol)),
        SymbolicTerm::Variable(v) => as_sym(s[(v@, Sort::Symbol)]),
    }
}

pub open spec fn eval_gen(t: GeneralTerm, fc: spec_fn(Seq<char>, Sort) -> Val, s: Asg) -> Val {
    match t {
        GeneralTerm::Infimum => Val::Inf,
        GeneralTerm::Supremum => Val::Sup,
        GeneralTerm::FunctionConstant(c) => fc(c@, Sort::General),
        GeneralTerm::Variable(v) => s[(v@, Sort::General)],
        GeneralTerm::IntegerTerm(t) => Val::Int(eval_int(t, fc, s)),
        GeneralTerm::SymbolicTerm(t) => Val::Sym(eval_sym(t, fc, s)),
    }
}

pub open spec fn eval_terms(ts: Seq<GeneralTerm>, fc: spec_fn(Seq<char>, Sort) -> Val, s: Asg) -> Seq<Val> {
    Seq::new(ts.len(), |i: int| eval_gen(ts[i], fc, s))
}

/// chain t0 r1 t1 r2 t2 ... == (t0 r1 t1) and (t1 r2 t2) and ...
pub open spec fn sat_guards(prev: Val, gs: Seq<Guard>, i: int, fc: spec_fn(Seq<char>, Sort) -> Val, s: Asg) -> bool
    decreases gs.len() - i,
{
    if i < 0 || i >= gs.len() { true }
    else {
        let cur = eval_gen(gs[i].term, fc, s);
        rel_holds(gs[i].relation, prev, cur) && sat_guards(cur, gs, i + 1, fc, s)
    }
}

pub open spec fn sat_comparison(c: Comparison, fc: spec_fn(Seq<char>, Sort) -> Val, s: Asg) -> bool {
    sat_guards(eval_gen(c.term, fc, s), c.guards@, 0, fc, s)
}

// ----- classical satisfaction ----------------------------------------------------------
pub open spec fn cl_atomic(a: AtomicFormula, m: Interp, s: Asg) -> bool {
    match a {
        AtomicFormula::Truth => true,
        AtomicFormula::Falsity => false,
        AtomicFormula::Atom(at) => (m.pred)(at.predicate_symbol@, eval_terms(at.terms@, m.fc, s)),
        AtomicFormula::Comparison(c) => sat_comparison(c, m.fc, s),
    }
}

pub open spec fn cl_sat(f: Formula, m: Interp, s: Asg) -> bool
    decreases f, 0nat,
{
    match f {
        Formula::AtomicFormula(a) => cl_atomic(a, m, s),
        Formula::UnaryFormula { connective, formula } => !cl_sat(*formula, m, s),
        Formula::BinaryFormula { connective, lhs, rhs } => match connective {
            BinaryConnective::Conjunction => cl_sat(*lhs, m, s) && cl_sat(*rhs, m, s),
            BinaryConnective::Disjunction => cl_sat(*lhs, m, s) || cl_sat(*rhs, m, s),
            BinaryConnective::Implication => cl_sat(*lhs, m, s) ==> cl_sat(*rhs, m, s),
            BinaryConnective::ReverseImplication => cl_sat(*rhs, m, s) ==> cl_sat(*lhs, m, s),
            BinaryConnective::Equivalence => cl_sat(*lhs, m, s) == cl_sat(*rhs, m, s),
        },
        Formula::QuantifiedFormula { quantification, formula } =>
            cl_quant(quantification.quantifier, quantification.variables@, *formula, m, s),
    }
}

/// `Q X1 ... Xn F` abbreviates `Q X1 ( ... Q Xn F)`; each variable ranges over its sort.
pub open spec fn cl_quant(q: Quantifier, vars: Seq<Variable>, body: Formula, m: Interp, s: Asg) -> bool
    decreases body, vars.len() + 1,
{
    if vars.len() == 0 { cl_sat(body, m, s) }
    else {
        let v = vars[0];
        match q {
            Quantifier::Forall => forall|x: Val| in_sort(x, v.sort) ==>
                cl_quant(q, vars.drop_first(), body, m, #[trigger] s.insert(vkey(v), x)),
            Quantifier::Exists => exists|x: Val| in_sort(x, v.sort) &&
                cl_quant(q, vars.drop_first(), body, m, #[trigger] s.insert(vkey(v), x)),
        }
    }
}

// ----- here-and-there satisfaction -----------------------------------------------------
// <H,T> |= F  is ht_sat(F, Here, ..);  T |=cl F  is ht_sat(F, There, ..).
// Clauses as in Lifschitz–Lühne–Schaub: an implication holds at Here iff it holds
// "locally" at Here and classically in T; negation is implication of falsity.
pub open spec fn ht_atomic(a: AtomicFormula, w: World, m: HT, s: Asg) -> bool {
    match a {
        AtomicFormula::Truth => true,
        AtomicFormula::Falsity => false,
        AtomicFormula::Atom(at) => if w == World::Here {
            (m.h)(at.predicate_symbol@, eval_terms(at.terms@, m.fc, s))
        } else {
            (m.t)(at.predicate_symbol@, eval_terms(at.terms@, m.fc, s))
        },
        AtomicFormula::Comparison(c) => sat_comparison(c, m.fc, s),
    }
}

pub open spec fn ht_sat(f: Formula, w: World, m: HT, s: Asg) -> bool
    decreases f, 0nat,
{
    match f {
        Formula::AtomicFormula(a) => ht_atomic(a, w, m, s),
        Formula::UnaryFormula { connective, formula } =>
            !ht_sat(*formula, w, m, s) && !ht_sat(*formula, World::There, m, s),
        Formula::BinaryFormula { connective, lhs, rhs } => match connective {
            BinaryConnective::Conjunction => ht_sat(*lhs, w, m, s) && ht_sat(*rhs, w, m, s),
            BinaryConnective::Disjunction => ht_sat(*lhs, w, m, s) || ht_sat(*rhs, w, m, s),
            BinaryConnective::Implication =>
                (ht_sat(*lhs, w, m, s) ==> ht_sat(*rhs, w, m, s))
                && (ht_sat(*lhs, World::There, m, s) ==> ht_sat(*rhs, World::There, m, s)),
            BinaryConnective::ReverseImplication =>
                (ht_sat(*rhs, w, m, s) ==> ht_sat(*lhs, w, m, s))
                && (ht_sat(*rhs, World::There, m, s) ==> ht_sat(*lhs, World::There, m, s)),
            BinaryConnective::Equivalence =>
                (ht_sat(*lhs, w, m, s) == ht_sat(*rhs, w, m, s))
                && (ht_sat(*lhs, World::There, m, s) == ht_sat(*rhs, World::There, m, s)),
        },
        Formula::QuantifiedFormula { quantification, formula } =>
            ht_quant(quantification.quantifier, quantification.variables@, *formula, w, m, s),
    }
}

pub open spec fn ht_quant(q: Quantifier, vars: Seq<Variable>, body: Formula, w: World, m: HT, s: Asg) -> bool
    decreases body, vars.len() + 1,
{
    if vars.len() == 0 { ht_sat(body, w, m, s) }
    else {
        let v = vars[0];
        match q {
            Quantifier::Forall => forall|x: Val| in_sort(x, v.sort) ==>
                ht_quant(q, vars.drop_first(), body, w, m, #[trigger] s.insert(vkey(v), x)),
            Quantifier::Exists => exists|x: Val| in_sort(x, v.sort) &&
                ht_quant(q, vars.drop_first(), body, w, m, #[trigger] s.insert(vkey(v), x)),
        }
    }
}

/// H is included in T (every here-and-there interpretation has this property).
pub open spec fn ht_wf(m: HT) -> bool {
    forall|p: Seq<char>, a: Seq<Val>| #[trigger] (m.h)(p, a) ==> (m.t)(p, a)
}

/// The classical structure (T, T's function constants).
pub open spec fn there_interp(m: HT) -> Interp { Interp { pred: m.t, fc: m.fc } }

// ----- post-order map (spec of Apply::apply) -----------------------------------------
pub open spec fn sapply(f: Formula, g: spec_fn(Formula) -> Formula) -> Formula
    decreases f,
{
    g(match f {
        Formula::AtomicFormula(a) => f,
        Formula::UnaryFormula { connective, formula } =>
            Formula::UnaryFormula { connective, formula: Box::new(sapply(*formula, g)) },
        Formula::BinaryFormula { connective, lhs, rhs } =>
            Formula::BinaryFormula { connective, lhs: Box::new(sapply(*lhs, g)), rhs: Box::new(sapply(*rhs, g)) },
        Formula::QuantifiedFormula { quantification, formula } =>
            Formula::QuantifiedFormula { quantification, formula: Box::new(sapply(*formula, g)) },
    })
}
