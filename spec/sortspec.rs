// sortspec.rs — included only by the units whose code sorts (kept out of the prelude: in a unit that declares std::ffi::OsStr / std::path::Path as
// external types the generic `T: Ord` specification trips Verus' trait-conflict checker)
// T12. slice::sort permutes its argument (that the result is ordered is not needed anywhere)
pub assume_specification<T: Ord>[ <[T]>::sort ](s: &mut [T])
    ensures final(s)@.to_multiset() == old(s)@.to_multiset();
