// induction_lemmas.rs — C13: an inductive lemma `forall V (N >= n -> F)` is established by its two
// obligations (base, step).  Uses the contract of Formula::substitute (C17).

/// the antecedent `N$i >= n`
pub open spec fn ge_antecedent(nv: String, n: isize) -> Formula {
    Formula::AtomicFormula(AtomicFormula::Comparison(Comparison {
        term: GeneralTerm::IntegerTerm(IntegerTerm::Variable(nv)),
        guards: vec_of(seq![Guard { relation: Relation::GreaterEqual, term: GeneralTerm::IntegerTerm(IntegerTerm::Numeral(n)) }]),
    }))
}

pub open spec fn is_ge_antecedent(lhs: Formula, nv: String, n: isize) -> bool {
    lhs matches Formula::AtomicFormula(AtomicFormula::Comparison(c))
        && c.term == GeneralTerm::IntegerTerm(IntegerTerm::Variable(nv))
        && c.guards@.len() == 1
        && c.guards@[0] == (Guard { relation: Relation::GreaterEqual, term: GeneralTerm::IntegerTerm(IntegerTerm::Numeral(n)) })
}

pub proof fn lemma_ge_antecedent(lhs: Formula, nv: String, n: isize, m: Interp, s: Asg)
    requires is_ge_antecedent(lhs, nv, n),
    ensures cl_sat(lhs, m, s) == (as_int(s[(nv@, Sort::Integer)]) >= n as int),
{
    reveal_with_fuel(sat_guards, 3);
}

pub open spec fn num_term(n: isize) -> GeneralTerm { GeneralTerm::IntegerTerm(IntegerTerm::Numeral(n)) }
pub open spec fn succ_term(nv: String) -> GeneralTerm {
    GeneralTerm::IntegerTerm(IntegerTerm::BinaryOperation {
        op: BinaryOperator::Add, lhs: Box::new(IntegerTerm::Variable(nv)), rhs: Box::new(IntegerTerm::Numeral(1)) })
}

/// F holds for N = k under every sort-respecting assignment
pub open spec fn valid_at(f: Formula, nk: VKey, k: int, m: Interp) -> bool {
    forall|s2: Asg| wf_asg(s2) && s2[nk] == Val::Int(k) ==> #[trigger] cl_sat(f, m, s2)
}

pub proof fn lemma_induct(f: Formula, nv: String, n: isize, lhs: Formula, fb: Formula, fs: Formula, m: Interp, s: Asg, k: int)
    requires
        is_ge_antecedent(lhs, nv, n),
        subst_ht(fb, f, Variable { name: nv, sort: Sort::Integer }, num_term(n)),
        subst_ht(fs, f, Variable { name: nv, sort: Sort::Integer }, succ_term(nv)),
        cl_sat(spec_ucl(fb), m, s),
        cl_sat(spec_ucl(Formula::BinaryFormula {
            connective: BinaryConnective::Implication,
            lhs: Box::new(Formula::BinaryFormula { connective: BinaryConnective::Conjunction, lhs: Box::new(lhs), rhs: Box::new(f) }),
            rhs: Box::new(fs) }), m, s),
        k >= n as int,
    ensures valid_at(f, (nv@, Sort::Integer), k, m),
    decreases k - n as int,
{
    let nvar = Variable { name: nv, sort: Sort::Integer };
    let nk = (nv@, Sort::Integer);
    let stepf = Formula::BinaryFormula {
        connective: BinaryConnective::Implication,
        lhs: Box::new(Formula::BinaryFormula { connective: BinaryConnective::Conjunction, lhs: Box::new(lhs), rhs: Box::new(f) }),
        rhs: Box::new(fs) };
    if k == n as int {
        lemma_subst_cl(fb, f, nvar, num_term(n));
        assert forall|s2: Asg| wf_asg(s2) && s2[nk] == Val::Int(k) implies #[trigger] cl_sat(f, m, s2) by {
            lemma_ucl_valid(fb, m, s, s2);
            let s3 = sub_asg(s2, nvar, num_term(n), m.fc);
            assert(cl_sat(fb, m, s2) == cl_sat(f, m, s3));
            assert forall|kk: VKey| s3[kk] == s2[kk] by {}
            lemma_coin_cl(f, m, s3, s2);
        }
    } else {
        lemma_induct(f, nv, n, lhs, fb, fs, m, s, k - 1);
        lemma_subst_cl(fs, f, nvar, succ_term(nv));
        assert forall|s3: Asg| wf_asg(s3) && s3[nk] == Val::Int(k) implies #[trigger] cl_sat(f, m, s3) by {
            let s2 = s3.insert(nk, Val::Int(k - 1));
            assert(wf_asg(s2));
            lemma_ucl_valid(stepf, m, s, s2);
            lemma_ge_antecedent(lhs, nv, n, m, s2);
            assert(cl_sat(f, m, s2));
            reveal_with_fuel(cl_sat, 3);
            reveal_with_fuel(eval_int, 3);
            assert(cl_sat(stepf, m, s2));
            assert(cl_sat(fs, m, s2));
            let s4 = sub_asg(s2, nvar, succ_term(nv), m.fc);
            assert(cl_sat(fs, m, s2) == cl_sat(f, m, s4));
            assert(eval_gen(succ_term(nv), m.fc, s2) == Val::Int(k));
            assert forall|kk: VKey| s4[kk] == s3[kk] by {}
            lemma_coin_cl(f, m, s4, s3);
        }
    }
}

/// C13 (inductive lemmas): base and step together imply `forall vars (N >= n -> F)`
pub proof fn lemma_induction(orig: Formula, vars: Seq<Variable>, f: Formula, nv: String, n: isize, lhs: Formula,
                             fb: Formula, fs: Formula, base: Formula, step: Formula, m: Interp, s: Asg)
    requires
        orig matches Formula::QuantifiedFormula { quantification, formula }
            && quantification.quantifier == Quantifier::Forall && quantification.variables@ == vars
            && *formula == (Formula::BinaryFormula { connective: BinaryConnective::Implication, lhs: Box::new(lhs), rhs: Box::new(f) }),
        is_ge_antecedent(lhs, nv, n),
        subst_ht(fb, f, Variable { name: nv, sort: Sort::Integer }, num_term(n)),
        subst_ht(fs, f, Variable { name: nv, sort: Sort::Integer }, succ_term(nv)),
        base == spec_ucl(fb),
        step == spec_ucl(Formula::BinaryFormula {
            connective: BinaryConnective::Implication,
            lhs: Box::new(Formula::BinaryFormula { connective: BinaryConnective::Conjunction, lhs: Box::new(lhs), rhs: Box::new(f) }),
            rhs: Box::new(fs) }),
        wf_asg(s), cl_sat(base, m, s), cl_sat(step, m, s),
    ensures cl_sat(orig, m, s),
{
    let body = Formula::BinaryFormula { connective: BinaryConnective::Implication, lhs: Box::new(lhs), rhs: Box::new(f) };
    let nk = (nv@, Sort::Integer);
    lemma_cl_block(Quantifier::Forall, vars, body, m, s);
    assert forall|s2: Asg| variant(s2, s, vars) implies #[trigger] cl_sat(body, m, s2) by {
        assert forall|k: VKey| in_sort(#[trigger] s2[k], k.1) by { if bound_by(vars, k) {} else { assert(s2[k] == s[k]); } }
        lemma_ge_antecedent(lhs, nv, n, m, s2);
        if cl_sat(lhs, m, s2) {
            let k = as_int(s2[nk]);
            lemma_induct(f, nv, n, lhs, fb, fs, m, s, k);
            assert(in_sort(s2[nk], nk.1));
            assert(s2[nk] == Val::Int(k));
            assert(cl_sat(f, m, s2));
        }
    }
    let p = |s9: Asg| cl_sat(body, m, s9);
    assert forall|s2: Asg| variant(s2, s, vars) implies #[trigger] p(s2) by { assert(cl_sat(body, m, s2)); }
}
