// nathead_spec.rs — C08: the fresh integer variables N<i> / N<i>_<j> that stand for the interval arguments of a head atom.

/// the positions < n of the arguments that are not regular of the first kind, in order
pub open spec fn nonreg_positions(terms: Seq<asp::Term>, n: int) -> Seq<int>
    decreases n,
{
    if n <= 0 { Seq::empty() } else if !spec_reg1(terms[n - 1]) { nonreg_positions(terms, n - 1).push(n - 1) } else { nonreg_positions(terms, n - 1) }
}

pub proof fn lemma_nonreg_positions(terms: Seq<asp::Term>, n: int)
    requires 0 <= n <= terms.len(),
    ensures
        nonreg_positions(terms, n).len() <= n,
        forall|k: int| 0 <= k < nonreg_positions(terms, n).len() ==> 0 <= #[trigger] nonreg_positions(terms, n)[k] < n && !spec_reg1(terms[nonreg_positions(terms, n)[k]]),
        forall|k: int, l: int| 0 <= k < l < nonreg_positions(terms, n).len() ==> #[trigger] nonreg_positions(terms, n)[k] < #[trigger] nonreg_positions(terms, n)[l],
        forall|i: int| 0 <= i < n && !spec_reg1(terms[i]) ==> nonreg_positions(terms, n).contains(i),
    decreases n,
{
    if n > 0 {
        lemma_nonreg_positions(terms, n - 1);
        let pre = nonreg_positions(terms, n - 1);
        let cur = nonreg_positions(terms, n);
        assert forall|i: int| 0 <= i < n && !spec_reg1(terms[i]) implies cur.contains(i) by {
            if i < n - 1 { assert(pre.contains(i)); let q = choose|q: int| 0 <= q < pre.len() && pre[q] == i; assert(cur[q] == i); } else { assert(cur[cur.len() - 1] == i); }
        }
    }
}

/// N<i>   or   N<i>_<j>
pub open spec fn n_name(i: nat) -> Seq<char> { "N"@ + decimal(i) }
pub open spec fn n_prefix(i: nat) -> Seq<char> { "N"@ + decimal(i) + "_"@ }
pub open spec fn is_head_name(name: Seq<char>, i: nat) -> bool { name == n_name(i) || exists|j: nat| name == cand(n_prefix(i), j) }

/// names made for different positions are different
pub proof fn lemma_head_names_distinct(a: Seq<char>, b: Seq<char>, i1: nat, i2: nat)
    requires is_head_name(a, i1), is_head_name(b, i2), a == b,
    ensures i1 == i2,
{
    broadcast use axiom_decimal_digits;
    reveal_strlit("N");
    reveal_strlit("_");
    let d1 = decimal(i1);
    let d2 = decimal(i2);
    axiom_decimal_nonempty(i1);
    axiom_decimal_nonempty(i2);
    // position 1 + k holds the k-th digit of the position number; what follows is the end of the name or '_'
    assert forall|k: int| 0 <= k < d1.len() implies a[1 + k] == d1[k] by {
        if a != n_name(i1) { let j = choose|j: nat| a == cand(n_prefix(i1), j); }
    }
    assert forall|k: int| 0 <= k < d2.len() implies b[1 + k] == d2[k] by {
        if b != n_name(i2) { let j = choose|j: nat| b == cand(n_prefix(i2), j); }
    }
    assert(a.len() == 1 + d1.len() || (a.len() > 1 + d1.len() && a[1 + d1.len() as int] == '_')) by {
        if a != n_name(i1) { let j = choose|j: nat| a == cand(n_prefix(i1), j); }
    }
    assert(b.len() == 1 + d2.len() || (b.len() > 1 + d2.len() && b[1 + d2.len() as int] == '_')) by {
        if b != n_name(i2) { let j = choose|j: nat| b == cand(n_prefix(i2), j); }
    }
    if d1.len() < d2.len() { assert(is_digit(d2[d1.len() as int])); assert(b[1 + d1.len() as int] == d2[d1.len() as int]); }
    if d2.len() < d1.len() { assert(is_digit(d1[d2.len() as int])); assert(a[1 + d2.len() as int] == d1[d2.len() as int]); }
    assert(d1.len() == d2.len());
    assert(d1 =~= d2) by { assert forall|k: int| 0 <= k < d1.len() implies d1[k] == d2[k] by { assert(a[1 + k] == b[1 + k]); } }
    axiom_decimal_injective(i1, i2);
}

/// what fresh_variables_for_head_atom returns: one name per argument that is not regular of the first kind, in order of position,
/// made from that position, and not the name of a variable of the atom
pub open spec fn head_names_ok(names: Seq<String>, terms: Seq<asp::Term>, n: int) -> bool {
    &&& names.len() == nonreg_positions(terms, n).len()
    &&& forall|k: int| 0 <= k < names.len() ==> #[trigger] is_head_name(names[k]@, nonreg_positions(terms, n)[k] as nat)
    &&& forall|k: int, key: VKey| 0 <= k < names.len() && #[trigger] terms_in(terms, key) ==> key.0 != (#[trigger] names[k])@
}

pub proof fn lemma_head_names_distinct_all(names: Seq<String>, terms: Seq<asp::Term>)
    requires head_names_ok(names, terms, terms.len() as int),
    ensures forall|k: int, l: int| 0 <= k < l < names.len() ==> #[trigger] names[k]@ != #[trigger] names[l]@,
{
    lemma_nonreg_positions(terms, terms.len() as int);
    let pos = nonreg_positions(terms, terms.len() as int);
    assert forall|k: int, l: int| 0 <= k < l < names.len() implies #[trigger] names[k]@ != #[trigger] names[l]@ by {
        assert(is_head_name(names[k]@, pos[k] as nat) && is_head_name(names[l]@, pos[l] as nat));
        assert(pos[k] < pos[l]);
        if names[k]@ == names[l]@ { lemma_head_names_distinct(names[k]@, names[l]@, pos[k] as nat, pos[l] as nat); }
    }
}

/// one more name, made for position i (not regular of the first kind) and not a variable of the atom
pub proof fn lemma_head_push(f0: Seq<String>, f1: Seq<String>, terms: Seq<asp::Term>, i: int)
    requires
        0 <= i < terms.len(), head_names_ok(f0, terms, i), !spec_reg1(terms[i]),
        f1.len() == f0.len() + 1, f1.drop_last() =~= f0, is_head_name(f1.last()@, i as nat),
        forall|key: VKey| #[trigger] terms_in(terms, key) ==> key.0 != f1.last()@,
    ensures head_names_ok(f1, terms, i + 1),
{
    let p0 = nonreg_positions(terms, i);
    let p1 = nonreg_positions(terms, i + 1);
    assert(p1 == p0.push(i));
    assert forall|k: int| 0 <= k < f1.len() implies #[trigger] is_head_name(f1[k]@, p1[k] as nat) by {
        if k < f0.len() { assert(f1[k] == f0[k]); assert(is_head_name(f0[k]@, p0[k] as nat)); }
    }
    assert forall|k: int, key: VKey| 0 <= k < f1.len() && #[trigger] terms_in(terms, key) implies key.0 != (#[trigger] f1[k])@ by {
        if k < f0.len() { assert(f1[k] == f0[k]); }
    }
}
