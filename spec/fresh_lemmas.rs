// fresh_lemmas.rs — C01: fresh variable names (choose_fresh_variable_names)

/// pigeonhole: an injective map from [0,k) into [0,l) needs k <= l
pub proof fn lemma_pigeonhole(k: int, l: int, f: spec_fn(int) -> int)
    requires
        0 <= k, 0 <= l,
        forall|i: int| 0 <= i < k ==> 0 <= #[trigger] f(i) < l,
        forall|i: int, j: int| 0 <= i < j < k ==> #[trigger] f(i) != #[trigger] f(j),
    ensures k <= l,
    decreases l,
{
    if k > 0 {
        if l == 0 {
            assert(0 <= f(0) < l);
        } else {
            // remove the value f(k-1) from the codomain: values above it are shifted down
            let top = f(k - 1);
            let g = |i: int| if f(i) > top { f(i) - 1 } else { f(i) };
            assert forall|i: int| 0 <= i < k - 1 implies 0 <= #[trigger] g(i) < l - 1 by {
                assert(f(i) != f(k - 1));
                assert(0 <= f(i) < l);
            }
            assert forall|i: int, j: int| 0 <= i < j < k - 1 implies #[trigger] g(i) != #[trigger] g(j) by {
                assert(f(i) != f(j));
                assert(f(i) != f(k - 1));
                assert(f(j) != f(k - 1));
            }
            lemma_pigeonhole(k - 1, l - 1, g);
        }
    }
}

/// the n-th candidate name: variant followed by the decimal numeral of n
pub open spec fn cand(variant: Seq<char>, n: nat) -> Seq<char> { variant + decimal(n) }

pub proof fn lemma_cand_injective(variant: Seq<char>, a: nat, b: nat)
    requires cand(variant, a) == cand(variant, b),
    ensures a == b,
{
    broadcast use axiom_decimal_injective;
    let x = cand(variant, a);
    let y = cand(variant, b);
    assert(x.subrange(variant.len() as int, x.len() as int) =~= decimal(a));
    assert(y.subrange(variant.len() as int, y.len() as int) =~= decimal(b));
}

pub proof fn lemma_cand_not_variant(variant: Seq<char>, a: nat)
    ensures cand(variant, a) != variant,
{
    broadcast use axiom_decimal_digits;
    if decimal(a).len() == 0 {
        // decimal numerals are non-empty: instantiate the axiom's second clause through an index that cannot exist
        assert(false) by { axiom_decimal_nonempty(a); }
    }
    assert(cand(variant, a).len() == variant.len() + decimal(a).len());
}

/// all candidates n..m are among the names in `names`  ==>  m - n <= |names|
pub proof fn lemma_taken_bound(variant: Seq<char>, names: Seq<Seq<char>>, n: nat, m: nat)
    requires n <= m, forall|j: nat| n <= j < m ==> names.contains(#[trigger] cand(variant, j)),
    ensures m - n <= names.len(),
{
    let idx = |i: int| choose|p: int| 0 <= p < names.len() && names[p] == cand(variant, (n + i) as nat);
    assert forall|i: int| 0 <= i < m - n implies 0 <= #[trigger] idx(i) < names.len() by {
        assert(names.contains(cand(variant, (n + i) as nat)));
    }
    assert forall|i: int, j: int| 0 <= i < j < m - n implies #[trigger] idx(i) != #[trigger] idx(j) by {
        assert(names.contains(cand(variant, (n + i) as nat)));
        assert(names.contains(cand(variant, (n + j) as nat)));
        if idx(i) == idx(j) { lemma_cand_injective(variant, (n + i) as nat, (n + j) as nat); }
    }
    lemma_pigeonhole(m - n, names.len() as int, idx);
}
