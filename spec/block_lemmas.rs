// block_lemmas.rs — quantifier blocks as sets of bound keys (used by C17 and C07).

/// p depends only on the values of the assignment (not on the map's domain)
pub open spec fn ext_pred(p: APred) -> bool {
    forall|s1: Asg, s2: Asg| (forall|k: VKey| s1[k] == s2[k]) ==> #[trigger] p(s1) == #[trigger] p(s2)
}

pub proof fn lemma_variant_refl(s: Asg)
    ensures variant(s, s, Seq::<Variable>::empty()),
{
    assert forall|k: VKey| !bound_by(Seq::<Variable>::empty(), k) by {}
}

/// a block of like quantifiers means: for all / for some assignment that differs from s only on the
/// bound keys and gives each of them a value of its sort
pub proof fn lemma_quant_set(q: Quantifier, vars: Seq<Variable>, p: APred, s: Asg)
    requires ext_pred(p),
    ensures quant_pred(q, vars, p, s) == quant_set(q, vars, p, s),
    decreases vars.len(),
{
    if vars.len() == 0 {
        assert forall|k: VKey| !bound_by(vars, k) by {}
        assert(variant(s, s, vars));
        assert forall|s2: Asg| variant(s2, s, vars) implies #[trigger] p(s2) == p(s) by {
            assert forall|k: VKey| s2[k] == s[k] by { assert(!bound_by(vars, k)); }
        }
    } else {
        let v = vars[0];
        let kv = vkey(v);
        let rest = vars.drop_first();
        assert forall|x: Val| quant_pred(q, rest, p, #[trigger] s.insert(kv, x)) == quant_set(q, rest, p, s.insert(kv, x)) by {
            lemma_quant_set(q, rest, p, s.insert(kv, x));
        }
        // variants of s.insert(kv,x) over rest  <->  variants of s over vars with value x at kv (when kv not rebound)
        assert forall|x: Val, s2: Asg| in_sort(x, v.sort) && variant(s2, #[trigger] s.insert(kv, x), rest) implies #[trigger] variant(s2, s, vars) by {
            assert forall|k: VKey| !bound_by(vars, k) implies #[trigger] s2[k] == s[k] by { lemma_bound_by_tail(vars, k); }
            assert forall|k: VKey| bound_by(vars, k) implies in_sort(#[trigger] s2[k], k.1) by { lemma_bound_by_tail(vars, k); }
        }
        assert forall|s2: Asg| variant(s2, s, vars) implies #[trigger] variant(s2, s.insert(kv, s2[kv]), rest) && in_sort(s2[kv], v.sort) by {
            assert(bound_by(vars, kv)) by { assert(vkey(vars[0]) == kv); }
            assert forall|k: VKey| !bound_by(rest, k) implies #[trigger] s2[k] == s.insert(kv, s2[kv])[k] by { lemma_bound_by_tail(vars, k); }
            assert forall|k: VKey| bound_by(rest, k) implies in_sort(#[trigger] s2[k], k.1) by { lemma_bound_by_tail(vars, k); }
        }
        match q {
            Quantifier::Forall => {
                if quant_pred(q, vars, p, s) {
                    assert forall|s2: Asg| variant(s2, s, vars) implies #[trigger] p(s2) by {
                        let x = s2[kv];
                        assert(variant(s2, s.insert(kv, x), rest));
                        assert(quant_pred(q, rest, p, s.insert(kv, x)));
                    }
                }
                if quant_set(q, vars, p, s) {
                    assert forall|x: Val| in_sort(x, v.sort) implies quant_pred(q, rest, p, #[trigger] s.insert(kv, x)) by {
                        assert forall|s2: Asg| variant(s2, s.insert(kv, x), rest) implies #[trigger] p(s2) by {
                            assert(variant(s2, s, vars));
                        }
                    }
                }
            }
            Quantifier::Exists => {
                if quant_pred(q, vars, p, s) {
                    let x = choose|x: Val| in_sort(x, v.sort) && quant_pred(q, rest, p, #[trigger] s.insert(kv, x));
                    assert(quant_set(q, rest, p, s.insert(kv, x)));
                    let s2 = choose|s2: Asg| variant(s2, s.insert(kv, x), rest) && #[trigger] p(s2);
                    assert(variant(s2, s, vars));
                }
                if quant_set(q, vars, p, s) {
                    let s2 = choose|s2: Asg| variant(s2, s, vars) && #[trigger] p(s2);
                    let x = s2[kv];
                    assert(variant(s2, s.insert(kv, x), rest));
                    assert(quant_set(q, rest, p, s.insert(kv, x)));
                    assert(quant_pred(q, rest, p, s.insert(kv, x)));
                }
            }
        }
    }
}

/// the set-level meaning of a block depends on the variable list only through the set of bound keys
pub proof fn lemma_quant_set_same_keys(q: Quantifier, xs: Seq<Variable>, ys: Seq<Variable>, p: APred, s: Asg)
    requires forall|k: VKey| bound_by(xs, k) == bound_by(ys, k),
    ensures quant_set(q, xs, p, s) == quant_set(q, ys, p, s),
{
    assert forall|s2: Asg| variant(s2, s, xs) == variant(s2, s, ys) by {
        if variant(s2, s, xs) {
            assert forall|k: VKey| !bound_by(ys, k) implies #[trigger] s2[k] == s[k] by { assert(!bound_by(xs, k)); }
            assert forall|k: VKey| bound_by(ys, k) implies in_sort(#[trigger] s2[k], k.1) by { assert(bound_by(xs, k)); }
        }
        if variant(s2, s, ys) {
            assert forall|k: VKey| !bound_by(xs, k) implies #[trigger] s2[k] == s[k] by { assert(!bound_by(ys, k)); }
            assert forall|k: VKey| bound_by(xs, k) implies in_sort(#[trigger] s2[k], k.1) by { assert(bound_by(ys, k)); }
        }
    }
}

pub proof fn lemma_bound_by_concat(a: Seq<Variable>, b: Seq<Variable>, k: VKey)
    ensures bound_by(a + b, k) == (bound_by(a, k) || bound_by(b, k)),
{
    let c = a + b;
    if bound_by(c, k) {
        let i = choose|i: int| 0 <= i < c.len() && #[trigger] vkey(c[i]) == k;
        if i < a.len() { assert(vkey(a[i]) == k); } else { assert(vkey(b[i - a.len()]) == k); }
    }
    if bound_by(a, k) {
        let i = choose|i: int| 0 <= i < a.len() && #[trigger] vkey(a[i]) == k;
        assert(vkey(c[i]) == k);
    }
    if bound_by(b, k) {
        let i = choose|i: int| 0 <= i < b.len() && #[trigger] vkey(b[i]) == k;
        assert(vkey(c[i + a.len()]) == k);
    }
}

pub proof fn lemma_bound_by_single(x: Variable, k: VKey)
    ensures bound_by(seq![x], k) == (vkey(x) == k),
{
    if bound_by(seq![x], k) {
        let i = choose|i: int| 0 <= i < seq![x].len() && #[trigger] vkey(seq![x][i]) == k;
        assert(i == 0);
    }
    if vkey(x) == k { assert(vkey(seq![x][0]) == k); }
}

pub proof fn lemma_bound_by_push(a: Seq<Variable>, x: Variable, k: VKey)
    ensures bound_by(a.push(x), k) == (bound_by(a, k) || vkey(x) == k),
{
    assert(a.push(x) =~= a + seq![x]);
    lemma_bound_by_concat(a, seq![x], k);
    lemma_bound_by_single(x, k);
}

/// satisfaction predicates are extensional
pub proof fn lemma_ht_pred_ext(f: Formula, w: World, m: HT)
    ensures ext_pred(|s2: Asg| ht_sat(f, w, m, s2)),
{
    let p = |s2: Asg| ht_sat(f, w, m, s2);
    assert forall|s1: Asg, s2: Asg| (forall|k: VKey| s1[k] == s2[k]) implies #[trigger] p(s1) == #[trigger] p(s2) by {
        lemma_coin_ht(f, w, m, s1, s2);
    }
}

pub proof fn lemma_cl_pred_ext(f: Formula, m: Interp)
    ensures ext_pred(|s2: Asg| cl_sat(f, m, s2)),
{
    let p = |s2: Asg| cl_sat(f, m, s2);
    assert forall|s1: Asg, s2: Asg| (forall|k: VKey| s1[k] == s2[k]) implies #[trigger] p(s1) == #[trigger] p(s2) by {
        lemma_coin_cl(f, m, s1, s2);
    }
}

/// ht_sat of a quantified formula, as a set-level block
pub proof fn lemma_ht_block(q: Quantifier, vars: Seq<Variable>, body: Formula, w: World, m: HT, s: Asg)
    ensures ht_quant(q, vars, body, w, m, s) == quant_set(q, vars, |s2: Asg| ht_sat(body, w, m, s2), s),
{
    lemma_ht_quant_pred(q, vars, body, w, m, s);
    lemma_ht_pred_ext(body, w, m);
    lemma_quant_set(q, vars, |s2: Asg| ht_sat(body, w, m, s2), s);
}

pub proof fn lemma_cl_block(q: Quantifier, vars: Seq<Variable>, body: Formula, m: Interp, s: Asg)
    ensures cl_quant(q, vars, body, m, s) == quant_set(q, vars, |s2: Asg| cl_sat(body, m, s2), s),
{
    lemma_cl_quant_pred(q, vars, body, m, s);
    lemma_cl_pred_ext(body, m);
    lemma_quant_set(q, vars, |s2: Asg| cl_sat(body, m, s2), s);
}

/// g on the keys bound by gv, s elsewhere
pub open spec fn overwrite(s: Asg, gv: Seq<Variable>, g: Asg) -> Asg
    decreases gv.len(),
{
    if gv.len() == 0 { s } else { overwrite(s, gv.drop_last(), g).insert(vkey(gv.last()), g[vkey(gv.last())]) }
}

pub proof fn lemma_overwrite(s: Asg, gv: Seq<Variable>, g: Asg)
    ensures forall|k: VKey| #[trigger] overwrite(s, gv, g)[k] == (if bound_by(gv, k) { g[k] } else { s[k] }),
    decreases gv.len(),
{
    if gv.len() == 0 {
        assert forall|k: VKey| !bound_by(gv, k) by {}
    } else {
        let pre = gv.drop_last();
        lemma_overwrite(s, pre, g);
        assert(gv =~= pre.push(gv.last()));
        assert forall|k: VKey| #[trigger] overwrite(s, gv, g)[k] == (if bound_by(gv, k) { g[k] } else { s[k] }) by {
            lemma_bound_by_push(pre, gv.last(), k);
            assert(overwrite(s, pre, g)[k] == (if bound_by(pre, k) { g[k] } else { s[k] }));
        }
    }
}


pub proof fn lemma_contains_bound(xs: Seq<Variable>, v: Variable)
    ensures xs.contains(v) == bound_by(xs, vkey(v)),
{
    if xs.contains(v) {
        let i = choose|i: int| 0 <= i < xs.len() && xs[i] == v;
        assert(vkey(xs[i]) == vkey(v));
    }
    if bound_by(xs, vkey(v)) {
        let i = choose|i: int| 0 <= i < xs.len() && #[trigger] vkey(xs[i]) == vkey(v);
        assert(xs[i] == v);
    }
}
