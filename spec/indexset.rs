// indexset.rs — D5: stand-in for indexmap::IndexSet / IndexMap (insertion-ordered, duplicate-free).
// ASSUMPTION: indexmap behaves as specified here (specs written from the indexmap 2.x docs).
// The view of an IndexSet is the sequence of its elements in insertion order.

pub open spec fn seq_insert<T>(s: Seq<T>, x: T) -> Seq<T> {
    if s.contains(x) { s } else { s.push(x) }
}

pub open spec fn seq_extend<T>(s: Seq<T>, t: Seq<T>) -> Seq<T>
    decreases t.len(),
{
    if t.len() == 0 { s } else { seq_extend(seq_insert(s, t[0]), t.drop_first()) }
}

/// removes every occurrence of x, keeping the order of the rest (indexmap: shift_remove)
pub open spec fn seq_remove<T>(s: Seq<T>, x: T) -> Seq<T>
    decreases s.len(),
{
    if s.len() == 0 { s }
    else {
        let r = seq_remove(s.drop_last(), x);
        if s.last() == x { r } else { r.push(s.last()) }
    }
}

pub trait KeyOf<T> { spec fn spec_in(&self, s: Seq<T>) -> bool; }
impl<T> KeyOf<T> for T { open spec fn spec_in(&self, s: Seq<T>) -> bool { s.contains(*self) } }
impl KeyOf<String> for str { open spec fn spec_in(&self, s: Seq<String>) -> bool { exists|i: int| 0 <= i < s.len() && (#[trigger] s[i])@ == self@ } }

pub struct IndexSet<T> { pub v: Vec<T> }

impl<T> View for IndexSet<T> {
    type V = Seq<T>;
    open spec fn view(&self) -> Seq<T> { self.v@ }
}

impl<T> Clone for IndexSet<T> {
    #[verifier::external_body]
    fn clone(&self) -> (r: Self) ensures r == *self { unimplemented!() }
}

impl<T> IndexSet<T> {
    #[verifier::external_body]
    pub fn new() -> (r: Self) ensures r@ == Seq::<T>::empty() { unimplemented!() }

    /// indexmap: `contains<Q>(&self, value: &Q) where Q: Equivalent<T>` — a key may be looked up by a borrowed form (&str for String)
    #[verifier::external_body]
    pub fn contains<Q: ?Sized + KeyOf<T>>(&self, x: &Q) -> (b: bool) ensures b == x.spec_in(self@) { unimplemented!() }

    #[verifier::external_body]
    pub fn insert(&mut self, x: T) -> (b: bool)
        ensures final(self)@ == seq_insert(old(self)@, x), b == !old(self)@.contains(x),
    { unimplemented!() }

    #[verifier::external_body]
    pub fn extend(&mut self, other: IndexSet<T>)
        ensures final(self)@ == seq_extend(old(self)@, other@),
    { unimplemented!() }

    #[verifier::external_body]
    pub fn shift_remove(&mut self, x: &T) -> (b: bool)
        ensures final(self)@ == seq_remove(old(self)@, *x), b == old(self)@.contains(*x),
    { unimplemented!() }

    #[verifier::external_body]
    pub fn is_empty(&self) -> (b: bool) ensures b == (self@.len() == 0) { unimplemented!() }

    /// indexmap: "Returns true if all elements of self are contained in other"
    #[verifier::external_body]
    pub fn is_subset(&self, other: &IndexSet<T>) -> (b: bool) ensures b == (forall|x: T| self@.contains(x) ==> other@.contains(x)) { unimplemented!() }

    #[verifier::external_body]
    pub fn is_superset(&self, other: &IndexSet<T>) -> (b: bool) ensures b == (forall|x: T| other@.contains(x) ==> self@.contains(x)) { unimplemented!() }

    #[verifier::external_body]
    pub fn len(&self) -> (n: usize) ensures n == self@.len() { unimplemented!() }

}

/// indexmap::set::Intersection followed by `.cloned().collect::<Vec<_>>()`: "A lazy iterator producing elements in the intersection of
/// IndexSets", in the order of the first set
pub struct Intersection<'a, T> { pub a: &'a IndexSet<T>, pub b: &'a IndexSet<T> }
pub struct ClonedIntersection<'a, T> { pub a: &'a IndexSet<T>, pub b: &'a IndexSet<T> }
impl<T> IndexSet<T> {
    #[verifier::external_body]
    pub fn intersection<'a>(&'a self, other: &'a IndexSet<T>) -> (r: Intersection<'a, T>)
        ensures r.a@ == self@, r.b@ == other@,
    { unimplemented!() }

    /// indexmap: "Moves all values from other into self, leaving other empty" (values already present are kept once)
    #[verifier::external_body]
    pub fn append(&mut self, other: &mut IndexSet<T>)
        ensures final(self)@ == seq_extend(old(self)@, old(other)@), final(other)@ == Seq::<T>::empty(),
    { unimplemented!() }
}
impl<'a, T> Intersection<'a, T> {
    #[verifier::external_body]
    pub fn cloned(self) -> (r: ClonedIntersection<'a, T>) ensures r.a@ == self.a@, r.b@ == self.b@ { unimplemented!() }
}
impl<'a, T> ClonedIntersection<'a, T> {
    /// the common elements (the clones are structurally equal to the elements, D1)
    #[verifier::external_body]
    pub fn collect(self) -> (r: Vec<T>)
        ensures forall|x: T| r@.contains(x) == (self.a@.contains(x) && self.b@.contains(x)),
    { unimplemented!() }
}

/// indexmap::set::Difference: "A lazy iterator producing elements in the difference of IndexSets", in the order of the first set
pub struct Difference<'a, T> { pub a: &'a IndexSet<T>, pub b: &'a IndexSet<T>, pub pos: Ghost<int> }

impl<T> IndexSet<T> {
    #[verifier::external_body]
    pub fn difference<'a>(&'a self, other: &'a IndexSet<T>) -> (r: Difference<'a, T>)
        ensures r.a@ == self@, r.b@ == other@, r.pos@ == 0,
    { unimplemented!() }
}

impl<'a, T> Difference<'a, T> {
    #[verifier::external_body]
    pub fn next(&mut self) -> (r: Option<&'a T>)
        ensures
            final(self).a@ == old(self).a@, final(self).b@ == old(self).b@,
            r is Some ==> old(self).a@.contains(*r->Some_0) && !old(self).b@.contains(*r->Some_0),
            r is None ==> forall|i: int| old(self).pos@ <= i < old(self).a@.len() ==> old(self).b@.contains(#[trigger] old(self).a@[i]),
            r is Some ==> final(self).pos@ > old(self).pos@,
    { unimplemented!() }
}

impl<T> IndexSet<T> {
    pub fn iter(&self) -> (r: std::slice::Iter<'_, T>)
        ensures r.remaining() == self@.as_ref(), vstd::std_specs::slice::into_iter_elts(r) == r.remaining().unref(), r.decrease() is Some,
    { self.v.iter() }
}

impl<T> IntoIterator for IndexSet<T> {
    type Item = T;
    type IntoIter = std::vec::IntoIter<T>;
    fn into_iter(self) -> (r: std::vec::IntoIter<T>)
        ensures r.remaining() == self@, vstd::std_specs::vec::into_iter_elts(r) == r.remaining(), r.decrease() is Some,
    { self.v.into_iter() }
}

impl<T, const N: usize> From<[T; N]> for IndexSet<T> {
    #[verifier::external_body]
    fn from(a: [T; N]) -> (r: Self)
        ensures r@ == seq_extend(Seq::<T>::empty(), a@), N == 1 ==> r@ == seq![a@[0]],   // second clause follows from the first (lemma_seq_extend_single)
    { unimplemented!() }
}

impl<T> IndexSet<T> {
    /// IndexSet::from_iter(vec)
    #[verifier::external_body]
    pub fn from_iter(v: Vec<T>) -> (r: Self) ensures r@ == seq_extend(Seq::<T>::empty(), v@) { unimplemented!() }
}

/// indexmap: "Two sets are equal if they contain the same elements, order does not matter"
pub open spec fn same_elements<T>(a: Seq<T>, b: Seq<T>) -> bool { forall|x: T| a.contains(x) == b.contains(x) }

impl<T> PartialEq for IndexSet<T> {
    #[verifier::external_body]
    fn eq(&self, other: &Self) -> (b: bool) ensures b == same_elements(self@, other@) { unimplemented!() }
}

/// Rust allocation limit: a Vec (hence an IndexSet) of a non-zero-sized element type holds at most isize::MAX elements
pub axiom fn axiom_indexset_len<T>(s: &IndexSet<T>)
    ensures s@.len() <= isize::MAX;
