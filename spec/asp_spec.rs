// asp_spec.rs (inside `mod asp`) — spec mirrors of the predicate queries on programs.

pub open spec fn spec_atom_pred(a: Atom) -> Predicate { Predicate { symbol: a.predicate_symbol, arity: a.terms@.len() as usize } }

pub open spec fn spec_af_preds(f: AtomicFormula) -> Seq<Predicate> {
    match f {
        AtomicFormula::Literal(l) => seq![spec_atom_pred(l.atom)],
        AtomicFormula::Comparison(_) => Seq::empty(),
    }
}

pub open spec fn spec_body_preds(acc: Seq<Predicate>, fs: Seq<AtomicFormula>, n: int) -> Seq<Predicate>
    decreases n,
{
    if n <= 0 { acc } else { seq_extend(spec_body_preds(acc, fs, n - 1), spec_af_preds(fs[n - 1])) }
}

pub open spec fn spec_head_pred(h: Head) -> Option<Predicate> {
    match h {
        Head::Basic(a) => Some(spec_atom_pred(a)),
        Head::Choice(a) => Some(spec_atom_pred(a)),
        Head::Falsity => None,
    }
}

pub open spec fn spec_rule_preds(r: Rule) -> Seq<Predicate> {
    let start = match spec_head_pred(r.head) { Some(p) => seq![p], None => Seq::empty() };
    seq_extend(start, spec_body_preds(Seq::empty(), r.body.formulas@, r.body.formulas@.len() as int))
}

pub open spec fn spec_program_preds(rs: Seq<Rule>, n: int) -> Seq<Predicate>
    decreases n,
{
    if n <= 0 { Seq::empty() } else { seq_extend(spec_program_preds(rs, n - 1), spec_rule_preds(rs[n - 1])) }
}

pub open spec fn spec_program_head_preds(rs: Seq<Rule>, n: int) -> Seq<Predicate>
    decreases n,
{
    if n <= 0 { Seq::empty() } else {
        match spec_head_pred(rs[n - 1].head) {
            Some(p) => seq_insert(spec_program_head_preds(rs, n - 1), p),
            None => spec_program_head_preds(rs, n - 1),
        }
    }
}

pub open spec fn lit_pred_is(f: AtomicFormula, p: Predicate) -> bool {
    match f { AtomicFormula::Literal(l) => spec_atom_pred(l.atom) == p, _ => false }
}

/// p occurs in the program: in some rule's head or as the predicate of some body literal
pub open spec fn occurs_in_rule(r: Rule, p: Predicate) -> bool {
    spec_head_pred(r.head) == Some(p)
    || exists|i: int| 0 <= i < r.body.formulas@.len() && lit_pred_is(#[trigger] r.body.formulas@[i], p)
}
pub open spec fn occurs_in_program(prog: Program, p: Predicate) -> bool {
    exists|i: int| 0 <= i < prog.rules@.len() && occurs_in_rule(#[trigger] prog.rules@[i], p)
}

pub proof fn lemma_body_preds(acc: Seq<Predicate>, fs: Seq<AtomicFormula>, n: int, p: Predicate)
    requires 0 <= n <= fs.len(),
    ensures spec_body_preds(acc, fs, n).contains(p) == (acc.contains(p)
        || exists|i: int| 0 <= i < n && lit_pred_is(#[trigger] fs[i], p)),
    decreases n,
{
    if n > 0 {
        lemma_body_preds(acc, fs, n - 1, p);
        lemma_seq_extend_contains(spec_body_preds(acc, fs, n - 1), spec_af_preds(fs[n - 1]), p);
        let last = spec_af_preds(fs[n - 1]);
        match fs[n - 1] {
            AtomicFormula::Literal(l) => {
                assert(last[0] == spec_atom_pred(l.atom));
                if last.contains(p) { let j = choose|j: int| 0 <= j < last.len() && last[j] == p; assert(j == 0); }
            }
            _ => {}
        }
        if exists|i: int| 0 <= i < n && lit_pred_is(#[trigger] fs[i], p) {
            let i = choose|i: int| 0 <= i < n && lit_pred_is(#[trigger] fs[i], p);
            if i < n - 1 { assert(exists|i: int| 0 <= i < n - 1 && lit_pred_is(#[trigger] fs[i], p)); }
        }
        if exists|i: int| 0 <= i < n - 1 && lit_pred_is(#[trigger] fs[i], p) {
            let i = choose|i: int| 0 <= i < n - 1 && lit_pred_is(#[trigger] fs[i], p);
            assert(0 <= i < n && lit_pred_is(fs[i], p));
        }
        if last.contains(p) { assert(0 <= n - 1 < n && lit_pred_is(fs[n - 1], p)); }
    }
}

pub proof fn lemma_rule_preds(r: Rule, p: Predicate)
    ensures spec_rule_preds(r).contains(p) == occurs_in_rule(r, p),
{
    let start = match spec_head_pred(r.head) { Some(q) => seq![q], None => Seq::<Predicate>::empty() };
    let fs = r.body.formulas@;
    lemma_seq_extend_contains(start, spec_body_preds(Seq::empty(), fs, fs.len() as int), p);
    lemma_body_preds(Seq::empty(), fs, fs.len() as int, p);
    match spec_head_pred(r.head) {
        Some(q) => {
            assert(start[0] == q);
            if start.contains(p) { let j = choose|j: int| 0 <= j < start.len() && start[j] == p; assert(j == 0); }
        }
        None => {}
    }
}

/// Program::predicates() contains p  iff  p occurs in the program
pub proof fn lemma_program_preds(prog: Program, n: int, p: Predicate)
    requires 0 <= n <= prog.rules@.len(),
    ensures spec_program_preds(prog.rules@, n).contains(p) == (exists|i: int| 0 <= i < n && occurs_in_rule(#[trigger] prog.rules@[i], p)),
    decreases n,
{
    let rs = prog.rules@;
    if n > 0 {
        lemma_program_preds(prog, n - 1, p);
        lemma_rule_preds(rs[n - 1], p);
        lemma_seq_extend_contains(spec_program_preds(rs, n - 1), spec_rule_preds(rs[n - 1]), p);
        if exists|i: int| 0 <= i < n && occurs_in_rule(#[trigger] rs[i], p) {
            let i = choose|i: int| 0 <= i < n && occurs_in_rule(#[trigger] rs[i], p);
            if i < n - 1 { assert(exists|i: int| 0 <= i < n - 1 && occurs_in_rule(#[trigger] rs[i], p)); }
        }
        if exists|i: int| 0 <= i < n - 1 && occurs_in_rule(#[trigger] rs[i], p) {
            let i = choose|i: int| 0 <= i < n - 1 && occurs_in_rule(#[trigger] rs[i], p);
            assert(0 <= i < n && occurs_in_rule(rs[i], p));
        }
        if occurs_in_rule(rs[n - 1], p) { assert(0 <= n - 1 < n && occurs_in_rule(rs[n - 1], p)); }
    }
}
