// natfinal_spec.rs — C08: a rule accepted by the natural translation is translated into a closed sentence that is true in <H,T> (H included in T)
// exactly when every ground instance of the rule is satisfied — the same meaning tau* gives it (rule_ok, C01).  Hand-written SPEC code only.

// ---- finite lists of the variables of a rule (needed to build assignments) ----------------------------------------------------
pub open spec fn term_keys(t: asp::Term) -> Seq<VKey>
    decreases t,
{
    match t {
        asp::Term::PrecomputedTerm(_) => Seq::empty(),
        asp::Term::Variable(x) => seq![asp_var_key(x)],
        asp::Term::UnaryOperation { op, arg } => term_keys(*arg),
        asp::Term::BinaryOperation { op, lhs, rhs } => term_keys(*lhs) + term_keys(*rhs),
    }
}
pub proof fn lemma_term_keys(t: asp::Term, k: VKey)
    ensures asp_in_term(t, k) ==> term_keys(t).contains(k), term_keys(t).contains(k) ==> k.1 == Sort::General,
    decreases t,
{
    match t {
        asp::Term::PrecomputedTerm(_) => {}
        asp::Term::Variable(x) => { assert(seq![asp_var_key(x)][0] == asp_var_key(x)); }
        asp::Term::UnaryOperation { op, arg } => { lemma_term_keys(*arg, k); }
        asp::Term::BinaryOperation { op, lhs, rhs } => {
            lemma_term_keys(*lhs, k);
            lemma_term_keys(*rhs, k);
            let a = term_keys(*lhs);
            let b = term_keys(*rhs);
            if a.contains(k) { let i = choose|i: int| 0 <= i < a.len() && a[i] == k; assert((a + b)[i] == k); }
            if b.contains(k) { let i = choose|i: int| 0 <= i < b.len() && b[i] == k; assert((a + b)[a.len() + i] == k); }
            if (a + b).contains(k) { let i = choose|i: int| 0 <= i < (a + b).len() && (a + b)[i] == k; if i < a.len() { assert(a[i] == k); } else { assert(b[i - a.len()] == k); } }
        }
    }
}
pub open spec fn terms_keys(ts: Seq<asp::Term>, n: int) -> Seq<VKey>
    decreases n,
{
    if n <= 0 { Seq::empty() } else { terms_keys(ts, n - 1) + term_keys(ts[n - 1]) }
}
pub proof fn lemma_terms_keys(ts: Seq<asp::Term>, n: int, k: VKey)
    requires 0 <= n <= ts.len(),
    ensures (exists|i: int| 0 <= i < n && #[trigger] asp_in_term(ts[i], k)) ==> terms_keys(ts, n).contains(k), terms_keys(ts, n).contains(k) ==> k.1 == Sort::General,
    decreases n,
{
    if n > 0 {
        lemma_terms_keys(ts, n - 1, k);
        lemma_term_keys(ts[n - 1], k);
        let a = terms_keys(ts, n - 1);
        let b = term_keys(ts[n - 1]);
        if a.contains(k) { let i = choose|i: int| 0 <= i < a.len() && a[i] == k; assert((a + b)[i] == k); }
        if b.contains(k) { let i = choose|i: int| 0 <= i < b.len() && b[i] == k; assert((a + b)[a.len() + i] == k); }
        if (a + b).contains(k) { let i = choose|i: int| 0 <= i < (a + b).len() && (a + b)[i] == k; if i < a.len() { assert(a[i] == k); } else { assert(b[i - a.len()] == k); } }
        if exists|i: int| 0 <= i < n && #[trigger] asp_in_term(ts[i], k) {
            let i = choose|i: int| 0 <= i < n && #[trigger] asp_in_term(ts[i], k);
            if i < n - 1 { assert(a.contains(k)); } else { assert(b.contains(k)); }
        }
    }
}
pub open spec fn af_keys(f: asp::AtomicFormula) -> Seq<VKey> {
    match f {
        asp::AtomicFormula::Literal(l) => terms_keys(l.atom.terms@, l.atom.terms@.len() as int),
        asp::AtomicFormula::Comparison(c) => term_keys(c.lhs) + term_keys(c.rhs),
    }
}
pub open spec fn body_keys(fs: Seq<asp::AtomicFormula>, n: int) -> Seq<VKey>
    decreases n,
{
    if n <= 0 { Seq::empty() } else { body_keys(fs, n - 1) + af_keys(fs[n - 1]) }
}
pub open spec fn rule_keys(r: asp::Rule) -> Seq<VKey> {
    terms_keys(head_args(r.head), head_args(r.head).len() as int) + body_keys(r.body.formulas@, r.body.formulas@.len() as int)
}

pub proof fn lemma_concat_contains<T>(a: Seq<T>, b: Seq<T>, k: T)
    ensures (a + b).contains(k) == (a.contains(k) || b.contains(k)),
{
    if a.contains(k) { let i = choose|i: int| 0 <= i < a.len() && a[i] == k; assert((a + b)[i] == k); }
    if b.contains(k) { let i = choose|i: int| 0 <= i < b.len() && b[i] == k; assert((a + b)[a.len() + i] == k); }
    if (a + b).contains(k) { let i = choose|i: int| 0 <= i < (a + b).len() && (a + b)[i] == k; if i < a.len() { assert(a[i] == k); } else { assert(b[i - a.len()] == k); } }
}

pub proof fn lemma_af_keys(f: asp::AtomicFormula, k: VKey)
    ensures af_in(f, k) ==> af_keys(f).contains(k), af_keys(f).contains(k) ==> k.1 == Sort::General,
{
    match f {
        asp::AtomicFormula::Literal(l) => { lemma_terms_keys(l.atom.terms@, l.atom.terms@.len() as int, k); }
        asp::AtomicFormula::Comparison(c) => { lemma_term_keys(c.lhs, k); lemma_term_keys(c.rhs, k); lemma_concat_contains(term_keys(c.lhs), term_keys(c.rhs), k); }
    }
}
pub proof fn lemma_body_keys(fs: Seq<asp::AtomicFormula>, n: int, k: VKey)
    requires 0 <= n <= fs.len(),
    ensures (exists|i: int| 0 <= i < n && #[trigger] af_in(fs[i], k)) ==> body_keys(fs, n).contains(k), body_keys(fs, n).contains(k) ==> k.1 == Sort::General,
    decreases n,
{
    if n > 0 {
        lemma_body_keys(fs, n - 1, k);
        lemma_af_keys(fs[n - 1], k);
        lemma_concat_contains(body_keys(fs, n - 1), af_keys(fs[n - 1]), k);
        if exists|i: int| 0 <= i < n && #[trigger] af_in(fs[i], k) {
            let i = choose|i: int| 0 <= i < n && #[trigger] af_in(fs[i], k);
            if i < n - 1 { assert(body_keys(fs, n - 1).contains(k)); }
        }
    }
}
pub proof fn lemma_rule_keys(r: asp::Rule, k: VKey)
    ensures rule_in(r, k) ==> rule_keys(r).contains(k), rule_keys(r).contains(k) ==> k.1 == Sort::General,
{
    let ht = head_args(r.head);
    lemma_terms_keys(ht, ht.len() as int, k);
    lemma_body_keys(r.body.formulas@, r.body.formulas@.len() as int, k);
    lemma_concat_contains(terms_keys(ht, ht.len() as int), body_keys(r.body.formulas@, r.body.formulas@.len() as int), k);
    if head_in(r.head, k) { assert(terms_in(ht, k)); }
}

// ---- assignments -------------------------------------------------------------------------------------------------------------
/// s with the natural key of every listed program variable set to the value g gives that variable
pub open spec fn nat_asg(s: Asg, keys: Seq<VKey>, iv: Seq<String>, g: Asg) -> Asg
    decreases keys.len(),
{
    if keys.len() == 0 { s } else { nat_asg(s, keys.drop_last(), iv, g).insert(nkey(iv, keys.last().0), g[keys.last()]) }
}
pub proof fn lemma_nat_asg(s: Asg, keys: Seq<VKey>, iv: Seq<String>, g: Asg)
    requires forall|i: int| 0 <= i < keys.len() ==> (#[trigger] keys[i]).1 == Sort::General,
    ensures forall|i: int| 0 <= i < keys.len() ==> nat_asg(s, keys, iv, g)[nkey(iv, (#[trigger] keys[i]).0)] == g[keys[i]],
    decreases keys.len(),
{
    if keys.len() > 0 {
        let pre = keys.drop_last();
        lemma_nat_asg(s, pre, iv, g);
        let last = keys.last();
        assert forall|i: int| 0 <= i < keys.len() implies nat_asg(s, keys, iv, g)[nkey(iv, (#[trigger] keys[i]).0)] == g[keys[i]] by {
            if i < keys.len() - 1 {
                assert(pre[i] == keys[i]);
                if nkey(iv, keys[i].0) == nkey(iv, last.0) { assert(keys[i].0 == last.0); assert(keys[i] == last); }
            }
        }
    }
}
/// g0 with every listed program variable set to the value the natural assignment s gives it
pub open spec fn prog_asg(g0: Asg, keys: Seq<VKey>, iv: Seq<String>, s: Asg) -> Asg
    decreases keys.len(),
{
    if keys.len() == 0 { g0 } else { prog_asg(g0, keys.drop_last(), iv, s).insert(keys.last(), nval(s, iv, keys.last().0)) }
}
pub proof fn lemma_prog_asg(g0: Asg, keys: Seq<VKey>, iv: Seq<String>, s: Asg)
    ensures forall|i: int| 0 <= i < keys.len() ==> prog_asg(g0, keys, iv, s)[#[trigger] keys[i]] == nval(s, iv, keys[i].0),
    decreases keys.len(),
{
    if keys.len() > 0 {
        let pre = keys.drop_last();
        lemma_prog_asg(g0, pre, iv, s);
        assert forall|i: int| 0 <= i < keys.len() implies prog_asg(g0, keys, iv, s)[#[trigger] keys[i]] == nval(s, iv, keys[i].0) by {
            if i < keys.len() - 1 { assert(pre[i] == keys[i]); }
        }
    }
}

// ---- instances that give an integer variable a non-integer value are satisfied trivially ---------------------------------------
pub proof fn lemma_nonint_no_int_vals(t: asp::Term, g: Asg, k: VKey, i: int)
    requires asp_in_term(t, k), !(g[k] is Int),
    ensures !in_vals(t, g, Val::Int(i)),
    decreases t,
{
    match t {
        asp::Term::PrecomputedTerm(_) => {}
        asp::Term::Variable(x) => {}
        asp::Term::UnaryOperation { op, arg } => {
            assert forall|j: int| #[trigger] tr1(j) implies !in_vals(*arg, g, Val::Int(j)) by { lemma_nonint_no_int_vals(*arg, g, k, j); }
        }
        asp::Term::BinaryOperation { op, lhs, rhs } => {
            if asp_in_term(*lhs, k) {
                assert forall|x: int, y: int| #[trigger] tr2(x, y) implies !in_vals(*lhs, g, Val::Int(x)) by { lemma_nonint_no_int_vals(*lhs, g, k, x); }
                assert forall|x: int, y: int, z: int| #[trigger] tr3(x, y, z) implies !in_vals(*lhs, g, Val::Int(x)) by { lemma_nonint_no_int_vals(*lhs, g, k, x); }
                assert forall|x: int, y: int, q: int, r: int| #[trigger] tr4(x, y, q, r) implies !in_vals(*lhs, g, Val::Int(x)) by { lemma_nonint_no_int_vals(*lhs, g, k, x); }
            } else {
                assert forall|x: int, y: int| #[trigger] tr2(x, y) implies !in_vals(*rhs, g, Val::Int(y)) by { lemma_nonint_no_int_vals(*rhs, g, k, y); }
                assert forall|x: int, y: int, z: int| #[trigger] tr3(x, y, z) implies !in_vals(*rhs, g, Val::Int(y)) by { lemma_nonint_no_int_vals(*rhs, g, k, y); }
                assert forall|x: int, y: int, q: int, r: int| #[trigger] tr4(x, y, q, r) implies !in_vals(*rhs, g, Val::Int(y)) by { lemma_nonint_no_int_vals(*rhs, g, k, y); }
            }
        }
    }
}
pub proof fn lemma_op_no_vals(t: asp::Term, g: Asg, k: VKey, v: Val)
    requires is_op(t), asp_in_term(t, k), !(g[k] is Int),
    ensures !in_vals(t, g, v),
{
    if in_vals(t, g, v) { lemma_op_vals_int(t, g, v); lemma_nonint_no_int_vals(t, g, k, v->Int_0); }
}

pub proof fn lemma_iv_trivial(r: asp::Rule, iv: Seq<String>, w: World, m: HT, g: Asg, n: Seq<char>)
    requires int_vars_ok(iv, r), is_int_var(iv, n), !(g[(n, Sort::General)] is Int),
    ensures inst_sat(r, w, m, g),
{
    let k = (n, Sort::General);
    let body = r.body.formulas@;
    assert(iv_just(r, n));
    if exists|t: asp::Term| #[trigger] top_term(r, t) && is_op(t) && asp_in_term(t, k) {
        let t = choose|t: asp::Term| #[trigger] top_term(r, t) && is_op(t) && asp_in_term(t, k);
        assert forall|v: Val| !in_vals(t, g, v) by { lemma_op_no_vals(t, g, k, v); }
        if head_args(r.head).contains(t) {
            let ts = head_args(r.head);
            let i = choose|i: int| 0 <= i < ts.len() && ts[i] == t;
            assert forall|vs: Seq<Val>| !#[trigger] tuple_vals(ts, g, vs) by { if tuple_vals(ts, g, vs) { assert(tv_at(ts, g, vs, i)); } }
            assert forall|w2: World| #[trigger] head_sat(r.head, w2, m, g) by {}
        } else {
            let i = choose|i: int| 0 <= i < body.len() && #[trigger] af_top(body[i], t);
            assert forall|w2: World| !#[trigger] af_sat(body[i], w2, m, g) by {
                match body[i] {
                    asp::AtomicFormula::Literal(l) => {
                        let ts = l.atom.terms@;
                        let q = choose|q: int| 0 <= q < ts.len() && ts[q] == t;
                        assert forall|vs: Seq<Val>| !#[trigger] tuple_vals(ts, g, vs) by { if tuple_vals(ts, g, vs) { assert(tv_at(ts, g, vs, q)); } }
                    }
                    asp::AtomicFormula::Comparison(c) => {}
                }
            }
            assert forall|w2: World| !#[trigger] body_sat(body, w2, m, g) by { assert(!af_sat(body[i], w2, m, g)); }
        }
    } else {
        let i = choose|i: int| 0 <= i < body.len() && #[trigger] is_interval_eq(body[i]) && asp_in_term(body[i]->Comparison_0.lhs, k);
        let c = body[i]->Comparison_0;
        assert(!cmp_sat(c, g)) by {
            if cmp_sat(c, g) {
                let (a, b) = choose|a: Val, b: Val| #[trigger] trv2(a, b) && in_vals(c.lhs, g, a) && in_vals(c.rhs, g, b) && asp_rel(c.relation, a, b);
                lemma_op_vals_int(c.rhs, g, b);
                lemma_nonint_no_int_vals(c.lhs, g, k, b->Int_0);
            }
        }
        assert forall|w2: World| !#[trigger] body_sat(body, w2, m, g) by { assert(!af_sat(body[i], w2, m, g)); }
    }
}

/// the integer variables of the rule make every argument built with an operation integer-closed
pub proof fn lemma_closed_from_iv(r: asp::Rule, iv: Seq<String>)
    requires int_vars_ok(iv, r),
    ensures body_closed(r.body.formulas@, iv), head_closed(head_args(r.head), iv),
{
    assert forall|t: asp::Term| #[trigger] top_term(r, t) implies arith_closed(t, iv) by {
        if is_op(t) { assert forall|k: VKey| #[trigger] asp_in_term(t, k) implies is_int_var(iv, k.0) by { lemma_asp_keys_general(t, k); assert(k == (k.0, Sort::General)); assert(iv_just(r, k.0)); } }
    }
    let body = r.body.formulas@;
    assert forall|i: int| 0 <= i < body.len() implies #[trigger] af_closed(body[i], iv) by {
        assert forall|t: asp::Term| #[trigger] af_top(body[i], t) implies arith_closed(t, iv) by { assert(top_term(r, t)); }
    }
    let ts = head_args(r.head);
    assert forall|i: int| 0 <= i < ts.len() implies #[trigger] arith_closed(ts[i], iv) by { assert(ts.contains(ts[i])); assert(top_term(r, ts[i])); }
}

// ---- free variables of a translated head ---------------------------------------------------------------------------------------
pub proof fn lemma_nat_head_fv(hf: Formula, terms: Seq<asp::Term>, choice: bool, p: Seq<char>, iv: Seq<String>, names: Seq<String>, fs: Seq<Formula>, concl: Formula, k: VKey)
    requires nat_head_wit(hf, terms, choice, p, iv, names, fs, concl), head_closed(terms, iv), fv(hf, k),
    ensures terms_in(terms, (k.0, Sort::General)) && k == nkey(iv, k.0),
{
    let args = head_args_seq(terms, iv, names);
    let pos = nonreg_positions(terms, terms.len() as int);
    lemma_nonreg_positions(terms, terms.len() as int);
    lemma_ivars_bound(names, k);
    reveal_with_fuel(fv, 3);
    let conds = spec_conjoin(fs);
    // k is free in the conclusion or in the conditions, and is not one of the N's
    let in_concl = fv(concl, k);
    let in_conds = names.len() > 0 && fv(conds, k);
    assert(in_concl || in_conds);
    assert(!bound_by(ivars(names), k)) by { if names.len() == 0 { assert(!bound_by(ivars(names), k)); } }
    if in_concl {
        lemma_concl(concl, choice, p, args, World::Here, HT { h: |a: Seq<char>, b: Seq<Val>| false, t: |a: Seq<char>, b: Seq<Val>| false, fc: |a: Seq<char>, b: Sort| Val::Inf }, Map::empty());
        let i = choose|i: int| 0 <= i < args.len() && #[trigger] in_gen(args[i], k);
        lemma_rank(terms, i);
        if spec_reg1(terms[i]) {
            assert(arith_closed(terms[i], iv));
            lemma_p2f_fv(terms[i], iv, spec_p2f(terms[i], iv)->Some_0, k);
        } else {
            assert(k == int_key(names[nrank(terms, i)]));
        }
    } else {
        lemma_conjoin_fv(fs, k);
        let q = choose|q: int| 0 <= q < fs.len() && #[trigger] fv(fs[q], k);
        let i = pos[q];
        assert(cmp2(lo_of(terms, iv, i), Relation::LessEqual, nvar_term(names[q]), Relation::LessEqual, hi_of(terms, iv, i), fs[q]));
        lemma_cmp2_fv(lo_of(terms, iv, i), Relation::LessEqual, nvar_term(names[q]), Relation::LessEqual, hi_of(terms, iv, i), fs[q], k);
        let t = terms[i];
        let t2 = *t->BinaryOperation_lhs;
        let t3 = *t->BinaryOperation_rhs;
        assert(arith_closed(t, iv) && is_op(t));
        assert forall|kk: VKey| #[trigger] asp_in_term(t2, kk) implies is_int_var(iv, kk.0) by { assert(asp_in_term(t, kk)); }
        assert forall|kk: VKey| #[trigger] asp_in_term(t3, kk) implies is_int_var(iv, kk.0) by { assert(asp_in_term(t, kk)); }
        if in_gen(nvar_term(names[q]), k) { assert(k == int_key(names[q])); }
        if in_gen(lo_of(terms, iv, i), k) { lemma_p2f_fv(t2, iv, lo_of(terms, iv, i), k); assert(asp_in_term(t, (k.0, Sort::General))); }
        if in_gen(hi_of(terms, iv, i), k) { lemma_p2f_fv(t3, iv, hi_of(terms, iv, i), k); assert(asp_in_term(t, (k.0, Sort::General))); }
    }
}

// ---- the matrix  body -> head  under corresponding assignments ------------------------------------------------------------------
pub open spec fn nat_head_of(hf: Formula, h: asp::Head, iv: Seq<String>) -> bool {
    match h {
        asp::Head::Basic(a) => nat_head_shape(hf, a.terms@, false, a.predicate_symbol@, iv),
        asp::Head::Choice(a) => nat_head_shape(hf, a.terms@, true, a.predicate_symbol@, iv),
        asp::Head::Falsity => is_falsity(hf),
    }
}

pub proof fn lemma_nat_head_of(hf: Formula, h: asp::Head, iv: Seq<String>, w: World, m: HT, g: Asg, s: Asg)
    requires nat_head_of(hf, h, iv), head_closed(head_args(h), iv), corr(g, s, iv, |k: VKey| head_in(h, k)), ht_wf(m),
    ensures ht_sat(hf, w, m, s) == head_sat(h, w, m, g),
{
    match h {
        asp::Head::Falsity => {}
        _ => {
            let terms = head_args(h);
            let p = head_pred(h);
            let choice = h is Choice;
            let (names, fs, concl) = choose|names: Seq<String>, fs: Seq<Formula>, concl: Formula| #[trigger] nat_head_wit(hf, terms, choice, p, iv, names, fs, concl);
            assert(corr(g, s, iv, |k: VKey| terms_in(terms, k)));
            lemma_nat_head(hf, terms, choice, p, iv, names, fs, concl, w, m, g, s);
        }
    }
}

pub proof fn lemma_nat_head_of_fv(hf: Formula, h: asp::Head, iv: Seq<String>, k: VKey)
    requires nat_head_of(hf, h, iv), head_closed(head_args(h), iv), fv(hf, k),
    ensures head_in(h, (k.0, Sort::General)) && k == nkey(iv, k.0),
{
    match h {
        asp::Head::Falsity => {}
        _ => {
            let terms = head_args(h);
            let p = head_pred(h);
            let choice = h is Choice;
            let (names, fs, concl) = choose|names: Seq<String>, fs: Seq<Formula>, concl: Formula| #[trigger] nat_head_wit(hf, terms, choice, p, iv, names, fs, concl);
            lemma_nat_head_fv(hf, terms, choice, p, iv, names, fs, concl, k);
        }
    }
}

/// body_n -> head_n: the shape natural_rule closes universally
pub open spec fn nat_matrix(mx: Formula, r: asp::Rule, iv: Seq<String>) -> bool {
    is_imp(mx) && nat_body_shape(imp_lhs(mx), r.body.formulas@, iv) && nat_head_of(imp_rhs(mx), r.head, iv)
}

pub proof fn lemma_nat_matrix(mx: Formula, r: asp::Rule, iv: Seq<String>, w: World, m: HT, g: Asg, s: Asg)
    requires nat_matrix(mx, r, iv), int_vars_ok(iv, r), corr(g, s, iv, |k: VKey| rule_in(r, k)), ht_wf(m),
    ensures ht_sat(mx, w, m, s) == inst_sat(r, w, m, g),
{
    lemma_closed_from_iv(r, iv);
    let body = r.body.formulas@;
    assert(corr(g, s, iv, |k: VKey| body_in(body, k)));
    assert(corr(g, s, iv, |k: VKey| head_in(r.head, k)));
    lemma_nat_body(imp_lhs(mx), body, iv, w, m, g, s);
    lemma_nat_body(imp_lhs(mx), body, iv, World::There, m, g, s);
    lemma_nat_head_of(imp_rhs(mx), r.head, iv, w, m, g, s);
    lemma_nat_head_of(imp_rhs(mx), r.head, iv, World::There, m, g, s);
}

pub proof fn lemma_nat_matrix_fv(mx: Formula, r: asp::Rule, iv: Seq<String>, k: VKey)
    requires nat_matrix(mx, r, iv), int_vars_ok(iv, r), fv(mx, k),
    ensures rule_in(r, (k.0, Sort::General)) && k == nkey(iv, k.0),
{
    lemma_closed_from_iv(r, iv);
    if fv(imp_lhs(mx), k) { lemma_nat_body_fv(imp_lhs(mx), r.body.formulas@, iv, k); }
    else { lemma_nat_head_of_fv(imp_rhs(mx), r.head, iv, k); }
}

/// C08: the universal closure of the matrix has the meaning of the rule
pub proof fn lemma_nat_rule(f: Formula, mx: Formula, r: asp::Rule, iv: Seq<String>)
    requires nat_matrix(mx, r, iv), int_vars_ok(iv, r), f == spec_ucl(mx),
    ensures rule_ok(f, r),
{
    let keys = rule_keys(r);
    assert forall|i: int| 0 <= i < keys.len() implies (#[trigger] keys[i]).1 == Sort::General by { assert(keys.contains(keys[i])); lemma_rule_keys(r, keys[i]); }
    assert forall|w: World, m: HT, s: Asg| ht_wf(m) implies #[trigger] ht_sat(f, w, m, s) == rule_sat(r, w, m) by {
        if ht_sat(f, w, m, s) {
            assert forall|g: Asg| #[trigger] inst_sat(r, w, m, g) by {
                if exists|k: VKey| rule_in(r, k) && is_int_var(iv, k.0) && !(#[trigger] g[k] is Int) {
                    let k = choose|k: VKey| rule_in(r, k) && is_int_var(iv, k.0) && !(#[trigger] g[k] is Int);
                    lemma_rule_keys(r, k);
                    assert(k == (k.0, Sort::General));
                    lemma_iv_trivial(r, iv, w, m, g, k.0);
                } else {
                    let s2 = nat_asg(s, keys, iv, g);
                    lemma_nat_asg(s, keys, iv, g);
                    assert forall|k: VKey| rule_in(r, k) implies s2[nkey(iv, k.0)] == g[k] by {
                        lemma_rule_keys(r, k);
                        let i = choose|i: int| 0 <= i < keys.len() && keys[i] == k;
                        assert(s2[nkey(iv, keys[i].0)] == g[keys[i]]);
                    }
                    assert(corr(g, s2, iv, |k: VKey| rule_in(r, k))) by {
                        assert forall|k: VKey| rule_in(r, k) implies #[trigger] g[k] == nval(s2, iv, k.0) by {
                            assert(s2[nkey(iv, k.0)] == g[k]);
                            if is_int_var(iv, k.0) { assert(g[k] is Int); }
                        }
                    }
                    assert forall|k: VKey| fv(mx, k) implies in_sort(#[trigger] s2[k], k.1) by {
                        lemma_nat_matrix_fv(mx, r, iv, k);
                        let pk = (k.0, Sort::General);
                        assert(s2[nkey(iv, pk.0)] == g[pk]);
                        if is_int_var(iv, k.0) { assert(g[pk] is Int); }
                    }
                    lemma_ucl_inst_ht(mx, w, m, s, s2);
                    lemma_nat_matrix(mx, r, iv, w, m, g, s2);
                }
            }
        }
        if rule_sat(r, w, m) {
            assert forall|s2: Asg| #[trigger] ht_sat(mx, w, m, s2) by {
                let g = prog_asg(s2, keys, iv, s2);
                lemma_prog_asg(s2, keys, iv, s2);
                assert(corr(g, s2, iv, |k: VKey| rule_in(r, k))) by {
                    assert forall|k: VKey| rule_in(r, k) implies #[trigger] g[k] == nval(s2, iv, k.0) by {
                        lemma_rule_keys(r, k);
                        let i = choose|i: int| 0 <= i < keys.len() && keys[i] == k;
                        assert(g[keys[i]] == nval(s2, iv, keys[i].0));
                    }
                }
                assert(inst_sat(r, w, m, g));
                lemma_nat_matrix(mx, r, iv, w, m, g, s2);
            }
            lemma_ucl_intro_ht(mx, w, m, s);
        }
    }
    assert forall|k: VKey| !#[trigger] fv(f, k) by { lemma_ucl_closed(mx, k); }
}
